//go:build verif

package fullrt

// C06 (accelerated client) — FullRT.PutValue / Provide hand one PUT_VALUE / ADD_PROVIDER with the right content to
// every one of the K closest crawled peers, and "failure of individual recipients never prevents delivery to the
// others".
//
// The accelerated client stops waiting early on purpose (execOnMany): it cancels the sends still in flight when
//   (a) a SUCCESS arrives with 2 x successes + failures >= number of recipients, or
//   (b) enough successes (waitFrac) have arrived and a 500 ms tick passes without a further success, or
//   (c) timeoutPerOp is over, or the caller's context ends.
// So delivery to a slow healthy peer is only owed up to that instant. The monitor scripts every recipient (accept
// after d_i, fail after d_i, never answer; all d_i distinct and away from the tick grid), recomputes the instant
// from the rule above over the scripted completions (failures never cancel anything), and requires every healthy
// recipient whose acceptance was due before it to have received the record. All recipients are connected, sends
// start at one virtual instant.

import (
	"context"
	"errors"
	"fmt"
	"sort"
	"testing"
	"testing/synctest"
	"time"

	"github.com/ipfs/go-cid"
	"github.com/libp2p/go-libp2p/core/peer"
	mh "github.com/multiformats/go-multihash"

	"github.com/libp2p/go-libp2p-kad-dht/internal/verif/vh"
	"github.com/libp2p/go-libp2p-kad-dht/internal/verif/vsim"
	pb "github.com/libp2p/go-libp2p-kad-dht/pb"
)

type vC06FrtPeer struct {
	kind  string // ok | fail | silent
	delay time.Duration
}

// vC06FrtCancelAt replays execOnMany's waiting rule over the scripted completions (relative to the start of the
// sends); the second result tells why.
func vC06FrtCancelAt(ps []vC06FrtPeer, waitFrac float64, timeout time.Duration) (time.Duration, string) {
	n := len(ps)
	type ev struct {
		t  time.Duration
		ok bool
	}
	var evs []ev
	for _, p := range ps {
		if p.kind == "silent" || p.delay >= timeout {
			continue // completes at the timeout (as a failure), after everything that matters
		}
		evs = append(evs, ev{p.delay, p.kind == "ok"})
	}
	sort.Slice(evs, func(i, j int) bool { return evs[i].t < evs[j].t })
	need := int(float64(n) * waitFrac)
	done, succ, sinceTick := 0, 0, 0
	var nextTick time.Duration = -1
	i := 0
	for {
		// next thing to happen: a completion, a tick, or the timeout
		var te time.Duration = -1
		if i < len(evs) {
			te = evs[i].t
		}
		if nextTick >= 0 && (te < 0 || nextTick < te) {
			if nextTick >= timeout {
				return timeout, "timeoutPerOp"
			}
			if succ > sinceTick {
				sinceTick = succ
				nextTick += 500 * time.Millisecond
				continue
			}
			return nextTick, "500 ms tick without a further success"
		}
		if te < 0 || te >= timeout {
			return timeout, "timeoutPerOp"
		}
		done++
		if evs[i].ok {
			succ++
			if succ >= need && nextTick < 0 {
				nextTick = te + 500*time.Millisecond
				sinceTick = succ
			}
			if succ+done >= n {
				return te, "a success made 2 x successes + failures reach the number of recipients"
			}
		}
		i++
		if done == n {
			return te, "every recipient concluded"
		}
	}
}

func TestVerif_C06_fullrt(t *testing.T) {
	vh.Run(t, vh.Spec{Prop: "C06", Unit: "fullrt", Quick: 500, Thorough: 20000, CostMs: 10,
		Rule:    "FullRT over a simulated crawled network (K in {2,3,4,5,8,20} recipients = the K closest crawled peers, all connected; waitFrac in {0.1,0.3,0.5,1}; timeoutPerOp 5 s or 20 s); every recipient scripted: accepts after d_i, fails after d_i (stream reset) or never answers; the d_i are distinct multiples of 7 ms +3 in [3 ms, 3 s], away from the 500 ms tick grid; a third of the cases directed: early successes, then failures, then 1-2 healthy recipients accepting 170-500 ms later; PutValue (valid record of a generated validator) or Provide; oracle: exactly one PUT_VALUE / ADD_PROVIDER with the right key, value / provider = self + host addresses handed to each of the K closest crawled peers and to nobody else; the local record / provider entry exists; the instant at which the client may stop waiting is recomputed from its documented rule (a success reaching 2 x successes + failures >= K, or a 500 ms tick without further success once waitFrac is met, or timeoutPerOp; a failure never ends the wait) and every healthy recipient whose acceptance was due more than 2 ms before it has received the record; non-trivial = at least one recipient failed and a healthy recipient accepted after that failure; distinct by (K, waitFrac, scripted completions)",
		Clauses: []string{"put-one-per-closest", "put-only-to-closest", "put-content", "local-record-stored", "healthy-recipient-got-record", "failure-does-not-cut-delivery"}},
		func(c *vh.Case) {
			r := c.R
			k := []int{2, 3, 4, 5, 8, 20}[r.Intn(6)]
			n := k + r.Intn(2*k+3)
			waitFrac := []float64{0.1, 0.3, 0.5, 1}[r.Intn(4)]
			timeout := []time.Duration{5 * time.Second, 20 * time.Second}[r.Intn(2)]
			op := []string{"putvalue", "provide"}[r.Intn(2)]
			failFrac := []float64{0.2, 0.4, 0.7}[r.Intn(3)]
			nc := vFrtNetCfg{NS: fmt.Sprintf("c06-%d", c.Idx), N: n, SimK: k}
			nc.Frt = vFrtCfg{K: k, Limit: 0, Interval: 100 * time.Hour, WaitFrac: waitFrac, TimeoutPerOp: timeout}
			scripted := make([]vC06FrtPeer, n)
			used := map[int]bool{}
			for i := 0; i < n; i++ {
				nc.Kinds = append(nc.Kinds, "ok")
				nc.Base = append(nc.Base, time.Millisecond)
				nc.Disconnected = append(nc.Disconnected, false)
				p := vC06FrtPeer{kind: "ok"}
				if x := r.Float64(); x < failFrac {
					p.kind = "fail"
				} else if x < failFrac+0.08 {
					p.kind = "silent"
					if op == "provide" {
						p.kind = "fail" // ADD_PROVIDER expects no reply: a recipient that never answers is a success to the sender
					}
				}
				for {
					// distinct, never within 2 ms of a multiple of 500 ms counted from any other completion: all delays
					// are 3 mod 7 ms and below 3 s, ticks fall on (delay + 500k) ms
					m := r.Intn(428)
					if used[m] {
						continue
					}
					used[m] = true
					p.delay = time.Duration(3+7*m) * time.Millisecond
					break
				}
				if r.Intn(3) == 0 { // clustered completions: the race the rule is about
					p.delay = p.delay%(80*time.Millisecond) + 3*time.Millisecond
					p.delay -= p.delay % time.Millisecond
				}
				scripted[i] = p
			}
			// delays must stay distinct after the clustering above, and no two events / ticks may coincide
			seen := map[time.Duration]bool{}
			for i := range scripted {
				for seen[scripted[i].delay%(500*time.Millisecond)] || seen[scripted[i].delay%(500*time.Millisecond)+time.Millisecond] || seen[scripted[i].delay%(500*time.Millisecond)-time.Millisecond] {
					scripted[i].delay += 4 * time.Millisecond
				}
				seen[scripted[i].delay%(500*time.Millisecond)] = true
			}
			// a third of the cases aim at the race the rule is about: early successes, then failures, then healthy
			// recipients that accept shortly afterwards (inside the 500 ms the client grants after its last success);
			// applied to the K closest peers once the key is known (directed below)
			directed := c.Idx%3 == 0
			nc.Tweak = func(i, cnt int, req *pb.Message, rep *vsim.Reply) {
				if req.GetType() != pb.Message_PUT_VALUE && req.GetType() != pb.Message_ADD_PROVIDER {
					return
				}
				rep.Delay, rep.Err, rep.Silent = scripted[i].delay, nil, false
				switch scripted[i].kind {
				case "fail":
					rep.Err = errors.New("vsim: stream reset by peer")
				case "silent":
					rep.Silent = true
				}
			}
			c.Set("K", k)
			c.Set("N", n)
			c.Set("wait_frac", waitFrac)
			c.Set("timeout_per_op", timeout.String())
			c.Set("op", op)
			c.Bubble(t, 2*time.Hour, "put-hang", func(t *testing.T) {
				val, _ := vFrtNsValidator()
				nc.Frt.Validator = val
				net, err := vFrtNewNet(c.Idx, nc, synctest.Wait)
				if err != nil {
					c.Fail("harness-ctor", "NewFullRT: %v", err)
					return
				}
				defer net.Close()
				ctx := context.Background()
				var key string
				var value []byte
				var keyMH mh.Multihash
				if op == "putvalue" {
					key = fmt.Sprintf("/v/c06-%d-%d", c.Idx, r.Int63())
					value = vFrtVal(key, 5, time.Time{}, "put")
				} else {
					var seed [16]byte
					r.Read(seed[:])
					keyMH, _ = mh.Sum(seed[:], mh.SHA2_256, -1)
					key = string(keyMH)
				}
				closest := vsim.Nearest([]byte(key), net.IDs, k)
				isClosest := map[peer.ID]bool{}
				for _, p := range closest {
					isClosest[p] = true
				}
				if directed && k >= 3 {
					h := 1 + r.Intn(2)
					if k < 5 {
						h = 1
					}
					su := h + r.Intn(k-2*h)
					perm := r.Perm(k)
					for j, pi := range perm {
						sp := &scripted[net.Idx[closest[pi]]]
						switch {
						case j < su:
							sp.kind, sp.delay = "ok", time.Duration(3+7*j)*time.Millisecond
						case j < k-h:
							sp.kind, sp.delay = "fail", time.Duration(150+7*j)*time.Millisecond
						default:
							sp.kind, sp.delay = "ok", time.Duration(320+11*j)*time.Millisecond
						}
					}
					c.Set("directed", fmt.Sprintf("%d early successes, %d failures, %d healthy recipients afterwards", su, k-h-su, h))
				}
				var rec []vC06FrtPeer
				for _, p := range closest {
					rec = append(rec, scripted[net.Idx[p]])
				}
				cancelAt, why := vC06FrtCancelAt(rec, waitFrac, timeout)
				c.Set("scripted_recipients", fmt.Sprint(rec))
				logBefore := len(net.S.Log())
				start := time.Now()
				var opErr error
				if op == "putvalue" {
					opErr = net.D.PutValue(ctx, key, value)
				} else {
					opErr = net.D.Provide(ctx, cid.NewCidV1(cid.Raw, keyMH), true)
				}
				returned := time.Since(start)
				time.Sleep(timeout + 5*time.Second) // sends cut loose by a sloppy exit conclude
				synctest.Wait()
				c.Set("err", fmt.Sprint(opErr))
				c.Set("returned_after", returned.String())
				c.Set("may_stop_waiting_at", cancelAt.String()+" ("+why+")")
				typ := pb.Message_PUT_VALUE
				if op == "provide" {
					typ = pb.Message_ADD_PROVIDER
				}
				sent := map[peer.ID]int{}
				for _, e := range net.S.Log()[logBefore:] {
					if (e.Kind != vsim.EvRequest && e.Kind != vsim.EvMessage) || e.Type != typ {
						continue
					}
					sent[e.Peer]++
					c.Check(e.VT.Sub(start) <= time.Millisecond, "put-one-per-closest", "%v to %s handed over %v after the call began (all sends start at once)", typ, net.Name(e.Peer), e.VT.Sub(start))
					if op == "putvalue" {
						c.Check(string(e.Msg.GetRecord().GetKey()) == key && string(e.Msg.GetRecord().GetValue()) == string(value), "put-content", "PUT_VALUE to %s carries key %q value %q", net.Name(e.Peer), e.Msg.GetRecord().GetKey(), e.Msg.GetRecord().GetValue())
					} else {
						pps := e.Msg.GetProviderPeers()
						c.Check(string(e.Msg.GetKey()) == key && len(pps) == 1 && peer.ID(pps[0].GetId()) == net.Self && len(pps[0].GetAddrs()) == len(net.H.Addrs()), "put-content", "ADD_PROVIDER to %s names %d providers (key ok: %v)", net.Name(e.Peer), len(pps), string(e.Msg.GetKey()) == key)
					}
				}
				for _, p := range closest {
					c.Check(sent[p] == 1, "put-one-per-closest", "closest crawled peer %s was handed %d %v (K=%d, N=%d)", net.Name(p), sent[p], typ, k, n)
				}
				for p, cnt := range sent {
					c.Check(isClosest[p], "put-only-to-closest", "%s, not among the %d closest crawled peers, was handed %d %v", net.Name(p), k, cnt, typ)
				}
				if op == "putvalue" {
					got, gerr := net.D.getLocal(ctx, key)
					c.Check(gerr == nil && got != nil && string(got.GetValue()) == string(value), "local-record-stored", "after PutValue the local store holds %v (%v)", got, gerr)
				} else {
					provs, _ := net.D.ProviderManager.GetProviders(ctx, keyMH)
					self := false
					for _, ai := range provs {
						if ai.ID == net.Self {
							self = true
						}
					}
					c.Check(self, "local-record-stored", "after Provide the local provider store does not list self (%d providers)", len(provs))
				}
				// delivery owed up to the instant the documented rule lets the client stop waiting
				firstFail := time.Duration(-1)
				for _, p := range closest {
					if s := scripted[net.Idx[p]]; s.kind == "fail" && (firstFail < 0 || s.delay < firstFail) {
						firstFail = s.delay
					}
				}
				afterFailure := false
				for _, p := range closest {
					s := scripted[net.Idx[p]]
					if s.kind != "ok" || sent[p] != 1 {
						continue
					}
					sp := net.S.Peer(p)
					got := len(sp.GotPuts)
					if op == "provide" {
						got = len(sp.GotProvs)
					}
					// owed: acceptance due before that instant, or the acceptance that IS that instant (the success that ends
					// the wait has been delivered by definition; completions are pairwise distinct)
					if s.delay < cancelAt-2*time.Millisecond || (s.delay == cancelAt && why != "timeoutPerOp" && why != "500 ms tick without a further success") {
						c.Clause("healthy-recipient-got-record")
						if got != 1 {
							clause := "healthy-recipient-got-record"
							if firstFail >= 0 && firstFail < s.delay {
								clause = "failure-does-not-cut-delivery"
							}
							c.FailSig(clause, clause, "%s: healthy recipient %s accepts after %v, the client may stop waiting only at +%v (%s), yet it received %d records (first scripted failure at +%v; the call returned after %v with %v)", op, net.Name(p), s.delay, cancelAt, why, got, firstFail, returned, opErr)
						}
						if firstFail >= 0 && firstFail < s.delay {
							c.Clause("failure-does-not-cut-delivery")
							afterFailure = true
						}
					}
				}
				c.Obs("recipients", len(closest))
				if afterFailure {
					c.Nontrivial(fmt.Sprintf("%d/%v/%v", k, waitFrac, rec))
				}
			})
		})
}
