//go:build verif

package fullrt

// Shared harness of the fullrt monitors (C16, and the accelerated-client halves of C03, C04,
// C08): a FullRT over a fake host (vsim.Host), fed by a fake crawler that reports generated
// peer sets ("generations") exactly the way a real crawl leaves them behind (connection to the
// peer + its addresses in the host's peerstore), optionally talking to scripted simulated
// peers (vsim.Sim) through the real ProtocolMessenger.

import (
	"context"
	"errors"
	"fmt"
	"net"
	"sort"
	"strings"
	"sync"
	"time"

	"github.com/libp2p/go-libp2p-kbucket/peerdiversity"
	record "github.com/libp2p/go-libp2p-record"
	"github.com/libp2p/go-libp2p/core/network"
	"github.com/libp2p/go-libp2p/core/peer"
	"github.com/libp2p/go-libp2p/core/peerstore"
	ma "github.com/multiformats/go-multiaddr"
	manet "github.com/multiformats/go-multiaddr/net"

	kaddht "github.com/libp2p/go-libp2p-kad-dht"
	"github.com/libp2p/go-libp2p-kad-dht/crawler"
	"github.com/libp2p/go-libp2p-kad-dht/internal/verif/vh"
	"github.com/libp2p/go-libp2p-kad-dht/internal/verif/vsim"
	pb "github.com/libp2p/go-libp2p-kad-dht/pb"
)

// vFrtPeer is one crawled peer of a generation.
type vFrtPeer struct {
	ID      peer.ID
	Addrs   []ma.Multiaddr
	NoConn  bool // the crawl reports it but no connection exists (FullRT's public filter drops it)
	Private bool // only private addresses (dropped as well)
}

// vFrtGen is what one crawl reports.
type vFrtGen struct {
	Idx   int
	Peers []vFrtPeer
	Fails []peer.ID // reported through the failure callback only
}

// Members returns the peers FullRT is documented to keep: successfully crawled, connected, public.
func (g *vFrtGen) Members() []peer.ID {
	var out []peer.ID
	for _, p := range g.Peers {
		if !p.NoConn && !p.Private {
			out = append(out, p.ID)
		}
	}
	return out
}

// vFrtCrawler is a crawler.Crawler reporting the generation currently set.
type vFrtCrawler struct {
	h     *vsim.Host
	Delay time.Duration // virtual (or real) duration of one crawl

	mu       sync.Mutex
	gen      *vFrtGen
	started  int
	finished int
	lastIdx  int // generation reported by the last finished Run
	seedDups int // seed lists with a repeated peer id handed to Run (observation; see finding #6)
	seedLens []int
}

var _ crawler.Crawler = (*vFrtCrawler)(nil)

func (f *vFrtCrawler) Set(g *vFrtGen) {
	f.mu.Lock()
	f.gen = g
	f.mu.Unlock()
}

func (f *vFrtCrawler) Finished() (runs, lastIdx int) {
	f.mu.Lock()
	defer f.mu.Unlock()
	return f.finished, f.lastIdx
}

func (f *vFrtCrawler) Run(ctx context.Context, seeds []*peer.AddrInfo, ok crawler.HandleQueryResult, fail crawler.HandleQueryFail) {
	f.mu.Lock()
	g := f.gen
	f.started++
	seen := map[peer.ID]bool{}
	dup := false
	for _, s := range seeds {
		if seen[s.ID] {
			dup = true
		}
		seen[s.ID] = true
	}
	if dup {
		f.seedDups++
	}
	f.seedLens = append(f.seedLens, len(seeds))
	f.mu.Unlock()
	if f.Delay > 0 {
		t := time.NewTimer(f.Delay)
		select {
		case <-t.C:
		case <-ctx.Done():
			t.Stop()
			return
		}
	}
	idx := -1
	if g != nil {
		idx = g.Idx
		ps := f.h.Peerstore()
		for _, p := range g.Peers {
			// what a real crawl leaves behind: the peer's addresses in the peerstore and a connection
			ps.ClearAddrs(p.ID)
			ps.AddAddrs(p.ID, p.Addrs, peerstore.PermanentAddrTTL)
			if !p.NoConn {
				var ra ma.Multiaddr
				if len(p.Addrs) > 0 {
					ra = p.Addrs[0]
				}
				f.h.Net.AddConn(p.ID, network.DirOutbound, ra, false)
			}
			if ok != nil {
				ok(p.ID, nil)
			}
		}
		for _, p := range g.Fails {
			if fail != nil {
				fail(p, errors.New("vfrt: crawl failure"))
			}
		}
	}
	f.mu.Lock()
	f.finished++
	f.lastIdx = idx
	f.mu.Unlock()
}

// ---- addresses and IP groups (own arithmetic for IPv4) -----------------------------------------

// first octets that are public and not a legacy class A block
var vFrtOctets = func() []int {
	legacy := map[int]bool{12: true, 17: true, 19: true, 38: true, 48: true, 56: true, 73: true, 53: true}
	var out []int
	for o := 20; o < 100; o++ {
		if !legacy[o] {
			out = append(out, o)
		}
	}
	return out
}()

var vFrtLegacyA = []int{12, 17, 19, 38, 48, 56, 73, 53}

// vFrtGroupAddr returns the j-th address of the g-th ordinary /16 group.
func vFrtGroupAddr(g, j int, quic bool) ma.Multiaddr {
	a := vFrtOctets[(g/256)%len(vFrtOctets)]
	b := g % 256
	if quic {
		return ma.StringCast(fmt.Sprintf("/ip4/%d.%d.%d.%d/udp/4001/quic-v1", a, b, (j/250)%250, 1+j%250))
	}
	return ma.StringCast(fmt.Sprintf("/ip4/%d.%d.%d.%d/tcp/4001", a, b, (j/250)%250, 1+j%250))
}

// vFrtLegacyAddr returns the j-th address of a legacy class A block (one group per /8).
func vFrtLegacyAddr(block, j int) ma.Multiaddr {
	a := vFrtLegacyA[block%len(vFrtLegacyA)]
	return ma.StringCast(fmt.Sprintf("/ip4/%d.%d.%d.%d/tcp/4001", a, (j/62500)%250, (j/250)%250, 1+j%250))
}

// IPv6 prefixes with well-known origin AS (one group per AS) as used by the package's own test.
var vFrtV6 = []string{"2001:4860:4860::", "2606:4700:4700::", "2620:fe::", "2a02:6b8::"}

func vFrtV6Addr(block, j int) ma.Multiaddr {
	return ma.StringCast(fmt.Sprintf("/ip6/%s%x/tcp/4001", vFrtV6[block%len(vFrtV6)], 1+j%60000))
}

// vFrtGroupsOf returns the IP groups of a peer's addresses. IPv4: /16, or /8 inside the legacy
// class A blocks (own arithmetic); IPv6: the dependency's ASN lookup (go-libp2p-kbucket is not
// the code under test). Non-IP addresses have no group.
func vFrtGroupsOf(addrs []ma.Multiaddr) []string {
	seen := map[string]bool{}
	var out []string
	for _, a := range addrs {
		ip, err := manet.ToIP(a)
		if err != nil {
			continue
		}
		var g string
		if v4 := ip.To4(); v4 != nil {
			g = fmt.Sprintf("4:%d.%d", v4[0], v4[1])
			for _, l := range vFrtLegacyA {
				if int(v4[0]) == l {
					g = fmt.Sprintf("4:%d", v4[0])
				}
			}
		} else {
			k := peerdiversity.IPGroupKey(net.IP(ip))
			if len(k) == 0 {
				continue
			}
			g = "6:" + string(k)
		}
		if !seen[g] {
			seen[g] = true
			out = append(out, g)
		}
	}
	sort.Strings(out)
	return out
}

// ---- construction ------------------------------------------------------------------------------

type vFrtCfg struct {
	K            int
	NoBucketSize bool
	Limit        int
	NoLimitOpt   bool // do not pass WithIPDiversityFilterLimit (documented default applies)
	Interval     time.Duration
	WaitFrac     float64
	TimeoutPerOp time.Duration
	BulkPar      int
	Validator    record.Validator
	Sim          *vsim.Sim
	Bootstrap    []peer.AddrInfo
	NoBootstrap  bool
	DHTOpts      []kaddht.Option
	Opts         []Option
}

func vFrtOptions(cfg vFrtCfg, cr crawler.Crawler) []Option {
	var dopts []kaddht.Option
	if !cfg.NoBucketSize {
		dopts = append(dopts, kaddht.BucketSize(cfg.K))
	}
	if !cfg.NoBootstrap {
		dopts = append(dopts, kaddht.BootstrapPeers(cfg.Bootstrap...))
	}
	if cfg.Validator != nil {
		dopts = append(dopts, kaddht.Validator(cfg.Validator))
	}
	if cfg.Sim != nil {
		dopts = append(dopts, kaddht.WithCustomMessageSender(cfg.Sim.Builder()))
	}
	dopts = append(dopts, cfg.DHTOpts...)
	opts := []Option{DHTOption(dopts...)}
	if cr != nil {
		opts = append(opts, WithCrawler(cr))
	}
	if !cfg.NoLimitOpt {
		opts = append(opts, WithIPDiversityFilterLimit(cfg.Limit))
	}
	if cfg.Interval > 0 {
		opts = append(opts, WithCrawlInterval(cfg.Interval))
	}
	if cfg.WaitFrac > 0 {
		opts = append(opts, WithSuccessWaitFraction(cfg.WaitFrac))
	}
	if cfg.TimeoutPerOp > 0 {
		opts = append(opts, WithTimeoutPerOperation(cfg.TimeoutPerOp))
	}
	if cfg.BulkPar > 0 {
		opts = append(opts, WithBulkSendParallelism(cfg.BulkPar))
	}
	return append(opts, cfg.Opts...)
}

// vFrtNew builds a FullRT on the fake host.
func vFrtNew(h *vsim.Host, cr crawler.Crawler, cfg vFrtCfg) (*FullRT, error) {
	return NewFullRT(h, "/verif", vFrtOptions(cfg, cr)...)
}

func vFrtEqualIDs(a, b []peer.ID) bool {
	if len(a) != len(b) {
		return false
	}
	for i := range a {
		if a[i] != b[i] {
			return false
		}
	}
	return true
}

func vFrtShorts(ps []peer.ID) []string {
	out := make([]string, len(ps))
	for i, p := range ps {
		out[i] = vsim.Short(p)
	}
	return out
}

// ---- generated validator (total rank order, optional expiry instant, bound to its key) -----------

// vFrtVal renders a value "k=<key>;r=<rank>;e=<expiry unix ms or 0>;u=<tag>".
func vFrtVal(key string, rank int, expiry time.Time, tag string) []byte {
	e := int64(0)
	if !expiry.IsZero() {
		e = expiry.UnixMilli()
	}
	return []byte(fmt.Sprintf("k=%s;r=%d;e=%d;u=%s", key, rank, e, tag))
}

type vFrtParsed struct {
	Key    string
	Rank   int
	Expiry int64
	Tag    string
}

func vFrtParse(v []byte) (vFrtParsed, error) {
	var p vFrtParsed
	s := string(v)
	parts := splitN(s, ';')
	if len(parts) != 4 {
		return p, errors.New("vfrt: malformed value")
	}
	if len(parts[0]) < 2 || parts[0][:2] != "k=" || len(parts[3]) < 2 || parts[3][:2] != "u=" {
		return p, errors.New("vfrt: malformed value")
	}
	p.Key, p.Tag = parts[0][2:], parts[3][2:]
	if _, err := fmt.Sscanf(parts[1], "r=%d", &p.Rank); err != nil {
		return p, errors.New("vfrt: malformed rank")
	}
	if _, err := fmt.Sscanf(parts[2], "e=%d", &p.Expiry); err != nil {
		return p, errors.New("vfrt: malformed expiry")
	}
	return p, nil
}

func splitN(s string, sep byte) []string {
	var out []string
	last := 0
	for i := 0; i < len(s); i++ {
		if s[i] == sep {
			out = append(out, s[last:i])
			last = i + 1
		}
	}
	return append(out, s[last:])
}

// vFrtValidator is the generated validator: a value is valid for the key it names, until its
// expiry instant; the higher rank wins, ties keep the earlier candidate.
type vFrtValidator struct {
	mu    sync.Mutex
	Calls int
}

func (v *vFrtValidator) Validate(key string, value []byte) error {
	v.mu.Lock()
	v.Calls++
	v.mu.Unlock()
	return vFrtValidAt(key, value, time.Now())
}

// vFrtValidAt is the oracle's (pure) reading of the validator at instant t.
func vFrtValidAt(key string, value []byte, t time.Time) error {
	p, err := vFrtParse(value)
	if err != nil {
		return err
	}
	if p.Key != key {
		return errors.New("vfrt: value made for another key")
	}
	if p.Expiry != 0 && t.UnixMilli() >= p.Expiry {
		return errors.New("vfrt: value expired")
	}
	return nil
}

func (v *vFrtValidator) Select(key string, vals [][]byte) (int, error) {
	best, bi := 0, -1
	for i, x := range vals {
		p, err := vFrtParse(x)
		if err != nil {
			continue
		}
		if bi < 0 || p.Rank > best {
			best, bi = p.Rank, i
		}
	}
	if bi < 0 {
		return 0, errors.New("vfrt: no selectable value")
	}
	return bi, nil
}

func vFrtNsValidator() (record.NamespacedValidator, *vFrtValidator) {
	v := &vFrtValidator{}
	return record.NamespacedValidator{"v": v}, v
}

// ---- a FullRT whose table is a simulated network ---------------------------------------------------

// vFrtNetCfg describes simulated peers (all crawled into the table) and the instance.
type vFrtNetCfg struct {
	NS           string // namespace of the peer ids
	N            int
	SimK         int
	Frt          vFrtCfg
	Kinds        []string        // per peer: ok | dead | reqerr | silent | late | dialfail | dialslow
	Base         []time.Duration // per peer base latency
	Disconnected []bool          // per peer: connection dropped after the crawl (operations must dial)
	// Tweak, if set, adjusts the reply of peer i to its cnt-th request (after the kind was applied).
	Tweak func(i, cnt int, req *pb.Message, rep *vsim.Reply)
	// Extra peers known to everybody but not crawled (e.g. a FindPeer target).
	Extra []*vsim.SimPeer
}

type vFrtNet struct {
	Cfg  vFrtNetCfg
	H    *vsim.Host
	S    *vsim.Sim
	D    *FullRT
	Cr   *vFrtCrawler
	IDs  []peer.ID
	Idx  map[peer.ID]int
	Self peer.ID
}

// vFrtNewNet builds everything inside the current bubble and waits for the initial crawl.
func vFrtNewNet(caseIdx int, nc vFrtNetCfg, wait func()) (*vFrtNet, error) {
	n := &vFrtNet{Cfg: nc, Idx: map[peer.ID]int{}}
	n.Self = vsim.PeerID("frt-self", caseIdx)
	n.H = vsim.NewHost(n.Self, ma.StringCast("/ip4/9.9.9.9/tcp/4001"))
	n.S = vsim.NewSim(n.H, nc.SimK)
	gen := &vFrtGen{}
	for i := 0; i < nc.N; i++ {
		id := vsim.PeerID(nc.NS, i)
		n.IDs = append(n.IDs, id)
		n.Idx[id] = i
		addr := vFrtGroupAddr(i, 1, false)
		sp := &vsim.SimPeer{ID: id, Addrs: []ma.Multiaddr{addr}}
		kind, base, idx := nc.Kinds[i], nc.Base[i], i
		if kind == "dead" {
			sp.Dead = true
		}
		sp.Script = func(cnt int, req *pb.Message) vsim.Reply {
			if req == nil {
				switch kind {
				case "dialfail":
					return vsim.Reply{DialFail: true, Delay: base}
				case "dialslow":
					return vsim.Reply{DialFail: true, Delay: 20 * time.Second}
				}
				return vsim.Reply{}
			}
			rep := vsim.Reply{Delay: base + time.Duration((cnt*37+idx)%7)*time.Millisecond}
			switch kind {
			case "reqerr":
				rep.Err = errors.New("vsim: stream reset by peer")
			case "silent":
				rep.Silent = true
			case "late":
				rep.Delay += 30 * time.Second
			}
			if nc.Tweak != nil {
				nc.Tweak(idx, cnt, req, &rep)
			}
			return rep
		}
		n.S.Add(sp)
		gen.Peers = append(gen.Peers, vFrtPeer{ID: id, Addrs: sp.Addrs})
	}
	for _, x := range nc.Extra {
		n.S.Add(x)
	}
	n.S.KnowFull()
	n.Cr = &vFrtCrawler{h: n.H}
	n.Cr.Set(gen)
	nc.Frt.Sim = n.S
	d, err := vFrtNew(n.H, n.Cr, nc.Frt)
	if err != nil {
		n.H.Close()
		return nil, err
	}
	n.D = d
	wait()
	for i, id := range n.IDs {
		if nc.Disconnected[i] {
			n.H.Net.Disconnect(id, false)
		}
	}
	wait()
	return n, nil
}

func (n *vFrtNet) Close() {
	n.D.Close()
	n.H.Close()
}

func (n *vFrtNet) Name(p peer.ID) string {
	if p == n.Self {
		return "self"
	}
	if i, ok := n.Idx[p]; ok {
		return fmt.Sprintf("p%d", i)
	}
	return "x" + vsim.Short(p)
}

func (n *vFrtNet) Names(ps []peer.ID) []string {
	out := make([]string, len(ps))
	for i, p := range ps {
		out[i] = n.Name(p)
	}
	return out
}

// vFrtCensus summarises the goroutines of the current bubble that were started by code of the
// module under test.
func vFrtCensus() []string {
	var gs []vh.Goro
	for _, g := range vh.Census() {
		if strings.Contains(g.Header, "synctest") {
			gs = append(gs, g)
		}
	}
	return vh.CensusSummary(gs)
}

// vFrtLastWire returns the instant of the last simulated RPC / dial conclusion not after `end`.
func vFrtLastWire(n *vFrtNet, from, end time.Time) time.Time {
	last := from
	for _, e := range n.S.Log() {
		if e.VT.After(last) && !e.VT.After(end) {
			last = e.VT
		}
	}
	for _, d := range n.H.DialLog() {
		if d.End.After(last) && !d.End.After(end) {
			last = d.End
		}
	}
	return last
}
