//go:build verif

package fullrt

// Shared harness of the fullrt monitors (C16, and the accelerated-client halves of C03, C04,
// C08): a FullRT over a fake host (vsim.Host), fed by a fake crawler that reports generated
// peer sets ("generations") exactly the way a real crawl leaves them behind (connection to the
// peer + its addresses in the host's peerstore), optionally talking to scripted simulated
// peers (vsim.Sim) through the real ProtocolMessenger.

import (
	"context"
	"errors"
	"fmt"
	"net"
	"sort"
	"sync"
	"time"

	record "github.com/libp2p/go-libp2p-record"
	"github.com/libp2p/go-libp2p-kbucket/peerdiversity"
	"github.com/libp2p/go-libp2p/core/network"
	"github.com/libp2p/go-libp2p/core/peer"
	"github.com/libp2p/go-libp2p/core/peerstore"
	ma "github.com/multiformats/go-multiaddr"
	manet "github.com/multiformats/go-multiaddr/net"

	kaddht "github.com/libp2p/go-libp2p-kad-dht"
	"github.com/libp2p/go-libp2p-kad-dht/crawler"
	"github.com/libp2p/go-libp2p-kad-dht/internal/verif/vsim"
)

// vFrtPeer is one crawled peer of a generation.
type vFrtPeer struct {
	ID      peer.ID
	Addrs   []ma.Multiaddr
	NoConn  bool // the crawl reports it but no connection exists (FullRT's public filter drops it)
	Private bool // only private addresses (dropped as well)
}

// vFrtGen is what one crawl reports.
type vFrtGen struct {
	Idx   int
	Peers []vFrtPeer
	Fails []peer.ID // reported through the failure callback only
}

// Members returns the peers FullRT is documented to keep: successfully crawled, connected, public.
func (g *vFrtGen) Members() []peer.ID {
	var out []peer.ID
	for _, p := range g.Peers {
		if !p.NoConn && !p.Private {
			out = append(out, p.ID)
		}
	}
	return out
}

// vFrtCrawler is a crawler.Crawler reporting the generation currently set.
type vFrtCrawler struct {
	h     *vsim.Host
	Delay time.Duration // virtual (or real) duration of one crawl

	mu       sync.Mutex
	gen      *vFrtGen
	started  int
	finished int
	lastIdx  int // generation reported by the last finished Run
	seedDups int // seed lists with a repeated peer id handed to Run (observation; see finding #6)
	seedLens []int
}

var _ crawler.Crawler = (*vFrtCrawler)(nil)

func (f *vFrtCrawler) Set(g *vFrtGen) {
	f.mu.Lock()
	f.gen = g
	f.mu.Unlock()
}

func (f *vFrtCrawler) Finished() (runs, lastIdx int) {
	f.mu.Lock()
	defer f.mu.Unlock()
	return f.finished, f.lastIdx
}

func (f *vFrtCrawler) Run(ctx context.Context, seeds []*peer.AddrInfo, ok crawler.HandleQueryResult, fail crawler.HandleQueryFail) {
	f.mu.Lock()
	g := f.gen
	f.started++
	seen := map[peer.ID]bool{}
	dup := false
	for _, s := range seeds {
		if seen[s.ID] {
			dup = true
		}
		seen[s.ID] = true
	}
	if dup {
		f.seedDups++
	}
	f.seedLens = append(f.seedLens, len(seeds))
	f.mu.Unlock()
	if f.Delay > 0 {
		t := time.NewTimer(f.Delay)
		select {
		case <-t.C:
		case <-ctx.Done():
			t.Stop()
			return
		}
	}
	idx := -1
	if g != nil {
		idx = g.Idx
		ps := f.h.Peerstore()
		for _, p := range g.Peers {
			// what a real crawl leaves behind: the peer's addresses in the peerstore and a connection
			ps.ClearAddrs(p.ID)
			ps.AddAddrs(p.ID, p.Addrs, peerstore.PermanentAddrTTL)
			if !p.NoConn {
				var ra ma.Multiaddr
				if len(p.Addrs) > 0 {
					ra = p.Addrs[0]
				}
				f.h.Net.AddConn(p.ID, network.DirOutbound, ra, false)
			}
			if ok != nil {
				ok(p.ID, nil)
			}
		}
		for _, p := range g.Fails {
			if fail != nil {
				fail(p, errors.New("vfrt: crawl failure"))
			}
		}
	}
	f.mu.Lock()
	f.finished++
	f.lastIdx = idx
	f.mu.Unlock()
}

// ---- addresses and IP groups (own arithmetic for IPv4) -----------------------------------------

// first octets that are public and not a legacy class A block
var vFrtOctets = func() []int {
	legacy := map[int]bool{12: true, 17: true, 19: true, 38: true, 48: true, 56: true, 73: true, 53: true}
	var out []int
	for o := 20; o < 100; o++ {
		if !legacy[o] {
			out = append(out, o)
		}
	}
	return out
}()

var vFrtLegacyA = []int{12, 17, 19, 38, 48, 56, 73, 53}

// vFrtGroupAddr returns the j-th address of the g-th ordinary /16 group.
func vFrtGroupAddr(g, j int, quic bool) ma.Multiaddr {
	a := vFrtOctets[(g/256)%len(vFrtOctets)]
	b := g % 256
	if quic {
		return ma.StringCast(fmt.Sprintf("/ip4/%d.%d.%d.%d/udp/4001/quic-v1", a, b, (j/250)%250, 1+j%250))
	}
	return ma.StringCast(fmt.Sprintf("/ip4/%d.%d.%d.%d/tcp/4001", a, b, (j/250)%250, 1+j%250))
}

// vFrtLegacyAddr returns the j-th address of a legacy class A block (one group per /8).
func vFrtLegacyAddr(block, j int) ma.Multiaddr {
	a := vFrtLegacyA[block%len(vFrtLegacyA)]
	return ma.StringCast(fmt.Sprintf("/ip4/%d.%d.%d.%d/tcp/4001", a, (j/62500)%250, (j/250)%250, 1+j%250))
}

// IPv6 prefixes with well-known origin AS (one group per AS) as used by the package's own test.
var vFrtV6 = []string{"2001:4860:4860::", "2606:4700:4700::", "2620:fe::", "2a02:6b8::"}

func vFrtV6Addr(block, j int) ma.Multiaddr {
	return ma.StringCast(fmt.Sprintf("/ip6/%s%x/tcp/4001", vFrtV6[block%len(vFrtV6)], 1+j%60000))
}

// vFrtGroupsOf returns the IP groups of a peer's addresses. IPv4: /16, or /8 inside the legacy
// class A blocks (own arithmetic); IPv6: the dependency's ASN lookup (go-libp2p-kbucket is not
// the code under test). Non-IP addresses have no group.
func vFrtGroupsOf(addrs []ma.Multiaddr) []string {
	seen := map[string]bool{}
	var out []string
	for _, a := range addrs {
		ip, err := manet.ToIP(a)
		if err != nil {
			continue
		}
		var g string
		if v4 := ip.To4(); v4 != nil {
			g = fmt.Sprintf("4:%d.%d", v4[0], v4[1])
			for _, l := range vFrtLegacyA {
				if int(v4[0]) == l {
					g = fmt.Sprintf("4:%d", v4[0])
				}
			}
		} else {
			k := peerdiversity.IPGroupKey(net.IP(ip))
			if len(k) == 0 {
				continue
			}
			g = "6:" + string(k)
		}
		if !seen[g] {
			seen[g] = true
			out = append(out, g)
		}
	}
	sort.Strings(out)
	return out
}

// ---- construction ------------------------------------------------------------------------------

type vFrtCfg struct {
	K            int
	NoBucketSize bool
	Limit        int
	NoLimitOpt   bool // do not pass WithIPDiversityFilterLimit (documented default applies)
	Interval     time.Duration
	WaitFrac     float64
	TimeoutPerOp time.Duration
	BulkPar      int
	Validator    record.Validator
	Sim          *vsim.Sim
	Bootstrap    []peer.AddrInfo
	NoBootstrap  bool
	DHTOpts      []kaddht.Option
	Opts         []Option
}

func vFrtOptions(cfg vFrtCfg, cr crawler.Crawler) []Option {
	var dopts []kaddht.Option
	if !cfg.NoBucketSize {
		dopts = append(dopts, kaddht.BucketSize(cfg.K))
	}
	if !cfg.NoBootstrap {
		dopts = append(dopts, kaddht.BootstrapPeers(cfg.Bootstrap...))
	}
	if cfg.Validator != nil {
		dopts = append(dopts, kaddht.Validator(cfg.Validator))
	}
	if cfg.Sim != nil {
		dopts = append(dopts, kaddht.WithCustomMessageSender(cfg.Sim.Builder()))
	}
	dopts = append(dopts, cfg.DHTOpts...)
	opts := []Option{DHTOption(dopts...)}
	if cr != nil {
		opts = append(opts, WithCrawler(cr))
	}
	if !cfg.NoLimitOpt {
		opts = append(opts, WithIPDiversityFilterLimit(cfg.Limit))
	}
	if cfg.Interval > 0 {
		opts = append(opts, WithCrawlInterval(cfg.Interval))
	}
	if cfg.WaitFrac > 0 {
		opts = append(opts, WithSuccessWaitFraction(cfg.WaitFrac))
	}
	if cfg.TimeoutPerOp > 0 {
		opts = append(opts, WithTimeoutPerOperation(cfg.TimeoutPerOp))
	}
	if cfg.BulkPar > 0 {
		opts = append(opts, WithBulkSendParallelism(cfg.BulkPar))
	}
	return append(opts, cfg.Opts...)
}

// vFrtNew builds a FullRT on the fake host.
func vFrtNew(h *vsim.Host, cr crawler.Crawler, cfg vFrtCfg) (*FullRT, error) {
	return NewFullRT(h, "/verif", vFrtOptions(cfg, cr)...)
}

func vFrtEqualIDs(a, b []peer.ID) bool {
	if len(a) != len(b) {
		return false
	}
	for i := range a {
		if a[i] != b[i] {
			return false
		}
	}
	return true
}

func vFrtShorts(ps []peer.ID) []string {
	out := make([]string, len(ps))
	for i, p := range ps {
		out[i] = vsim.Short(p)
	}
	return out
}
