//go:build verif

package fullrt

// C14 — fullrt.FullRT: Close cancels the crawler and the connectedness subscriber, waits for
// both, closes the provider manager and the value store; a failing provider-manager option
// must release the event-bus subscription taken before it.
//
// A fake crawler (the Crawler interface is the documented seam) walks the simulated peers with
// PRNG latencies and a few milliseconds to abort after cancellation, so that the crawler loop
// is "busy" for a while; public operations run against the simulated sender; Close instants
// are enumerated over the boundary events (crawler steps, wire log, dials, datastore accesses)
// of a reference run of the identically seeded scenario.

import (
	"context"
	"errors"
	"fmt"
	"math/rand"
	"runtime"
	"sort"
	"strings"
	"sync"
	"sync/atomic"
	"testing"
	"testing/synctest"
	"time"

	"github.com/ipfs/go-cid"
	record "github.com/libp2p/go-libp2p-record"
	"github.com/libp2p/go-libp2p/core/host"
	"github.com/libp2p/go-libp2p/core/network"
	"github.com/libp2p/go-libp2p/core/peer"
	"github.com/libp2p/go-libp2p/core/peerstore"
	"github.com/libp2p/go-libp2p/core/protocol"
	ma "github.com/multiformats/go-multiaddr"
	mh "github.com/multiformats/go-multihash"

	kaddht "github.com/libp2p/go-libp2p-kad-dht"
	"github.com/libp2p/go-libp2p-kad-dht/crawler"
	internalConfig "github.com/libp2p/go-libp2p-kad-dht/internal/config"
	"github.com/libp2p/go-libp2p-kad-dht/internal/verif/vc14"
	"github.com/libp2p/go-libp2p-kad-dht/internal/verif/vh"
	"github.com/libp2p/go-libp2p-kad-dht/internal/verif/vjds"
	"github.com/libp2p/go-libp2p-kad-dht/internal/verif/vsim"
	pb "github.com/libp2p/go-libp2p-kad-dht/pb"
	"github.com/libp2p/go-libp2p-kad-dht/records"
)

const (
	vC14FrCloseBound = 2 * time.Second
	vC14FrCloseHang  = 5 * time.Minute
	vC14FrSlack      = time.Second
)

var vC14FrLoopFrags = []string{"(*FullRT).runCrawler", "(*FullRT).runSubscriber", "(*ProviderManager).gcLoop", "(*ValueStore).gcLoop"}

type vC14FrVal struct{}

func (vC14FrVal) Validate(string, []byte) error { return nil }
func (vC14FrVal) Select(_ string, vals [][]byte) (int, error) {
	best := 0
	for i, v := range vals {
		if string(v) > string(vals[best]) {
			best = i
		}
	}
	return best, nil
}

type vC14FrSender struct {
	*vsim.Sim
	bd    *vc14.Boundary
	grace time.Duration
}

func (s *vC14FrSender) OnDisconnect(ctx context.Context, p peer.ID) {
	s.bd.Tick("disc", vsim.Short(p))
	time.Sleep(s.grace)
	s.Sim.OnDisconnect(ctx, p)
}

type vC14FrCrawler struct {
	h     *vsim.Host
	bd    *vc14.Boundary
	ids   []peer.ID
	alive map[peer.ID]bool
	lat   map[peer.ID]time.Duration
	addr  map[peer.ID]ma.Multiaddr
	grace time.Duration
	runs  atomic.Int64
}

var _ crawler.Crawler = (*vC14FrCrawler)(nil)

func (f *vC14FrCrawler) Run(ctx context.Context, _ []*peer.AddrInfo, ok crawler.HandleQueryResult, fail crawler.HandleQueryFail) {
	f.runs.Add(1)
	f.bd.Tick("crawl-start", "")
	for i, p := range f.ids {
		if vC14FrSleep(ctx, f.lat[p], f.grace) != nil {
			break
		}
		f.bd.Tick("crawl-peer", fmt.Sprintf("p%d", i))
		if f.alive[p] {
			f.h.Peerstore().AddAddrs(p, []ma.Multiaddr{f.addr[p]}, peerstore.PermanentAddrTTL)
			f.h.Net.AddConn(p, network.DirOutbound, f.addr[p], false)
			ok(p, nil)
		} else {
			fail(p, errors.New("vC14: crawl dial failed"))
		}
	}
	f.bd.Tick("crawl-end", "")
}

func vC14FrSleep(ctx context.Context, d, grace time.Duration) error {
	if d <= 0 {
		return ctx.Err()
	}
	tm := time.NewTimer(d)
	defer tm.Stop()
	select {
	case <-tm.C:
		return nil
	case <-ctx.Done():
		time.Sleep(grace)
		return ctx.Err()
	}
}

type vC14FrScn struct {
	Seed       int64
	NoProv     bool
	NoVal      bool
	N, K       int
	NOps       int
	Emits      int
	CrawlEvery time.Duration
}

func (s vC14FrScn) String() string {
	return fmt.Sprintf("noprov=%v noval=%v N=%d K=%d ops=%d emits=%d crawl-every=%v", s.NoProv, s.NoVal, s.N, s.K, s.NOps, s.Emits, s.CrawlEvery)
}

type vC14FrOp struct {
	Kind        string
	Offset, Tmo time.Duration
	Start, Ret  time.Duration
	started     bool
	Returned    bool
	Late        bool
	Err         string
	cancel      context.CancelFunc
	hasDl       bool
	dl          time.Duration
}

type vC14FrRes struct {
	Events     []vc14.Ev
	CloseIdx   int
	CloseLabel string
	Busy       string
	CloseTook  time.Duration
	InFlight   int
}

type vC14FrEnv struct {
	h      *vsim.Host
	bus    *vc14.Bus
	sim    *vsim.Sim
	bd     *vc14.Boundary
	j      *vjds.Journal
	ids    []peer.ID
	cr     *vC14FrCrawler
	opts   []Option
	grace  time.Duration
	closed *atomic.Bool
	late   func() []string
}

func vC14FrMkEnv(r *rand.Rand, sc vC14FrScn, target int) *vC14FrEnv {
	e := &vC14FrEnv{closed: new(atomic.Bool)}
	e.bd = vc14.NewBoundary(max(target, 0), vC14FrLoopFrags...)
	self := vsim.PeerID("c14fr-self", int(sc.Seed%1000003))
	e.h = vsim.NewHost(self, ma.StringCast("/ip4/9.9.9.9/tcp/4001"))
	e.bus = vc14.NewBus(e.h.EventBus())
	e.h.BusOverride = e.bus
	e.sim = vsim.NewSim(e.h, sc.K)
	e.grace = time.Duration(1+r.Intn(30)) * time.Millisecond
	e.cr = &vC14FrCrawler{h: e.h, bd: e.bd, alive: map[peer.ID]bool{}, lat: map[peer.ID]time.Duration{}, addr: map[peer.ID]ma.Multiaddr{}, grace: e.grace}
	name := map[peer.ID]string{}
	dialLat := map[peer.ID]time.Duration{}
	for i := 0; i < sc.N; i++ {
		id := vsim.PeerID(fmt.Sprintf("c14fr%d", sc.Seed%1000003), i)
		a := ma.StringCast(fmt.Sprintf("/ip4/%d.%d.0.1/tcp/4001", 11+(i/250)%200, i%250))
		e.ids = append(e.ids, id)
		name[id] = fmt.Sprintf("p%d", i)
		sp := e.sim.Add(&vsim.SimPeer{ID: id, Addrs: []ma.Multiaddr{a}})
		lat := time.Duration(3+r.Intn(300)) * time.Millisecond
		dialLat[id] = time.Duration(1+r.Intn(100)) * time.Millisecond
		e.cr.lat[id], e.cr.addr[id] = time.Duration(1+r.Intn(80))*time.Millisecond, a
		kind := "ok"
		if r.Intn(10) < 3 {
			kind = []string{"silent", "reqerr", "dead"}[r.Intn(3)]
		}
		e.cr.alive[id] = kind != "dead"
		if kind == "dead" {
			sp.Dead = true
			continue
		}
		k := kind
		sp.Script = func(n int, req *pb.Message) vsim.Reply {
			if req == nil {
				return vsim.Reply{}
			}
			rep := vsim.Reply{Delay: lat}
			switch k {
			case "silent":
				rep.Silent = true
			case "reqerr":
				rep.Err = errors.New("vsim: stream reset by peer")
			}
			return rep
		}
	}
	e.cr.ids = e.ids
	e.sim.KnowFull()
	e.sim.OnEvent = func(ev vsim.Event) { e.bd.Tick(ev.Kind, ev.Type.String()+" "+name[ev.Peer]) }
	inner := e.h.DialFn
	e.h.DialFn = func(ctx context.Context, p peer.ID) error {
		e.bd.Tick("dial", name[p])
		err := vC14FrSleep(ctx, dialLat[p], e.grace)
		if err == nil {
			err = inner(ctx, p)
		}
		e.bd.Tick("dialend", name[p])
		return err
	}
	sender := &vC14FrSender{Sim: e.sim, bd: e.bd, grace: e.grace}
	e.j = vjds.NewJournal()
	gcDelay := time.Duration(1+r.Intn(8)) * time.Millisecond
	var lateMu sync.Mutex
	var late []string
	e.late = func() []string { lateMu.Lock(); defer lateMu.Unlock(); return append([]string(nil), late...) }
	e.j.Hook = func(en *vjds.Entry) error {
		gc := vc14.OnStack("gcLoop") != ""
		e.bd.Tick("ds", en.Store+" "+en.Op+" "+en.Key)
		if e.closed.Load() && (gc || en.Store == "prov") {
			lateMu.Lock()
			late = append(late, fmt.Sprintf("+%v %s %s %s gc=%v", e.bd.Since(), en.Store, en.Op, en.Key, gc))
			lateMu.Unlock()
		}
		if gc {
			time.Sleep(gcDelay) // the provider GC takes no lock
		} else {
			runtime.Gosched()
		}
		return nil
	}
	dhtOpts := []kaddht.Option{
		kaddht.BucketSize(sc.K), kaddht.Validator(record.NamespacedValidator{"v": vC14FrVal{}}),
		kaddht.Datastore(vjds.NewNamed(e.j, "val")), kaddht.ProviderDatastore(vjds.NewNamed(e.j, "prov")),
		kaddht.BootstrapPeers(e.sim.AddrInfoOf(e.ids[0])),
		kaddht.WithCustomMessageSender(func(_ host.Host, _ []protocol.ID) pb.MessageSenderWithDisconnect { return sender }),
	}
	if sc.NoProv {
		dhtOpts = append(dhtOpts, kaddht.DisableProviders())
	}
	if sc.NoVal {
		dhtOpts = append(dhtOpts, kaddht.DisableValues())
	}
	e.opts = []Option{
		DHTOption(dhtOpts...), WithCrawler(e.cr), WithCrawlInterval(sc.CrawlEvery),
		WithProviderManagerOptions(records.CleanupInterval(time.Duration(200+r.Intn(900))*time.Millisecond), records.ProvideValidity(time.Duration(800+r.Intn(2000))*time.Millisecond)),
	}
	return e
}

func vC14FrRun(t *testing.T, c *vh.Case, sc vC14FrScn, target int) *vC14FrRes {
	var res *vC14FrRes
	c.Bubble(t, 45*time.Minute, "close-hang", func(t *testing.T) {
		res = vC14FrRunInBubble(t, c, sc, target)
	})
	return res
}

func vC14FrRunInBubble(t *testing.T, c *vh.Case, sc vC14FrScn, target int) *vC14FrRes {
	r := rand.New(rand.NewSource(sc.Seed))
	res := &vC14FrRes{}
	tag := fmt.Sprintf("[close@%d] ", target)
	base := vc14.Owned()
	c.Check(len(base) == 0, "baseline-clean", "%sinstance-owned goroutines before construction: %v", tag, vc14.Summary(base))
	e := vC14FrMkEnv(r, sc, target)
	bd, h := e.bd, e.h
	d, err := NewFullRT(h, "/verif", e.opts...)
	if err != nil {
		panic(fmt.Sprintf("vC14: NewFullRT failed: %v", err))
	}
	atOpen := vc14.Summary(vc14.WithFrame(vc14.Owned(), vC14FrLoopFrags...))

	var opsWG, actorsWG sync.WaitGroup
	actx, acancel := context.WithCancel(context.Background())
	var closing atomic.Bool
	var mu sync.Mutex
	var ops []*vC14FrOp
	kinds := []string{"gcp", "findpeer", "trigger", "checkpeers"}
	if !sc.NoVal {
		kinds = append(kinds, "putvalue", "getvalue", "searchvalue")
	}
	if !sc.NoProv {
		kinds = append(kinds, "provide", "provide", "findprovs")
	}
	keyOf := func(i int) string { return fmt.Sprintf("/v/c14fr-%d-%d", sc.Seed%9973, i%3) }
	cidOf := func(i int) cid.Cid {
		hh, _ := mh.Sum([]byte(fmt.Sprintf("c14fr-cid-%d-%d", sc.Seed%9973, i%3)), mh.SHA2_256, -1)
		return cid.NewCidV1(cid.Raw, hh)
	}
	for i := 0; i < sc.NOps; i++ {
		op := &vC14FrOp{Kind: kinds[r.Intn(len(kinds))], Tmo: []time.Duration{0, 15 * time.Second, 40 * time.Second, 90 * time.Second}[r.Intn(4)]}
		op.Offset = time.Duration(r.Intn(5000)) * time.Millisecond // the first crawl takes N x latency
		// TriggerRefresh keeps its drawn timeout, including none (1 in 4): it waits for the crawler loop (which
		// ticks a boundary event per crawled peer, so the idle bound below applies) or for the instance's own
		// context; a call without deadline that is in flight at, or started after, Close must still return.
		tgt := e.ids[r.Intn(len(e.ids))]
		salt, cnt := r.Int63(), r.Intn(3)
		ops = append(ops, op)
		idx := i
		opsWG.Add(1)
		go func() {
			defer opsWG.Done()
			time.Sleep(op.Offset)
			ctx, cancel := context.WithCancel(context.Background())
			if op.Tmo > 0 {
				ctx, cancel = context.WithTimeout(context.Background(), op.Tmo)
			}
			defer cancel()
			mu.Lock()
			op.cancel, op.started, op.Start, op.Late = cancel, true, bd.Since(), closing.Load()
			if op.Tmo > 0 {
				op.hasDl, op.dl = true, op.Start+op.Tmo
			}
			mu.Unlock()
			bd.Tick("op", op.Kind)
			var err error
			switch op.Kind {
			case "gcp":
				_, err = d.GetClosestPeers(ctx, keyOf(idx))
			case "findpeer":
				_, err = d.FindPeer(ctx, tgt)
			case "trigger":
				err = d.TriggerRefresh(ctx)
			case "checkpeers":
				d.CheckPeers(ctx, tgt)
			case "putvalue":
				err = d.PutValue(ctx, keyOf(idx), []byte(fmt.Sprintf("val-%d", salt)))
			case "getvalue":
				_, err = d.GetValue(ctx, keyOf(idx))
			case "searchvalue":
				var ch <-chan []byte
				if ch, err = d.SearchValue(ctx, keyOf(idx)); err == nil {
					for range ch {
					}
				}
			case "provide":
				err = d.Provide(ctx, cidOf(idx), true)
			case "findprovs":
				for range d.FindProvidersAsync(ctx, cidOf(idx), cnt) {
				}
			}
			mu.Lock()
			op.Ret, op.Returned = bd.Since(), true
			if err != nil {
				op.Err = err.Error()
			}
			mu.Unlock()
			bd.Tick("opret", op.Kind)
		}()
	}
	for i := 0; i < sc.Emits; i++ {
		off := time.Duration(r.Intn(5000)) * time.Millisecond
		p := e.ids[r.Intn(len(e.ids))]
		actorsWG.Add(1)
		go func() {
			defer actorsWG.Done()
			if vC14FrSleep(actx, off, 0) != nil {
				return
			}
			bd.Tick("emit", "disc")
			h.Net.EmitConnectedness(p, network.NotConnected)
		}()
	}

	opsDone := make(chan struct{})
	go func() { opsWG.Wait(); close(opsDone) }()
	settled := make(chan struct{})
	go func() { <-opsDone; time.Sleep(sc.CrawlEvery + 10*time.Second); close(settled) }()
	if target < 0 {
		bd.FireNow()
	}
	select {
	case <-bd.Fire:
	case <-settled:
		bd.FireNow()
	}
	closing.Store(true)
	evs := bd.Events()
	res.CloseIdx = len(evs)
	if n := len(evs); n > 0 {
		res.CloseLabel, res.Busy = evs[n-1].Kind+" "+evs[n-1].Label, evs[n-1].Owner
	}
	mu.Lock()
	for _, op := range ops {
		if op.started && !op.Returned {
			res.InFlight++
		}
	}
	mu.Unlock()
	doClose := func(what string) (time.Duration, error) {
		t0 := bd.Since()
		ret := make(chan error, 1)
		go func() { ret <- d.Close() }()
		tm := time.NewTimer(vC14FrCloseHang)
		defer tm.Stop()
		select {
		case err := <-ret:
			return bd.Since() - t0, err
		case <-tm.C:
			buf := make([]byte, 1<<22)
			buf = buf[:runtime.Stack(buf, true)]
			c.FailSig("close-hang", "close-hang@"+vh.BlockedRepoFrame(buf), "%s%s did not return within %v (%s; closed at event #%d %q); goroutines:\n%s", tag, what, vC14FrCloseHang, sc, res.CloseIdx, res.CloseLabel, vh.FilterBubble(buf))
			c.ExitNow()
			return 0, nil
		}
	}
	took, cerr := doClose("Close")
	e.closed.Store(true)
	closeRet := bd.Since()
	res.CloseTook = took
	c.Check(took <= vC14FrCloseBound && cerr == nil, "close-returns-in-bound", "%sClose took %v (bound %v), returned %v (%s; closed at event #%d %q)", tag, took, vC14FrCloseBound, cerr, sc, res.CloseIdx, res.CloseLabel)
	synctest.Wait()
	cA := vc14.Owned()
	loops := vc14.WithFrame(cA, vC14FrLoopFrags...)
	c.Check(len(loops) == 0, "no-loop-after-close", "%scrawler / subscriber / GC loops still running after Close returned (%s; closed at event #%d %q, busy %q; at open %v): %v\n%s", tag, sc, res.CloseIdx, res.CloseLabel, res.Busy, atOpen, vc14.Summary(loops), vc14.Dump(loops, 4))
	c.Check(e.bus.Live() == 0, "subscription-closed-at-close", "%s%d event-bus subscriptions still open after Close returned", tag, e.bus.Live())
	for k := 2; k <= 3; k++ {
		tk, ce := doClose(fmt.Sprintf("Close #%d", k))
		c.Check(tk <= vC14FrCloseBound && ce == nil, "close-again-returns", "%sClose #%d took %v, returned %v", tag, k, tk, ce)
	}
	tm := time.NewTimer(4 * time.Minute)
	select {
	case <-opsDone:
	case <-tm.C:
		mu.Lock()
		var stuck []string
		for _, op := range ops {
			if !op.Returned {
				stuck = append(stuck, fmt.Sprintf("%s(start +%v timeout %v late=%v)", op.Kind, op.Start, op.Tmo, op.Late))
				if op.cancel != nil {
					op.cancel()
				}
			}
		}
		mu.Unlock()
		buf := make([]byte, 1<<22)
		buf = buf[:runtime.Stack(buf, true)]
		c.FailSig("op-returns", "op-returns/stuck@"+vh.BlockedRepoFrame(buf), "%soperations still running 4 virtual minutes after Close returned (%s; closed at event #%d %q): %v\n%s", tag, sc, res.CloseIdx, res.CloseLabel, stuck, vh.FilterBubble(buf))
		t2 := time.NewTimer(time.Minute)
		select {
		case <-opsDone:
		case <-t2.C:
			c.ExitNow()
		}
	}
	tm.Stop()
	evs = bd.Events()
	lastBefore := func(t time.Duration) time.Duration {
		i := sort.Search(len(evs), func(i int) bool { return evs[i].VT > t })
		if i == 0 {
			return 0
		}
		return evs[i-1].VT
	}
	slack := vC14FrSlack + e.grace
	for _, op := range ops {
		ref := max(lastBefore(op.Ret), op.Start)
		if closeRet <= op.Ret {
			ref = max(ref, closeRet)
		}
		ok := op.Ret-ref <= slack || (op.hasDl && op.Ret >= op.dl && op.Ret-op.dl <= slack)
		clause := "op-returns"
		if op.Late {
			clause = "late-op-returns"
		}
		c.Check(ok, clause, "%s%s started +%v (timeout %v) returned +%v: %v after the last boundary event / Close return (+%v) / its deadline (%s)", tag, op.Kind, op.Start, op.Tmo, op.Ret, op.Ret-ref, closeRet, sc)
	}
	acancel()
	actorsWG.Wait()
	time.Sleep(2 * time.Minute)
	synctest.Wait()
	cB := vc14.Owned()
	if !c.Check(len(cB) == 0, "no-goroutine-after-2min", "%sinstance-owned goroutines 2 virtual minutes after Close and the last operation (%s; closed at event #%d %q): %v\n%s", tag, sc, res.CloseIdx, res.CloseLabel, vc14.Summary(cB), vc14.Dump(cB, 4)) {
		c.ExitNow()
	}
	c.Check(e.bus.Live() == 0, "no-subscription-left", "%s%d event-bus subscriptions still open", tag, e.bus.Live())
	late := e.late()
	c.Check(len(late) == 0, "stores-quiet-after-close", "%sprovider datastore or GC access after Close returned (+%v): %v", tag, closeRet, late)
	h.Close()
	res.Events = evs
	c.Obs("runs", 1)
	c.Obs("boundary_events", len(evs))
	c.Obs("journal_entries", e.j.Len())
	c.Obs("crawls", int(e.cr.runs.Load()))
	c.Obs("ops", len(ops))
	c.Obs("ops_in_flight_at_close", res.InFlight)
	if res.Busy != "" {
		c.Obs("closes_on_busy_loop", 1)
	}
	return res
}

func TestVerif_C14_fullrt(t *testing.T) {
	vh.Run(t, vh.Spec{Prop: "C14", Unit: "fullrt", Quick: 50, Thorough: 2000, CostMs: 70,
		Rule:    "PRNG FullRT (providers/values disabled or not, 5-30 simulated peers 30% silent/failing/dead, fake crawler walking them with 1-80 ms per peer every 5-30 vs, provider GC every 0.2-1.1 vs over a journaling store) with 1-5 operations (GetClosestPeers, FindPeer, TriggerRefresh, CheckPeers, Put/Get/SearchValue, Provide, FindProvidersAsync) and 0-4 disconnect events; reference run counts boundary events (crawler steps, wire log, dials, datastore accesses, operation starts/returns), re-runs Close immediately after construction, at 2 events on a background loop's stack and 2 PRNG indices (thorough: all on small scenarios, <= 48); non-trivial = Close while an operation was in flight or a loop busy",
		Clauses: []string{"baseline-clean", "close-returns-in-bound", "no-loop-after-close", "close-again-returns", "op-returns", "no-goroutine-after-2min", "no-subscription-left", "stores-quiet-after-close"}},
		func(c *vh.Case) {
			r := c.R
			sc := vC14FrScn{Seed: r.Int63(), N: 5 + r.Intn(26), K: []int{2, 3, 5, 20}[r.Intn(4)], NOps: 1 + r.Intn(5), Emits: r.Intn(5), CrawlEvery: time.Duration(5+r.Intn(26)) * time.Second}
			switch r.Intn(6) {
			case 0:
				sc.NoProv = true
			case 1:
				sc.NoVal = true
			case 2:
				sc.NoProv, sc.NoVal = true, true
			}
			if c.Tier == "thorough" && r.Intn(3) == 0 {
				sc.N, sc.NOps, sc.Emits = 3+r.Intn(5), 1+r.Intn(2), r.Intn(2)
			}
			c.Set("scenario", sc.String())
			c.Set("seed", sc.Seed)
			ref := vC14FrRun(t, c, sc, 0)
			idxs := vc14.PickIndices(r, ref.Events, 2, 2, c.Tier == "thorough" && sc.N <= 8, 48)
			c.Set("close_indices", idxs)
			c.Logf("reference run: %d boundary events, Close after everything took %v", len(ref.Events), ref.CloseTook)
			var sigs []string
			for _, i := range idxs {
				if i > len(ref.Events) {
					continue
				}
				tg := i
				if i == 0 {
					tg = -1
				}
				res := vC14FrRun(t, c, sc, tg)
				c.Logf("close@%d: event #%d %q busy=%q in-flight=%d took %v", tg, res.CloseIdx, res.CloseLabel, res.Busy, res.InFlight, res.CloseTook)
				if res.InFlight > 0 || res.Busy != "" {
					k, _, _ := strings.Cut(res.CloseLabel, " ")
					sigs = append(sigs, fmt.Sprintf("%s/%s/%d", k, res.Busy, min(res.InFlight, 2)))
				}
			}
			if len(sigs) > 0 {
				sort.Strings(sigs)
				c.Nontrivial(fmt.Sprintf("%v/%v/%s", sc.NoProv, sc.NoVal, strings.Join(sigs, ",")))
			}
		})
}

func TestVerif_C14_fullrt_ctor(t *testing.T) {
	vh.Run(t, vh.Spec{Prop: "C14", Unit: "fullrt_ctor", Quick: 40, Thorough: 800, CostMs: 8,
		Rule:    "NewFullRT failing at an enumerated point: fullrt option error, DHT option error, Validate rejection (Amino prefix with a foreign bucket size), failing EventBus Subscribe, failing provider-manager option (native and through DHTOption) after the subscription was taken; oracle: error returned, instance-owned census and live bus subscriptions equal the empty baseline; non-trivial = failure after the subscription",
		Clauses: []string{"ctor-returns-error", "ctor-fail-no-goroutine", "ctor-fail-no-subscription"}},
		func(c *vh.Case) {
			r := c.R
			points := []string{"fullrt-option", "dht-option", "validate", "subscribe", "pm-option", "pm-option-dht"}
			pt := points[c.Idx%len(points)]
			sc := vC14FrScn{Seed: r.Int63(), N: 3, K: 5, CrawlEvery: 10 * time.Second, NoVal: r.Intn(3) == 0}
			c.Set("point", pt)
			c.Bubble(t, 10*time.Minute, "ctor-hang", func(t *testing.T) {
				base := vc14.Owned()
				c.Check(len(base) == 0, "baseline-clean", "instance-owned goroutines before construction: %v", vc14.Summary(base))
				e := vC14FrMkEnv(rand.New(rand.NewSource(sc.Seed)), sc, 0)
				injected := errors.New("vC14: injected option failure")
				prefix := protocol.ID("/verif")
				switch pt {
				case "fullrt-option":
					e.opts = append(e.opts, func(*config) error { return injected })
				case "dht-option":
					e.opts = append(e.opts, DHTOption(func(*internalConfig.Config) error { return injected }))
				case "validate":
					prefix = kaddht.DefaultPrefix
				case "subscribe":
					e.bus.FailSubscribeAt(0)
				case "pm-option":
					e.opts = append(e.opts, WithProviderManagerOptions(func(*records.ProviderManager) error { return injected }))
				case "pm-option-dht":
					e.opts = append(e.opts, DHTOption(kaddht.ProviderManagerOpts(func(*records.ProviderManager) error { return injected })))
				}
				d, err := NewFullRT(e.h, prefix, e.opts...)
				if !c.Check(err != nil && d == nil, "ctor-returns-error", "NewFullRT succeeded although failure point %q was armed", pt) {
					if d != nil {
						d.Close()
					}
					e.h.Close()
					return
				}
				c.Logf("NewFullRT failed as planned at %q: %v", pt, err)
				synctest.Wait()
				cs := vc14.Owned()
				c.Check(len(cs) == 0, "ctor-fail-no-goroutine", "failure point %q: goroutines left after NewFullRT returned %q: %v\n%s", pt, err, vc14.Summary(cs), vc14.Dump(cs, 4))
				c.Check(e.bus.Live() == 0, "ctor-fail-no-subscription", "failure point %q: %d of %d bus subscriptions left open after NewFullRT returned %q", pt, e.bus.Live(), e.bus.Total(), err)
				time.Sleep(2 * time.Minute)
				synctest.Wait()
				cs = vc14.Owned()
				if !c.Check(len(cs) == 0, "ctor-fail-no-goroutine", "failure point %q: goroutines 2 virtual minutes after the failed NewFullRT: %v", pt, vc14.Summary(cs)) {
					c.ExitNow()
				}
				c.Obs("subscriptions_opened", e.bus.Total())
				e.h.Close()
				if strings.HasPrefix(pt, "pm-option") {
					c.Nontrivial(pt)
				}
			})
		})
}
