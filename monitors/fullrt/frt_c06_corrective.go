//go:build verif

package fullrt

// C06 (accelerated client) — corrective puts after a completed value search: "the peers among the closest that did
// not return the best value are sent it". FullRT.SearchValue queries the K closest crawled peers (execOnMany), keeps
// the set of peers that answered with the best value's bytes, and when the search completes hands a PUT_VALUE
// {key, best} to every queried peer outside that set.
//
// Oracle (sound, one-sided): scenarios of the C04 `fullrt` unit (same generator and network), SearchValue without a
// quorum (the search can only end by completion), caller context never cancelled. Every peer whose answer carried a
// record that was valid for the key at that instant, arrived strictly before the search ended (such answers are all
// processed, see C04 `final-at-least-best-supplied`) and whose bytes differ from the final best value is a member of
// the queried set that did not return the best value: a PUT_VALUE carrying the best value must have been handed to
// the sender for it within 30 virtual seconds, and when that peer is healthy (answers every request within a second) it
// must have received and acknowledged it (clause corrective-delivered: exposed defect #33, every corrective put of the
// accelerated client ran under a context that SearchValue cancelled as soon as the puts were started).

import (
	"bytes"
	"context"
	"fmt"
	"sort"
	"strings"
	"testing"
	"testing/synctest"
	"time"

	recpb "github.com/libp2p/go-libp2p-record/pb"
	"github.com/libp2p/go-libp2p/core/routing"

	kaddht "github.com/libp2p/go-libp2p-kad-dht"

	"github.com/libp2p/go-libp2p-kad-dht/internal/verif/vh"
	"github.com/libp2p/go-libp2p-kad-dht/internal/verif/vsim"
	pb "github.com/libp2p/go-libp2p-kad-dht/pb"
)

func TestVerif_C06_frtcorrective(t *testing.T) {
	vh.Run(t, vh.Spec{Prop: "C06", Unit: "frtcorrective", Quick: 1500, Thorough: 30000, CostMs: 8,
		Rule:    "scenarios of C04 `fullrt` (1-30 crawled peers, K in {1,2,3,5,8,20}, 0-50% failing/silent/late, records of all kinds, local store empty / valid / expired), FullRT.SearchValue without quorum, caller context never cancelled, 30 virtual seconds for the corrective puts; oracle: every peer whose answer carried a record valid at that instant, arrived strictly before the search ended and differs from the final best value is handed one PUT_VALUE {key, best value}; every PUT_VALUE handed out carries the best value under the key; no PUT_VALUE goes to a peer whose processed answer carried the best value's bytes; a healthy peer (answers within a second) that was handed the corrective put has acknowledged it within the 30 s; non-trivial = a search that ended with a value while at least one processed answer carried a different valid record; distinct by (shape, record mix, arrival order)",
		Clauses: []string{"corrective-to-processed-non-holder", "corrective-carries-best", "corrective-not-to-holders", "corrective-delivered"}},
		func(c *vh.Case) {
			sc := vC04Gen(c)
			sc.Op = "SearchValue"
			if sc.Quorum > 0 {
				sc.Quorum = -1
			}
			c.Set("N", sc.NC.N)
			c.Set("K", sc.NC.Frt.K)
			c.Set("quorum", sc.Quorum)
			c.Set("local", fmt.Sprintf("%s rank %d", sc.Local, sc.LocalRnk))
			mix := map[string]int{}
			for i, k := range sc.RecKind {
				mix[k+"/"+sc.NC.Kinds[i]]++
			}
			var ms []string
			for k, v := range mix {
				ms = append(ms, fmt.Sprintf("%s=%d", k, v))
			}
			sort.Strings(ms)
			c.Set("records", strings.Join(ms, " "))
			c.Bubble(t, 6*time.Hour, "search-hang", func(t *testing.T) {
				val, vcount := vFrtNsValidator()
				nc := sc.NC
				nc.Frt.Validator = val
				n, err := vFrtNewNet(c.Idx, nc, synctest.Wait)
				if err != nil {
					c.Fail("harness-ctor", "NewFullRT: %v", err)
					return
				}
				defer n.Close()
				ctx := context.Background()
				t0 := time.Now()
				far := t0.Add(48 * time.Hour)
				var local []byte
				switch sc.Local {
				case "valid":
					local = vFrtVal(sc.Key, sc.LocalRnk, far, "local")
				case "expires":
					local = vFrtVal(sc.Key, sc.LocalRnk, t0.Add(time.Minute), "local-expiring")
				}
				for i, id := range n.IDs {
					sp := n.S.Peer(id)
					tag := fmt.Sprintf("p%d", i)
					var rec *recpb.Record
					switch sc.RecKind[i] {
					case "samelocal":
						rec = &recpb.Record{Key: []byte(sc.Key), Value: local}
					case "valid":
						exp := time.Time{}
						if i%2 == 0 {
							exp = far
						}
						if sc.Rank[i]%2 == 0 {
							// holders of an even rank all serve the very same bytes (several peers holding the same
							// record is the normal case in a DHT): exercises the equal-value path of the selection
							tag, exp = "shared", time.Time{}
						}
						rec = &recpb.Record{Key: []byte(sc.Key), Value: vFrtVal(sc.Key, sc.Rank[i], exp, tag)}
					case "stale":
						rec = &recpb.Record{Key: []byte(sc.Key), Value: vFrtVal(sc.Key, sc.Rank[i]+10, t0.Add(-time.Hour), tag)}
					case "invalid":
						rec = &recpb.Record{Key: []byte(sc.Key), Value: []byte(fmt.Sprintf("garbage-%d;r=99", i))}
					case "otherkey":
						rec = &recpb.Record{Key: []byte(sc.Key), Value: vFrtVal(sc.OtherKey, sc.Rank[i]+10, time.Time{}, tag)}
					case "miskeyed":
						rec = &recpb.Record{Key: []byte(sc.OtherKey), Value: vFrtVal(sc.OtherKey, sc.Rank[i]+10, time.Time{}, tag)}
					case "empty":
						rec = &recpb.Record{Key: []byte(sc.Key)}
					}
					if rec != nil {
						sp.Values[sc.Key] = rec
					}
				}
				// local record, stored through the instance's own store (validated at that moment)
				if local != nil {
					if err := n.D.putLocal(ctx, sc.Key, &recpb.Record{Key: []byte(sc.Key), Value: local}); err != nil {
						c.Fail("harness-putlocal", "putLocal: %v", err)
						return
					}
				}
				time.Sleep(10 * time.Minute) // the expiring local record is now rejected by the validator
				synctest.Wait()
				logBefore := len(n.S.Log())
				var opts []routing.Option
				if sc.Quorum >= 0 {
					opts = append(opts, kaddht.Quorum(sc.Quorum))
				}
				var ems []vC04Emission
				var opErr error
				start := time.Now()
				switch sc.Op {
				case "SearchValue":
					ch, err := n.D.SearchValue(ctx, sc.Key, opts...)
					opErr = err
					if err == nil {
						synctest.Wait() // the consumer is not there yet when the search offers its first value (no virtual time passes)
						for v := range ch {
							ems = append(ems, vC04Emission{Val: v, VT: time.Now()})
							// not receiving right now: everything else runs until it blocks (no virtual time passes), so a
							// value offered at this very instant finds the consumer busy, as with any real consumer
							synctest.Wait()
						}
					}
				case "GetValue":
					v, err := n.D.GetValue(ctx, sc.Key, opts...)
					opErr = err
					if v != nil {
						ems = append(ems, vC04Emission{Val: v, VT: time.Now()})
					}
				}
				closeVT := time.Now()
				synctest.Wait()

				// what was supplied, and when
				type supply struct {
					Val  []byte
					VT   time.Time
					From string
				}
				var sup []supply
				if local != nil {
					sup = append(sup, supply{Val: local, VT: start, From: "local"})
				}
				answers := 0
				var arrival []string
				for _, e := range n.S.Log()[logBefore:] {
					if e.Kind != vsim.EvReply || e.Type != pb.Message_GET_VALUE || e.Err != "" || string(e.Key) != sc.Key {
						continue
					}
					answers++
					arrival = append(arrival, n.Name(e.Peer))
					if e.Record == nil || !bytes.Equal(e.Record.GetKey(), []byte(sc.Key)) {
						continue // no record, or a record filed under another key (the protocol layer turns that answer into an error)
					}
					if len(e.Record.GetValue()) == 0 {
						continue
					}
					sup = append(sup, supply{Val: e.Record.GetValue(), VT: e.VT, From: n.Name(e.Peer)})
				}
				_, _ = answers, vcount
				if opErr != nil || len(ems) == 0 {
					c.Logf("search ended without a value (err=%v)", opErr)
					return
				}
				best := ems[len(ems)-1].Val
				time.Sleep(30 * time.Second)
				synctest.Wait()
				// PUT_VALUE requests handed to the sender since the search began, and those that were answered
				handed := map[string][][]byte{}
				delivered := 0
				putErrs := map[string]string{}
				answered := map[string]bool{}
				kindOf := map[string]string{}
				for i, id := range n.IDs {
					kindOf[n.Name(id)] = sc.NC.Kinds[i]
				}
				for _, e := range n.S.Log()[logBefore:] {
					if e.Type != pb.Message_PUT_VALUE {
						continue
					}
					if e.Kind == vsim.EvReply && e.Err == "" {
						delivered++
					}
					if e.Kind == vsim.EvReply {
						if e.Err == "" {
							answered[n.Name(e.Peer)] = true
						} else {
							putErrs[n.Name(e.Peer)] = e.Err
						}
					}
					if e.Kind != vsim.EvRequest {
						continue
					}
					rec := e.Msg.GetRecord()
					c.Check(rec != nil && string(rec.GetKey()) == sc.Key && bytes.Equal(rec.GetValue(), best), "corrective-carries-best", "PUT_VALUE handed out for %s carries %q under key %q, the search's best value is %q", n.Name(e.Peer), rec.GetValue(), rec.GetKey(), best)
					handed[n.Name(e.Peer)] = append(handed[n.Name(e.Peer)], rec.GetValue())
				}
				c.Obs("corrective_put_rpcs", len(handed))
				c.Obs("corrective_puts_answered", delivered)
				owed := 0
				for _, s := range sup {
					if s.From == "local" || !s.VT.Before(closeVT) || vFrtValidAt(sc.Key, s.Val, s.VT) != nil {
						continue
					}
					if bytes.Equal(s.Val, best) {
						c.Check(len(handed[s.From]) == 0, "corrective-not-to-holders", "%s answered with the best value %q at +%v (before the search ended at +%v) and was sent a PUT_VALUE all the same", s.From, best, s.VT.Sub(start), closeVT.Sub(start))
						continue
					}
					owed++
					// delivery, not only hand-over: a healthy peer (it answers every request within a second) that was handed
					// the corrective put must have received and acknowledged it; the caller's context is live throughout
					if len(handed[s.From]) >= 1 && kindOf[s.From] == "ok" {
						c.Check(answered[s.From], "corrective-delivered", "healthy peer %s was handed the corrective PUT_VALUE at the end of the search (+%v) but never received it within 30 s: %q (caller's context still live)", s.From, closeVT.Sub(start), putErrs[s.From])
					}
					c.Check(len(handed[s.From]) >= 1, "corrective-to-processed-non-holder", "%s answered with %q at +%v, the search ended at +%v with best value %q, but no PUT_VALUE was handed to the sender for it within 30 s (PUT_VALUE went to: %v)", s.From, s.Val, s.VT.Sub(start), closeVT.Sub(start), best, vFrtKeys(handed))
				}
				c.Obs("non_holders_owed", owed)
				c.Logf("arrival order: %s ; best %q ; owed %d ; handed %v", strings.Join(arrival, " "), best, owed, vFrtKeys(handed))
				if owed >= 1 {
					c.Nontrivial(fmt.Sprintf("%d/%d/%s/%s", sc.NC.N, sc.NC.Frt.K, strings.Join(ms, ","), strings.Join(arrival, ",")))
				}
			})
		})
}

func vFrtKeys(m map[string][][]byte) []string {
	var ks []string
	for k := range m {
		ks = append(ks, k)
	}
	sort.Strings(ks)
	return ks
}
