//go:build verif

package fullrt

// C03 (accelerated-client half) — every routing operation of FullRT returns within bounded
// virtual time once every contacted peer has answered, failed or timed out; returns promptly
// after cancellation; closes its result channels; never panics; leaves no work behind.

import (
	"context"
	"fmt"
	"runtime/debug"
	"sort"
	"strings"
	"testing"
	"testing/synctest"
	"time"

	"github.com/ipfs/go-cid"
	recpb "github.com/libp2p/go-libp2p-record/pb"
	"github.com/libp2p/go-libp2p/core/peer"
	ma "github.com/multiformats/go-multiaddr"
	mh "github.com/multiformats/go-multihash"

	kaddht "github.com/libp2p/go-libp2p-kad-dht"
	"github.com/libp2p/go-libp2p-kad-dht/internal/verif/vh"
	"github.com/libp2p/go-libp2p-kad-dht/internal/verif/vsim"
)

type vC03Scn struct {
	NC      vFrtNetCfg
	Op      string
	Key     string
	Cid     cid.Cid
	Count   int
	NKeys   int
	Holders []int // peers holding a value / provider records
}

var vC03Ops = []string{"GetClosestPeers", "FindPeer", "FindPeer/unknown", "GetValue", "SearchValue", "FindProviders", "FindProvidersAsync", "PutValue", "Provide", "ProvideMany", "PutMany"}

func vC03Gen(c *vh.Case) vC03Scn {
	r := c.R
	sc := vC03Scn{}
	n := 1 + r.Intn(40)
	if r.Intn(5) == 0 {
		n = 1 + r.Intn(4)
	}
	k := []int{1, 2, 3, 5, 8, 20}[r.Intn(6)]
	maxDelay := []int{5, 80, 900}[r.Intn(3)]
	failFrac := []float64{0, 0.2, 0.5, 1}[r.Intn(4)]
	discFrac := []float64{0, 0.5, 1}[r.Intn(3)]
	sc.NC = vFrtNetCfg{NS: fmt.Sprintf("c03-%d", c.Idx), N: n, SimK: k}
	sc.NC.Frt = vFrtCfg{K: k, Limit: 0, Interval: 12 * time.Hour,
		WaitFrac:     []float64{0.1, 0.3, 0.5, 1}[r.Intn(4)],
		TimeoutPerOp: []time.Duration{500 * time.Millisecond, 5 * time.Second}[r.Intn(2)],
		BulkPar:      []int{1, 2, 20}[r.Intn(3)]}
	sc.NC.Frt.Validator, _ = vFrtNsValidator()
	for i := 0; i < n; i++ {
		kind := "ok"
		if r.Float64() < failFrac {
			kind = []string{"dead", "reqerr", "silent", "late", "dialfail", "dialslow"}[r.Intn(6)]
		}
		sc.NC.Kinds = append(sc.NC.Kinds, kind)
		sc.NC.Base = append(sc.NC.Base, time.Duration(1+r.Intn(maxDelay))*time.Millisecond)
		sc.NC.Disconnected = append(sc.NC.Disconnected, r.Float64() < discFrac)
		if r.Intn(3) == 0 {
			sc.Holders = append(sc.Holders, i)
		}
	}
	sc.Op = vC03Ops[r.Intn(len(vC03Ops))]
	sc.Key = fmt.Sprintf("/v/c03-%d-%d", c.Idx, r.Int63())
	m, _ := mh.Sum([]byte(sc.Key), mh.SHA2_256, -1)
	sc.Cid = cid.NewCidV1(cid.Raw, m)
	sc.Count = []int{0, 1, 2, 5, k}[r.Intn(5)]
	sc.NKeys = 1 + r.Intn(30)
	return sc
}

type vC03Run struct {
	Mode      string
	At        time.Duration // timed cancel / deadline offset
	Start     time.Time
	End       time.Time
	CancelVT  time.Time
	Cancelled bool
	Err       error
	Panic     any
	Stack     string
	Offsets   []time.Duration // wire event offsets (un-cancelled run)
	Yielded   int
	RPCs      int
}

// vC03Exec runs the operation once on a fresh network.
func vC03Exec(t *testing.T, c *vh.Case, sc vC03Scn, mode string, at time.Duration) *vC03Run {
	run := &vC03Run{Mode: mode, At: at}
	target := &vsim.SimPeer{ID: vsim.PeerID(sc.NC.NS+"-target", 0), Addrs: []ma.Multiaddr{vFrtGroupAddr(9000, 1, false)}}
	nc := sc.NC
	nc.Extra = []*vsim.SimPeer{target}
	n, err := vFrtNewNet(c.Idx, nc, synctest.Wait)
	if err != nil {
		c.Fail("harness-ctor", "NewFullRT: %v", err)
		return nil
	}
	closed := false
	defer func() {
		if !closed {
			n.Close()
		}
	}()
	for j, i := range sc.Holders {
		sp := n.S.Peer(n.IDs[i])
		sp.Values[sc.Key] = &recpb.Record{Key: []byte(sc.Key), Value: vFrtVal(sc.Key, 1+j%3, time.Time{}, fmt.Sprintf("h%d", i))}
		var provs []peer.AddrInfo
		for x := 0; x < 1+(i+j)%4; x++ {
			pid := vsim.PeerID(sc.NC.NS+"-prov", (i+x)%7)
			provs = append(provs, peer.AddrInfo{ID: pid, Addrs: []ma.Multiaddr{vFrtGroupAddr(8000+(i+x)%7, 1, false)}})
		}
		sp.Providers[string(sc.Cid.Hash())] = provs
	}
	var mhs []mh.Multihash
	var keys []string
	var vals [][]byte
	for i := 0; i < sc.NKeys; i++ {
		k := fmt.Sprintf("%s-%d", sc.Key, i)
		m, _ := mh.Sum([]byte(k), mh.SHA2_256, -1)
		mhs = append(mhs, m)
		keys = append(keys, k)
		vals = append(vals, vFrtVal(k, i, time.Time{}, "bulk"))
	}
	synctest.Wait()
	baseline := vFrtCensus()
	c.ObsMax("resting_goroutines_of_the_instance", len(baseline))
	logBefore := len(n.S.Log())

	ctx, cancel := context.WithCancel(context.Background())
	defer cancel()
	run.Start = time.Now()
	switch mode {
	case "pre":
		cancel()
		run.Cancelled, run.CancelVT = true, run.Start
	case "timed", "abandon":
		tm := time.AfterFunc(at, func() {
			run.CancelVT = time.Now()
			run.Cancelled = true
			cancel()
		})
		defer tm.Stop()
	case "deadline":
		var c2 context.CancelFunc
		ctx, c2 = context.WithDeadline(ctx, run.Start.Add(at))
		defer c2()
	}
	func() {
		defer func() {
			if r := recover(); r != nil {
				run.Panic, run.Stack = r, string(debug.Stack())
			}
		}()
		d := n.D
		switch sc.Op {
		case "GetClosestPeers":
			_, run.Err = d.GetClosestPeers(ctx, sc.Key)
		case "FindPeer":
			_, run.Err = d.FindPeer(ctx, target.ID)
		case "FindPeer/unknown":
			_, run.Err = d.FindPeer(ctx, vsim.PeerID(sc.NC.NS+"-nobody", 0))
		case "GetValue":
			_, run.Err = d.GetValue(ctx, sc.Key, kaddht.Quorum(sc.Count))
		case "SearchValue":
			var ch <-chan []byte
			ch, run.Err = d.SearchValue(ctx, sc.Key, kaddht.Quorum(sc.Count))
			if run.Err == nil && mode == "abandon" {
				// a consumer that stops reading once its context is over (legal use of the API): whatever the
				// search still wanted to hand over must be dropped, not waited for
			abandonSV:
				for {
					select {
					case _, ok := <-ch:
						if !ok {
							break abandonSV
						}
						run.Yielded++
					case <-ctx.Done():
						break abandonSV
					}
				}
			} else if run.Err == nil {
				for range ch {
					run.Yielded++
				}
			}
		case "FindProviders":
			var ps []peer.AddrInfo
			ps, run.Err = d.FindProviders(ctx, sc.Cid)
			run.Yielded = len(ps)
		case "FindProvidersAsync":
			if mode == "abandon" {
				pch := d.FindProvidersAsync(ctx, sc.Cid, sc.Count)
			abandonFP:
				for {
					select {
					case _, ok := <-pch:
						if !ok {
							break abandonFP
						}
						run.Yielded++
					case <-ctx.Done():
						break abandonFP
					}
				}
			} else {
				for range d.FindProvidersAsync(ctx, sc.Cid, sc.Count) {
					run.Yielded++
				}
			}
		case "PutValue":
			run.Err = d.PutValue(ctx, sc.Key, vFrtVal(sc.Key, 5, time.Time{}, "mine"))
		case "Provide":
			run.Err = d.Provide(ctx, sc.Cid, true)
		case "ProvideMany":
			run.Err = d.ProvideMany(ctx, mhs)
		case "PutMany":
			run.Err = d.PutMany(ctx, keys, vals)
		}
	}()
	run.End = time.Now()
	if mode == "deadline" && !run.End.Before(run.Start.Add(at)) {
		run.Cancelled, run.CancelVT = true, run.Start.Add(at)
	}
	c.Obs("operations", 1)
	tag := fmt.Sprintf("%s [%s +%v]", sc.Op, mode, at)

	// (4) no panic
	c.Clause("no-panic")
	if run.Panic != nil {
		c.FailSig("no-panic", "panic@"+vh.TopRepoFrame([]byte(run.Stack))+"/"+sc.Op, "%s panicked: %v\n%s", tag, run.Panic, vC16Trim(run.Stack, 3000))
		c.Terminal() // a panicking operation may have left locks held
		return run
	}
	// (1)-(3) bounds in virtual time (for channel operations End is the instant the channel was closed)
	lastWire := vFrtLastWire(n, run.Start, run.End)
	if run.Cancelled {
		c.Check(!run.End.After(run.CancelVT.Add(time.Second)), "returns-after-cancel", "%s returned %v after its context ended (err=%v)", tag, run.End.Sub(run.CancelVT), run.Err)
	} else {
		c.Check(!run.End.After(lastWire.Add(time.Second)), "returns-after-last-rpc", "%s returned at +%v, the last RPC/dial it could wait for concluded at +%v (err=%v)", tag, run.End.Sub(run.Start), lastWire.Sub(run.Start), run.Err)
	}
	c.Check(run.End.Sub(run.Start) <= 30*time.Minute, "returns-within-30min", "%s took %v of virtual time", tag, run.End.Sub(run.Start))
	log := n.S.Log()
	run.RPCs = (len(log) - logBefore) / 2
	c.Obs("rpcs", run.RPCs)
	seen := map[time.Duration]bool{}
	for _, e := range log[logBefore:] {
		off := e.VT.Sub(run.Start)
		if !seen[off] {
			seen[off] = true
			run.Offsets = append(run.Offsets, off)
		}
	}
	// (5) background work ends by itself, and everything ends at Close
	time.Sleep(2 * time.Minute)
	synctest.Wait()
	after := vFrtCensus()
	c.Check(strings.Join(after, ";") == strings.Join(baseline, ";"), "background-ends", "%s: goroutines started by the module 2 virtual minutes after the operation returned: %v; at rest before the call: %v", tag, after, baseline)
	n.Close()
	closed = true
	synctest.Wait()
	left := vFrtCensus()
	c.Check(len(left) == 0, "close-ends-all", "%s: goroutines of the module still alive after Close: %v", tag, left)
	return run
}

func TestVerif_C03_fullrt(t *testing.T) {
	vh.Run(t, vh.Spec{Prop: "C03", Unit: "fullrt", Quick: 400, Thorough: 15000, CostMs: 120,
		Rule:    "FullRT over a simulated network (1-40 crawled peers; 0-100% failing: dead, request error, silent until the 10 s read timeout, 30 s late, dial failure, 20 s dial stall; 0-100% of the connections dropped after the crawl so that operations dial; K in {1,2,3,5,8,20}, success wait fraction in {0.1,0.3,0.5,1}, per-operation timeout 0.5/5 s, bulk parallelism 1/2/20); one operation per case out of GetClosestPeers, FindPeer (found / unknown), GetValue / SearchValue (quorum option in {0,1,2,5,K}: the search may end by quorum while answers are still arriving), FindProviders, FindProvidersAsync(count), PutValue, Provide, ProvideMany, PutMany (1-30 keys); run un-cancelled, then on fresh instances: cancelled before the call, with a deadline, and cancelled at up to 4 PRNG-chosen boundary instants of the un-cancelled run's wire events; SearchValue / FindProvidersAsync additionally 3 times with a consumer that stops reading when its context ends, cancelled exactly at a boundary instant; virtual time; non-trivial = the un-cancelled run made at least 2 RPCs and at least one cancelled run was cut short; distinct by (operation, shape, behaviour mix, cancel instants)",
		Clauses: []string{"no-panic", "returns-after-last-rpc", "returns-after-cancel", "returns-within-30min", "background-ends", "close-ends-all"}},
		func(c *vh.Case) {
			sc := vC03Gen(c)
			c.Set("op", sc.Op)
			c.Set("N", sc.NC.N)
			c.Set("K", sc.NC.Frt.K)
			c.Set("wait_frac", sc.NC.Frt.WaitFrac)
			c.Set("timeout_per_op", sc.NC.Frt.TimeoutPerOp.String())
			c.Set("bulk_parallelism", sc.NC.Frt.BulkPar)
			c.Set("count", sc.Count)
			c.Set("keys", sc.NKeys)
			kinds := map[string]int{}
			for i, k := range sc.NC.Kinds {
				if sc.NC.Disconnected[i] {
					k += "/disc"
				}
				kinds[k]++
			}
			var ks []string
			for k, v := range kinds {
				ks = append(ks, fmt.Sprintf("%s=%d", k, v))
			}
			sort.Strings(ks)
			c.Set("peers", strings.Join(ks, " "))
			var modes []string
			cut := false
			rpcs := 0
			c.Bubble(t, 12*time.Hour, "operation-hang", func(t *testing.T) {
				base := vC03Exec(t, c, sc, "none", 0)
				if base == nil || base.Panic != nil {
					return
				}
				rpcs = base.RPCs
				dur := base.End.Sub(base.Start)
				c.Set("uncancelled_virtual_ms", dur.Milliseconds())
				c.Logf("un-cancelled: %v, err=%v, yielded=%d, rpcs=%d", dur, base.Err, base.Yielded, base.RPCs)
				vC03Exec(t, c, sc, "pre", 0)
				dl := time.Duration(1+c.R.Int63n(int64(dur)+int64(50*time.Millisecond))) / time.Millisecond * time.Millisecond
				if dl <= 0 {
					dl = time.Millisecond
				}
				if r := vC03Exec(t, c, sc, "deadline", dl); r != nil && r.Cancelled {
					cut = true
				}
				modes = append(modes, fmt.Sprintf("dl%v", dl))
				// cancel instants: boundary events of the un-cancelled run (the instant itself or 1 ms around it)
				offs := base.Offsets
				for j := 0; j < 4 && len(offs) > 0; j++ {
					at := offs[c.R.Intn(len(offs))] + time.Duration(c.R.Intn(3)-1)*time.Millisecond
					if at < 0 {
						at = 0
					}
					if r := vC03Exec(t, c, sc, "timed", at); r != nil {
						if r.Cancelled {
							cut = true
						}
						if r.Panic != nil {
							return
						}
					}
					modes = append(modes, fmt.Sprintf("c%v", at))
				}
				// channel operations once more with a consumer that walks away when its context ends, cancelled exactly
				// at boundary instants (an answer being handed over at that very moment must not wedge anything)
				if sc.Op == "SearchValue" || sc.Op == "FindProvidersAsync" {
					for j := 0; j < 3 && len(offs) > 0; j++ {
						at := offs[c.R.Intn(len(offs))]
						if r := vC03Exec(t, c, sc, "abandon", at); r != nil && r.Panic != nil {
							return
						}
						c.Obs("abandoning_consumer_runs", 1)
						modes = append(modes, fmt.Sprintf("a%v", at))
					}
				}
			})
			c.Set("cancel_instants", modes)
			if rpcs >= 2 && cut {
				c.Nontrivial(fmt.Sprintf("%s/%d/%d/%s/%v", sc.Op, sc.NC.N, sc.NC.Frt.K, strings.Join(ks, ","), modes))
			}
		})
}
