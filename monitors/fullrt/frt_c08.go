//go:build verif

package fullrt

// C08 (accelerated-client half) — FullRT.FindProvidersAsync / FindProviders yield only providers
// that are stored locally or were named in an answer the search processed, at most `count`
// distinct ones, never the same peer twice, and the channel is always closed.

import (
	"context"
	"fmt"
	"sort"
	"strings"
	"testing"
	"testing/synctest"
	"time"

	"github.com/ipfs/go-cid"
	"github.com/libp2p/go-libp2p/core/peer"
	ma "github.com/multiformats/go-multiaddr"
	mh "github.com/multiformats/go-multihash"

	"github.com/libp2p/go-libp2p-kad-dht/internal/verif/vh"
	"github.com/libp2p/go-libp2p-kad-dht/internal/verif/vsim"
	pb "github.com/libp2p/go-libp2p-kad-dht/pb"
)

type vC08Scn struct {
	NC       vFrtNetCfg
	Cid      cid.Cid
	Universe int     // number of distinct provider ids
	Holds    [][]int // per peer: provider indices it reports
	Local    []int
	Count    int
	Op       string // async | sync
	CancelAt time.Duration
}

func vC08Gen(c *vh.Case) vC08Scn {
	r := c.R
	sc := vC08Scn{}
	n := 1 + r.Intn(30)
	k := []int{1, 2, 3, 5, 8, 20, 20}[r.Intn(7)]
	if r.Intn(2) == 0 && n < k {
		n = k + r.Intn(10)
	}
	maxDelay := []int{5, 80, 900}[r.Intn(3)]
	failFrac := []float64{0, 0, 0.2, 0.5}[r.Intn(4)]
	sc.NC = vFrtNetCfg{NS: fmt.Sprintf("c08-%d", c.Idx), N: n, SimK: k}
	sc.NC.Frt = vFrtCfg{K: k, Limit: 0, Interval: 100 * time.Hour,
		WaitFrac:     []float64{0.1, 0.3, 0.5, 1}[r.Intn(4)],
		TimeoutPerOp: []time.Duration{500 * time.Millisecond, 5 * time.Second}[r.Intn(2)]}
	sc.Universe = 1 + r.Intn(14)
	holdFrac := []float64{0.2, 0.6, 1}[r.Intn(3)]
	for i := 0; i < n; i++ {
		kind := "ok"
		if r.Float64() < failFrac {
			kind = []string{"dead", "reqerr", "silent", "late"}[r.Intn(4)]
		}
		sc.NC.Kinds = append(sc.NC.Kinds, kind)
		sc.NC.Base = append(sc.NC.Base, time.Duration(1+r.Intn(maxDelay))*time.Millisecond)
		sc.NC.Disconnected = append(sc.NC.Disconnected, r.Intn(4) == 0)
		var hs []int
		if r.Float64() < holdFrac {
			for j := 0; j < 1+r.Intn(6); j++ {
				hs = append(hs, r.Intn(sc.Universe))
			}
			if r.Intn(6) == 0 { // the same provider listed twice in one answer
				hs = append(hs, hs[0])
			}
		}
		sc.Holds = append(sc.Holds, hs)
	}
	for j := 0; j < r.Intn(4); j++ {
		if r.Intn(2) == 0 {
			sc.Local = append(sc.Local, r.Intn(sc.Universe))
		}
	}
	key := fmt.Sprintf("c08-%d-%d", c.Idx, r.Int63())
	m, _ := mh.Sum([]byte(key), mh.SHA2_256, -1)
	sc.Cid = cid.NewCidV1(cid.Raw, m)
	sc.Count = []int{0, 0, 1, 2, 5, k}[r.Intn(6)]
	sc.Op = []string{"async", "async", "async", "sync"}[r.Intn(4)]
	if sc.Op == "async" && r.Intn(5) == 0 {
		sc.CancelAt = time.Duration(r.Intn(2*maxDelay+10)) * time.Millisecond
	}
	return sc
}

func TestVerif_C08_fullrt(t *testing.T) {
	vh.Run(t, vh.Spec{Prop: "C08", Unit: "fullrt", Quick: 800, Thorough: 30000, CostMs: 8,
		Rule:    "FullRT over a simulated network (1-30 crawled peers, K in {1,2,3,5,8,20}; 0-50% failing/silent/late); 1-14 provider ids (with or without addresses, the local node among them) spread over the responders' GET_PROVIDERS answers (overlapping, duplicates inside one answer) and the local provider store; count in {0,1,2,5,K}; FindProvidersAsync with an immediate consumer stamping every emission in virtual time (20% cancelled at a PRNG instant) or FindProviders; non-trivial = at least 2 answers carried providers and (count reached, or count 0 with at least 2 distinct providers); distinct by (shape, distribution, count, arrival order)",
		Clauses: []string{"yielded-was-reported", "at-most-count", "no-repeats", "no-request-after-count", "count0-complete", "channel-closed"}},
		func(c *vh.Case) {
			sc := vC08Gen(c)
			c.Set("op", sc.Op)
			c.Set("N", sc.NC.N)
			c.Set("K", sc.NC.Frt.K)
			c.Set("count", sc.Count)
			c.Set("universe", sc.Universe)
			c.Set("local", sc.Local)
			c.Set("cancel_at_ms", sc.CancelAt.Milliseconds())
			c.Bubble(t, 6*time.Hour, "search-hang", func(t *testing.T) {
				n, err := vFrtNewNet(c.Idx, sc.NC, synctest.Wait)
				if err != nil {
					c.Fail("harness-ctor", "NewFullRT: %v", err)
					return
				}
				defer n.Close()
				key := sc.Cid.Hash()
				prov := func(j int) peer.AddrInfo {
					id := vsim.PeerID(sc.NC.NS+"-prov", j)
					if j == 0 && sc.Universe > 3 {
						id = n.Self
					}
					ai := peer.AddrInfo{ID: id}
					if j%3 != 1 {
						ai.Addrs = []ma.Multiaddr{vFrtGroupAddr(7000+j, 1, false)}
					}
					return ai
				}
				pname := map[peer.ID]string{}
				for j := 0; j < sc.Universe; j++ {
					pname[prov(j).ID] = fmt.Sprintf("P%d", j)
				}
				for i, id := range n.IDs {
					var ps []peer.AddrInfo
					for _, j := range sc.Holds[i] {
						ps = append(ps, prov(j))
					}
					if len(ps) > 0 {
						n.S.Peer(id).Providers[string(key)] = ps
					}
				}
				ctx, cancel := context.WithCancel(context.Background())
				defer cancel()
				localSet := map[peer.ID]bool{}
				for _, j := range sc.Local {
					if err := n.D.ProviderManager.AddProvider(ctx, key, prov(j)); err != nil {
						c.Fail("harness-addprovider", "AddProvider: %v", err)
						return
					}
					localSet[prov(j).ID] = true
				}
				synctest.Wait()
				logBefore := len(n.S.Log())
				type em struct {
					P  peer.ID
					VT time.Time
				}
				var ems []em
				var cancelVT time.Time
				cancelled := false
				start := time.Now()
				if sc.CancelAt > 0 {
					tm := time.AfterFunc(sc.CancelAt, func() {
						cancelVT, cancelled = time.Now(), true
						cancel()
					})
					defer tm.Stop()
				}
				count := sc.Count
				// Half of the cancelled searches have a consumer that stops reading at the
				// cancellation (the usual "cancel and walk away" caller): the channel must be
				// closed all the same, no producer may stay blocked sending on it.
				abandon, abandoned := sc.CancelAt > 0 && c.Idx%2 == 0, false
				c.Set("consumer_abandons_at_cancel", abandon)
				switch sc.Op {
				case "async":
					ch := n.D.FindProvidersAsync(ctx, sc.Cid, sc.Count)
					var gone <-chan struct{}
					if abandon {
						gone = ctx.Done()
					}
				consume:
					for {
						select {
						case p, ok := <-ch:
							if !ok {
								break consume
							}
							ems = append(ems, em{P: p.ID, VT: time.Now()})
						case <-gone:
							abandoned = true
							break consume
						}
					}
					if abandoned {
						time.Sleep(time.Second) // the bound of clause channel-closed
						synctest.Wait()
						select {
						case p, ok := <-ch:
							c.Check(!ok, "channel-closed", "the consumer stopped reading when the search was cancelled; 1 s later the channel is not closed: a producer was still blocked sending %s on it", vsim.Short(p.ID))
						default:
							c.Check(false, "channel-closed", "the consumer stopped reading when the search was cancelled; 1 s later the channel is still open")
						}
						for range ch { // let whatever is left conclude
						}
						c.Obs("abandoned_searches", 1)
					}
				case "sync":
					count = sc.NC.Frt.K // documented: FindProviders asks for bucket-size providers
					ps, err := n.D.FindProviders(ctx, sc.Cid)
					if err != nil {
						c.Fail("sync-no-error", "FindProviders: %v", err)
					}
					for _, p := range ps {
						ems = append(ems, em{P: p.ID, VT: time.Now()})
					}
				}
				closeVT := time.Now()
				synctest.Wait()
				log := n.S.Log()[logBefore:]

				// answers
				type ans struct {
					VT    time.Time
					Provs []peer.ID
					From  peer.ID
				}
				var answers []ans
				var reqVT []time.Time
				withProvs := 0
				var arrival []string
				for _, e := range log {
					if e.Type != pb.Message_GET_PROVIDERS {
						continue
					}
					switch e.Kind {
					case vsim.EvRequest:
						reqVT = append(reqVT, e.VT)
					case vsim.EvReply:
						if e.Err == "" {
							answers = append(answers, ans{VT: e.VT, Provs: e.Provs, From: e.Peer})
							arrival = append(arrival, n.Name(e.Peer))
							if len(e.Provs) > 0 {
								withProvs++
							}
						}
					}
				}
				c.Obs("get_providers_requests", len(reqVT))
				// (d') enough providers stored locally: nobody is asked at all (the local providers are
				// yielded first; VT cannot order them against requests started at the same instant)
				if count > 0 && len(localSet) >= count {
					c.Check(len(reqVT) == 0, "no-request-after-count", "count=%d is covered by the %d locally stored providers, yet %d GET_PROVIDERS requests were sent", count, len(localSet), len(reqVT))
					c.Obs("count_covered_locally", 1)
				}
				c.Obs("answers", len(answers))
				c.Obs("providers_emitted", len(ems))
				render := func(p peer.ID) string {
					if s, ok := pname[p]; ok {
						return s
					}
					return "x" + vsim.Short(p)
				}
				// (a) soundness
				for _, e := range ems {
					ok := localSet[e.P]
					for _, a := range answers {
						if a.VT.After(e.VT) {
							continue
						}
						for _, p := range a.Provs {
							if p == e.P {
								ok = true
							}
						}
					}
					c.Check(ok, "yielded-was-reported", "%s yielded at +%v but it is neither a local provider nor named in an answer returned by then", render(e.P), e.VT.Sub(start))
				}
				// (b) cap, (c) repeats
				distinct := map[peer.ID]bool{}
				var reachedAt time.Time
				for _, e := range ems {
					c.Check(!distinct[e.P], "no-repeats", "%s yielded twice", render(e.P))
					distinct[e.P] = true
					if count > 0 && len(distinct) == count && reachedAt.IsZero() {
						reachedAt = e.VT
					}
				}
				if count > 0 {
					c.Check(len(distinct) <= count, "at-most-count", "%d distinct providers yielded, count=%d", len(distinct), count)
				}
				// (d) no request started strictly after the instant count was reached
				if !reachedAt.IsZero() {
					late := 0
					for _, vt := range reqVT {
						if vt.After(reachedAt) {
							late++
						}
					}
					c.Check(late == 0, "no-request-after-count", "%d GET_PROVIDERS requests started after count=%d was reached at +%v", late, count, reachedAt.Sub(start))
				}
				// (e) count 0 (or count never reached), un-cancelled: everything reported strictly before the end was yielded
				if !cancelled && (count == 0 || len(distinct) < count) {
					var missing []string
					for p := range localSet {
						if !distinct[p] {
							missing = append(missing, render(p)+"(local)")
						}
					}
					for _, a := range answers {
						if !a.VT.Before(closeVT) {
							continue
						}
						for _, p := range a.Provs {
							if !distinct[p] {
								missing = append(missing, render(p)+"(from "+n.Name(a.From)+")")
							}
						}
					}
					sort.Strings(missing)
					c.Check(len(missing) == 0, "count0-complete", "count=%d (%d yielded): providers reported before the search ended at +%v but never yielded: %v", count, len(distinct), closeVT.Sub(start), missing)
				}
				// (f) channel closed in time
				if abandoned {
					// judged above
				} else if cancelled {
					c.Check(!closeVT.After(cancelVT.Add(time.Second)), "channel-closed", "channel closed %v after cancellation", closeVT.Sub(cancelVT))
				} else {
					last := vFrtLastWire(n, start, closeVT)
					c.Check(!closeVT.After(last.Add(time.Second)), "channel-closed", "channel closed at +%v, last RPC concluded at +%v", closeVT.Sub(start), last.Sub(start))
				}
				var es []string
				for _, e := range ems {
					es = append(es, fmt.Sprintf("+%v:%s", e.VT.Sub(start), render(e.P)))
				}
				c.Logf("arrival order: %s", strings.Join(arrival, " "))
				c.Logf("emissions: %s ; closed +%v", strings.Join(es, " "), closeVT.Sub(start))
				if withProvs >= 2 && (!reachedAt.IsZero() || (count == 0 && len(distinct) >= 2)) {
					c.Nontrivial(fmt.Sprintf("%d/%d/%d/%d/%v/%s", sc.NC.N, sc.NC.Frt.K, sc.Count, sc.Universe, sc.Holds, strings.Join(arrival, ",")))
				}
			})
		})
}
