//go:build verif

package fullrt

// C16 — the accelerated client returns the true nearest crawled peers, safely.
//
//   closest : generated crawl results (0-3000 peers, crafted IP groups) reported by a fake
//             crawler through the real crawl loop (initial crawl, TriggerRefresh, interval tick in
//             virtual time); GetClosestPeers compared with brute force over the generated set.
//   swap    : (race build, real parallelism) generations with disjoint peer sets are swapped in
//             while 4 readers query; every result must lie in one generation and be right for it.
//   safety  : empty table / missing construction options: every operation returns, no panic.

import (
	"context"
	"crypto/sha256"
	"fmt"
	"math/rand"
	"runtime"
	"runtime/debug"
	"sort"
	"strings"
	"sync"
	"sync/atomic"
	"testing"
	"testing/synctest"
	"time"

	"github.com/ipfs/go-cid"
	kb "github.com/libp2p/go-libp2p-kbucket"
	"github.com/libp2p/go-libp2p/core/peer"
	ma "github.com/multiformats/go-multiaddr"
	mh "github.com/multiformats/go-multihash"

	kaddht "github.com/libp2p/go-libp2p-kad-dht"
	"github.com/libp2p/go-libp2p-kad-dht/amino"
	"github.com/libp2p/go-libp2p-kad-dht/crawler"
	"github.com/libp2p/go-libp2p-kad-dht/internal/verif/vh"
	"github.com/libp2p/go-libp2p-kad-dht/internal/verif/vsim"
)

type vC16TableSpec struct {
	N         int
	Layout    string // distinct | atlimit | crowded | mixed
	SameGroup bool   // some peers have two addresses inside one group (dedicated fraction)
	Reuse     float64
}

// vC16GenTable generates one crawl result. prev (may be nil) supplies peers to keep across
// generations (with freshly assigned addresses).
func vC16GenTable(c *vh.Case, idx int, ts vC16TableSpec, limit int, prev *vFrtGen) *vFrtGen {
	r := c.R
	g := &vFrtGen{Idx: idx}
	lim := limit
	if lim <= 0 {
		lim = 3
	}
	// group sizes
	var sizes []int
	left := ts.N
	if ts.Layout == "crowded" && left > 0 {
		for j := 0; j < 1+r.Intn(3) && left > 0; j++ {
			s := lim + 1 + r.Intn(max(ts.N/3, 2))
			s = min(s, left)
			sizes = append(sizes, s)
			left -= s
		}
	}
	for left > 0 {
		s := 1
		switch ts.Layout {
		case "atlimit":
			s = lim
			if r.Intn(3) == 0 {
				s = 1 + r.Intn(lim)
			}
		case "crowded":
			s = 1 + r.Intn(lim)
		case "mixed":
			s = 1 + r.Intn(2*lim+2)
		}
		s = min(s, left)
		sizes = append(sizes, s)
		left -= s
	}
	r.Shuffle(len(sizes), func(i, j int) { sizes[i], sizes[j] = sizes[j], sizes[i] })
	// ids: some survivors of the previous generation, the rest fresh
	var ids []peer.ID
	if prev != nil && ts.Reuse > 0 {
		for _, p := range prev.Peers {
			if r.Float64() < ts.Reuse && len(ids) < ts.N {
				ids = append(ids, p.ID)
			}
		}
	}
	for i := 0; len(ids) < ts.N; i++ {
		ids = append(ids, vsim.PeerID(fmt.Sprintf("frt%d-g%d", c.Idx, idx), i))
	}
	r.Shuffle(len(ids), func(i, j int) { ids[i], ids[j] = ids[j], ids[i] })
	nextOrd := idx * 7 // ordinary /16 group counter (offset per generation so that addresses move)
	legacyUsed, v6Used := 0, 0
	pi := 0
	for _, s := range sizes {
		kind := "ord"
		switch x := r.Intn(20); {
		case x < 2 && legacyUsed < len(vFrtLegacyA):
			kind = "legacy"
		case x < 4 && v6Used < len(vFrtV6):
			kind = "v6"
		}
		var addr func(j int) ma.Multiaddr
		switch kind {
		case "legacy":
			b := legacyUsed
			legacyUsed++
			addr = func(j int) ma.Multiaddr { return vFrtLegacyAddr(b, j*251) } // spread over many /16 of the /8
		case "v6":
			b := v6Used
			v6Used++
			addr = func(j int) ma.Multiaddr { return vFrtV6Addr(b, j) }
		default:
			gi := nextOrd
			nextOrd++
			addr = func(j int) ma.Multiaddr { return vFrtGroupAddr(gi, j, false) }
			if ts.SameGroup {
				// dedicated input class: tcp + quic address inside the same group
				addr2 := func(j int) ma.Multiaddr { return vFrtGroupAddr(gi, j, true) }
				for j := 0; j < s; j++ {
					p := vFrtPeer{ID: ids[pi], Addrs: []ma.Multiaddr{addr(j)}}
					if r.Intn(3) == 0 {
						p.Addrs = append(p.Addrs, addr2(j))
					}
					g.Peers = append(g.Peers, p)
					pi++
				}
				continue
			}
		}
		for j := 0; j < s; j++ {
			g.Peers = append(g.Peers, vFrtPeer{ID: ids[pi], Addrs: []ma.Multiaddr{addr(j)}})
			pi++
		}
	}
	// extras: addresses in a second group, non-IP addresses, private addresses next to a public one
	for i := range g.Peers {
		p := &g.Peers[i]
		switch x := r.Intn(20); {
		case x < 2 && ts.Layout != "distinct":
			// second address in ANOTHER ordinary group (the peer counts in both groups); two addresses
			// inside one group are generated in the dedicated fraction only
			a2 := vFrtGroupAddr(idx*7+r.Intn(max(nextOrd-idx*7, 1)), 40000+i, false)
			if len(vFrtGroupsOf(append([]ma.Multiaddr{a2}, p.Addrs...))) == len(vFrtGroupsOf(p.Addrs))+1 {
				p.Addrs = append(p.Addrs, a2)
			}
		case x == 2:
			p.Addrs = append(p.Addrs, ma.StringCast(fmt.Sprintf("/dns4/n%d.example.org/tcp/4001", i)))
		}
	}
	// peers the crawl reports but FullRT's documented public filter must drop
	for j := 0; j < r.Intn(4); j++ {
		id := vsim.PeerID(fmt.Sprintf("frt%d-g%d-x", c.Idx, idx), j)
		if r.Intn(2) == 0 {
			g.Peers = append(g.Peers, vFrtPeer{ID: id, Addrs: []ma.Multiaddr{vFrtGroupAddr(5000+j, j, false)}, NoConn: true})
		} else {
			g.Peers = append(g.Peers, vFrtPeer{ID: id, Addrs: []ma.Multiaddr{ma.StringCast(fmt.Sprintf("/ip4/192.168.%d.%d/tcp/4001", j, 1+j))}, Private: true})
		}
	}
	for j := 0; j < r.Intn(4); j++ {
		g.Fails = append(g.Fails, vsim.PeerID(fmt.Sprintf("frt%d-g%d-f", c.Idx, idx), j))
	}
	r.Shuffle(len(g.Peers), func(i, j int) { g.Peers[i], g.Peers[j] = g.Peers[j], g.Peers[i] })
	return g
}

// vC16View is the oracle's view of one generation.
type vC16View struct {
	gen      *vFrtGen
	members  []peer.ID
	isMember map[peer.ID]bool
	groups   map[peer.ID][]string
	size     map[string]int   // group -> crawled members with an address in it
	multi    map[peer.ID]bool // member with two addresses inside one group
	maxGroup int
}

func vC16NewView(g *vFrtGen) *vC16View {
	v := &vC16View{gen: g, isMember: map[peer.ID]bool{}, groups: map[peer.ID][]string{}, size: map[string]int{}, multi: map[peer.ID]bool{}}
	for _, p := range g.Peers {
		if p.NoConn || p.Private {
			continue
		}
		v.members = append(v.members, p.ID)
		v.isMember[p.ID] = true
		gs := vFrtGroupsOf(p.Addrs)
		v.groups[p.ID] = gs
		for _, x := range gs {
			v.size[x]++
			v.maxGroup = max(v.maxGroup, v.size[x])
		}
		// two addresses in one group?
		cnt := map[string]int{}
		for _, a := range p.Addrs {
			for _, x := range vFrtGroupsOf([]ma.Multiaddr{a}) {
				cnt[x]++
				if cnt[x] > 1 {
					v.multi[p.ID] = true
				}
			}
		}
	}
	return v
}

func vC16Ascending(key string, ps []peer.ID) bool {
	t := vsim.KadID([]byte(key))
	for i := 1; i < len(ps); i++ {
		if vsim.CmpDist(t, vsim.KadID([]byte(ps[i-1])), vsim.KadID([]byte(ps[i]))) >= 0 {
			return false
		}
	}
	return true
}

// vC16Judge applies the GetClosestPeers clauses to one result against one generation.
// It returns false if the result does not belong to this generation at all.
func vC16Judge(c *vh.Case, v *vC16View, key string, R []peer.ID, K, limit int, tag string) {
	seen := map[peer.ID]bool{}
	dup, sub := false, true
	for _, p := range R {
		if seen[p] {
			dup = true
		}
		seen[p] = true
		if !v.isMember[p] {
			sub = false
		}
	}
	c.Check(len(R) <= K, "at-most-k", "%s: %d peers returned, K=%d", tag, len(R), K)
	c.Check(!dup, "distinct", "%s: duplicates in %v", tag, vFrtShorts(R))
	c.Check(sub, "only-crawled-peers", "%s: result contains a peer that generation %d did not report as a public, connected success: %v", tag, v.gen.Idx, vFrtShorts(R))
	c.Check(vC16Ascending(key, R), "ascending", "%s: result not in strictly ascending XOR distance: %v", tag, vFrtShorts(R))
	want := vsim.Nearest([]byte(key), v.members, K)
	if limit > 0 {
		cnt := map[string]int{}
		worst, worstG := 0, ""
		for _, p := range R {
			for _, g := range v.groups[p] {
				cnt[g]++
				if cnt[g] > worst {
					worst, worstG = cnt[g], g
				}
			}
		}
		c.Clause("ipgroup-limit")
		if worst > limit {
			sig := "ipgroup-limit-exceeded"
			if vFrtEqualIDs(R, want) {
				sig = "ipgroup-limit-ignored" // the plain K nearest were returned as if no limit were configured
			}
			c.FailSig("ipgroup-limit", sig, "%s: %d returned peers share IP group %s, configured limit %d (K=%d, %d crawled peers in that group): %v", tag, worst, worstG, limit, K, v.size[worstG], vFrtShorts(R))
		}
	}
	if limit <= 0 || v.maxGroup <= limit {
		c.Clause("exact-when-uncrowded")
		if !vFrtEqualIDs(R, want) {
			sig := "exact-when-uncrowded"
			if vC16IsSameGroupDrop(v, key, R, K, limit) {
				sig = "ipgroup/same-group-addrs-dropped"
			}
			c.FailSig("exact-when-uncrowded", sig, "%s: no IP group holds more than limit=%d crawled peers (largest %d) but result %v != K=%d nearest crawled %v (%d crawled)", tag, limit, v.maxGroup, vFrtShorts(R), K, vFrtShorts(want), len(v.members))
		}
	}
}

// vC16IsSameGroupDrop recognises the input class of finding #19: peers with two addresses inside one
// IP group are dropped and everything else is right (the result is the K nearest of the table
// without those peers).
func vC16IsSameGroupDrop(v *vC16View, key string, R []peer.ID, K, limit int) bool {
	if limit <= 0 {
		return false
	}
	seen := map[peer.ID]bool{}
	for _, p := range R {
		seen[p] = true
	}
	var rest []peer.ID
	dropped := 0
	for _, p := range v.members {
		if v.multi[p] && !seen[p] {
			dropped++
			continue
		}
		rest = append(rest, p)
	}
	return dropped > 0 && vFrtEqualIDs(R, vsim.Nearest([]byte(key), rest, K))
}

func vC16SelfCheckDistance(c *vh.Case) {
	var ps []peer.ID
	for i := 0; i < 12; i++ {
		ps = append(ps, vsim.PeerID("chk", c.R.Intn(1<<20)))
	}
	key := fmt.Sprintf("chk-%d", c.R.Int63())
	mine := vsim.SortByDist([]byte(key), ps)
	theirs := kb.SortClosestPeers(ps, kb.ConvertKey(key))
	if !vFrtEqualIDs(mine, theirs) {
		c.Fail("harness-distance-selfcheck", "monitor XOR arithmetic disagrees with kbucket.SortClosestPeers")
	}
}

func vC16Keys(c *vh.Case, v *vC16View, n int) []string {
	var keys []string
	for i := 0; i < n; i++ {
		if i == 0 && len(v.members) > 0 && c.R.Intn(2) == 0 {
			keys = append(keys, string(v.members[c.R.Intn(len(v.members))])) // a crawled peer's own id: distance 0
			continue
		}
		keys = append(keys, fmt.Sprintf("/verif/k-%d-%d", c.Idx, c.R.Int63()))
	}
	return keys
}

func TestVerif_C16_closest(t *testing.T) {
	vh.Run(t, vh.Spec{Prop: "C16", Unit: "closest", Quick: 400, Thorough: 15000, CostMs: 20,
		Rule:    "FullRT over a fake host with a fake crawler reporting 1-3 successive generated crawl results of 0-3000 peers (layouts: every peer its own /16; groups filled exactly to the limit; 1-3 overfull groups; mixed; legacy /8 blocks, IPv6 AS groups, peers with addresses in two groups, non-IP addresses; a dedicated 1/8 of the cases has peers with two addresses inside one group; peers the public filter must drop), crawls started by the real mechanisms (construction, TriggerRefresh, interval tick) in virtual time; K in {1,2,3,5,8,20}, limit in {0,1,2,3,5,default}; after each completed crawl 3-12 keys are compared with brute force (own XOR arithmetic), mid-crawl queries must still see the previous crawl; non-trivial = more than K crawled peers and limit active with a group at or over the limit, or limit disabled; distinct by (N, K, limit, layout, generation count)",
		Clauses: []string{"at-most-k", "distinct", "only-crawled-peers", "ascending", "ipgroup-limit", "exact-when-uncrowded", "table-is-last-crawl", "mid-crawl-serves-previous"}},
		func(c *vh.Case) {
			r := c.R
			vC16SelfCheckDistance(c)
			K := []int{1, 2, 3, 5, 8, 20}[r.Intn(6)]
			cfg := vFrtCfg{K: K, Interval: []time.Duration{time.Minute, time.Hour}[r.Intn(2)]}
			limit := []int{0, 1, 2, 3, 5, -1}[r.Intn(6)]
			if limit < 0 {
				cfg.NoLimitOpt = true
				limit = amino.DefaultMaxPeersPerIPGroup // documented default
			} else {
				cfg.Limit = limit
			}
			nGen := 1 + r.Intn(3)
			sameGroup := r.Intn(8) == 0
			var specs []vC16TableSpec
			for g := 0; g < nGen; g++ {
				ts := vC16TableSpec{Layout: []string{"distinct", "atlimit", "atlimit", "crowded", "crowded", "mixed"}[r.Intn(6)], SameGroup: sameGroup, Reuse: []float64{0, 0, 0.5, 0.9}[r.Intn(4)]}
				switch x := r.Intn(10); {
				case x < 1:
					ts.N = r.Intn(3)
				case x < 4:
					ts.N = 1 + r.Intn(40)
				case x < 8:
					ts.N = 30 + r.Intn(300)
				default:
					ts.N = 300 + r.Intn(2700)
				}
				specs = append(specs, ts)
			}
			delay := []time.Duration{0, 0, cfg.Interval / 8, cfg.Interval / 3}[r.Intn(4)]
			c.Set("K", K)
			c.Set("limit", limit)
			c.Set("limit_option_given", !cfg.NoLimitOpt)
			c.Set("tables", fmt.Sprintf("%+v", specs))
			c.Set("crawl_duration", delay.String())
			nt := false
			c.Bubble(t, 24*time.Hour, "closest-hang", func(t *testing.T) {
				self := vsim.PeerID("frt-self", c.Idx)
				h := vsim.NewHost(self, ma.StringCast("/ip4/9.9.9.9/tcp/4001"))
				defer h.Close()
				cr := &vFrtCrawler{h: h, Delay: delay}
				var gens []*vFrtGen
				var prev *vFrtGen
				for g, ts := range specs {
					gen := vC16GenTable(c, g, ts, limit, prev)
					gens = append(gens, gen)
					prev = gen
				}
				cr.Set(gens[0])
				d, err := vFrtNew(h, cr, cfg)
				if err != nil {
					c.Fail("harness-ctor", "NewFullRT: %v", err)
					return
				}
				defer d.Close()
				ctx := context.Background()
				counts := func() (int, int) {
					cr.mu.Lock()
					defer cr.mu.Unlock()
					return cr.started, cr.finished
				}
				// idle waits (in virtual time) until no crawl is in flight
				idle := func() bool {
					for i := 0; i < 100000; i++ {
						synctest.Wait()
						if s, f := counts(); s == f {
							return true
						}
						time.Sleep(time.Second)
					}
					return false
				}
				prevView := vC16NewView(&vFrtGen{Idx: -1})
				for g, gen := range gens {
					view := vC16NewView(gen)
					how := "construction"
					started0 := 0
					if g > 0 {
						if !idle() {
							c.Fail("harness-crawl-never-idle", "crawler still busy")
							return
						}
						started0, _ = counts()
						cr.Set(gen)
						if r.Intn(2) == 0 {
							how = "TriggerRefresh"
							if err := d.TriggerRefresh(ctx); err != nil {
								c.Fail("harness-trigger", "TriggerRefresh: %v", err)
								return
							}
						} else {
							how = "interval tick"
						}
						// wait for the crawl loop to hand the work to the crawler
						begun := false
						for i := 0; i < 250 && !begun; i++ {
							synctest.Wait()
							if s, _ := counts(); s > started0 {
								begun = true
							} else {
								time.Sleep(cfg.Interval / 100)
							}
						}
						if !begun {
							c.Fail("harness-crawl-not-run", "generation %d (%s): no crawl started within 2.5 crawl intervals", g, how)
							return
						}
					}
					if delay > 0 {
						// while the crawl is under way the table must still be the previous completed crawl
						time.Sleep(delay * 3 / 4)
						synctest.Wait()
						if s, f := counts(); s == started0+1 && f == started0 {
							for _, key := range vC16Keys(c, prevView, 2) {
								R, err := d.GetClosestPeers(ctx, key)
								ok := err == nil
								for _, p := range R {
									if !prevView.isMember[p] {
										ok = false
									}
								}
								c.Clause("mid-crawl-serves-previous")
								if !(ok && vFrtEqualIDs(R, vC16Expected(prevView, key, K, limit, R))) {
									sig := "mid-crawl-serves-previous"
									if ok && vC16IsSameGroupDrop(prevView, key, R, K, limit) {
										sig = "ipgroup/same-group-addrs-dropped"
									}
									c.FailSig("mid-crawl-serves-previous", sig, "generation %d (%s): mid-crawl result %v err=%v is not the answer for the previous completed crawl", g, how, vFrtShorts(R), err)
								}
							}
						}
					}
					if !idle() {
						c.Fail("harness-crawl-never-idle", "crawler still busy")
						return
					}
					if _, last := cr.Finished(); last != g {
						c.Fail("harness-crawl-not-run", "generation %d (%s): last finished crawl reported generation %d", g, how, last)
						return
					}
					// table = exactly the public, connected successes of this crawl
					stat := d.Stat()
					inStat := map[peer.ID]bool{}
					for _, p := range stat {
						inStat[p] = true
					}
					same := len(inStat) == len(view.members) && len(stat) == len(inStat)
					for _, p := range view.members {
						if !inStat[p] {
							same = false
						}
					}
					c.Check(same, "table-is-last-crawl", "generation %d (%s): Stat() has %d entries (%d distinct peers), the crawl reported %d public connected peers", g, how, len(stat), len(inStat), len(view.members))
					nk := min(12, max(3, 3000/max(len(view.members), 1)))
					for _, key := range vC16Keys(c, view, nk) {
						R, err := d.GetClosestPeers(ctx, key)
						if !c.Check(err == nil, "no-error", "GetClosestPeers: %v", err) {
							continue
						}
						vC16Judge(c, view, key, R, K, limit, fmt.Sprintf("gen %d via %s, key %q", g, how, vC16KeyName(key)))
						c.Obs("queries", 1)
					}
					c.Obs("crawled_peers", len(view.members))
					c.ObsMax("group", view.maxGroup)
					if len(view.members) > K && (limit <= 0 || view.maxGroup >= limit) {
						nt = true
					}
					prevView = view
				}
				runs, _ := cr.Finished()
				c.Obs("crawls", runs)
				cr.mu.Lock()
				c.Obs("seed_lists_with_duplicates", cr.seedDups)
				cr.mu.Unlock()
			})
			if nt {
				var ns []string
				for _, s := range specs {
					ns = append(ns, fmt.Sprintf("%d%s", s.N, s.Layout))
				}
				c.Nontrivial(fmt.Sprintf("%s/%d/%d/%v", strings.Join(ns, ","), K, limit, sameGroup))
			}
		})
}

func vC16KeyName(key string) string {
	if strings.HasPrefix(key, "/verif/") {
		return key
	}
	return "peer:" + vsim.Short(peer.ID(key))
}

// vC16Expected returns the answer the oracle can pin down for a quiescent table: the K nearest
// when the table is uncrowded; otherwise the result itself if it satisfies the weaker clauses
// (ascending subset within the limit) — used by the mid-crawl clause only.
func vC16Expected(v *vC16View, key string, K, limit int, R []peer.ID) []peer.ID {
	if limit <= 0 || v.maxGroup <= limit {
		return vsim.Nearest([]byte(key), v.members, K)
	}
	if !vC16Ascending(key, R) || len(R) > K {
		return nil
	}
	return R
}

var _ = sha256.Sum256
var _ = sort.Strings

func newRand(seed int64) *rand.Rand { return rand.New(rand.NewSource(seed)) }

// ---- swap: readers during crawl swaps (race build, real parallelism) ------------------------------

func TestVerifRace_C16_swap(t *testing.T) {
	vh.Run(t, vh.Spec{Prop: "C16", Unit: "swap", Quick: 40, Thorough: 1500, CostMs: 110, WallS: 300,
		Rule:    "FullRT with a fake crawler; 5-12 generations with pairwise DISJOINT peer sets (each larger than K: 30-500 peers, every peer its own /16, or overfull groups with a limit) (every second case: 1-3 members of the first generation are the configured bootstrap peers, their ids among the keys) are swapped in through TriggerRefresh while 4 reader goroutines call GetClosestPeers on 12 fixed keys in real parallelism under the race detector; every result must consist of peers of one generation, be the brute-force answer for that generation, and the generation seen by one reader never goes back; non-trivial = readers observed at least 3 different generations; distinct by (K, limit, sizes, observed generation sequence)",
		Clauses: []string{"swap-single-generation", "swap-correct-for-generation", "swap-monotonic", "swap-final-table"}},
		func(c *vh.Case) {
			r := c.R
			K := []int{1, 3, 5, 20}[r.Intn(4)]
			limit := []int{0, 0, 2, 3}[r.Intn(4)]
			crowded := limit > 0 && r.Intn(2) == 0
			nGen := 5 + r.Intn(8)
			cfg := vFrtCfg{K: K, Limit: limit, Interval: time.Hour}
			self := vsim.PeerID("frt-self", c.Idx)
			h := vsim.NewHost(self, ma.StringCast("/ip4/9.9.9.9/tcp/4001"))
			defer h.Close()
			cr := &vFrtCrawler{h: h}
			var views []*vC16View
			genOf := map[peer.ID]int{}
			var sizes []int
			for g := 0; g < nGen; g++ {
				ts := vC16TableSpec{N: K + 10 + r.Intn(490), Layout: "distinct"}
				if crowded {
					ts.Layout = "crowded"
				}
				gen := vC16GenTable(c, g, ts, limit, nil)
				gen.Fails = nil
				v := vC16NewView(gen)
				views = append(views, v)
				sizes = append(sizes, len(v.members))
				for _, p := range gen.Peers {
					genOf[p.ID] = g
				}
			}
			keys := make([]string, 12)
			for i := range keys {
				keys[i] = fmt.Sprintf("/verif/swap-%d-%d", c.Idx, r.Int63())
			}
			// every second case: 1-3 members of the FIRST generation are the configured bootstrap peers (found by the
			// first crawl, gone in every later one like the rest of their generation), and their ids are among the keys
			// asked, so that a bootstrap peer that stays in the table is the nearest peer of a key
			nBoot := 0
			if c.Idx%2 == 1 {
				for _, p := range views[0].gen.Peers {
					if nBoot >= 1+c.Idx%3 {
						break
					}
					if views[0].isMember[p.ID] {
						cfg.Bootstrap = append(cfg.Bootstrap, peer.AddrInfo{ID: p.ID, Addrs: p.Addrs})
						keys = append(keys, string(p.ID))
						nBoot++
					}
				}
			}
			c.Set("bootstrap_peers_in_first_generation", nBoot)
			want := make([]map[string][]peer.ID, nGen)
			for g, v := range views {
				want[g] = map[string][]peer.ID{}
				for _, k := range keys {
					want[g][k] = vsim.Nearest([]byte(k), v.members, K)
				}
			}
			c.Set("K", K)
			c.Set("limit", limit)
			c.Set("crowded", crowded)
			c.Set("generation_sizes", sizes)
			cr.Set(views[0].gen)
			d, err := vFrtNew(h, cr, cfg)
			if err != nil {
				c.Fail("harness-ctor", "NewFullRT: %v", err)
				return
			}
			defer d.Close()
			ctx := context.Background()
			// wait (pacing, not a verdict) for the initial crawl, then for the crawl loop to be back at its
			// select: TriggerRefresh is only received there, i.e. after the initial crawl was swapped in
			for i := 0; ; i++ {
				if n, _ := cr.Finished(); n >= 1 {
					break
				}
				if i > 200000 {
					c.Fail("harness-crawl-not-run", "initial crawl did not finish")
					return
				}
				time.Sleep(100 * time.Microsecond)
			}
			if err := d.TriggerRefresh(ctx); err != nil {
				c.Fail("harness-trigger", "TriggerRefresh: %v", err)
				return
			}
			// Known finding #13 (configured limit never reaches the instance) is judged by unit "closest";
			// this unit isolates the swap: results are judged against the limit the instance really applies.
			effLimit := d.ipDiversityFilterLimit
			c.Set("limit_effective_at_rest", effLimit == limit)
			stop := make(chan struct{})
			type rd struct {
				n    int
				seen []int
			}
			readers := make([]*rd, 4)
			done := make(chan struct{}, len(readers))
			for i := range readers {
				rdr := &rd{}
				readers[i] = rdr
				seed := r.Int63()
				go func(i int) {
					defer func() { done <- struct{}{} }()
					rr := newRand(seed)
					last := -1
					for {
						select {
						case <-stop:
							return
						default:
						}
						key := keys[rr.Intn(len(keys))]
						R, err := d.GetClosestPeers(ctx, key)
						rdr.n++
						if err != nil {
							c.Fail("swap-no-error", "GetClosestPeers: %v", err)
							continue
						}
						g, one := -1, len(R) > 0
						for _, p := range R {
							pg, ok := genOf[p]
							if !ok || (g >= 0 && pg != g) {
								one = false
							}
							g = pg
						}
						if !c.Check(one, "swap-single-generation", "reader %d call %d: result %v (len %d) does not consist of peers of one generation (every generation holds more than K=%d peers; previous result was from generation %d)", i, rdr.n, vFrtShorts(R), len(R), K, last) {
							continue
						}
						if crowded && effLimit > 0 {
							// overfull groups: the answer is not pinned down, but it must be ascending and within the limit
							cnt := map[string]int{}
							worst := 0
							for _, p := range R {
								for _, x := range views[g].groups[p] {
									cnt[x]++
									worst = max(worst, cnt[x])
								}
							}
							c.Clause("swap-correct-for-generation")
							if worst > effLimit {
								c.FailSig("swap-correct-for-generation", "swap-limit-bypassed", "reader %d call %d: %d returned peers of generation %d share an IP group, limit %d (respected on the quiescent table): %v", i, rdr.n, worst, g, effLimit, vFrtShorts(R))
							}
							c.Check(vC16Ascending(key, R) && len(R) <= K, "swap-ascending", "reader %d call %d: %v not ascending / longer than K", i, rdr.n, vFrtShorts(R))
						} else {
							c.Check(vFrtEqualIDs(R, want[g][key]), "swap-correct-for-generation", "reader %d call %d: result %v lies in generation %d but its %d nearest are %v", i, rdr.n, vFrtShorts(R), g, K, vFrtShorts(want[g][key]))
						}
						c.Check(g >= last, "swap-monotonic", "reader %d call %d: result from generation %d after an earlier call had already returned generation %d", i, rdr.n, g, last)
						if g != last {
							rdr.seen = append(rdr.seen, g)
						}
						last = g
					}
				}(i)
			}
			for g := 1; g < nGen; g++ {
				cr.Set(views[g].gen)
				if err := d.TriggerRefresh(ctx); err != nil {
					c.Fail("harness-trigger", "TriggerRefresh: %v", err)
					break
				}
				time.Sleep(time.Duration(r.Intn(3000)) * time.Microsecond) // pacing only
			}
			// flush: returns when the crawl of the last generation has been swapped in
			_ = d.TriggerRefresh(ctx)
			time.Sleep(2 * time.Millisecond)
			close(stop)
			for range readers {
				<-done
			}
			_ = d.TriggerRefresh(ctx)
			stat := d.Stat()
			last := views[nGen-1]
			same := len(stat) == len(last.members)
			for _, p := range stat {
				if !last.isMember[p] {
					same = false
				}
			}
			c.Check(same, "swap-final-table", "after the last crawl Stat() has %d entries, generation %d has %d members", len(stat), nGen-1, len(last.members))
			total, distinct := 0, map[int]bool{}
			var seq []string
			for _, rdr := range readers {
				total += rdr.n
				for _, g := range rdr.seen {
					distinct[g] = true
				}
				seq = append(seq, fmt.Sprint(rdr.seen))
			}
			c.Obs("reads", total)
			c.Obs("swaps", nGen-1)
			c.ObsMax("generations_seen_by_readers", len(distinct))
			c.Logf("generations seen per reader: %s", strings.Join(seq, " "))
			if len(distinct) >= 3 {
				c.Nontrivial(fmt.Sprintf("%d/%d/%v/%s", K, limit, sizes, strings.Join(seq, "")))
			}
		})
}

// ---- safety: empty table / missing construction options ---------------------------------------------

type vC16Op struct {
	Name   string
	Store  bool // an operation that must not report success when nothing could be stored
	Lookup bool // an operation that must report an error when nothing can be found
	Bulk   bool
	Run    func(ctx context.Context) (empty bool, err error)
}

// vC16Call runs one operation with panic recovery and a virtual-time measurement.
func vC16Call(c *vh.Case, op vC16Op, emptyTable bool, budget time.Duration) {
	ctx, cancel := context.WithCancel(context.Background())
	defer cancel()
	start := time.Now()
	var (
		empty bool
		err   error
		pan   any
		stack string
	)
	func() {
		defer func() {
			if r := recover(); r != nil {
				pan = r
				stack = string(debug.Stack())
			}
		}()
		empty, err = op.Run(ctx)
	}()
	took := time.Since(start)
	c.Obs("operations", 1)
	c.Clause("no-panic")
	if pan != nil {
		sig := "panic@" + vh.TopRepoFrame([]byte(stack)) + "/" + op.Name
		if op.Bulk && emptyTable && strings.Contains(fmt.Sprint(pan), "divide by zero") {
			sig = "bulk/empty-table/div0"
		}
		c.FailSig("no-panic", sig, "%s panicked: %v\n%s", op.Name, pan, vC16Trim(stack, 3000))
		return
	}
	c.Check(took <= budget, "returns-promptly", "%s took %v of virtual time on an instance that has nobody to talk to (budget %v)", op.Name, took, budget)
	if !emptyTable {
		return
	}
	switch {
	case op.Store:
		c.Check(err != nil, "store-on-empty-table-errors", "%s reported success although the routing table is empty (nothing can have been stored)", op.Name)
	case op.Lookup:
		c.Check(err != nil, "lookup-on-empty-table-errors", "%s returned no error on an empty routing table", op.Name)
	default:
		c.Check(err != nil || empty, "empty-table-error-or-empty", "%s returned a non-empty result without error on an empty routing table", op.Name)
	}
}

func vC16Trim(s string, n int) string {
	if len(s) > n {
		return s[:n] + "…"
	}
	return s
}

func TestVerif_C16_safety(t *testing.T) {
	vC16StartRealClock()
	vh.Run(t, vh.Spec{Prop: "C16", Unit: "safety", Quick: 240, Thorough: 8000, CostMs: 8,
		Rule:    "two case kinds. ctor (1/3): NewFullRT on a fake host with a PRNG subset of construction options missing (BootstrapPeers, BucketSize, Validator, crawler, limit, message sender), called under recover, then closed. ops (2/3): an instance whose table stays empty (crawler reporting nothing / only failures / only peers the public filter drops / default crawler with unreachable bootstrap peers; options missing at random; providers or values disabled in some cases) is sent every single and bulk operation (GetClosestPeers, FindPeer, GetValue, SearchValue, PutValue, Provide, FindProviders(Async), ProvideMany, PutMany incl. zero keys and mismatched lengths, CheckPeers, Bootstrap, Ready, Stat) in PRNG order inside a virtual-time bubble, each under recover; a dedicated 1/24 of the ops cases omits BucketSize on a NON-empty table, another 1/24 runs all operations with K=1 and 1-2 bulk keys on a NON-empty table of 5-34 peers (bulk chunk size rounding to zero), judged for panics and promptness; non-trivial = at least 10 operations returned; distinct by (kind, options, order)",
		Clauses: []string{"ctor-no-panic", "no-panic", "returns-promptly", "store-on-empty-table-errors", "lookup-on-empty-table-errors", "empty-table-error-or-empty", "channel-closed", "close-returns"}},
		func(c *vh.Case) {
			r := c.R
			self := vsim.PeerID("frt-self", c.Idx)
			if r.Intn(3) == 0 {
				vC16SafetyCtor(c, self)
				return
			}
			vC16SafetyOps(t, c, self)
		})
}

func vC16SafetyCtor(c *vh.Case, self peer.ID) {
	r := c.R
	h := vsim.NewHost(self, ma.StringCast("/ip4/9.9.9.9/tcp/4001"))
	defer h.Close()
	cfg := vFrtCfg{K: 20, NoBootstrap: r.Intn(2) == 0, NoBucketSize: r.Intn(2) == 0, NoLimitOpt: r.Intn(2) == 0, Limit: r.Intn(4)}
	if r.Intn(2) == 0 {
		cfg.Validator, _ = vFrtNsValidator()
	}
	if r.Intn(2) == 0 {
		cfg.Sim = vsim.NewSim(h, 20)
	}
	var cr crawler.Crawler
	if r.Intn(2) == 0 {
		cr = &vFrtCrawler{h: h}
	}
	c.Set("kind", "ctor")
	c.Set("missing", fmt.Sprintf("bootstrap=%v bucketsize=%v limit=%v validator=%v sender=%v crawler=%v", cfg.NoBootstrap, cfg.NoBucketSize, cfg.NoLimitOpt, cfg.Validator == nil, cfg.Sim == nil, cr == nil))
	var d *FullRT
	var err error
	var pan any
	var stack string
	func() {
		defer func() {
			if rr := recover(); rr != nil {
				pan, stack = rr, string(debug.Stack())
			}
		}()
		d, err = vFrtNew(h, cr, cfg)
	}()
	c.Clause("ctor-no-panic")
	if pan != nil {
		sig := "ctor/panic@" + vh.TopRepoFrame([]byte(stack))
		if cfg.NoBootstrap && strings.Contains(fmt.Sprint(pan), "nil pointer") {
			sig = "ctor/nil-bootstrap-peers"
		}
		c.FailSig("ctor-no-panic", sig, "NewFullRT panicked (BootstrapPeers option missing=%v): %v\n%s", cfg.NoBootstrap, pan, vC16Trim(stack, 3000))
		return
	}
	c.Obs("constructions", 1)
	if err != nil {
		c.Logf("NewFullRT returned error: %v", err)
		return
	}
	func() {
		defer func() {
			if rr := recover(); rr != nil {
				c.FailSig("no-panic", "close/panic@"+vh.TopRepoFrame(debug.Stack()), "Close panicked: %v", rr)
			}
		}()
		_ = d.Stat()
		_ = d.Ready()
		d.Close()
	}()
}

func vC16SafetyOps(t *testing.T, c *vh.Case, self peer.ID) {
	r := c.R
	cfg := vFrtCfg{K: []int{1, 3, 20}[r.Intn(3)], NoBucketSize: r.Intn(4) == 0, NoLimitOpt: r.Intn(2) == 0, Limit: r.Intn(4), Interval: time.Hour,
		BulkPar: []int{0, 1, 4}[r.Intn(3)], TimeoutPerOp: []time.Duration{0, time.Second}[r.Intn(2)]}
	useValidator := r.Intn(4) != 0
	disable := []string{"", "", "", "providers", "values"}[r.Intn(5)]
	crawlerKind := []string{"nothing", "failures", "filtered", "default"}[r.Intn(4)]
	classDraw := r.Intn(24)
	nonEmptyNoK := classDraw == 0
	// a populated table with every option present and so few keys that the bulk chunk size
	// (keys * 2K / table size) rounds down to zero: judged for panics and promptness only
	nonEmptySmallK := classDraw == 1
	if nonEmptySmallK {
		cfg.K, cfg.NoBucketSize, crawlerKind, disable = 1, false, "members", ""
	}
	if nonEmptyNoK {
		cfg.NoBucketSize, crawlerKind, disable = true, "members", ""
		if r.Intn(2) == 0 {
			cfg.NoLimitOpt, cfg.Limit = false, 0 // limit explicitly disabled: step stays 0 even when the configured limit reaches the instance
		}
	}
	order := r.Perm(17)
	nKeys := 1 + r.Intn(20)
	if nonEmptySmallK {
		nKeys = 1 + nKeys%2 // 2 * K * keys <= 4 < 5 <= table size
	}
	c.Set("kind", "ops")
	c.Set("options", fmt.Sprintf("K=%d bucketsize-missing=%v limit-missing=%v limit=%d validator=%v disabled=%q crawler=%s bulkpar=%d", cfg.K, cfg.NoBucketSize, cfg.NoLimitOpt, cfg.Limit, useValidator, disable, crawlerKind, cfg.BulkPar))
	returned := 0
	c.Bubble(t, 2*time.Hour, "safety-hang", func(t *testing.T) {
		h := vsim.NewHost(self, ma.StringCast("/ip4/9.9.9.9/tcp/4001"))
		defer h.Close()
		sim := vsim.NewSim(h, 20)
		cfg.Sim = sim
		if useValidator {
			cfg.Validator, _ = vFrtNsValidator()
		}
		switch disable {
		case "providers":
			cfg.DHTOpts = append(cfg.DHTOpts, kaddht.DisableProviders())
		case "values":
			cfg.DHTOpts = append(cfg.DHTOpts, kaddht.DisableValues())
		}
		var cr crawler.Crawler
		fc := &vFrtCrawler{h: h}
		cr = fc
		switch crawlerKind {
		case "nothing":
			if r.Intn(2) == 0 {
				fc.Set(&vFrtGen{})
			}
		case "failures":
			fc.Set(&vFrtGen{Fails: []peer.ID{vsim.PeerID("sf", 1), vsim.PeerID("sf", 2)}})
		case "filtered":
			fc.Set(&vFrtGen{Peers: []vFrtPeer{
				{ID: vsim.PeerID("sf", 3), Addrs: []ma.Multiaddr{vFrtGroupAddr(1, 1, false)}, NoConn: true},
				{ID: vsim.PeerID("sf", 4), Addrs: []ma.Multiaddr{ma.StringCast("/ip4/192.168.1.4/tcp/4001")}, Private: true}}})
		case "default":
			// the real crawler over the simulated network: bootstrap peers that are dead or have no address
			dc, err := crawler.NewDefaultCrawler(h, crawler.WithParallelism(4), crawler.WithCustomMessageSender(sim.Builder()))
			if err != nil {
				c.Fail("harness-ctor", "NewDefaultCrawler: %v", err)
				return
			}
			cr = dc
			dead := vsim.PeerID("sf", 5)
			sim.Add(&vsim.SimPeer{ID: dead, Dead: true, Addrs: []ma.Multiaddr{vFrtGroupAddr(2, 1, false)}})
			cfg.Bootstrap = []peer.AddrInfo{{ID: dead, Addrs: []ma.Multiaddr{vFrtGroupAddr(2, 1, false)}}, {ID: vsim.PeerID("sf", 6)}}
		case "members":
			fc.Set(vC16GenTable(c, 0, vC16TableSpec{N: 5 + r.Intn(30), Layout: "distinct"}, 0, nil))
		}
		d, err := vFrtNew(h, cr, cfg)
		if err != nil {
			c.Fail("harness-ctor", "NewFullRT: %v", err)
			return
		}
		closed := false
		defer func() {
			if !closed {
				d.Close()
			}
		}()
		time.Sleep(30 * time.Second) // the initial crawl (dial timeouts of dead bootstrap peers included) is over
		synctest.Wait()
		tableEmpty := len(d.Stat()) == 0
		if !nonEmptyNoK && !nonEmptySmallK && !tableEmpty {
			c.Fail("harness-table-not-empty", "table has %d peers", len(d.Stat()))
			return
		}
		if nonEmptyNoK && d.bucketSize+2*d.ipDiversityFilterLimit <= 0 && !tableEmpty {
			// GetClosestPeers advances its scan by bucketSize + 2*limit = 0 per round over a non-empty
			// table: a busy loop that virtual time cannot observe. The deterministic precondition is
			// confirmed in real time (which can only withdraw the verdict), then the process must exit.
			done := make(chan struct{})
			go func() {
				defer func() { recover(); close(done) }()
				d.GetClosestPeers(context.Background(), "/v/spin")
			}()
			confirmed := vC16RealWait(done, 3*time.Second)
			c.Clause("no-hang")
			if confirmed {
				c.FailSig("no-hang", "gcp/no-bucket-size/spin", "NewFullRT without a BucketSize option succeeded (bucketSize=%d, effective limit=%d) and GetClosestPeers on a table of %d peers did not return within 3 s of real time: its scan loop advances by bucketSize+2*limit = 0 (fullrt/dht.go GetClosestPeers), spinning while holding the three read locks", d.bucketSize, d.ipDiversityFilterLimit, len(d.Stat()))
				c.ExitNow()
			}
		}
		budget := 20 * time.Second
		mkKey := func(i int) string { return fmt.Sprintf("/v/safety-%d-%d", c.Idx, i) }
		mkCid := func(i int) cid.Cid {
			m, _ := mh.Sum([]byte(fmt.Sprintf("safety-%d-%d", c.Idx, i)), mh.SHA2_256, -1)
			return cid.NewCidV1(cid.Raw, m)
		}
		var mhs []mh.Multihash
		var keys []string
		var vals [][]byte
		for i := 0; i < nKeys; i++ {
			mhs = append(mhs, mkCid(100+i).Hash())
			keys = append(keys, mkKey(100+i))
			vals = append(vals, vFrtVal(mkKey(100+i), i, time.Time{}, "bulk"))
		}
		drainBytes := func(ch <-chan []byte, err error) (bool, error) {
			if err != nil {
				return true, err
			}
			n := 0
			tm := time.NewTimer(budget)
			defer tm.Stop()
			for {
				select {
				case _, ok := <-ch:
					if !ok {
						c.Clause("channel-closed")
						return n == 0, nil
					}
					n++
				case <-tm.C:
					c.Fail("channel-closed", "SearchValue channel still open after %v", budget)
					return n == 0, nil
				}
			}
		}
		ops := []vC16Op{
			{Name: "GetClosestPeers", Run: func(ctx context.Context) (bool, error) {
				ps, err := d.GetClosestPeers(ctx, mkKey(1))
				return len(ps) == 0, err
			}},
			{Name: "FindPeer", Lookup: true, Run: func(ctx context.Context) (bool, error) {
				_, err := d.FindPeer(ctx, vsim.PeerID("sf-target", c.Idx))
				return true, err
			}},
			{Name: "GetValue", Lookup: true, Run: func(ctx context.Context) (bool, error) {
				v, err := d.GetValue(ctx, mkKey(2))
				return v == nil, err
			}},
			{Name: "SearchValue", Run: func(ctx context.Context) (bool, error) {
				return drainBytes(d.SearchValue(ctx, mkKey(3)))
			}},
			{Name: "PutValue", Store: true, Run: func(ctx context.Context) (bool, error) {
				return true, d.PutValue(ctx, mkKey(4), vFrtVal(mkKey(4), 1, time.Time{}, "put"))
			}},
			{Name: "Provide/broadcast", Store: true, Run: func(ctx context.Context) (bool, error) {
				return true, d.Provide(ctx, mkCid(5), true)
			}},
			{Name: "Provide/local", Run: func(ctx context.Context) (bool, error) {
				return true, d.Provide(ctx, mkCid(6), false)
			}},
			{Name: "Provide/undefined-cid", Run: func(ctx context.Context) (bool, error) {
				return true, d.Provide(ctx, cid.Undef, true)
			}},
			{Name: "FindProviders", Run: func(ctx context.Context) (bool, error) {
				ps, err := d.FindProviders(ctx, mkCid(7))
				return len(ps) == 0, err
			}},
			{Name: "FindProvidersAsync", Run: func(ctx context.Context) (bool, error) {
				ch := d.FindProvidersAsync(ctx, mkCid(8), r.Intn(3))
				n := 0
				tm := time.NewTimer(budget)
				defer tm.Stop()
				for {
					select {
					case _, ok := <-ch:
						if !ok {
							c.Clause("channel-closed")
							return n == 0, nil
						}
						n++
					case <-tm.C:
						c.Fail("channel-closed", "FindProvidersAsync channel still open after %v", budget)
						return n == 0, nil
					}
				}
			}},
			{Name: "ProvideMany", Store: true, Bulk: true, Run: func(ctx context.Context) (bool, error) {
				return true, d.ProvideMany(ctx, mhs)
			}},
			{Name: "ProvideMany/no-keys", Bulk: true, Run: func(ctx context.Context) (bool, error) {
				return true, d.ProvideMany(ctx, nil)
			}},
			{Name: "PutMany", Store: true, Bulk: true, Run: func(ctx context.Context) (bool, error) {
				return true, d.PutMany(ctx, keys, vals)
			}},
			{Name: "PutMany/mismatch", Store: true, Bulk: true, Run: func(ctx context.Context) (bool, error) {
				return true, d.PutMany(ctx, keys, vals[:len(vals)-1])
			}},
			{Name: "CheckPeers", Run: func(ctx context.Context) (bool, error) {
				ok, total := d.CheckPeers(ctx)
				return ok == 0 && total == 0, nil
			}},
			{Name: "Bootstrap", Run: func(ctx context.Context) (bool, error) {
				return true, d.Bootstrap(ctx)
			}},
			{Name: "Ready+Stat", Run: func(ctx context.Context) (bool, error) {
				return !d.Ready() && len(d.Stat()) == 0, nil
			}},
		}
		var names []string
		for _, i := range order {
			op := ops[i]
			vC16Call(c, op, tableEmpty, budget)
			returned++
			names = append(names, op.Name)
		}
		c.Logf("order: %s", strings.Join(names, " "))
		t0 := time.Now()
		func() {
			defer func() {
				if rr := recover(); rr != nil {
					c.FailSig("no-panic", "close/panic@"+vh.TopRepoFrame(debug.Stack()), "Close panicked: %v", rr)
				}
			}()
			d.Close()
			closed = true
		}()
		c.Check(time.Since(t0) <= budget, "close-returns", "Close took %v of virtual time", time.Since(t0))
	})
	if returned >= 10 {
		c.Nontrivial(fmt.Sprintf("%s/%v", c.Spec.Unit, order))
	}
}

// A real-time tick counter driven from outside any bubble: inside a bubble the time package is
// virtual, and a busy loop of the code under test never lets virtual time advance.
var (
	vC16RealTicks atomic.Int64
	vC16RealOnce  sync.Once
)

// vC16StartRealClock must be called from a goroutine that is not in a bubble.
func vC16StartRealClock() {
	vC16RealOnce.Do(func() {
		go func() {
			for {
				time.Sleep(10 * time.Millisecond)
				vC16RealTicks.Add(1)
			}
		}()
	})
}

// vC16RealWait polls (without blocking, so that it works inside a bubble) until done is closed or
// d of REAL time has passed.
func vC16RealWait(done <-chan struct{}, d time.Duration) (timedOut bool) {
	end := vC16RealTicks.Load() + int64(d/(10*time.Millisecond))
	for vC16RealTicks.Load() < end {
		select {
		case <-done:
			return false
		default:
		}
		runtime.Gosched()
	}
	select {
	case <-done:
		return false
	default:
		return true
	}
}
