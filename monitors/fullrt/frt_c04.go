//go:build verif

package fullrt

// C04 (accelerated-client half) — FullRT.GetValue / SearchValue only yield values the configured
// validator accepts for the requested key (the locally stored record included), the streamed
// values strictly improve, and the final value ranks at least as good as every valid value
// supplied before the search ended.

import (
	"bytes"
	"context"
	"errors"
	"fmt"
	"sort"
	"strings"
	"testing"
	"testing/synctest"
	"time"

	recpb "github.com/libp2p/go-libp2p-record/pb"
	"github.com/libp2p/go-libp2p/core/routing"

	kaddht "github.com/libp2p/go-libp2p-kad-dht"
	"github.com/libp2p/go-libp2p-kad-dht/internal/verif/vh"
	"github.com/libp2p/go-libp2p-kad-dht/internal/verif/vsim"
	pb "github.com/libp2p/go-libp2p-kad-dht/pb"
)

type vC04Scn struct {
	NC       vFrtNetCfg
	Key      string
	OtherKey string
	RecKind  []string // per peer: valid | stale | invalid | otherkey | miskeyed | empty | samelocal (byte-identical to the local record) | none
	Rank     []int
	Local    string // none | valid | expires (valid when stored, rejected by the validator at search time)
	LocalRnk int
	Quorum   int // -1: option not given
	Op       string
}

func vC04Gen(c *vh.Case) vC04Scn {
	r := c.R
	sc := vC04Scn{}
	n := 1 + r.Intn(30)
	k := []int{1, 2, 3, 5, 8, 20}[r.Intn(6)]
	maxDelay := []int{5, 80, 900}[r.Intn(3)]
	failFrac := []float64{0, 0, 0.2, 0.5}[r.Intn(4)]
	sc.NC = vFrtNetCfg{NS: fmt.Sprintf("c04-%d", c.Idx), N: n, SimK: k}
	sc.NC.Frt = vFrtCfg{K: k, Limit: 0, Interval: 100 * time.Hour,
		WaitFrac:     []float64{0.1, 0.3, 0.5, 1}[r.Intn(4)],
		TimeoutPerOp: []time.Duration{500 * time.Millisecond, 5 * time.Second}[r.Intn(2)]}
	sc.Key = fmt.Sprintf("/v/c04-%d-%d", c.Idx, r.Int63())
	sc.OtherKey = sc.Key + "-other"
	holdFrac := []float64{0.1, 0.4, 0.9}[r.Intn(3)]
	badFrac := []float64{0, 0.3, 0.7, 1}[r.Intn(4)]
	for i := 0; i < n; i++ {
		kind := "ok"
		if r.Float64() < failFrac {
			kind = []string{"dead", "reqerr", "silent", "late"}[r.Intn(4)]
		}
		sc.NC.Kinds = append(sc.NC.Kinds, kind)
		sc.NC.Base = append(sc.NC.Base, time.Duration(1+r.Intn(maxDelay))*time.Millisecond)
		sc.NC.Disconnected = append(sc.NC.Disconnected, r.Intn(4) == 0)
		rk := "none"
		if r.Float64() < holdFrac {
			rk = "valid"
			if r.Float64() < badFrac {
				rk = []string{"stale", "invalid", "otherkey", "miskeyed", "empty"}[r.Intn(5)]
			}
		}
		sc.RecKind = append(sc.RecKind, rk)
		sc.Rank = append(sc.Rank, 1+r.Intn(6))
	}
	sc.Local = []string{"none", "none", "valid", "expires"}[r.Intn(4)]
	sc.LocalRnk = 1 + r.Intn(7)
	if sc.Local != "none" {
		// we usually hold a record because we are one of its holders: other holders serve the very same bytes
		for i := range sc.RecKind {
			if r.Intn(3) == 0 {
				sc.RecKind[i] = "samelocal"
			}
		}
	}
	sc.Quorum = []int{-1, 0, 1, 2, k}[r.Intn(5)]
	sc.Op = []string{"SearchValue", "GetValue"}[r.Intn(2)]
	return sc
}

type vC04Emission struct {
	Val []byte
	VT  time.Time
}

func TestVerif_C04_fullrt(t *testing.T) {
	vh.Run(t, vh.Spec{Prop: "C04", Unit: "fullrt", Quick: 600, Thorough: 20000, CostMs: 8,
		Rule:    "FullRT over a simulated network (1-30 crawled peers, K in {1,2,3,5,8,20}; 0-50% failing/silent/late) with a generated validator (value bound to its key, total rank order, optional expiry instant); each peer holds for the key: a valid record of rank 1-6 (holders of an even rank share identical bytes), an expired one, a malformed one, one whose value was made for another key, one filed under another key, an empty one, the very bytes of the local record (also when that one has expired meanwhile), or nothing; local store: nothing, a valid record, or a record that was valid when stored and is rejected by the validator when the search runs (clock advanced past its expiry); quorum option in {absent,0,1,2,K}; SearchValue (every emission time-stamped) or GetValue, un-cancelled, virtual time; non-trivial = at least 2 records were supplied and at least one of them was not acceptable, or at least 2 values were emitted; distinct by (shape, record mix, arrival order of the answers)",
		Clauses: []string{"yielded-valid", "strictly-improving", "yielded-was-supplied", "final-at-least-best-supplied", "quorum-completing-value-counts", "not-found-iff-nothing-valid"}},
		func(c *vh.Case) {
			sc := vC04Gen(c)
			c.Set("op", sc.Op)
			c.Set("N", sc.NC.N)
			c.Set("K", sc.NC.Frt.K)
			c.Set("quorum", sc.Quorum)
			c.Set("local", fmt.Sprintf("%s rank %d", sc.Local, sc.LocalRnk))
			mix := map[string]int{}
			for i, k := range sc.RecKind {
				mix[k+"/"+sc.NC.Kinds[i]]++
			}
			var ms []string
			for k, v := range mix {
				ms = append(ms, fmt.Sprintf("%s=%d", k, v))
			}
			sort.Strings(ms)
			c.Set("records", strings.Join(ms, " "))
			c.Bubble(t, 6*time.Hour, "search-hang", func(t *testing.T) {
				val, vcount := vFrtNsValidator()
				nc := sc.NC
				nc.Frt.Validator = val
				n, err := vFrtNewNet(c.Idx, nc, synctest.Wait)
				if err != nil {
					c.Fail("harness-ctor", "NewFullRT: %v", err)
					return
				}
				defer n.Close()
				ctx := context.Background()
				t0 := time.Now()
				far := t0.Add(48 * time.Hour)
				var local []byte
				switch sc.Local {
				case "valid":
					local = vFrtVal(sc.Key, sc.LocalRnk, far, "local")
				case "expires":
					local = vFrtVal(sc.Key, sc.LocalRnk, t0.Add(time.Minute), "local-expiring")
				}
				for i, id := range n.IDs {
					sp := n.S.Peer(id)
					tag := fmt.Sprintf("p%d", i)
					var rec *recpb.Record
					switch sc.RecKind[i] {
					case "samelocal":
						rec = &recpb.Record{Key: []byte(sc.Key), Value: local}
					case "valid":
						exp := time.Time{}
						if i%2 == 0 {
							exp = far
						}
						if sc.Rank[i]%2 == 0 {
							// holders of an even rank all serve the very same bytes (several peers holding the same
							// record is the normal case in a DHT): exercises the equal-value path of the selection
							tag, exp = "shared", time.Time{}
						}
						rec = &recpb.Record{Key: []byte(sc.Key), Value: vFrtVal(sc.Key, sc.Rank[i], exp, tag)}
					case "stale":
						rec = &recpb.Record{Key: []byte(sc.Key), Value: vFrtVal(sc.Key, sc.Rank[i]+10, t0.Add(-time.Hour), tag)}
					case "invalid":
						rec = &recpb.Record{Key: []byte(sc.Key), Value: []byte(fmt.Sprintf("garbage-%d;r=99", i))}
					case "otherkey":
						rec = &recpb.Record{Key: []byte(sc.Key), Value: vFrtVal(sc.OtherKey, sc.Rank[i]+10, time.Time{}, tag)}
					case "miskeyed":
						rec = &recpb.Record{Key: []byte(sc.OtherKey), Value: vFrtVal(sc.OtherKey, sc.Rank[i]+10, time.Time{}, tag)}
					case "empty":
						rec = &recpb.Record{Key: []byte(sc.Key)}
					}
					if rec != nil {
						sp.Values[sc.Key] = rec
					}
				}
				// local record, stored through the instance's own store (validated at that moment)
				if local != nil {
					if err := n.D.putLocal(ctx, sc.Key, &recpb.Record{Key: []byte(sc.Key), Value: local}); err != nil {
						c.Fail("harness-putlocal", "putLocal: %v", err)
						return
					}
				}
				time.Sleep(10 * time.Minute) // the expiring local record is now rejected by the validator
				synctest.Wait()
				logBefore := len(n.S.Log())
				var opts []routing.Option
				if sc.Quorum >= 0 {
					opts = append(opts, kaddht.Quorum(sc.Quorum))
				}
				var ems []vC04Emission
				var opErr error
				start := time.Now()
				switch sc.Op {
				case "SearchValue":
					ch, err := n.D.SearchValue(ctx, sc.Key, opts...)
					opErr = err
					if err == nil {
						synctest.Wait() // the consumer is not there yet when the search offers its first value (no virtual time passes)
						for v := range ch {
							ems = append(ems, vC04Emission{Val: v, VT: time.Now()})
							// not receiving right now: everything else runs until it blocks (no virtual time passes), so a
							// value offered at this very instant finds the consumer busy, as with any real consumer
							synctest.Wait()
						}
					}
				case "GetValue":
					v, err := n.D.GetValue(ctx, sc.Key, opts...)
					opErr = err
					if v != nil {
						ems = append(ems, vC04Emission{Val: v, VT: time.Now()})
					}
				}
				closeVT := time.Now()
				synctest.Wait()

				// what was supplied, and when
				type supply struct {
					Val  []byte
					VT   time.Time
					From string
				}
				var sup []supply
				if local != nil {
					sup = append(sup, supply{Val: local, VT: start, From: "local"})
				}
				answers := 0
				var arrival []string
				for _, e := range n.S.Log()[logBefore:] {
					if e.Kind != vsim.EvReply || e.Type != pb.Message_GET_VALUE || e.Err != "" || string(e.Key) != sc.Key {
						continue
					}
					answers++
					arrival = append(arrival, n.Name(e.Peer))
					if e.Record == nil || !bytes.Equal(e.Record.GetKey(), []byte(sc.Key)) {
						continue // no record, or a record filed under another key (the protocol layer turns that answer into an error)
					}
					if len(e.Record.GetValue()) == 0 {
						continue
					}
					sup = append(sup, supply{Val: e.Record.GetValue(), VT: e.VT, From: n.Name(e.Peer)})
				}
				c.Obs("get_value_answers", answers)
				c.Obs("records_supplied", len(sup))
				c.Obs("values_emitted", len(ems))
				c.Obs("validator_calls", vcount.Calls)

				// (1) every yielded value is valid for the key at emission time
				for _, e := range ems {
					verr := vFrtValidAt(sc.Key, e.Val, e.VT)
					c.Clause("yielded-valid")
					if verr != nil {
						sig := "yielded-valid"
						fromPeer := false
						for _, s := range sup {
							if s.From != "local" && bytes.Equal(s.Val, e.Val) {
								fromPeer = true
							}
						}
						if local != nil && bytes.Equal(local, e.Val) && !fromPeer {
							sig = "local-record-not-validated"
						}
						c.FailSig("yielded-valid", sig, "%s yielded %q at +%v which the validator rejects at that instant: %v", sc.Op, e.Val, e.VT.Sub(start), verr)
					}
				}
				// (2) strictly improving
				for i := 1; i < len(ems); i++ {
					a, ea := vFrtParse(ems[i-1].Val)
					b, eb := vFrtParse(ems[i].Val)
					if ea == nil && eb == nil {
						c.Check(b.Rank > a.Rank, "strictly-improving", "emission %d (%q) does not rank strictly better than emission %d (%q)", i, ems[i].Val, i-1, ems[i-1].Val)
					}
				}
				if len(ems) == 1 {
					c.Clause("strictly-improving")
				}
				// (3) every yielded value was supplied no later than its emission
				for _, e := range ems {
					ok := false
					for _, s := range sup {
						if bytes.Equal(s.Val, e.Val) && !s.VT.After(e.VT) {
							ok = true
						}
					}
					c.Check(ok, "yielded-was-supplied", "%s yielded %q at +%v, which neither the local store nor any answer returned by then had supplied", sc.Op, e.Val, e.VT.Sub(start))
				}
				// (4) final >= every valid value supplied strictly before the end
				bestRank, bestFrom, anyValid := -1, "", false
				for _, s := range sup {
					if vFrtValidAt(sc.Key, s.Val, s.VT) != nil || vFrtValidAt(sc.Key, s.Val, closeVT) != nil {
						continue
					}
					anyValid = true
					if !s.VT.Before(closeVT) {
						continue
					}
					if p, err := vFrtParse(s.Val); err == nil && p.Rank > bestRank {
						bestRank, bestFrom = p.Rank, s.From
					}
				}
				if bestRank >= 0 {
					finalRank := -1
					if len(ems) > 0 {
						if p, err := vFrtParse(ems[len(ems)-1].Val); err == nil {
							finalRank = p.Rank
						}
					}
					c.Check(finalRank >= bestRank, "final-at-least-best-supplied", "%s ended at +%v with final rank %d, but a valid value of rank %d had been supplied by %s strictly before (quorum %d)", sc.Op, closeVT.Sub(start), finalRank, bestRank, bestFrom, sc.Quorum)
				}
				// (4b) quorum-ended searches: quorum+1 valid values are processed before the search may abort. The accelerated
				// client also stops waiting for other reasons (its waitFrac rule), and answers that arrive at the very instant
				// it stops may be dropped; so the clause speaks only when exactly quorum+1 valid values had been supplied by
				// the close, the last of them at the very instant of the close, and no other answer of any kind arrived at
				// that instant: that value completed the quorum, was processed, and the final value ranks at least as good
				if q := sc.Quorum; q > 0 {
					nv, top, topFrom := 0, -1, ""
					var lastVT time.Time
					for _, s := range sup {
						if vFrtValidAt(sc.Key, s.Val, s.VT) != nil || s.VT.After(closeVT) {
							continue
						}
						nv++
						if s.VT.After(lastVT) {
							lastVT = s.VT
						}
						if p, err := vFrtParse(s.Val); err == nil && p.Rank > top {
							top, topFrom = p.Rank, s.From
						}
					}
					atClose := 0
					for _, e := range n.S.Log()[logBefore:] {
						if e.Kind == vsim.EvReply && e.Type == pb.Message_GET_VALUE && e.VT.Equal(closeVT) {
							atClose++
						}
					}
					if nv == q+1 && lastVT.Equal(closeVT) && atClose == 1 {
						finalRank := -1
						if len(ems) > 0 {
							if p, err := vFrtParse(ems[len(ems)-1].Val); err == nil {
								finalRank = p.Rank
							}
						}
						c.Check(finalRank >= top, "quorum-completing-value-counts", "%s with quorum %d: %d valid values supplied by the close at +%v, the last one alone at that very instant (it completed the quorum), the best of rank %d by %s, but the final value has rank %d", sc.Op, q, nv, closeVT.Sub(start), top, topFrom, finalRank)
					}
				}
				// (5) nothing valid supplied => not found
				if !anyValid {
					ok := len(ems) == 0
					if sc.Op == "GetValue" {
						ok = ok && errors.Is(opErr, routing.ErrNotFound)
					}
					if len(ems) > 0 && local != nil && bytes.Equal(ems[0].Val, local) {
						c.Clause("not-found-iff-nothing-valid") // already reported by clause (1) with its own signature
					} else {
						c.Check(ok, "not-found-iff-nothing-valid", "%s: no valid value was supplied but %d value(s) were yielded, err=%v", sc.Op, len(ems), opErr)
					}
				} else if sc.Op == "GetValue" && len(ems) > 0 {
					c.Check(opErr == nil, "not-found-iff-nothing-valid", "GetValue returned a value and error %v", opErr)
				}
				c.Logf("arrival order: %s", strings.Join(arrival, " "))
				var es []string
				for _, e := range ems {
					es = append(es, fmt.Sprintf("+%v:%s", e.VT.Sub(start), e.Val))
				}
				c.Logf("emissions: %s ; closed +%v err=%v", strings.Join(es, " | "), closeVT.Sub(start), opErr)
				bad := 0
				for _, s := range sup {
					if vFrtValidAt(sc.Key, s.Val, s.VT) != nil {
						bad++
					}
				}
				if (len(sup) >= 2 && bad >= 1) || len(ems) >= 2 {
					c.Nontrivial(fmt.Sprintf("%d/%d/%s/%s", sc.NC.N, sc.NC.Frt.K, strings.Join(ms, ","), strings.Join(arrival, ",")))
				}
				time.Sleep(30 * time.Second) // corrective puts end by themselves
			})
		})
}
