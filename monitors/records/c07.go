//go:build verif

package records

// C07 — provider records are served exactly while valid and survive restarts.
//
// Units
//   model       bubble, virtual time: histories of add / query / clock advance / sweep / cache
//               eviction / clean restart over a journaling datastore, lock-step reference
//               model key -> provider -> vt of the last acknowledged add; after EVERY
//               acknowledged write a second manager is opened on a copy of the datastore
//               state replayed from the journal (abandon-and-reopen) and must agree with the
//               model; fence after Close (ErrClosed, no datastore access).
//   concurrent  (-race build) real goroutines: adders + readers + 1 ms sweeper + 1-3 entry
//               cache over a datastore pre-filled with already expired entries; oracle on
//               logical call/return stamps and the journal order.

import (
	"context"
	"crypto/sha256"
	"encoding/binary"
	"errors"
	"fmt"
	"math"
	mrand "math/rand"
	"runtime"
	"sort"
	"strconv"
	"strings"
	"sync"
	"sync/atomic"
	"testing"
	"testing/synctest"
	"time"

	lru "github.com/hashicorp/golang-lru/simplelru"
	ds "github.com/ipfs/go-datastore"
	"github.com/libp2p/go-libp2p/core/peer"
	"github.com/libp2p/go-libp2p/core/peerstore"
	"github.com/libp2p/go-libp2p/p2p/host/peerstore/pstoremem"
	"github.com/multiformats/go-base32"
	ma "github.com/multiformats/go-multiaddr"

	"github.com/libp2p/go-libp2p-kad-dht/internal/verif/vh"
	"github.com/libp2p/go-libp2p-kad-dht/internal/verif/vjds"
)

// vC07Pstore implements the two peerstore methods the ProviderManager uses. (pstoremem's
// address book ticks every virtual minute, which dominates a bubble advancing days.)
type vC07Pstore struct {
	peerstore.Peerstore // nil: any other method would panic
	mu                  sync.Mutex
	addrs               map[peer.ID][]ma.Multiaddr
}

func (p *vC07Pstore) AddAddrs(id peer.ID, addrs []ma.Multiaddr, _ time.Duration) {
	p.mu.Lock()
	p.addrs[id] = append(p.addrs[id], addrs...)
	p.mu.Unlock()
}

func (p *vC07Pstore) PeerInfo(id peer.ID) peer.AddrInfo {
	p.mu.Lock()
	defer p.mu.Unlock()
	return peer.AddrInfo{ID: id, Addrs: append([]ma.Multiaddr(nil), p.addrs[id]...)}
}

func vC07Peer(i int) peer.ID {
	h := sha256.Sum256([]byte(fmt.Sprintf("c07-peer-%d", i)))
	return peer.ID(append([]byte{0x12, 0x20}, h[:]...))
}

func vC07Short(p peer.ID) string { return fmt.Sprintf("%x", []byte(p)[2:6]) }

func vC07TimeBytes(nsec int64) []byte {
	buf := make([]byte, 16)
	return buf[:binary.PutVarint(buf, nsec)]
}

// vC07ProvDsKey is the documented layout /providers/<base32 key>/<base32 peer>.
func vC07ProvDsKey(k []byte, p peer.ID) string {
	return "/providers/" + base32.RawStdEncoding.EncodeToString(k) + "/" + base32.RawStdEncoding.EncodeToString([]byte(p))
}

// vC07Model: key -> provider -> vt of the most recent acknowledged addition; `maybe` holds
// additions whose datastore write failed (injected): such a provider may or may not be served.
type vC07Model struct {
	validity int64
	last     map[string]map[peer.ID]int64
	maybe    map[string]map[peer.ID]int64
}

func (m *vC07Model) add(k string, p peer.ID, t int64, acked bool) {
	tgt := m.last
	if !acked {
		tgt = m.maybe
	}
	if tgt[k] == nil {
		tgt[k] = map[peer.ID]int64{}
	}
	tgt[k][p] = t
}

// judge compares one answer with the model at vt t. Returns (#must, #expired known providers).
func (m *vC07Model) judge(c *vh.Case, what string, k string, got []peer.AddrInfo, t int64) (int, int) {
	seen := map[peer.ID]int{}
	for _, ai := range got {
		seen[ai.ID]++
	}
	dups := 0
	for _, n := range seen {
		if n > 1 {
			dups++
		}
	}
	c.Check(dups == 0, "no-duplicates", "%s key %x: %d providers listed more than once", what, k, dups)
	must, expired := 0, 0
	for p, l := range m.last[k] {
		age := t - l
		switch {
		case age < m.validity:
			must++
			c.Check(seen[p] > 0, "valid-served", "%s key %x at vt=%d: provider %s added at vt=%d (age %v < validity %v) is missing from the answer (%d providers returned)",
				what, k, t, vC07Short(p), l, time.Duration(age), time.Duration(m.validity), len(got))
		case age > m.validity:
			expired++
		}
	}
	for p := range seen {
		ok := false
		known := false
		if l, has := m.last[k][p]; has {
			known = true
			ok = t-l <= m.validity
		}
		if l, has := m.maybe[k][p]; has {
			known = true
			ok = ok || t-l <= m.validity
		}
		if !known {
			c.Check(false, "no-stranger", "%s key %x: returned provider %s was never added for this key", what, k, vC07Short(p))
		} else {
			c.Clause("no-stranger")
			c.Check(ok, "expired-not-served", "%s key %x at vt=%d: provider %s last added at vt=%d is served after its validity %v elapsed", what, k, t, vC07Short(p), m.last[k][p], time.Duration(m.validity))
		}
	}
	return must, expired
}

type vC07Env struct {
	c        *vh.Case
	j        *vjds.Journal
	store    *vjds.Store
	m        *vC07Model
	mirror   map[string][]byte // datastore content replayed from the journal
	seen     int
	validity time.Duration
	sweeps   int
	sweepDel int
	loadDel  int
	opQuery  int // datastore queries with a key prefix seen since reset
	failPut  atomic.Bool
	delEvery int64
	delCount atomic.Int64
}

// drain replays new journal entries into the mirror and judges every delete.
func (e *vC07Env) drain() {
	c := e.c
	es := e.j.EntriesFrom(e.seen)
	inSweep := false
	for _, en := range es {
		vt, _ := strconv.ParseInt(en.Role, 10, 64)
		switch en.Op {
		case vjds.OpQuery:
			if en.Key == ProvidersKeyPrefix {
				e.sweeps++
				inSweep = true
				c.Obs("sweeps", 1)
			} else {
				e.opQuery++
				inSweep = false
				c.Obs("datastore_loads", 1)
			}
		case vjds.OpPut:
			inSweep = false
			if en.Err != "" {
				c.Obs("injected_put_failures", 1)
				continue
			}
			c.Obs("journal_puts", 1)
			e.mirror[en.Key] = en.Value
		case vjds.OpDelete:
			if en.Err != "" {
				c.Obs("injected_delete_failures", 1)
				continue
			}
			c.Obs("journal_deletes", 1)
			if inSweep {
				e.sweepDel++
			} else {
				e.loadDel++
			}
			prev, had := e.mirror[en.Key]
			if !had {
				continue
			}
			why := ""
			nsec, n := binary.Varint(prev)
			lix := strings.LastIndex(en.Key, "/")
			_, kerr := base32.RawStdEncoding.DecodeString(en.Key[lix+1:])
			switch {
			case n <= 0:
				why = "malformed-time"
			case kerr != nil:
				why = "malformed-key"
			case vt-nsec >= int64(e.validity): // at equality either outcome is accepted
				why = "expired"
			}
			c.Check(why != "", "delete-only-expired", "delete of %s at vt=%d removed an entry added at vt=%d: age %v < validity %v", en.Key, vt, nsec, time.Duration(vt-nsec), e.validity)
			delete(e.mirror, en.Key)
		}
	}
	e.seen += len(es)
}

func (e *vC07Env) hook(en *vjds.Entry) error {
	en.Role = strconv.FormatInt(time.Now().UnixNano(), 10)
	switch en.Op {
	case vjds.OpPut:
		if e.failPut.CompareAndSwap(true, false) {
			return vjds.ErrInjected
		}
	case vjds.OpDelete:
		if e.delEvery > 0 && e.delCount.Add(1)%e.delEvery == 0 {
			return vjds.ErrInjected
		}
	}
	return nil
}

func vC07ModelBody(c *vh.Case) {
	r := c.R
	now := func() int64 { return time.Now().UnixNano() }
	ctx := context.Background()
	validity := []time.Duration{10 * time.Minute, time.Hour, 24 * time.Hour, 48 * time.Hour}[r.Intn(4)]
	gcEvery := []time.Duration{0, validity / 5, validity / 2, validity * 13 / 10, time.Hour}[r.Intn(5)]
	if gcEvery > 0 && gcEvery < validity/20 {
		gcEvery = validity / 20
	}
	forever := c.Idx%12 == 7
	if forever {
		// "never expire": the largest duration (about 292 years), or a few centuries less; the sweep runs every hour
		validity = []time.Duration{math.MaxInt64, math.MaxInt64 - time.Hour, 250 * 365 * 24 * time.Hour}[r.Intn(3)]
		gcEvery = time.Hour
	}
	heavy := r.Intn(80) == 0
	cacheN := []int{0, 1, 2, 2, 2, 3, 5}[r.Intn(7)]
	nk := 1 + r.Intn(12)
	if r.Intn(5) == 0 {
		nk = 13 + r.Intn(48)
	}
	if heavy {
		cacheN, nk = 0, 257+r.Intn(344)
	}
	np := 1 + r.Intn(30)
	self := vC07Peer(0)
	provs := make([]peer.ID, np)
	for i := range provs {
		provs[i] = vC07Peer(i) // provs[0] is the node itself
	}
	keys := make([][]byte, 0, nk)
	usedKeys := map[string]bool{}
	for len(keys) < nk {
		var k []byte
		if len(keys) > 0 && r.Intn(6) == 0 { // extension of an existing key: prefixes must not leak
			k = append(append([]byte(nil), keys[r.Intn(len(keys))]...), byte(r.Intn(256)))
		} else {
			k = make([]byte, 1+r.Intn(40))
			r.Read(k)
		}
		if len(k) > 80 || usedKeys[string(k)] {
			continue
		}
		usedKeys[string(k)] = true
		keys = append(keys, k)
	}
	e := &vC07Env{c: c, j: vjds.NewJournal(), m: &vC07Model{validity: int64(validity), last: map[string]map[peer.ID]int64{}, maybe: map[string]map[peer.ID]int64{}},
		mirror: map[string][]byte{}, validity: validity}
	e.store = vjds.NewNamed(e.j, "providers")
	faults := r.Intn(8) == 0
	if faults && r.Intn(2) == 0 {
		e.delEvery = int64(2 + r.Intn(4))
	}
	c.Set("validity", validity.String())
	c.Set("cleanup_interval", gcEvery.String())
	c.Set("cache_entries", cacheN)
	c.Set("keys", nk)
	c.Set("providers", np)
	c.Set("write_faults", faults)

	// entries found at start: malformed ones must never be served; a well-formed one is an
	// addition acknowledged by an earlier run.
	if r.Intn(6) == 0 {
		k := keys[r.Intn(len(keys))]
		e.store.Put(ctx, ds.NewKey(vC07ProvDsKey(k, vC07Peer(1000))), []byte{})
		e.store.Put(ctx, ds.NewKey("/providers/"+base32.RawStdEncoding.EncodeToString(k)+"/not-base32!"), vC07TimeBytes(now()))
		old := now() - int64(validity)/2
		if forever {
			old = now() - int64(30*24*time.Hour)
		}
		e.store.Put(ctx, ds.NewKey(vC07ProvDsKey(k, vC07Peer(1001))), vC07TimeBytes(old))
		e.m.add(string(k), vC07Peer(1001), old, true)
		c.Set("prefiled", fmt.Sprintf("malformed time, malformed peer component and one valid entry under key %x", k))
	}
	e.j.Hook = e.hook
	for k, v := range e.store.Snapshot() {
		e.mirror[k] = v
	}
	e.seen = e.j.Len()

	ps := &vC07Pstore{addrs: map[peer.ID][]ma.Multiaddr{}}
	addr := ma.StringCast("/ip4/10.1.2.3/tcp/4001")
	opts := func(store ds.Batching, gc time.Duration) []Option {
		o := []Option{ProvideValidity(validity), CleanupInterval(gc)}
		if cacheN > 0 {
			lc, err := lru.NewLRU(cacheN, nil)
			if err != nil {
				panic(err)
			}
			o = append(o, Cache(lc))
		}
		return o
	}
	open := func() *ProviderManager {
		pm, err := NewProviderManager(self, ps, e.store, opts(e.store, gcEvery)...)
		if err != nil {
			panic(err)
		}
		return pm
	}
	pm := open()

	var answers []string
	wasCached := map[string]bool{}
	sawExpiry, sawCacheHit, sawReload := false, false, false

	query := func(pmx *ProviderManager, what string, k []byte) {
		e.opQuery = 0
		got, err := pmx.GetProviders(ctx, k)
		t := now()
		if pmx == pm {
			e.drain()
		}
		c.Obs("queries", 1)
		if err != nil {
			c.Fail("query-error", "%s GetProviders(%x) failed: %v", what, k, err)
			return
		}
		must, expired := e.m.judge(c, what, string(k), got, t)
		c.Obs("providers_returned", len(got))
		if pmx != pm {
			return
		}
		ids := make([]string, len(got))
		for i, ai := range got {
			ids[i] = vC07Short(ai.ID)
		}
		sort.Strings(ids)
		answers = append(answers, fmt.Sprintf("%x=%s", k[:1], strings.Join(ids, ",")))
		c.Logf("vt=%d GetProviders(%x) = %d providers (model: %d valid, %d expired) loads=%d", t, k, len(got), must, expired, e.opQuery)
		if expired > 0 {
			sawExpiry = true
		}
		if e.opQuery == 0 && len(got) > 0 {
			sawCacheHit = true
			c.Obs("answers_from_cache", 1)
		}
		if e.opQuery > 0 && len(got) > 0 && wasCached[string(k)] {
			sawReload = true
			c.Obs("answers_reloaded_after_eviction_or_restart", 1)
		}
		if pm.cache.Contains(string(k)) {
			wasCached[string(k)] = true
		}
	}

	// abandon-and-reopen: a second manager on a copy of the state replayed from the journal
	reopen := func(k []byte) {
		copyState := make(map[string][]byte, len(e.mirror))
		for dk, v := range e.mirror {
			copyState[dk] = v
		}
		sh := vjds.FromMap(vjds.NewJournal(), "shadow", copyState)
		pm2, err := NewProviderManager(self, ps, sh, opts(sh, 0)...)
		if err != nil {
			panic(err)
		}
		query(pm2, "reopened-after-write:", k)
		for i := 0; i < 2 && len(keys) > 1 && !heavy; i++ {
			query(pm2, "reopened-after-write:", keys[r.Intn(len(keys))])
		}
		c.Clause("reopen-after-write")
		c.Obs("abandon_and_reopen_points", 1)
		pm2.Close()
	}

	add := func(k []byte, p peer.ID) {
		ai := peer.AddrInfo{ID: p}
		if r.Intn(4) == 0 {
			ai.Addrs = []ma.Multiaddr{addr}
		}
		inject := faults && r.Intn(4) == 0
		e.failPut.Store(inject)
		t := now()
		err := pm.AddProvider(ctx, k, ai)
		e.failPut.Store(false)
		e.drain()
		c.Obs("adds", 1)
		switch {
		case err == nil:
			c.Logf("vt=%d AddProvider(%x, %s) = ok", t, k, vC07Short(p))
			e.m.add(string(k), p, t, true)
			// the acknowledged write is in the datastore, under the documented key, with this time
			raw, ok := e.mirror[vC07ProvDsKey(k, p)]
			nsec, n := binary.Varint(raw)
			c.Check(ok && n > 0 && nsec == t, "ack-durable", "AddProvider(%x,%s) acknowledged at vt=%d but the datastore holds %v under %s", k, vC07Short(p), t, raw, vC07ProvDsKey(k, p))
			reopen(k)
		case inject && errors.Is(err, vjds.ErrInjected):
			c.Logf("vt=%d AddProvider(%x, %s) = injected write failure", t, k, vC07Short(p))
			e.m.add(string(k), p, t, false)
		default:
			c.Fail("add-error", "AddProvider(%x,%s) failed: %v", k, vC07Short(p), err)
		}
	}

	advance := func(d time.Duration) {
		before := e.sweeps
		time.Sleep(d)
		synctest.Wait() // sweeps complete: nothing overlaps the next operation
		e.drain()
		c.Logf("advance %v -> vt=%d (%d sweeps)", d, now(), e.sweeps-before)
		c.Obs("advances", 1)
	}

	fence := func(final bool) {
		if err := pm.Close(); err != nil {
			c.Fail("close-error", "Close: %v", err)
		}
		e.drain()
		if final {
			e.store.Close()
		}
		jl := e.j.Len()
		k := keys[r.Intn(len(keys))]
		err := pm.AddProvider(ctx, k, peer.AddrInfo{ID: provs[r.Intn(np)]})
		c.Check(errors.Is(err, ErrClosed), "closed-reports-closed", "AddProvider after Close returned %v", err)
		_, err = pm.GetProviders(ctx, k)
		c.Check(errors.Is(err, ErrClosed), "closed-reports-closed", "GetProviders after Close returned %v", err)
		c.Check(pm.Close() == nil, "closed-reports-closed", "second Close failed")
		if gcEvery > 0 {
			time.Sleep(gcEvery + time.Nanosecond)
			synctest.Wait()
		}
		late := e.j.EntriesFrom(jl)
		if final {
			late = vjds.AfterCloseAccesses(e.j.Entries())
		}
		grown := len(late)
		var first string
		if grown > 0 {
			first = late[0].String()
		}
		c.Check(grown == 0, "closed-no-access", "%d datastore accesses after Close returned, first: %s", grown, first)
		e.drain()
	}

	pick := func() ([]byte, peer.ID) { return keys[r.Intn(len(keys))], provs[r.Intn(np)] }

	if heavy { // one provider per key, then touch every key: far more keys than cache entries
		for _, k := range keys {
			add(k, provs[r.Intn(np)])
		}
		for _, k := range keys {
			query(pm, "", k)
		}
	}
	nops := 20 + r.Intn(41)
	c.Set("ops", nops)
	for i := 0; i < nops && !c.Failed(); i++ {
		switch x := r.Intn(100); {
		case x < 34:
			k, p := pick()
			add(k, p)
			if r.Intn(3) == 0 && !c.Failed() {
				query(pm, "", k)
			}
		case x < 64:
			k, _ := pick()
			query(pm, "", k)
		case x < 82:
			// aim at the validity limit of some addition
			var d time.Duration
			k, _ := pick()
			if forever {
				d = time.Duration(r.Int63n(int64(40*time.Hour))) + time.Nanosecond // nothing can expire: let sweeps pass
			} else if ls := e.m.last[string(k)]; len(ls) > 0 && r.Intn(4) != 0 {
				ids := make([]string, 0, len(ls))
				for p := range ls {
					ids = append(ids, string(p))
				}
				sort.Strings(ids)
				l := ls[peer.ID(ids[r.Intn(len(ids))])]
				deltas := []time.Duration{-time.Nanosecond, 0, time.Nanosecond, -time.Second, time.Second, -validity / 3}
				d = time.Duration(l + int64(validity) + int64(deltas[r.Intn(len(deltas))]) - now())
			}
			if d <= 0 {
				d = time.Duration(r.Int63n(int64(validity)*6/5)) + time.Nanosecond
			}
			advance(d)
			if r.Intn(2) == 0 {
				query(pm, "", k)
			}
		case x < 87:
			if gcEvery > 0 {
				advance(gcEvery) // at least one sweep
			}
		case x < 94:
			// evict: query more keys with providers than the cache holds
			n := cacheN
			if n == 0 {
				n = lruCacheSize
			}
			touched := 0
			for _, k := range keys {
				if touched > n {
					break
				}
				if len(e.m.last[string(k)]) > 0 {
					query(pm, "", k)
					touched++
				}
			}
			c.Obs("evict_rounds", 1)
		default:
			fence(false)
			pm = open()
			c.Logf("clean restart on the same datastore")
			c.Obs("restarts", 1)
		}
	}
	if !c.Failed() {
		for i, k := range keys {
			if i < 40 {
				query(pm, "final", k)
			}
		}
	}
	fence(true)
	// the journal replay used for the reopen copies is faithful
	snap := e.store.Snapshot()
	same := len(snap) == len(e.mirror)
	for k, v := range snap {
		if string(e.mirror[k]) != string(v) {
			same = false
		}
	}
	if !same {
		panic("harness: journal replay diverged from the datastore content")
	}
	c.Obs("sweep_deletes", e.sweepDel)
	c.Obs("load_deletes", e.loadDel)
	if sawExpiry && sawCacheHit && sawReload {
		h := sha256.Sum256([]byte(strings.Join(answers, ";")))
		c.Nontrivial(fmt.Sprintf("%x", h[:8]))
	}
}

func TestVerif_C07_model(t *testing.T) {
	vh.Run(t, vh.Spec{Prop: "C07", Unit: "model", Quick: 4000, Thorough: 150000, CostMs: 8,
		Rule:    "synctest bubble per case; PRNG history of 20-60 operations (add / query / advance aimed at validity +-1ns of some addition / wait for a sweep / evict by querying more keys than cache entries / clean restart) over 1-60 keys (1 in 80 cases: 257-600 keys against the default 256-entry cache; some keys extend others), 1-30 providers incl. the node itself, validity 10m-48h (1 case in 12: about 292 years, the largest duration, with hourly sweeps), cleanup interval 0 / validity/5 .. 1.3x, cache of 1-5 entries or default; optional pre-filed malformed + valid entries; 1 in 8 cases inject datastore write failures (failed add = provider may or may not be served); lock-step model key->provider->vt of last acknowledged add; after every acknowledged add a second manager is opened on a copy of the datastore replayed from the vjds journal and queried; every restart and the end check the Close fence; non-trivial = an expired provider was withheld, an answer came from the cache and an answer was re-loaded from the datastore for a key cached earlier; distinct by hash of the answer sequence",
		Clauses: []string{"valid-served", "expired-not-served", "no-duplicates", "no-stranger", "ack-durable", "reopen-after-write", "delete-only-expired", "closed-reports-closed", "closed-no-access"}},
		func(c *vh.Case) {
			c.Bubble(t, 24*365*30*time.Hour, "hang", func(t *testing.T) { vC07ModelBody(c) })
		})
}

// ---- concurrent: real goroutines under -race ------------------------------------------------

type vC07Op struct {
	add       bool
	k         int // key index
	p         int // provider index (adds)
	call, ret int64
	jl0, jl1  int // journal length before the call / after the return
	err       error
	got       []peer.ID
	role      string
}

func TestVerifRace_C07_concurrent(t *testing.T) {
	vh.Run(t, vh.Spec{Prop: "C07", Unit: "concurrent", Quick: 240, Thorough: 8000, CostMs: 45,
		Rule:    "-race build, real goroutines: 3-4 adders (60-120 adds each) + 2-3 readers + the manager's own sweeper every 1-3 ms, cache of 1-3 entries, validity 1 h (nothing added during the run can expire), datastore pre-filled with 150-400 entries that expired 2 h ago (some for (key, provider) pairs that are re-added during the run, some never re-added, the rest filler that keeps the sweep busy); a vjds hook yields inside the sweeper's deletes; call/return stamped by one atomic counter, datastore accesses totally ordered by the journal; oracle: a provider whose addition was acknowledged before a query was invoked is in the answer unless the journal shows the documented exception (a sweeper delete of that entry after its last acknowledged put, issued by a sweep whose snapshot held the expired value); every sweeper/reader delete removes an entry that was expired in the snapshot it was taken from; never-re-added expired providers never returned; no duplicates; ErrClosed and a frozen journal after Close; non-trivial = >= 1 sweep overlapped adds and reads came both from cache and datastore; distinct by (adds, reads, sweeps, lost re-additions)",
		Clauses: []string{"valid-served", "no-duplicates", "no-stranger", "closed-reports-closed", "closed-no-access", "delete-only-expired"}},
		func(c *vh.Case) {
			r := c.R
			ps, err := pstoremem.NewPeerstore()
			if err != nil {
				panic(err)
			}
			defer ps.Close()
			j := vjds.NewJournal()
			store := vjds.NewNamed(j, "providers")
			// every second case: a datastore whose queries iterate live (keys as of the call, each value read when the
			// iterator reaches it), so that the sweep can meet records refreshed after it started
			store.LiveQuery = c.Idx%2 == 1
			c.Set("datastore_query_iterates_live", store.LiveQuery)
			nk, np := 3+r.Intn(6), 4+r.Intn(7)
			keys := make([][]byte, nk)
			for i := range keys {
				keys[i] = make([]byte, 8+r.Intn(24))
				r.Read(keys[i])
			}
			provs := make([]peer.ID, np)
			for i := range provs {
				provs[i] = vC07Peer(i + 1)
			}
			// pre-filed, already expired entries
			base := time.Now().Add(-2 * time.Hour).UnixNano()
			staleVal := map[string]string{} // ds key -> stale bytes
			ghost := map[[2]int]bool{}      // pairs never re-added
			ctx0 := vjds.WithRole(context.Background(), "seed")
			for ki := range keys {
				for pi := range provs {
					if r.Intn(2) == 0 {
						dk := vC07ProvDsKey(keys[ki], provs[pi])
						v := vC07TimeBytes(base - int64(r.Intn(1e9)))
						staleVal[dk] = string(v)
						store.Put(ctx0, ds.NewKey(dk), v)
						if r.Intn(5) == 0 {
							ghost[[2]int{ki, pi}] = true
						}
					}
				}
			}
			filler := 100 + r.Intn(300)
			for i := 0; i < filler; i++ {
				fk := make([]byte, 12)
				r.Read(fk)
				dk := vC07ProvDsKey(append([]byte("filler"), fk...), vC07Peer(5000+i))
				v := vC07TimeBytes(base - int64(i))
				staleVal[dk] = string(v)
				store.Put(ctx0, ds.NewKey(dk), v)
			}
			seeded := j.Len()
			var sweeperDeletes atomic.Int64
			j.Hook = func(e *vjds.Entry) error {
				gc := e.Role == "" // the sweeper's context carries no role
				if gc {
					e.Role = "gc"
				}
				switch {
				case e.Op == vjds.OpQuery:
					// a query's snapshot is taken between this instant and its journal position:
					// remember the journal length now
					e.Role += "@" + strconv.Itoa(j.Len())
				case gc && e.Op == vjds.OpDelete:
					sweeperDeletes.Add(1)
					runtime.Gosched()
				}
				return nil
			}
			cacheN := 1 + r.Intn(3)
			lc, _ := lru.NewLRU(cacheN, nil)
			gcEvery := time.Duration(1+r.Intn(3)) * time.Millisecond
			pm, err := NewProviderManager(vC07Peer(0), ps, store, ProvideValidity(time.Hour), CleanupInterval(gcEvery), Cache(lc))
			if err != nil {
				panic(err)
			}
			c.Set("keys", nk)
			c.Set("providers", np)
			c.Set("cache_entries", cacheN)
			c.Set("cleanup_interval", gcEvery.String())
			c.Set("prefiled_expired", len(staleVal))

			var clock atomic.Int64
			nAdders, nReaders := 3+r.Intn(2), 2+r.Intn(2)
			logs := make([][]vC07Op, nAdders+nReaders+2)
			var wg sync.WaitGroup
			start := make(chan struct{})
			doAdd := func(ctx context.Context, role string, ki, pi int) vC07Op {
				op := vC07Op{add: true, k: ki, p: pi, role: role}
				op.jl0 = j.Len()
				op.call = clock.Add(1)
				op.err = pm.AddProvider(ctx, keys[ki], peer.AddrInfo{ID: provs[pi]})
				op.ret = clock.Add(1)
				op.jl1 = j.Len()
				return op
			}
			doGet := func(ctx context.Context, role string, ki int) vC07Op {
				op := vC07Op{k: ki, role: role}
				op.jl0 = j.Len()
				op.call = clock.Add(1)
				got, err := pm.GetProviders(ctx, keys[ki])
				op.ret = clock.Add(1)
				op.jl1 = j.Len()
				op.err = err
				for _, ai := range got {
					op.got = append(op.got, ai.ID)
				}
				return op
			}
			for a := 0; a < nAdders; a++ {
				wg.Add(1)
				n := 60 + r.Intn(61)
				seed := r.Int63()
				go func(a, n int, seed int64) {
					defer wg.Done()
					rr := mrand.New(mrand.NewSource(seed))
					role := fmt.Sprintf("adder-%d", a)
					ctx := vjds.WithRole(context.Background(), role)
					<-start
					for i := 0; i < n; i++ {
						ki, pi := rr.Intn(nk), rr.Intn(np)
						if ghost[[2]int{ki, pi}] {
							continue
						}
						logs[a] = append(logs[a], doAdd(ctx, role, ki, pi))
						if i%7 == 0 {
							runtime.Gosched()
						}
					}
				}(a, n, seed)
			}
			for rd := 0; rd < nReaders; rd++ {
				wg.Add(1)
				n := 80 + r.Intn(81)
				seed := r.Int63()
				go func(rd, n int, seed int64) {
					defer wg.Done()
					rr := mrand.New(mrand.NewSource(seed))
					role := fmt.Sprintf("reader-%d", rd)
					ctx := vjds.WithRole(context.Background(), role)
					<-start
					for i := 0; i < n; i++ {
						logs[nAdders+rd] = append(logs[nAdders+rd], doGet(ctx, role, rr.Intn(nk)))
					}
				}(rd, n, seed)
			}
			close(start)
			wg.Wait()
			// quiescent reads of every key (the sweeper keeps running; nothing is left to expire)
			fctx := vjds.WithRole(context.Background(), "final")
			fi := nAdders + nReaders
			for ki := range keys {
				logs[fi] = append(logs[fi], doGet(fctx, "final", ki))
			}
			// Close while two clients keep calling
			stop := make(chan struct{})
			var closeRet atomic.Int64
			var cwg sync.WaitGroup
			late := make([][]vC07Op, 2)
			for w := 0; w < 2; w++ {
				cwg.Add(1)
				go func(w int) {
					defer cwg.Done()
					role := fmt.Sprintf("late-%d", w)
					ctx := vjds.WithRole(context.Background(), role)
					for i := 0; ; i++ {
						select {
						case <-stop:
							return
						default:
						}
						if w == 0 {
							late[w] = append(late[w], doAdd(ctx, role, i%nk, (i/nk)%np))
						} else {
							late[w] = append(late[w], doGet(ctx, role, i%nk))
						}
						if len(late[w]) > 4000 {
							return
						}
					}
				}(w)
			}
			runtime.Gosched()
			if err := pm.Close(); err != nil {
				c.Fail("close-error", "Close: %v", err)
			}
			closeRet.Store(clock.Add(1))
			jlClose := j.Len()
			for i := 0; i < 3; i++ { // a few certainly-late calls
				runtime.Gosched()
			}
			lateAdd := doAdd(fctx, "final", 0, 0)
			lateGet := doGet(fctx, "final", 0)
			close(stop)
			cwg.Wait()
			time.Sleep(2 * gcEvery) // a sweeper that survived Close would show up in the journal
			grown := j.Len() - jlClose
			c.Check(grown == 0, "closed-no-access", "%d datastore accesses after Close returned", grown)
			store.Close()
			pm.AddProvider(fctx, keys[0], peer.AddrInfo{ID: provs[0]})
			pm.GetProviders(fctx, keys[0])
			ac := vjds.AfterCloseAccesses(j.Entries())
			c.Check(len(ac) == 0, "closed-no-access", "%d datastore accesses after the datastore was closed (after Close returned)", len(ac))
			nLate := 0
			for _, op := range append(append(late[0], late[1]...), lateAdd, lateGet) {
				if op.call > closeRet.Load() {
					nLate++
					c.Check(errors.Is(op.err, ErrClosed), "closed-reports-closed", "call invoked after Close returned got %v (%d providers)", op.err, len(op.got))
				} else if op.err != nil && !errors.Is(op.err, ErrClosed) {
					c.Fail("op-error", "call overlapping Close failed: %v", op.err)
				}
			}
			c.Obs("calls_after_close", nLate)

			// ---- journal analysis
			// Writes are journaled in effect order (under the datastore's lock). A query is
			// journaled after its snapshot was taken, so the snapshot lies between the
			// journal length noted by the hook ("<role>@<n>") and the query's own position. Stale
			// (expired) values are only written by the pre-fill, so "the snapshot may have held
			// the stale value of x" == "no put/delete of x before the snapshot window opened".
			es := j.Entries()
			type delInfo struct {
				idx       int
				justified bool
				sweeper   bool
			}
			dels := map[string][]delInfo{}
			firstTouch := map[string]int{} // ds key -> index of the first put/delete after the pre-fill
			winOpen := map[string]int{}    // role -> journal index at which its latest query's snapshot window opened
			sweeps, overlappedSweeps := 0, 0
			sweepStart, sweepCounted := 0, false
			roleOf := func(e vjds.Entry) string {
				role, _, _ := strings.Cut(e.Role, "@")
				return role
			}
			for i, e := range es {
				if i < seeded || e.Err != "" {
					continue
				}
				role := roleOf(e)
				switch e.Op {
				case vjds.OpPut:
					if _, ok := firstTouch[e.Key]; !ok {
						firstTouch[e.Key] = i
					}
				case vjds.OpQuery:
					_, at, _ := strings.Cut(e.Role, "@")
					open, _ := strconv.Atoi(at)
					if role == "gc" {
						sweeps++
						sweepStart, sweepCounted = open, false
					}
					winOpen[role] = open
				case vjds.OpDelete:
					open, queried := winOpen[role]
					ft, touched := firstTouch[e.Key]
					_, wasStale := staleVal[e.Key]
					just := queried && wasStale && (!touched || ft >= open)
					c.Check(just, "delete-only-expired", "journal #%d: %s deleted by %q, but the snapshot it acts on (window opened at #%d) cannot have held an expired value (pre-filed expired: %v, first overwritten/deleted at #%d)", i, e.Key, role, open, wasStale, ft)
					if role == "gc" && !sweepCounted {
						for _, x := range es[sweepStart:i] {
							if x.Op == vjds.OpPut && x.Err == "" && strings.HasPrefix(x.Role, "adder") {
								overlappedSweeps++
								sweepCounted = true
								break
							}
						}
					}
					dels[e.Key] = append(dels[e.Key], delInfo{idx: i, justified: just, sweeper: role == "gc"})
					if !touched {
						firstTouch[e.Key] = i
					}
				}
			}
			// every acknowledged add has exactly one put of its own in the journal
			type pair = [2]int
			addsBy := map[pair][]*vC07Op{}
			putIdx := map[*vC07Op]int{}
			var all []*vC07Op
			for li := range logs {
				for oi := range logs[li] {
					all = append(all, &logs[li][oi])
				}
			}
			nAdds, nReads := 0, 0
			for _, op := range all {
				if !op.add {
					continue
				}
				nAdds++
				if op.err != nil {
					c.Fail("op-error", "AddProvider failed: %v", op.err)
					continue
				}
				dk := ds.NewKey(vC07ProvDsKey(keys[op.k], provs[op.p])).String()
				found := -1
				for i := op.jl0; i < op.jl1 && i < len(es); i++ {
					if es[i].Op == vjds.OpPut && es[i].Role == op.role && es[i].Key == dk {
						found = i
					}
				}
				if !c.Check(found >= 0, "ack-durable", "acknowledged AddProvider by %s wrote nothing under %s", op.role, dk) {
					continue
				}
				putIdx[op] = found
				addsBy[pair{op.k, op.p}] = append(addsBy[pair{op.k, op.p}], op)
			}
			lost := 0
			fromCache, fromStore := 0, 0
			for _, op := range all {
				if op.add {
					continue
				}
				nReads++
				if op.err != nil {
					c.Fail("op-error", "GetProviders failed: %v", op.err)
					continue
				}
				loaded := false
				for i := op.jl0; i < op.jl1 && i < len(es); i++ {
					if es[i].Op == vjds.OpQuery && roleOf(es[i]) == op.role {
						loaded = true
					}
				}
				if loaded {
					fromStore++
				} else {
					fromCache++
				}
				seen := map[peer.ID]int{}
				for _, p := range op.got {
					seen[p]++
				}
				dup := 0
				for _, n := range seen {
					if n > 1 {
						dup++
					}
				}
				c.Check(dup == 0, "no-duplicates", "GetProviders(key %d) listed %d providers more than once", op.k, dup)
				for pi, p := range provs {
					adds := addsBy[pair{op.k, pi}]
					lastAcked, invoked := -1, false
					for _, a := range adds {
						if a.call < op.ret {
							invoked = true
						}
						if a.ret < op.call && putIdx[a] > lastAcked {
							lastAcked = putIdx[a]
						}
					}
					if seen[p] > 0 {
						c.Check(invoked, "no-stranger", "GetProviders(key %d) returned provider %s whose only record is a pre-filed entry that expired 2h ago (never added during the run)", op.k, vC07Short(p))
					}
					if lastAcked < 0 {
						continue
					}
					if seen[p] > 0 {
						c.Clause("valid-served")
						continue
					}
					// missing: only the documented lost re-addition excuses it
					dk := ds.NewKey(vC07ProvDsKey(keys[op.k], p)).String()
					excused := false
					for _, d := range dels[dk] {
						if d.sweeper && d.justified && d.idx > lastAcked && d.idx < op.jl1 {
							excused = true
						}
					}
					if excused {
						lost++
						c.Clause("lost-readdition-excused")
						continue
					}
					c.Check(false, "valid-served", "GetProviders(key %d) [%d,%d] misses provider %s whose addition was acknowledged before (journal put #%d); no sweeper delete of an expired snapshot value follows that put", op.k, op.call, op.ret, vC07Short(p), lastAcked)
				}
				for _, p := range op.got {
					known := false
					for _, q := range provs {
						if q == p {
							known = true
						}
					}
					c.Check(known, "no-stranger", "GetProviders(key %d) returned unknown peer %s", op.k, vC07Short(p))
				}
			}
			c.Obs("adds", nAdds)
			c.Obs("reads", nReads)
			c.Obs("reads_from_cache", fromCache)
			c.Obs("reads_from_datastore", fromStore)
			c.Obs("sweeps", sweeps)
			c.Obs("sweeper_deletes", int(sweeperDeletes.Load()))
			c.Obs("sweeps_overlapping_adds", overlappedSweeps)
			c.Obs("lost_readditions_excused", lost)
			c.Obs("journal_entries", len(es)-seeded)
			if overlappedSweeps > 0 && fromCache > 0 && fromStore > 0 {
				c.Nontrivial(fmt.Sprintf("%d-%d-%d-%d", nAdds, nReads, sweeps, lost))
			}
		})
}
