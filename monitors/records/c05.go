//go:build verif

package records

// C05 — stored value records are always valid and never downgraded (store part:
// records/value_store.go; the PUT_VALUE handler and the local PutValue path are monitored in
// the root package).
//
// Units
//   seq      bubble, virtual time: sequential histories of Put/Get/clock advance/sweep/restart
//            over a journaling datastore; oracle over the journal (every written record valid,
//            correctly keyed, stamped, never a downgrade; every delete justified) and over the
//            call results (reads never older than MaxRecordAge, acknowledged puts readable
//            until they age out, refusals justified).
//   overlap  real goroutines: concurrent writers with a forced-overlap gate inside the
//            datastore read of Put's read-select-write; oracle: no downgrade in the journal,
//            final stored rank = best acknowledged. 1 case in 3 adds the expiry race.
//   expiryrace (-race build) the overlap workload on keys that start with a pre-filed expired
//            record, with readers (whose Gets discard it) and the 1 ms sweeper racing the
//            writers: a discard must never remove a record written meanwhile, a Get invoked
//            after an acknowledgement must return that record or a better one.
//   lin     (-race build) short concurrent histories checked with porcupine per key against
//            "register accepting a write iff it does not rank worse".

import (
	"context"
	"crypto/sha256"
	"errors"
	"fmt"
	"runtime"
	"sort"
	"strconv"
	"strings"
	"sync"
	"sync/atomic"
	"testing"
	"testing/synctest"
	"time"

	"github.com/anishathalye/porcupine"
	ds "github.com/ipfs/go-datastore"
	record "github.com/libp2p/go-libp2p-record"
	recpb "github.com/libp2p/go-libp2p-record/pb"
	"github.com/multiformats/go-base32"
	"google.golang.org/protobuf/proto"

	"github.com/libp2p/go-libp2p-kad-dht/internal/verif/vh"
	"github.com/libp2p/go-libp2p-kad-dht/internal/verif/vjds"
)

// ---- generated validator -------------------------------------------------------------------

// vC05Val is the content of a generated record value.
type vC05Val struct {
	ID   int    // unique per put
	Rank int    // Select prefers the higher rank
	Bad  bool   // marked invalid: Validate rejects
	Exp  int64  // unix nanos after which Validate rejects (0 = never)
	Key  string // key the value was made for: Validate rejects it under any other key
}

func vC05Enc(v vC05Val) []byte {
	return []byte(fmt.Sprintf("c05|%d|%d|%t|%d|%s", v.ID, v.Rank, v.Bad, v.Exp, v.Key))
}

func vC05Dec(b []byte) (vC05Val, bool) {
	p := strings.SplitN(string(b), "|", 6)
	if len(p) != 6 || p[0] != "c05" {
		return vC05Val{}, false
	}
	id, e1 := strconv.Atoi(p[1])
	rank, e2 := strconv.Atoi(p[2])
	bad, e3 := strconv.ParseBool(p[3])
	exp, e4 := strconv.ParseInt(p[4], 10, 64)
	if e1 != nil || e2 != nil || e3 != nil || e4 != nil {
		return vC05Val{}, false
	}
	return vC05Val{ID: id, Rank: rank, Bad: bad, Exp: exp, Key: p[5]}, true
}

// vC05Validator: Validate rejects undecodable, invalid-marked, mis-keyed and validator-expired
// values; Select returns the highest rank, ties going to the first (tieLast: the last) listed.
type vC05Validator struct {
	tieLast    bool
	nVal, nSel atomic.Int64
}

func (v *vC05Validator) validAt(key string, value []byte, now int64) error {
	d, ok := vC05Dec(value)
	switch {
	case !ok:
		return errors.New("c05: undecodable value")
	case d.Bad:
		return errors.New("c05: value marked invalid")
	case d.Key != key:
		return errors.New("c05: value made for another key")
	case d.Exp != 0 && now > d.Exp:
		return errors.New("c05: value expired")
	}
	return nil
}

func (v *vC05Validator) Validate(key string, value []byte) error {
	v.nVal.Add(1)
	return v.validAt(key, value, time.Now().UnixNano())
}

func (v *vC05Validator) Select(key string, vals [][]byte) (int, error) {
	v.nSel.Add(1)
	if len(vals) == 0 {
		return 0, errors.New("c05: nothing to select from")
	}
	best, bestRank := -1, 0
	for i, b := range vals {
		d, ok := vC05Dec(b)
		if !ok {
			continue
		}
		if best < 0 || d.Rank > bestRank || (v.tieLast && d.Rank == bestRank) {
			best, bestRank = i, d.Rank
		}
	}
	if best < 0 {
		return 0, errors.New("c05: no decodable value")
	}
	return best, nil
}

// vC05KeyOfDsKey recovers the record key encoded in a value datastore key (last component,
// base32) — independent of valueDsKey.
func vC05KeyOfDsKey(dsk string) (string, bool) {
	i := strings.LastIndex(dsk, "/")
	b, err := base32.RawStdEncoding.DecodeString(dsk[i+1:])
	if err != nil {
		return "", false
	}
	return string(b), true
}

func vC05Rec(key string, v vC05Val, timeReceived string) *recpb.Record {
	r := record.MakePutRecord(key, vC05Enc(v))
	r.TimeReceived = timeReceived
	return r
}

func vC05Hash(parts []string) string {
	h := sha256.Sum256([]byte(strings.Join(parts, ";")))
	return fmt.Sprintf("%x", h[:8])
}

// ---- seq: journal oracle under virtual time -------------------------------------------------

type vC05Ack struct {
	val vC05Val
	at  int64 // vt of the acknowledgement (= receive time)
}

type vC05Seq struct {
	c       *vh.Case
	j       *vjds.Journal
	store   *vjds.Store
	val     *vC05Validator
	maxAge  time.Duration
	seen    int               // journal entries already judged
	cur     map[string][]byte // datastore content replayed from the journal
	acked   map[string]*vC05Ack
	ackIDs  map[string]map[int]bool
	opKey   string // record key of the Put/Get in flight ("" = none: sweep / advance)
	opPuts  int    // datastore puts seen during the op in flight
	opDels  int
	sweepDs int
}

func vC05ParseTime(s string) (int64, bool) {
	t, err := time.Parse(time.RFC3339Nano, s)
	if err != nil {
		return 0, false
	}
	return t.UnixNano(), true
}

// storedValidFor reports whether raw is a decodable record filed for `key` that the validator
// accepts at vt; it returns its content.
func (s *vC05Seq) storedValidFor(key string, raw []byte, vt int64) (vC05Val, *recpb.Record, bool) {
	rec := new(recpb.Record)
	if proto.Unmarshal(raw, rec) != nil {
		return vC05Val{}, nil, false
	}
	d, ok := vC05Dec(rec.GetValue())
	if !ok || string(rec.GetKey()) != key || s.val.validAt(key, rec.GetValue(), vt) != nil {
		return d, rec, false
	}
	return d, rec, true
}

// drain judges the journal entries appended since the last call.
func (s *vC05Seq) drain() {
	c := s.c
	es := s.j.EntriesFrom(s.seen)
	for _, e := range es {
		if e.Err != "" {
			continue
		}
		vt, _ := strconv.ParseInt(e.Role, 10, 64)
		switch e.Op {
		case vjds.OpPut:
			c.Obs("journal_puts", 1)
			s.opPuts++
			key, ok := vC05KeyOfDsKey(e.Key)
			if !c.Check(ok && key == s.opKey, "stored-key-match", "datastore put under %s during Put(%q): key component decodes to %q", e.Key, s.opKey, key) {
				s.cur[e.Key] = e.Value
				continue
			}
			rec := new(recpb.Record)
			if !c.Check(proto.Unmarshal(e.Value, rec) == nil, "stored-valid", "undecodable bytes written under %s", e.Key) {
				s.cur[e.Key] = e.Value
				continue
			}
			c.Check(string(rec.GetKey()) == key, "stored-key-match", "record with embedded key %q written under the datastore key of %q", rec.GetKey(), key)
			err := s.val.validAt(key, rec.GetValue(), vt)
			c.Check(err == nil, "stored-valid", "record %q written for key %q although the validator rejects it: %v", rec.GetValue(), key, err)
			tr, okT := vC05ParseTime(rec.GetTimeReceived())
			c.Check(okT && tr == vt, "stamp", "record written at vt=%d carries TimeReceived=%q", vt, rec.GetTimeReceived())
			if prev, had := s.cur[e.Key]; had {
				if pd, _, pok := s.storedValidFor(key, prev, vt); pok {
					nd, _ := vC05Dec(rec.GetValue())
					c.Check(nd.Rank >= pd.Rank, "no-downgrade", "key %q: stored record id=%d rank=%d (valid at vt=%d) overwritten by id=%d rank=%d with no delete in between", key, pd.ID, pd.Rank, vt, nd.ID, nd.Rank)
					if nd.Rank == pd.Rank {
						c.Obs("equal_rank_replacements", 1)
					}
				} else {
					c.Obs("junk_or_invalid_overwritten", 1)
				}
			}
			s.cur[e.Key] = e.Value
		case vjds.OpDelete:
			c.Obs("journal_deletes", 1)
			s.opDels++
			if s.opKey == "" {
				s.sweepDs++
			}
			prev, had := s.cur[e.Key]
			if !had {
				c.Obs("deletes_of_absent", 1)
				continue
			}
			key, okK := vC05KeyOfDsKey(e.Key)
			rec := new(recpb.Record)
			reason := ""
			switch {
			case proto.Unmarshal(prev, rec) != nil:
				reason = "corrupt"
			case !okK || string(rec.GetKey()) != key:
				reason = "mis-filed"
			default:
				tr, okT := vC05ParseTime(rec.GetTimeReceived())
				switch {
				case s.maxAge > 0 && !okT:
					reason = "no-receive-time"
				case s.maxAge > 0 && vt-tr >= int64(s.maxAge): // at equality either outcome is accepted
					reason = "aged-out"
				}
			}
			c.Check(reason != "", "delete-justified", "delete of %s at vt=%d removed a record that is neither corrupt, mis-filed nor older than MaxRecordAge=%v: key=%q value=%q received=%q",
				e.Key, vt, s.maxAge, rec.GetKey(), rec.GetValue(), rec.GetTimeReceived())
			if reason != "" {
				c.Obs("deleted_"+reason, 1)
			}
			delete(s.cur, e.Key)
		case vjds.OpQuery:
			c.Obs("sweep_queries", 1)
		case vjds.OpGet:
			c.Obs("journal_gets", 1)
		}
	}
	s.seen += len(es)
}

func (s *vC05Seq) dsKeyFor(key string) (string, bool) {
	for k := range s.cur {
		if dk, ok := vC05KeyOfDsKey(k); ok && dk == key && !strings.HasPrefix(k, "/foreign/") {
			return k, true
		}
	}
	return "", false
}

func vC05SeqBody(c *vh.Case) {
	r := c.R
	ctx, cancel := context.WithCancel(context.Background())
	defer cancel()
	j := vjds.NewJournal()
	j.Hook = func(e *vjds.Entry) error { // stamp every access with the virtual time
		e.Role = strconv.FormatInt(time.Now().UnixNano(), 10)
		return nil
	}
	store := vjds.NewNamed(j, "values")
	val := &vC05Validator{tieLast: r.Intn(3) == 0}
	maxAges := []time.Duration{0, 10 * time.Minute, time.Hour, 36 * time.Hour, 36 * time.Hour}
	maxAge := maxAges[r.Intn(len(maxAges))]
	var gcEvery time.Duration
	if maxAge > 0 {
		gcEvery = []time.Duration{0, maxAge / 5, maxAge / 2, maxAge * 13 / 10}[r.Intn(4)]
	}
	namespaced := r.Intn(2) == 0
	var rv record.Validator = val
	pool := []string{"/va/k1x", "/va/k2x", "/vb/k3y", "/va/k4z", "/providers/k5x"}
	if namespaced {
		rv = record.NamespacedValidator{"va": val, "vb": val, providerNamespace: val}
	} else {
		pool = append(pool, "plainx", "", "/va/") // keys without a namespace (land at the datastore root)
	}
	r.Shuffle(len(pool), func(a, b int) { pool[a], pool[b] = pool[b], pool[a] })
	keys := pool[:2+r.Intn(3)]
	s := &vC05Seq{c: c, j: j, store: store, val: val, maxAge: maxAge, cur: map[string][]byte{}, acked: map[string]*vC05Ack{}, ackIDs: map[string]map[int]bool{}}
	c.Set("keys", keys)
	c.Set("max_age", maxAge.String())
	c.Set("gc_interval", gcEvery.String())
	c.Set("namespaced", namespaced)
	c.Set("tie_last", val.tieLast)

	nextID := 1
	newID := func() int { nextID++; return nextID - 1 }
	now := func() int64 { return time.Now().UnixNano() }

	// junk found in the datastore at start (left by corruption / other writers): never served,
	// removable at any time, never an excuse for anything else.
	junk := ""
	if r.Intn(3) == 0 {
		k := keys[r.Intn(len(keys))]
		dsk := valueDsKey(k) // where the store will look for k
		switch r.Intn(5) {
		case 0:
			junk = "corrupt"
			store.Put(ctx, dsk, []byte{0xff, 0xff, 0x01, 0x02})
		case 1:
			junk = "mis-filed"
			other := "/va/elsewhere"
			b, _ := proto.Marshal(vC05Rec(other, vC05Val{ID: newID(), Rank: r.Intn(12), Key: other}, time.Now().UTC().Format(time.RFC3339Nano)))
			store.Put(ctx, dsk, b)
		case 2:
			junk = "no-receive-time"
			b, _ := proto.Marshal(vC05Rec(k, vC05Val{ID: newID(), Rank: r.Intn(12), Key: k}, ""))
			store.Put(ctx, dsk, b)
		case 3:
			junk = "bad-receive-time"
			b, _ := proto.Marshal(vC05Rec(k, vC05Val{ID: newID(), Rank: r.Intn(12), Key: k}, "yesterday"))
			store.Put(ctx, dsk, b)
		case 4:
			junk = "foreign"
			b, _ := proto.Marshal(vC05Rec(k, vC05Val{ID: newID(), Rank: 99, Key: k}, "1999-01-01T00:00:00Z"))
			store.Put(ctx, ds.NewKey("/foreign/"+base32.RawStdEncoding.EncodeToString([]byte(k))+"/x"), b)
			store.Put(ctx, ds.NewKey(ProvidersKeyPrefix+"AAAA/BBBB"), []byte{0x02})
		}
		c.Set("junk", junk+" under "+k)
	}
	foreignBefore := map[string]string{}
	for k, v := range store.Snapshot() {
		s.cur[k] = v
		if strings.HasPrefix(k, "/foreign/") || strings.HasPrefix(k, ProvidersKeyPrefix) {
			foreignBefore[k] = string(v)
		}
	}
	s.seen = j.Len()

	open := func() *ValueStore {
		v := NewValueStore(store, rv, maxAge)
		v.StartGC(ctx, gcEvery)
		return v
	}
	vs := open()

	var hist []string
	sawReject, sawReplace, sawAgedOut, sawSweepDelete := false, false, false, false
	nops := 12 + r.Intn(30)
	c.Set("ops", nops)

	doGet := func(k string) {
		s.opKey, s.opPuts, s.opDels = k, 0, 0
		rec, err := vs.Get(ctx, k)
		t := now()
		s.drain()
		s.opKey = ""
		c.Obs("gets", 1)
		a := s.acked[k]
		if err != nil {
			c.Fail("get-error", "Get(%q) failed without injected fault: %v", k, err)
			return
		}
		c.Check(s.opPuts == 0, "get-writes-nothing", "Get(%q) wrote %d records", k, s.opPuts)
		if rec != nil {
			d, ok := vC05Dec(rec.GetValue())
			hist = append(hist, fmt.Sprintf("get:%d", d.ID))
			c.Logf("vt=%d Get(%q) = id=%d rank=%d received=%s", t, k, d.ID, d.Rank, rec.GetTimeReceived())
			c.Check(string(rec.GetKey()) == k && ok && d.Key == k && !d.Bad, "read-valid", "Get(%q) returned record key=%q value=%q", k, rec.GetKey(), rec.GetValue())
			tr, okT := vC05ParseTime(rec.GetTimeReceived())
			if maxAge > 0 {
				c.Check(okT && t-tr <= int64(maxAge), "read-fresh", "Get(%q) at vt=%d served a record received at %q: older than MaxRecordAge=%v", k, t, rec.GetTimeReceived(), maxAge)
			}
			// it must be a record this store acknowledged (or the time-less junk when ageing is off)
			known := s.ackIDs[k][d.ID] || (maxAge <= 0 && (junk == "no-receive-time" || junk == "bad-receive-time"))
			c.Check(known, "read-known", "Get(%q) returned id=%d which was never acknowledged for this key", k, d.ID)
			if a != nil {
				// sequential history: the last acknowledged put is what must be read (it or better)
				c.Check(d.ID == a.val.ID || d.Rank >= a.val.Rank, "ack-readable", "Get(%q) returned id=%d rank=%d, last acknowledged put is id=%d rank=%d", k, d.ID, d.Rank, a.val.ID, a.val.Rank)
				if maxAge > 0 && t-a.at > int64(maxAge) && d.ID == a.val.ID {
					c.Check(false, "aged-out-absent", "Get(%q) at vt=%d still serves id=%d acknowledged at vt=%d (MaxRecordAge=%v)", k, t, d.ID, a.at, maxAge)
				}
			}
			return
		}
		hist = append(hist, "get:nil")
		c.Logf("vt=%d Get(%q) = nil", t, k)
		if a != nil {
			readable := maxAge <= 0 || t-a.at < int64(maxAge)
			c.Check(!readable, "ack-readable", "Get(%q) at vt=%d returned nothing although id=%d rank=%d was acknowledged at vt=%d (age %v < MaxRecordAge=%v)",
				k, t, a.val.ID, a.val.Rank, a.at, time.Duration(t-a.at), maxAge)
			if !readable {
				sawAgedOut = true
				c.Clause("aged-out-absent")
			}
		}
	}

	doPut := func(k string) {
		a := s.acked[k]
		base := 5
		if a != nil {
			base = a.val.Rank
		}
		v := vC05Val{ID: newID(), Key: k}
		class := ""
		switch x := r.Intn(100); {
		case x < 30:
			class, v.Rank = "better", base+1+r.Intn(3)
		case x < 45:
			class, v.Rank = "equal", base
		case x < 70:
			class, v.Rank = "worse", base-1-r.Intn(3)
		case x < 80:
			class, v.Rank, v.Bad = "invalid", base+5, true
		case x < 90:
			class, v.Rank, v.Key = "mis-keyed", base+5, keys[(r.Intn(len(keys)))]+"#other"
		default:
			class, v.Rank = "expiring", base+r.Intn(3)
			v.Exp = now() + int64(time.Duration(1+r.Intn(90))*time.Minute)
		}
		tr := ""
		switch r.Intn(4) { // the sender's receive time must never survive
		case 0:
			tr = "2100-01-01T00:00:00Z"
		case 1:
			tr = "1999-01-01T00:00:00Z"
		case 2:
			tr = "garbage"
		}
		rec := vC05Rec(k, v, tr)
		var rawVal []byte
		if class == "invalid" && r.Intn(2) == 0 {
			rawVal = []byte("not a c05 value")
			rec.Value = rawVal
		}
		dsk, hadStored := s.dsKeyFor(k)
		var storedRaw []byte
		if hadStored {
			storedRaw = s.cur[dsk]
		}
		s.opKey, s.opPuts, s.opDels = k, 0, 0
		err := vs.Put(ctx, k, rec)
		t := now()
		s.drain()
		s.opKey = ""
		c.Obs("puts", 1)
		validNow := rawVal == nil && val.validAt(k, vC05Enc(v), t) == nil
		switch {
		case err == nil:
			hist = append(hist, fmt.Sprintf("put:%s:ok", class))
			c.Logf("vt=%d Put(%q, id=%d rank=%d %s) = ok", t, k, v.ID, v.Rank, class)
			c.Check(validNow, "stored-valid", "Put(%q) acknowledged %s record %q", k, class, rec.GetValue())
			// the acknowledged record is what the datastore now holds for k
			held := false
			if dk, ok := s.dsKeyFor(k); ok {
				if d, _, ok := s.storedValidFor(k, s.cur[dk], t); ok && d.ID == v.ID {
					held = true
				}
			}
			c.Check(held && s.opPuts == 1, "ack-stored", "Put(%q, id=%d) acknowledged but the datastore does not hold it (%d datastore puts during the call)", k, v.ID, s.opPuts)
			if a != nil && hadStored {
				sawReplace = true
			}
			s.acked[k] = &vC05Ack{val: v, at: t}
			if s.ackIDs[k] == nil {
				s.ackIDs[k] = map[int]bool{}
			}
			s.ackIDs[k][v.ID] = true
			if rec.GetTimeReceived() != tr {
				c.Fail("caller-record-mutated", "Put modified the caller's record: TimeReceived %q -> %q", tr, rec.GetTimeReceived())
			}
		case errors.Is(err, ErrOldRecord):
			hist = append(hist, fmt.Sprintf("put:%s:old", class))
			c.Logf("vt=%d Put(%q, id=%d rank=%d %s) = ErrOldRecord", t, k, v.ID, v.Rank, class)
			sawReject = true
			// justified iff something decodable of at least this rank is stored there
			just := false
			if hadStored {
				sr := new(recpb.Record)
				if proto.Unmarshal(storedRaw, sr) == nil {
					if d, ok := vC05Dec(sr.GetValue()); ok && d.Rank >= v.Rank {
						just = true
					}
				}
			}
			c.Check(just, "reject-justified", "Put(%q, id=%d rank=%d) refused as old although no stored record ranks as high", k, v.ID, v.Rank)
			c.Check(s.opPuts == 0 && s.opDels == 0, "reject-no-effect", "refused Put(%q) changed the datastore (%d puts, %d deletes)", k, s.opPuts, s.opDels)
		default:
			hist = append(hist, fmt.Sprintf("put:%s:err", class))
			c.Logf("vt=%d Put(%q, id=%d rank=%d %s) = %v", t, k, v.ID, v.Rank, class, err)
			c.Check(!validNow, "reject-justified", "Put(%q) of a valid record failed: %v", k, err)
			c.Check(s.opPuts == 0 && s.opDels == 0, "reject-no-effect", "rejected Put(%q) changed the datastore (%d puts, %d deletes)", k, s.opPuts, s.opDels)
		}
	}

	advance := func() {
		var d time.Duration
		// aim at the age limit of some acknowledged record
		var cands []*vC05Ack
		for _, k := range keys {
			if a := s.acked[k]; a != nil {
				cands = append(cands, a)
			}
		}
		if maxAge > 0 && len(cands) > 0 && r.Intn(3) != 0 {
			a := cands[r.Intn(len(cands))]
			deltas := []time.Duration{-time.Nanosecond, 0, time.Nanosecond, -time.Second, time.Second, -maxAge / 3, maxAge / 7}
			target := a.at + int64(maxAge) + int64(deltas[r.Intn(len(deltas))])
			d = time.Duration(target - now())
		}
		if d <= 0 {
			span := maxAge
			if span <= 0 {
				span = time.Hour
			}
			d = time.Duration(r.Int63n(int64(span)*6/5)) + time.Nanosecond
		}
		before := s.sweepDs
		time.Sleep(d)
		synctest.Wait()
		s.drain()
		if s.sweepDs > before {
			sawSweepDelete = true
		}
		hist = append(hist, "adv")
		c.Logf("advance %v -> vt=%d (sweep deletes so far %d)", d, now(), s.sweepDs)
		c.Obs("advances", 1)
	}

	for i := 0; i < nops && !c.Failed(); i++ {
		k := keys[r.Intn(len(keys))]
		switch x := r.Intn(100); {
		case x < 45:
			doPut(k)
			if r.Intn(2) == 0 && !c.Failed() {
				doGet(k) // immediately readable
			}
		case x < 70:
			doGet(k)
		case x < 93:
			advance()
		default:
			vs.Close()
			vs = open()
			hist = append(hist, "restart")
			c.Logf("restart on the same datastore")
			c.Obs("restarts", 1)
		}
	}
	if !c.Failed() {
		for _, k := range keys {
			doGet(k)
		}
	}
	vs.Close()
	cancel()
	synctest.Wait()
	s.drain()
	for k, v := range foreignBefore {
		got, ok := s.cur[k]
		c.Check(ok && string(got) == v, "foreign-untouched", "entry %s that is not a value record of this store was modified or deleted", k)
	}
	c.Obs("validate_calls", int(val.nVal.Load()))
	c.Obs("select_calls", int(val.nSel.Load()))
	if sawReject && sawReplace && (sawAgedOut || sawSweepDelete || maxAge == 0) {
		c.Nontrivial(vC05Hash(hist))
	}
}

func TestVerif_C05_seq(t *testing.T) {
	vh.Run(t, vh.Spec{Prop: "C05", Unit: "seq", Quick: 8000, Thorough: 300000, CostMs: 2,
		Rule:    "synctest bubble per case; PRNG history of 12-41 Put/Get/advance/restart operations on 2-4 keys (namespaced or plain validator, keys sharing a lock stripe, odd keys, optional junk pre-filed in the datastore), generated validator (value = id|rank|invalid mark|validator expiry|key; Select = higher rank, tie first or last), puts better/equal/worse/invalid/mis-keyed/expiring with hostile sender receive-times, clock advances aimed at MaxRecordAge +-1ns of an acknowledged record, background sweep at MaxRecordAge/5..1.3x; oracle over the vt-stamped vjds journal and over results; non-trivial = at least one refusal as old, one replacement of an acknowledged record and one age-out (or ageing disabled); distinct by hash of (operation class, outcome) sequence",
		Clauses: []string{"stored-valid", "stored-key-match", "stamp", "no-downgrade", "delete-justified", "read-valid", "read-fresh", "read-known", "ack-stored", "ack-readable", "aged-out-absent", "reject-justified", "reject-no-effect", "get-writes-nothing"}},
		func(c *vh.Case) {
			c.Bubble(t, 24*365*10*time.Hour, "hang", func(t *testing.T) { vC05SeqBody(c) })
		})
}

// ---- overlap: forced-overlap gate inside the read of read-select-write ----------------------

// vC05Gate holds the first goroutine arriving at a datastore Get of a key until a second one
// arrives at a Get of the same key or `hold` of real time has passed. With the stripe lock in
// place the second can never arrive. The real-time wait only shapes the schedule; no verdict
// depends on it.
type vC05Gate struct {
	mu       sync.Mutex
	waiting  map[string]chan struct{}
	hold     time.Duration
	overlaps atomic.Int64
	timeouts atomic.Int64
	yield    bool
	// delete gate: a datastore Delete (the discard of a bad record, issued inside the key's
	// stripe lock after the re-read) is held until a Put on the same datastore key has taken
	// effect or delHold of real time has passed. With the stripe lock in place no such Put can
	// happen. Like the Get gate it only shapes the schedule; no verdict depends on the wait.
	j           *vjds.Journal
	delHold     time.Duration
	delOverlaps atomic.Int64
}

func (g *vC05Gate) hook(e *vjds.Entry) error {
	if g.yield {
		runtime.Gosched()
	}
	if e.Op == vjds.OpDelete && g.delHold > 0 && g.j != nil {
		from := g.j.Len()
		for dl := time.Now().Add(g.delHold); time.Now().Before(dl); time.Sleep(20 * time.Microsecond) {
			hit := false
			for _, x := range g.j.EntriesFrom(from) {
				if x.Op == vjds.OpPut && x.Key == e.Key && x.Err == "" {
					hit = true
				}
			}
			if hit {
				g.delOverlaps.Add(1)
				break
			}
		}
		return nil
	}
	if e.Op != vjds.OpGet || g.hold <= 0 || e.Role == "reader" {
		return nil
	}
	g.mu.Lock()
	if ch, ok := g.waiting[e.Key]; ok {
		delete(g.waiting, e.Key)
		g.mu.Unlock()
		close(ch)
		g.overlaps.Add(1)
		return nil
	}
	ch := make(chan struct{})
	g.waiting[e.Key] = ch
	g.mu.Unlock()
	tm := time.NewTimer(g.hold)
	defer tm.Stop()
	select {
	case <-ch:
	case <-tm.C:
		g.mu.Lock()
		if g.waiting[e.Key] == ch {
			delete(g.waiting, e.Key)
			g.timeouts.Add(1)
		}
		g.mu.Unlock()
	}
	return nil
}

type vC05PutRes struct {
	key       string
	val       vC05Val
	class     string // valid invalid mis-keyed
	res       string // ok old invalid err
	call, ret int64
}

// vC05CheckJournal: per datastore key (writes are journaled in effect order), ranks written
// never decrease unless a delete lies between; every written record valid and correctly keyed;
// every delete removes exactly a pre-filed expired record (stale: ds key -> its bytes).
func vC05CheckJournal(c *vh.Case, j *vjds.Journal, val *vC05Validator, stale map[string]string) (seqHash string, downgrades int) {
	final := map[string]vC05Val{}
	raw := map[string]string{}
	held := map[string]bool{}
	var seq []string
	for _, e := range j.Entries() {
		if e.Err != "" {
			continue
		}
		switch e.Op {
		case vjds.OpPut:
			c.Obs("journal_puts", 1)
			key, ok := vC05KeyOfDsKey(e.Key)
			rec := new(recpb.Record)
			if !c.Check(ok && proto.Unmarshal(e.Value, rec) == nil, "stored-valid", "undecodable write under %s", e.Key) {
				continue
			}
			if e.Role != "seed" { // pre-filed junk is not a write of the store
				c.Check(string(rec.GetKey()) == key, "stored-key-match", "record with embedded key %q written under the datastore key of %q", rec.GetKey(), key)
				c.Check(val.validAt(key, rec.GetValue(), 0) == nil, "stored-valid", "record %q written for key %q although the validator rejects it", rec.GetValue(), key)
			}
			d, _ := vC05Dec(rec.GetValue())
			if held[e.Key] {
				p := final[e.Key]
				if !c.Check(d.Rank >= p.Rank, "no-downgrade", "key %q: stored id=%d rank=%d overwritten by id=%d rank=%d (journal #%d) with no delete in between", key, p.ID, p.Rank, d.ID, d.Rank, e.Seq) {
					downgrades++
				}
			}
			held[e.Key], final[e.Key], raw[e.Key] = true, d, string(e.Value)
			seq = append(seq, fmt.Sprintf("%s=%d", key, d.Rank))
		case vjds.OpDelete:
			c.Obs("journal_deletes", 1)
			if held[e.Key] {
				st, ok := stale[e.Key]
				p := final[e.Key]
				c.Check(ok && st == raw[e.Key], "delete-justified", "journal #%d: delete of %s removed record id=%d rank=%d, which is not older than MaxRecordAge (only the pre-filed record is)", e.Seq, e.Key, p.ID, p.Rank)
			}
			held[e.Key] = false
			delete(final, e.Key)
			delete(raw, e.Key)
		}
	}
	seqHash = vC05Hash(seq)
	c.Set("write_sequence_hash", seqHash)
	return seqHash, downgrades
}

func vC05OverlapKeys(c *vh.Case) []string {
	// keys sharing / not sharing a lock stripe (lockIndex = last byte)
	pool := [][]string{
		{"/va/a-x", "/va/b-x"},            // same stripe
		{"/va/a-x", "/va/b-y"},            // different stripes
		{"/va/a-x", "/va/b-x", "/vb/c-y"}, // mixed
		{"/va/a-x", "/vb/b-x", "/va/c-x", "/va/d-z"},
	}
	return pool[c.R.Intn(len(pool))]
}

type vC05GetRes struct {
	key       string
	call, ret int64
	id, rank  int // id 0 = nothing returned
	err       error
}

const vC05StaleID = 9000 // ids >= this are pre-filed expired records

// vC05OverlapBody: concurrent writers under the forced-overlap gate. With expiry, every key
// starts with a pre-filed record that expired an hour ago, and readers plus the 1 ms sweeper
// race with the writers to discard it: a discard must never hit a record written meanwhile.
func vC05OverlapBody(c *vh.Case, expiry bool) {
	r := c.R
	keys := vC05OverlapKeys(c)
	nw := 4 + r.Intn(5)
	per := 6 + r.Intn(5)
	g := &vC05Gate{waiting: map[string]chan struct{}{}, hold: 300 * time.Microsecond, yield: r.Intn(2) == 0}
	j := vjds.NewJournal()
	g.j, g.delHold = j, time.Millisecond
	store := vjds.NewNamed(j, "values")
	val := &vC05Validator{tieLast: r.Intn(3) == 0}
	maxAge := []time.Duration{0, time.Hour}[r.Intn(2)]
	if expiry {
		maxAge = time.Hour
	}
	vs := NewValueStore(store, record.NamespacedValidator{"va": val, "vb": val}, maxAge)
	ctx := context.Background()
	gcCtx, gcCancel := context.WithCancel(context.Background())
	defer gcCancel()
	c.Set("keys", keys)
	c.Set("writers", nw)
	c.Set("puts_per_writer", per)
	c.Set("expiry_race", expiry)
	stale := map[string]string{}
	staleRank := map[string]int{}
	nReaders := 0
	if expiry {
		old := time.Now().Add(-2 * time.Hour).UTC().Format(time.RFC3339Nano)
		for i, k := range keys {
			if r.Intn(5) == 0 {
				continue // nothing pre-filed under this key
			}
			v := vC05Val{ID: vC05StaleID + i, Rank: r.Intn(16), Key: k}
			b, _ := proto.Marshal(vC05Rec(k, v, old))
			if (c.Idx+i)%4 == 0 {
				// mis-filed instead of expired: a fresh, low-ranked record that is valid for another
				// key (of another lock stripe) sits under k's datastore key. Only a Get of k may
				// discard it (the sweeper leaves it alone); until then it takes part in Select.
				other := k + "#m"
				v = vC05Val{ID: vC05StaleID + i, Rank: v.Rank % 4, Key: other}
				b, _ = proto.Marshal(vC05Rec(other, v, time.Now().UTC().Format(time.RFC3339Nano)))
				c.Obs("prefiled_misfiled", 1)
			}
			dk := valueDsKey(k)
			store.Put(vjds.WithRole(ctx, "seed"), dk, b)
			stale[dk.String()], staleRank[k] = string(b), v.Rank
		}
		nReaders = 2 + r.Intn(2)
	}
	j.Hook = g.hook
	var clock atomic.Int64
	results := make([][]vC05PutRes, nw)
	plans := make([][]vC05PutRes, nw)
	for w := 0; w < nw; w++ {
		for i := 0; i < per; i++ {
			k := keys[r.Intn(len(keys))]
			p := vC05PutRes{key: k, class: "valid", val: vC05Val{ID: 1 + w*100 + i, Rank: 2*i + r.Intn(7), Key: k}} // drifting upwards: many accepted writes
			switch r.Intn(12) {
			case 0:
				p.class, p.val.Bad, p.val.Rank = "invalid", true, 50
			case 1:
				p.class, p.val.Key, p.val.Rank = "mis-keyed", k+"#other", 50
			}
			plans[w] = append(plans[w], p)
		}
	}
	var wg sync.WaitGroup
	start := make(chan struct{})
	for w := 0; w < nw; w++ {
		wg.Add(1)
		go func(w int) {
			defer wg.Done()
			<-start
			for _, p := range plans[w] {
				p.call = clock.Add(1)
				err := vs.Put(ctx, p.key, vC05Rec(p.key, p.val, ""))
				p.ret = clock.Add(1)
				switch {
				case err == nil:
					p.res = "ok"
				case errors.Is(err, ErrOldRecord):
					p.res = "old"
				case strings.Contains(err.Error(), "validating record"):
					p.res = "invalid"
				default:
					p.res = "err:" + err.Error()
				}
				results[w] = append(results[w], p)
			}
		}(w)
	}
	reads := make([][]vC05GetRes, nReaders)
	for rd := 0; rd < nReaders; rd++ {
		wg.Add(1)
		n := 20 + r.Intn(30)
		off := r.Intn(len(keys))
		go func(rd, n, off int) {
			defer wg.Done()
			rctx := vjds.WithRole(context.Background(), "reader")
			<-start
			for i := 0; i < n; i++ {
				gr := vC05GetRes{key: keys[(i+off)%len(keys)]}
				gr.call = clock.Add(1)
				rec, err := vs.Get(rctx, gr.key)
				gr.ret = clock.Add(1)
				gr.err = err
				if rec != nil {
					if d, ok := vC05Dec(rec.GetValue()); ok && string(rec.GetKey()) == gr.key {
						gr.id, gr.rank = d.ID, d.Rank
					} else {
						gr.id = -1
					}
				}
				reads[rd] = append(reads[rd], gr)
				if i%3 == 0 {
					runtime.Gosched()
				}
			}
		}(rd, n, off)
	}
	if expiry {
		vs.StartGC(gcCtx, time.Millisecond)
	}
	close(start)
	wg.Wait()
	vs.Close() // stops the sweeper
	g.hold, g.delHold = 0, 0 // the final reads are not gated
	seqHash, downgrades := vC05CheckJournal(c, j, val, stale)
	written := map[int]bool{}
	for _, e := range j.Entries() {
		if e.Op == vjds.OpPut && e.Err == "" {
			rec := new(recpb.Record)
			if proto.Unmarshal(e.Value, rec) == nil {
				if d, ok := vC05Dec(rec.GetValue()); ok && d.ID < vC05StaleID {
					written[d.ID] = true
				}
			}
		}
	}
	best := map[string]int{}
	bestSet := map[string]bool{}
	acks, refusals := map[string]int{}, 0
	var acked []vC05PutRes
	for w := range results {
		for _, p := range results[w] {
			c.Obs("puts", 1)
			switch p.res {
			case "ok":
				c.Check(p.class == "valid", "stored-valid", "Put acknowledged %s record id=%d", p.class, p.val.ID)
				c.Check(written[p.val.ID], "ack-stored", "Put(%q, id=%d) acknowledged but never written to the datastore", p.key, p.val.ID)
				acks[p.key]++
				acked = append(acked, p)
				if !bestSet[p.key] || p.val.Rank > best[p.key] {
					best[p.key], bestSet[p.key] = p.val.Rank, true
				}
			case "old":
				refusals++
				c.Check(p.class == "valid", "reject-justified", "%s record id=%d refused as old instead of invalid", p.class, p.val.ID)
			case "invalid":
				c.Check(p.class != "valid", "reject-justified", "valid record id=%d rejected by validation", p.val.ID)
			default:
				c.Fail("put-error", "Put(%q, id=%d) failed: %s", p.key, p.val.ID, p.res)
			}
		}
	}
	for id := range written {
		found := false
		for _, p := range acked {
			if p.val.ID == id {
				found = true
			}
		}
		c.Check(found, "ack-stored", "record id=%d was written to the datastore but its Put was not acknowledged", id)
	}
	// reads racing with the writers, the discards and the sweeper (nothing written during the
	// run can age out: MaxRecordAge is one hour of real time)
	nilReads, liveReads := 0, 0
	for rd := range reads {
		for _, gr := range reads[rd] {
			c.Obs("gets", 1)
			if gr.err != nil {
				c.Fail("get-error", "Get(%q): %v", gr.key, gr.err)
				continue
			}
			c.Check(gr.id >= 0 && gr.id < vC05StaleID, "read-fresh", "Get(%q) [%d,%d] served the pre-filed record id=%d that is an hour older than MaxRecordAge", gr.key, gr.call, gr.ret, gr.id)
			need, needID := -1, 0
			for _, p := range acked {
				if p.key == gr.key && p.ret < gr.call && p.val.Rank > need {
					need, needID = p.val.Rank, p.val.ID
				}
			}
			if gr.id == 0 {
				nilReads++
			} else {
				liveReads++
			}
			if need >= 0 {
				c.Check(gr.id > 0 && gr.rank >= need, "ack-readable", "Get(%q) [%d,%d] returned id=%d rank=%d although Put id=%d rank=%d had been acknowledged before the call", gr.key, gr.call, gr.ret, gr.id, gr.rank, needID, need)
			}
		}
	}
	multi := false
	for _, k := range keys {
		if acks[k] >= 2 {
			multi = true
		}
		rec, err := vs.Get(ctx, k)
		if err != nil {
			c.Fail("get-error", "Get(%q): %v", k, err)
			continue
		}
		if !bestSet[k] {
			c.Check(rec == nil, "final-is-best", "Get(%q) returned a record although no put was acknowledged", k)
			continue
		}
		if !c.Check(rec != nil, "final-is-best", "Get(%q) returned nothing after %d acknowledged puts", k, acks[k]) {
			continue
		}
		d, _ := vC05Dec(rec.GetValue())
		c.Check(d.Rank == best[k], "final-is-best", "key %q: final stored record id=%d rank=%d, best acknowledged rank %d", k, d.ID, d.Rank, best[k])
	}
	c.Obs("gate_timeouts", int(g.timeouts.Load()))
	c.Obs("gate_overlaps", int(g.overlaps.Load()))
	c.Obs("delete_gate_overlaps", int(g.delOverlaps.Load()))
	c.Obs("downgrades", downgrades)
	c.Obs("refusals", refusals)
	c.Obs("reads_nothing", nilReads)
	c.Obs("reads_live", liveReads)
	if g.timeouts.Load()+g.overlaps.Load() > 0 && refusals > 0 && multi && (!expiry || (nilReads > 0 && liveReads > 0)) {
		c.Nontrivial(seqHash)
	}
}

func TestVerif_C05_overlap(t *testing.T) {
	vh.Run(t, vh.Spec{Prop: "C05", Unit: "overlap", Quick: 240, Thorough: 10000, CostMs: 45,
		Rule:    "real goroutines (no bubble): 4-8 concurrent writers x 6-10 Puts of unique valid records with upward-drifting PRNG ranks (plus a few invalid / mis-keyed ones) on 2-4 keys sharing / not sharing a lock stripe; vjds hook = forced-overlap gate on the datastore Get inside Put (first arriver held until a second Get on the same key arrives or 300us real time pass); in 1 of 3 cases additionally the expiry race of unit expiryrace; oracle over the journal: per key ranks written never decrease, every write valid and correctly keyed, every acknowledged put was written, final stored record = an acknowledged one of the best acknowledged rank; non-trivial = gate engaged (timeouts or overlaps), >=1 refusal and >=2 accepted writes on one key; distinct by hash of the per-key write sequence",
		Clauses: []string{"no-downgrade", "stored-valid", "stored-key-match", "ack-stored", "final-is-best", "reject-justified"}},
		func(c *vh.Case) { vC05OverlapBody(c, c.R.Intn(3) == 0) })
}

// TestVerifRace_C05_expiryrace: the overlap workload under -race with the expiry race always on.
func TestVerifRace_C05_expiryrace(t *testing.T) {
	vh.Run(t, vh.Spec{Prop: "C05", Unit: "expiryrace", Quick: 200, Thorough: 8000, CostMs: 25,
		Rule:    "-race build, real goroutines: the overlap workload (4-8 writers, forced-overlap gate holding a writer inside the stripe lock) on keys that start with a pre-filed record which expired an hour ago (rank 0-15, so it may outrank the writers), plus 2-3 readers whose Gets discard expired records and the store's own sweeper every 1 ms; MaxRecordAge 1 h real time so nothing written during the run ages out; oracle: every journal delete removes exactly the pre-filed expired bytes (never a record written meanwhile), no downgrade unless a delete lies between (the expired but undeleted record still blocks worse writes), reads never return the expired record, a Get invoked after a Put was acknowledged returns that record or a better one, final = best acknowledged; non-trivial = overlap rule + some reads returned nothing and some a live record; distinct by write-sequence hash",
		Clauses: []string{"no-downgrade", "delete-justified", "read-fresh", "ack-readable", "ack-stored", "final-is-best"}},
		func(c *vh.Case) { vC05OverlapBody(c, true) })
}

// ---- lin: porcupine on short concurrent histories (-race build) -----------------------------

type vC05LinIn struct {
	get   bool
	val   vC05Val
	valid bool
}

type vC05LinOut struct {
	res string // put: ok old invalid; get: "get"
	id  int    // get: id read (0 = nothing)
}

type vC05LinState struct{ id, rank int }

var vC05LinModel = porcupine.Model{
	Init: func() interface{} { return vC05LinState{} },
	Step: func(st, in, out interface{}) (bool, interface{}) {
		s, i, o := st.(vC05LinState), in.(vC05LinIn), out.(vC05LinOut)
		if i.get {
			return o.id == s.id, s
		}
		if !i.valid { // invalid and mis-keyed writes are rejected without effect
			return o.res == "invalid", s
		}
		switch o.res {
		case "ok": // accepted iff it does not rank worse (equal may replace)
			return s.id == 0 || i.val.Rank >= s.rank, vC05LinState{id: i.val.ID, rank: i.val.Rank}
		case "old": // refused iff something at least as good is stored (equal may be refused)
			return s.id != 0 && i.val.Rank <= s.rank, s
		}
		return false, s
	},
	Equal: func(a, b interface{}) bool { return a.(vC05LinState) == b.(vC05LinState) },
	DescribeOperation: func(in, out interface{}) string {
		i, o := in.(vC05LinIn), out.(vC05LinOut)
		if i.get {
			return fmt.Sprintf("get->%d", o.id)
		}
		return fmt.Sprintf("put(id=%d,rank=%d,valid=%v)->%s", i.val.ID, i.val.Rank, i.valid, o.res)
	},
}

func TestVerifRace_C05_lin(t *testing.T) {
	vh.Run(t, vh.Spec{Prop: "C05", Unit: "lin", Quick: 600, Thorough: 25000, CostMs: 12,
		Rule:    "-race build, real goroutines: 3-6 clients issue <= 40 Put/Get operations in total on 1-3 keys (unique record ids, PRNG ranks incl. equal ranks, ~15% invalid / mis-keyed), vjds hook yields at every datastore access and in half of the cases applies the forced-overlap gate; call/return stamped by one atomic counter; porcupine v1.3.0 per key against the model 'register accepting a write iff it does not rank worse; invalid and mis-keyed writes rejected without effect; Get returns the register' (2-minute checker timeout => counted in obs porcupine_unknown, no verdict); non-trivial = some key saw >= 2 accepted puts, a refusal and a read overlapping a put; distinct by hash of the result sequence ordered by call stamp",
		Clauses: []string{"linearizable"}},
		func(c *vh.Case) {
			r := c.R
			keys := vC05OverlapKeys(c)
			if len(keys) > 3 {
				keys = keys[:3]
			}
			if r.Intn(3) == 0 {
				keys = keys[:1]
			}
			ncl := 3 + r.Intn(4)
			total := 20 + r.Intn(21)
			g := &vC05Gate{waiting: map[string]chan struct{}{}, yield: true}
			if r.Intn(2) == 0 {
				g.hold = 200 * time.Microsecond
			}
			j := vjds.NewJournal()
			j.Hook = g.hook
			store := vjds.NewNamed(j, "values")
			val := &vC05Validator{tieLast: r.Intn(3) == 0}
			vs := NewValueStore(store, record.NamespacedValidator{"va": val, "vb": val}, []time.Duration{0, time.Hour}[r.Intn(2)])
			type planned struct {
				key string
				in  vC05LinIn
			}
			plans := make([][]planned, ncl)
			for i := 0; i < total; i++ {
				cl := i % ncl
				k := keys[r.Intn(len(keys))]
				if r.Intn(100) < 35 {
					plans[cl] = append(plans[cl], planned{key: k, in: vC05LinIn{get: true}})
					continue
				}
				in := vC05LinIn{val: vC05Val{ID: i + 1, Rank: r.Intn(6), Key: k}, valid: true}
				switch r.Intn(13) {
				case 0:
					in.val.Bad, in.valid, in.val.Rank = true, false, 40
				case 1:
					in.val.Key, in.valid, in.val.Rank = k+"#other", false, 40
				}
				plans[cl] = append(plans[cl], planned{key: k, in: in})
			}
			c.Set("keys", keys)
			c.Set("clients", ncl)
			c.Set("ops", total)
			c.Set("gate", g.hold.String())
			var clock atomic.Int64
			hists := make([]map[string][]porcupine.Operation, ncl)
			var wg sync.WaitGroup
			start := make(chan struct{})
			for cl := 0; cl < ncl; cl++ {
				hists[cl] = map[string][]porcupine.Operation{}
				wg.Add(1)
				go func(cl int) {
					defer wg.Done()
					<-start
					for _, p := range plans[cl] {
						op := porcupine.Operation{ClientId: cl, Input: p.in}
						if p.in.get {
							ctx := vjds.WithRole(context.Background(), "reader")
							op.Call = clock.Add(1)
							rec, err := vs.Get(ctx, p.key)
							op.Return = clock.Add(1)
							out := vC05LinOut{res: "get"}
							if err != nil {
								out.res = "err:" + err.Error()
							} else if rec != nil {
								d, ok := vC05Dec(rec.GetValue())
								if !ok || string(rec.GetKey()) != p.key {
									out.id = -1
								} else {
									out.id = d.ID
								}
							}
							op.Output = out
						} else {
							rec := vC05Rec(p.key, p.in.val, "")
							op.Call = clock.Add(1)
							err := vs.Put(context.Background(), p.key, rec)
							op.Return = clock.Add(1)
							out := vC05LinOut{}
							switch {
							case err == nil:
								out.res = "ok"
							case errors.Is(err, ErrOldRecord):
								out.res = "old"
							case strings.Contains(err.Error(), "validating record"):
								out.res = "invalid"
							default:
								out.res = "err:" + err.Error()
							}
							op.Output = out
						}
						hists[cl][p.key] = append(hists[cl][p.key], op)
					}
				}(cl)
			}
			close(start)
			wg.Wait()
			vC05CheckJournal(c, j, val, nil)
			var sigParts []string
			interesting := false
			for _, k := range keys {
				var ops []porcupine.Operation
				for cl := range hists {
					ops = append(ops, hists[cl][k]...)
				}
				if len(ops) == 0 {
					continue
				}
				sort.Slice(ops, func(a, b int) bool { return ops[a].Call < ops[b].Call })
				oks, olds, overlapRead := 0, 0, false
				for i, op := range ops {
					o := op.Output.(vC05LinOut)
					sigParts = append(sigParts, fmt.Sprintf("%s:%s:%d", k, o.res, o.id))
					if strings.HasPrefix(o.res, "err:") {
						c.Fail("op-error", "operation on %q failed without injected fault: %s", k, o.res)
					}
					switch o.res {
					case "ok":
						oks++
					case "old":
						olds++
					case "get":
						for jx, other := range ops {
							if jx != i && !other.Input.(vC05LinIn).get && other.Call < op.Return && op.Call < other.Return {
								overlapRead = true
							}
						}
					}
				}
				if oks >= 2 && olds >= 1 && overlapRead {
					interesting = true
				}
				c.Obs("operations", len(ops))
				res := porcupine.CheckOperationsTimeout(vC05LinModel, ops, 2*time.Minute)
				switch res {
				case porcupine.Unknown:
					c.Obs("porcupine_unknown", 1)
				case porcupine.Ok:
					c.Clause("linearizable")
					c.Obs("histories_linearizable", 1)
				default:
					var lines []string
					for _, op := range ops {
						lines = append(lines, fmt.Sprintf("  c%d [%d,%d] %s", op.ClientId, op.Call, op.Return, vC05LinModel.DescribeOperation(op.Input, op.Output)))
					}
					c.Check(false, "linearizable", "history on key %q is not linearizable w.r.t. the no-downgrade register:\n%s", k, strings.Join(lines, "\n"))
				}
			}
			c.Obs("gate_timeouts", int(g.timeouts.Load()))
			c.Obs("gate_overlaps", int(g.overlaps.Load()))
			if interesting {
				c.Nontrivial(vC05Hash(sigParts))
			}
		})
}
