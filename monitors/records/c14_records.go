//go:build verif

package records

// C14 — ProviderManager.Close and ValueStore.Close.
//
//   ProviderManager.Close: "stops the background GC, waits for it to exit, and fences the
//   datastore: once Close returns, no AddProvider or GetProviders call touches the datastore,
//   and late calls return ErrClosed … It is idempotent."
//   ValueStore.Close: "stops the background sweep started by StartGC and waits for it to exit …
//   idempotent"; reads and writes are explicitly not fenced.
//
// Both run over the journaling datastore with the GC on a short interval. Accesses made by the
// GC loop outside any lock take a few virtual milliseconds (so a GC pass is "in flight" for a
// while); accesses made under ProviderManager.mu or a ValueStore stripe lock only yield
// (runtime.Gosched) — never a virtual sleep under a mutex. Close instants are enumerated over
// the boundary events (datastore accesses, client call starts / returns) of a reference run.

import (
	"context"
	"errors"
	"fmt"
	"math/rand"
	"runtime"
	"runtime/debug"
	"sort"
	"strings"
	"sync"
	"sync/atomic"
	"testing"
	"testing/synctest"
	"time"

	ds "github.com/ipfs/go-datastore"
	record "github.com/libp2p/go-libp2p-record"
	recpb "github.com/libp2p/go-libp2p-record/pb"
	"github.com/libp2p/go-libp2p/core/peer"
	"github.com/libp2p/go-libp2p/core/peerstore"
	"github.com/libp2p/go-libp2p/p2p/host/peerstore/pstoremem"
	ma "github.com/multiformats/go-multiaddr"

	"github.com/libp2p/go-libp2p-kad-dht/internal"
	"github.com/libp2p/go-libp2p-kad-dht/internal/verif/vc14"
	"github.com/libp2p/go-libp2p-kad-dht/internal/verif/vh"
	"github.com/libp2p/go-libp2p-kad-dht/internal/verif/vjds"
	"github.com/libp2p/go-libp2p-kad-dht/internal/verif/vsim"
)

const (
	vC14RecCloseBound = time.Second
	vC14RecCloseHang  = 5 * time.Minute
)

type vC14RecScn struct {
	Seed     int64
	Kind     string // provmgr | valuestore
	Clients  int
	OpsEach  int
	Interval time.Duration // GC interval (<= 0: GC disabled)
	Validity time.Duration // provide validity / max record age
	Prefill  int
	GC       string // valuestore: started | never | noop | twice | parent-cancelled
}

func (s vC14RecScn) String() string {
	return fmt.Sprintf("%s clients=%d ops=%d gc-interval=%v validity=%v prefill=%d gc=%s", s.Kind, s.Clients, s.OpsEach, s.Interval, s.Validity, s.Prefill, s.GC)
}

type vC14RecCall struct {
	What       string
	Start, Ret time.Duration
	AfterClose bool // started after Close had returned
	Err        error
	Panic      string
}

type vC14RecRes struct {
	Events     []vc14.Ev
	CloseIdx   int
	CloseLabel string
	Busy       string
	CloseTook  time.Duration
	InFlight   int
}

type vC14RecVal struct{}

func (vC14RecVal) Validate(string, []byte) error { return nil }
func (vC14RecVal) Select(_ string, vals [][]byte) (int, error) {
	best := 0
	for i, v := range vals {
		if string(v) > string(vals[best]) {
			best = i
		}
	}
	return best, nil
}

func vC14RecRun(t *testing.T, c *vh.Case, sc vC14RecScn, target int) *vC14RecRes {
	var res *vC14RecRes
	c.Bubble(t, 30*time.Minute, "close-hang", func(t *testing.T) {
		res = vC14RecRunInBubble(t, c, sc, target)
	})
	return res
}

func vC14RecRunInBubble(t *testing.T, c *vh.Case, sc vC14RecScn, target int) *vC14RecRes {
	r := rand.New(rand.NewSource(sc.Seed))
	res := &vC14RecRes{}
	tag := fmt.Sprintf("[%s close@%d] ", sc.Kind, target)
	base := vc14.Owned()
	c.Check(len(base) == 0, "baseline-clean", "%sinstance-owned goroutines before construction: %v", tag, vc14.Summary(base))
	bd := vc14.NewBoundary(max(target, 0), "gcLoop")

	store := vjds.New()
	gcDelay := time.Duration(1+r.Intn(6)) * time.Millisecond
	var closeReturned atomic.Bool
	var lateMu sync.Mutex
	var late []string
	armed := false
	store.J.Hook = func(e *vjds.Entry) error {
		if !armed {
			return nil // prefill
		}
		gc := vc14.OnStack("gcLoop") != ""
		underLock := gc && vc14.OnStack("discardIfUnchanged") != ""
		bd.Tick("ds", e.Op+" "+e.Key)
		if closeReturned.Load() && (gc || sc.Kind == "provmgr") {
			lateMu.Lock()
			late = append(late, fmt.Sprintf("+%v %s %s role=%q gc=%v", bd.Since(), e.Op, e.Key, e.Role, gc))
			lateMu.Unlock()
		}
		if gc && !underLock {
			time.Sleep(gcDelay)
		} else {
			runtime.Gosched()
		}
		return nil
	}
	ps0, err := pstoremem.NewPeerstore()
	if err != nil {
		panic(err)
	}
	// the peerstore is part of the boundary: AddProvider records the provider's addresses there before it writes the
	// datastore; the call takes a millisecond of virtual time so that a Close placed on it completes while the
	// addition is still inside
	ps := &vC14RecPS{Peerstore: ps0, tick: func() { bd.Tick("ps", "AddAddrs"); time.Sleep(time.Millisecond) }}
	self := vsim.PeerID("c14rec-self", 0)
	keys := make([][]byte, 4)
	for i := range keys {
		keys[i] = []byte(fmt.Sprintf("c14-key-%d-%d", sc.Seed%997, i))
	}
	vkey := func(i int) string { return fmt.Sprintf("/v/c14-%d-%d", sc.Seed%997, i%4) }

	var pm *ProviderManager
	var vs *ValueStore
	var closeFn func() error
	gcCtx, gcCancel := context.WithCancel(context.Background())
	defer gcCancel()
	old := time.Now().Add(-time.Hour)
	switch sc.Kind {
	case "provmgr":
		for i := 0; i < sc.Prefill; i++ { // half expired, half fresh
			tm := time.Now()
			if i%2 == 0 {
				tm = old
			}
			writeProviderEntry(context.Background(), store, keys[i%len(keys)], vsim.PeerID("c14rec-pre", i), tm)
		}
		armed = true
		pm, err = NewProviderManager(self, ps, store, CleanupInterval(sc.Interval), ProvideValidity(sc.Validity))
		if err != nil {
			panic(err)
		}
		closeFn = pm.Close
	case "valuestore":
		vs = NewValueStore(store, record.NamespacedValidator{"v": vC14RecVal{}}, sc.Validity)
		for i := 0; i < sc.Prefill; i++ {
			rec := record.MakePutRecord(vkey(i), []byte(fmt.Sprintf("pre-%d", i)))
			vs.Put(context.Background(), vkey(i), rec)
		}
		armed = true
		switch sc.GC {
		case "started":
			vs.StartGC(gcCtx, sc.Interval)
		case "twice":
			vs.StartGC(gcCtx, sc.Interval)
			vs.StartGC(gcCtx, sc.Interval/2+time.Millisecond)
		case "noop":
			vs.StartGC(gcCtx, 0)
		case "parent-cancelled":
			vs.StartGC(gcCtx, sc.Interval)
			cancelAt := time.Duration(r.Intn(1500)) * time.Millisecond
			go func() { time.Sleep(cancelAt); gcCancel() }()
		case "never":
		}
		closeFn = vs.Close
	}
	atOpen := vc14.Summary(vc14.Owned())

	// clients
	var mu sync.Mutex
	var calls []*vC14RecCall
	var cwg sync.WaitGroup
	for cl := 0; cl < sc.Clients; cl++ {
		type step struct {
			gap  time.Duration
			kind int
			k    int
			salt int64
		}
		var steps []step
		for i := 0; i < sc.OpsEach; i++ {
			steps = append(steps, step{gap: time.Duration(r.Intn(400)) * time.Millisecond, kind: r.Intn(3), k: r.Intn(4), salt: r.Int63()})
		}
		id := cl
		cwg.Add(1)
		go func() {
			defer cwg.Done()
			ctx := vjds.WithRole(context.Background(), fmt.Sprintf("client%d", id))
			for i, st := range steps {
				time.Sleep(st.gap)
				call := &vC14RecCall{AfterClose: closeReturned.Load(), Start: bd.Since()}
				func() {
					defer func() {
						if pv := recover(); pv != nil {
							call.Panic = fmt.Sprintf("%v\n%s", pv, debug.Stack())
						}
					}()
					switch sc.Kind {
					case "provmgr":
						if st.kind == 0 {
							call.What = "GetProviders"
							bd.Tick("call", call.What)
							_, call.Err = pm.GetProviders(ctx, keys[st.k])
						} else {
							call.What = "AddProvider"
							bd.Tick("call", call.What)
							call.Err = pm.AddProvider(ctx, keys[st.k], peer.AddrInfo{ID: vsim.PeerID("c14rec-prov", id*100+i%5), Addrs: []ma.Multiaddr{ma.StringCast("/ip4/11.0.0.1/tcp/1")}})
						}
					case "valuestore":
						if st.kind == 0 {
							call.What = "Get"
							bd.Tick("call", call.What)
							_, call.Err = vs.Get(ctx, vkey(st.k))
						} else {
							call.What = "Put"
							bd.Tick("call", call.What)
							rec := &recpb.Record{Key: []byte(vkey(st.k)), Value: []byte(fmt.Sprintf("v-%d", st.salt)), TimeReceived: internal.FormatRFC3339(time.Now())}
							call.Err = vs.Put(ctx, vkey(st.k), rec)
							if errors.Is(call.Err, ErrOldRecord) {
								call.Err = nil
							}
						}
					}
				}()
				call.Ret = bd.Since()
				bd.Tick("ret", call.What)
				mu.Lock()
				calls = append(calls, call)
				mu.Unlock()
			}
		}()
	}
	clientsDone := make(chan struct{})
	go func() { cwg.Wait(); close(clientsDone) }()
	settled := make(chan struct{})
	go func() {
		<-clientsDone
		time.Sleep(2*max(sc.Interval, 0) + sc.Validity + time.Second) // let the GC collect what expired
		close(settled)
	}()
	if target < 0 {
		bd.FireNow()
	}
	select {
	case <-bd.Fire:
	case <-settled:
		bd.FireNow()
	}
	evs := bd.Events()
	res.CloseIdx = len(evs)
	if n := len(evs); n > 0 {
		res.CloseLabel, res.Busy = evs[n-1].Kind+" "+evs[n-1].Label, evs[n-1].Owner
	}
	doClose := func(what string) (time.Duration, error) {
		t0 := bd.Since()
		type out struct {
			err error
			pv  string
		}
		ret := make(chan out, 1)
		go func() {
			var o out
			defer func() {
				if pv := recover(); pv != nil {
					o.pv = fmt.Sprintf("%v\n%s", pv, debug.Stack())
				}
				ret <- o
			}()
			o.err = closeFn()
		}()
		tm := time.NewTimer(vC14RecCloseHang)
		defer tm.Stop()
		select {
		case o := <-ret:
			if o.pv != "" {
				c.FailSig("panic", "panic@"+vh.TopRepoFrame([]byte(o.pv)), "%s%s panicked (%s; closed at event #%d %q): %s", tag, what, sc, res.CloseIdx, res.CloseLabel, o.pv)
			}
			return bd.Since() - t0, o.err
		case <-tm.C:
			buf := make([]byte, 1<<22)
			buf = buf[:runtime.Stack(buf, true)]
			c.FailSig("close-hang", "close-hang@"+vh.BlockedRepoFrame(buf), "%s%s did not return within %v (%s; closed at event #%d %q); goroutines:\n%s", tag, what, vC14RecCloseHang, sc, res.CloseIdx, res.CloseLabel, vh.FilterBubble(buf))
			c.ExitNow()
			return 0, nil
		}
	}
	took, cerr := doClose("Close")
	closeReturned.Store(true)
	closeRet := bd.Since()
	res.CloseTook = took
	c.Check(took <= vC14RecCloseBound && cerr == nil, "close-returns-in-bound", "%sClose took %v (bound %v), returned %v (%s; closed at event #%d %q)", tag, took, vC14RecCloseBound, cerr, sc, res.CloseIdx, res.CloseLabel)
	synctest.Wait()
	cA := vc14.Owned()
	c.Check(len(cA) == 0, "no-goroutine-after-close", "%sgoroutines of the store alive after Close returned (%s; closed at event #%d %q, busy %q; at open: %v): %v\n%s", tag, sc, res.CloseIdx, res.CloseLabel, res.Busy, atOpen, vc14.Summary(cA), vc14.Dump(cA, 3))
	for k := 2; k <= 3; k++ {
		tk, e := doClose(fmt.Sprintf("Close #%d", k))
		c.Check(tk <= vC14RecCloseBound && e == nil, "close-again-returns", "%sClose #%d took %v, returned %v", tag, k, tk, e)
	}
	// clients run to completion (every call is a handful of instantaneous datastore accesses)
	tm := time.NewTimer(2 * time.Minute)
	select {
	case <-clientsDone:
	case <-tm.C:
		buf := make([]byte, 1<<22)
		buf = buf[:runtime.Stack(buf, true)]
		c.FailSig("op-returns", "op-returns/stuck@"+vh.BlockedRepoFrame(buf), "%sclient calls still running 2 virtual minutes after Close (%s; closed at event #%d %q)\n%s", tag, sc, res.CloseIdx, res.CloseLabel, vh.FilterBubble(buf))
		c.ExitNow()
	}
	tm.Stop()
	mu.Lock()
	nLate := 0
	for _, cl := range calls {
		c.Check(cl.Panic == "", "op-no-panic", "%s%s (+%v) panicked: %s", tag, cl.What, cl.Start, cl.Panic)
		c.Check(cl.Ret-cl.Start <= vC14RecCloseBound, "op-returns", "%s%s started +%v returned +%v (Close returned +%v)", tag, cl.What, cl.Start, cl.Ret, closeRet)
		if closeStart := closeRet - took; cl.Start <= closeStart && cl.Ret >= closeStart {
			res.InFlight++
		}
		if cl.AfterClose {
			nLate++
			if sc.Kind == "provmgr" { // documented: late calls return ErrClosed
				c.Check(errors.Is(cl.Err, ErrClosed), "late-call-errclosed", "%s%s started +%v, after Close returned (+%v), returned %v instead of ErrClosed", tag, cl.What, cl.Start, closeRet, cl.Err)
			} else {
				c.Check(cl.Err == nil, "late-call-unfenced-works", "%svalue store %s after Close returned %v (Close documents that reads and writes are not fenced)", tag, cl.What, cl.Err)
			}
		}
	}
	mu.Unlock()
	time.Sleep(2*time.Minute + 2*max(sc.Interval, 0))
	synctest.Wait()
	cB := vc14.Owned()
	if !c.Check(len(cB) == 0, "no-goroutine-after-2min", "%sgoroutines of the store 2 virtual minutes after Close: %v\n%s", tag, vc14.Summary(cB), vc14.Dump(cB, 3)) {
		c.ExitNow() // cannot be unwound
	}
	lateMu.Lock()
	if sc.Kind == "provmgr" {
		c.Check(len(late) == 0, "datastore-fenced", "%sdatastore accessed after ProviderManager.Close returned (+%v; %s; closed at event #%d %q): %v", tag, closeRet, sc, res.CloseIdx, res.CloseLabel, late)
	} else {
		c.Check(len(late) == 0, "gc-stopped", "%svalue GC accessed the datastore after ValueStore.Close returned (+%v; %s; closed at event #%d %q): %v", tag, closeRet, sc, res.CloseIdx, res.CloseLabel, late)
	}
	lateMu.Unlock()
	ps.Close()
	res.Events = evs
	c.Obs("runs", 1)
	c.Obs("boundary_events", len(evs))
	c.Obs("journal_entries", store.J.Len())
	c.Obs("client_calls", len(calls))
	c.Obs("client_calls_after_close", nLate)
	c.Obs("client_calls_in_flight_at_close", res.InFlight)
	if res.Busy != "" {
		c.Obs("closes_during_gc_pass", 1)
	}
	return res
}

func vC14RecCase(t *testing.T, c *vh.Case, sc vC14RecScn) {
	c.Set("scenario", sc.String())
	c.Set("seed", sc.Seed)
	ref := vC14RecRun(t, c, sc, 0)
	nGC := 0
	for _, e := range ref.Events {
		if e.Owner != "" {
			nGC++
		}
	}
	idxs := vc14.PickIndices(c.R, ref.Events, 2, 2, c.Tier == "thorough", 64)
	c.Set("close_indices", idxs)
	c.Logf("reference run: %d boundary events (%d by the GC loop), Close after everything took %v", len(ref.Events), nGC, ref.CloseTook)
	var sigs []string
	for _, i := range idxs {
		if i > len(ref.Events) {
			continue
		}
		tg := i
		if i == 0 {
			tg = -1
		}
		res := vC14RecRun(t, c, sc, tg)
		c.Logf("close@%d: event #%d %q busy=%q took %v", tg, res.CloseIdx, res.CloseLabel, res.Busy, res.CloseTook)
		if res.Busy != "" || (res.CloseIdx > 0 && !strings.HasPrefix(res.CloseLabel, "ret")) {
			k, _, _ := strings.Cut(res.CloseLabel, " ")
			sigs = append(sigs, fmt.Sprintf("%s/%v", k, res.Busy != ""))
		}
	}
	if len(sigs) > 0 {
		sort.Strings(sigs)
		c.Nontrivial(fmt.Sprintf("%s/%s/%d/%s", sc.Kind, sc.GC, sc.Clients, strings.Join(sigs, ",")))
	}
}

// vC14RecPS: a peerstore whose AddAddrs is a boundary event.
type vC14RecPS struct {
	peerstore.Peerstore
	tick func()
}

func (p *vC14RecPS) AddAddrs(id peer.ID, addrs []ma.Multiaddr, ttl time.Duration) {
	p.tick()
	p.Peerstore.AddAddrs(id, addrs, ttl)
}

func TestVerif_C14_provmgr(t *testing.T) {
	vh.Run(t, vh.Spec{Prop: "C14", Unit: "provmgr", Quick: 100, Thorough: 4000, CostMs: 60,
		Rule:    "PRNG ProviderManager over the journaling datastore (GC every 50-900 ms or disabled, provide validity 0.3-3 s, 0-12 pre-filled entries half of them expired, GC accesses take 1-6 ms of virtual time) with 1-4 clients issuing 2-8 AddProvider/GetProviders at PRNG gaps; reference run counts boundary events (datastore accesses, call starts/returns), re-runs Close immediately after construction, at 2 events of a GC pass and 2 PRNG indices (thorough: all, <= 64); non-trivial = Close during a GC pass or between a call's start and return; distinct by (clients, event kinds at Close)",
		Clauses: []string{"baseline-clean", "close-returns-in-bound", "no-goroutine-after-close", "close-again-returns", "op-returns", "op-no-panic", "late-call-errclosed", "no-goroutine-after-2min", "datastore-fenced"}},
		func(c *vh.Case) {
			r := c.R
			sc := vC14RecScn{Seed: r.Int63(), Kind: "provmgr", Clients: 1 + r.Intn(4), OpsEach: 2 + r.Intn(7), Interval: time.Duration(50+r.Intn(850)) * time.Millisecond,
				Validity: time.Duration(300+r.Intn(2700)) * time.Millisecond, Prefill: r.Intn(13), GC: "started"}
			if r.Intn(8) == 0 {
				sc.Interval, sc.GC = 0, "disabled"
			}
			vC14RecCase(t, c, sc)
		})
}

func TestVerif_C14_valuestore(t *testing.T) {
	vh.Run(t, vh.Spec{Prop: "C14", Unit: "valuestore", Quick: 100, Thorough: 4000, CostMs: 50,
		Rule:    "PRNG ValueStore over the journaling datastore (max record age 0.3-3 s, GC every 50-900 ms: started / started twice / never started / no-op interval / parent context cancelled at a PRNG instant; 0-8 pre-filled records; the GC's unlocked accesses take 1-6 ms of virtual time) with 1-4 clients issuing 2-8 Put/Get; Close instants enumerated as for provmgr; non-trivial = Close during a GC pass or between a call's start and return",
		Clauses: []string{"baseline-clean", "close-returns-in-bound", "no-goroutine-after-close", "close-again-returns", "op-returns", "op-no-panic", "late-call-unfenced-works", "no-goroutine-after-2min", "gc-stopped"}},
		func(c *vh.Case) {
			r := c.R
			sc := vC14RecScn{Seed: r.Int63(), Kind: "valuestore", Clients: 1 + r.Intn(4), OpsEach: 2 + r.Intn(7), Interval: time.Duration(50+r.Intn(850)) * time.Millisecond,
				Validity: time.Duration(300+r.Intn(2700)) * time.Millisecond, Prefill: r.Intn(9)}
			sc.GC = []string{"started", "started", "started", "started", "twice", "never", "noop", "parent-cancelled"}[r.Intn(8)]
			vC14RecCase(t, c, sc)
		})
}

// constructor failure: a failing option must leave nothing behind
func TestVerif_C14_provmgr_ctor(t *testing.T) {
	vh.Run(t, vh.Spec{Prop: "C14", Unit: "provmgr_ctor", Quick: 20, Thorough: 200, CostMs: 3,
		Rule:    "NewProviderManager with the i-th of 1-4 options failing; oracle: error returned, no goroutine of the package left, datastore untouched; all cases non-trivial",
		Clauses: []string{"ctor-returns-error", "ctor-fail-no-goroutine"}},
		func(c *vh.Case) {
			n := 1 + c.R.Intn(4)
			at := c.R.Intn(n)
			c.Set("options", n)
			c.Set("failing", at)
			c.Bubble(t, 10*time.Minute, "ctor-hang", func(t *testing.T) {
				store := vjds.New()
				ps, _ := pstoremem.NewPeerstore()
				defer ps.Close()
				injected := errors.New("vC14: injected option failure")
				var opts []Option
				for i := 0; i < n; i++ {
					if i == at {
						opts = append(opts, func(*ProviderManager) error { return injected })
					} else {
						opts = append(opts, CleanupInterval(100*time.Millisecond))
					}
				}
				pm, err := NewProviderManager(vsim.PeerID("c14rec-self", 1), ps, store, opts...)
				if !c.Check(err != nil && pm == nil, "ctor-returns-error", "NewProviderManager succeeded with a failing option") {
					pm.Close()
					return
				}
				time.Sleep(time.Second)
				synctest.Wait()
				cs := vc14.Owned()
				if !c.Check(len(cs) == 0 && store.J.Len() == 0, "ctor-fail-no-goroutine", "after the failed constructor: goroutines %v, %d datastore accesses", vc14.Summary(cs), store.J.Len()) && len(cs) > 0 {
					c.ExitNow()
				}
				c.Nontrivial(fmt.Sprintf("%d/%d", n, at))
			})
		})
}

var _ = ds.ErrNotFound
