//go:build verif

package crawler

// C16 (crawl half) — DefaultCrawler.Run queries every peer reachable from its seeds exactly
// once and reports exactly one outcome per queried peer.
//
// The crawler runs over a fake host and a scripted simulated network (vsim) in virtual time.
// The oracle never predicts who answers what: it recomputes the reachable set from the
// outcomes the crawler itself reported (closure over the peer lists of successful queries),
// and cross-checks every reported outcome against the wire log (dial log + FIND_NODE log).

import (
	"context"
	"crypto/sha256"
	"errors"
	"fmt"
	"sort"
	"strings"
	"sync"
	"testing"
	"testing/synctest"
	"time"

	"github.com/libp2p/go-libp2p/core/peer"
	"github.com/libp2p/go-libp2p/core/peerstore"
	ma "github.com/multiformats/go-multiaddr"

	"github.com/libp2p/go-libp2p-kad-dht/internal/verif/vh"
	"github.com/libp2p/go-libp2p-kad-dht/internal/verif/vsim"
	pb "github.com/libp2p/go-libp2p-kad-dht/pb"
)

type vC16Callback struct {
	Seq     int64
	VT      time.Time
	Peer    peer.ID
	Success bool
	Peers   []peer.ID // success: ids handed to the callback
	Err     string
	NilErr  bool
}

type vC16CrawlScenario struct {
	N           int
	SimK        int
	Parallelism int
	ConnTimeout time.Duration
	MsgTimeout  time.Duration
	Degree      int
	FailFrac    float64
	NoAddrFrac  float64
	MaxDelayMs  int
	DupSeeds    bool
	CancelMode  string // none | pre | timed
	CancelAt    time.Duration
	NilHandlers bool
}

func vC16GenCrawl(c *vh.Case) vC16CrawlScenario {
	r := c.R
	sc := vC16CrawlScenario{}
	switch x := r.Intn(10); {
	case x < 2:
		sc.N = 1 + r.Intn(6)
	case x < 8:
		sc.N = 5 + r.Intn(60)
	default:
		sc.N = 50 + r.Intn(150)
	}
	if c.Tier == "thorough" && r.Intn(10) == 0 {
		sc.N = 200 + r.Intn(500)
	}
	sc.SimK = []int{1, 3, 20, 20, 40}[r.Intn(5)]
	sc.Parallelism = []int{1, 2, 3, 8, 64, 200}[r.Intn(6)]
	sc.ConnTimeout = []time.Duration{500 * time.Millisecond, 5 * time.Second, 5 * time.Second}[r.Intn(3)]
	sc.MsgTimeout = 5 * time.Second
	sc.Degree = []int{0, 1, 2, 3, 5, 10, 30}[r.Intn(7)]
	sc.FailFrac = []float64{0, 0.1, 0.3, 0.6}[r.Intn(4)]
	sc.NoAddrFrac = []float64{0, 0, 0.1, 0.3}[r.Intn(4)]
	sc.MaxDelayMs = []int{1, 20, 300, 2000}[r.Intn(4)]
	sc.DupSeeds = r.Intn(7) == 0 // dedicated fraction: known finding #6 lives here only
	switch x := r.Intn(10); {
	case x < 7:
		sc.CancelMode = "none"
	case x < 8:
		sc.CancelMode = "pre"
	default:
		sc.CancelMode = "timed"
		sc.CancelAt = time.Duration(1+r.Intn(40*sc.MaxDelayMs+50)) * time.Millisecond
	}
	sc.NilHandlers = r.Intn(25) == 0
	return sc
}

func vC16Addr(i int) ma.Multiaddr {
	return ma.StringCast(fmt.Sprintf("/ip4/%d.%d.%d.1/tcp/4001", 11+(i/62500)%200, (i/250)%250, i%250))
}

type vC16CrawlResult struct {
	sc          vC16CrawlScenario
	ids         []peer.ID
	idx         map[peer.ID]int
	self        peer.ID
	kind        map[peer.ID]string
	seeds       []*peer.AddrInfo
	seedHasAd   map[peer.ID]bool // some seed entry of this id had an address (own or host peerstore) when Run started
	seedEntries map[peer.ID]int  // number of seed entries with an address, per id
	seedUsable  int
	cbs         []vC16Callback
	log         []vsim.Event
	dials       []vsim.DialEvent
	start       time.Time
	end         time.Time
	cancelVT    time.Time
	cancelled   bool
	lastEvent   time.Time
}

func (res *vC16CrawlResult) name(p peer.ID) string {
	if p == res.self {
		return "self"
	}
	if i, ok := res.idx[p]; ok {
		return fmt.Sprintf("p%d", i)
	}
	return "x" + vsim.Short(p)
}

func (res *vC16CrawlResult) names(ps []peer.ID) []string {
	out := make([]string, len(ps))
	for i, p := range ps {
		out[i] = res.name(p)
	}
	sort.Strings(out)
	return out
}

func vC16RunCrawl(t *testing.T, c *vh.Case, sc vC16CrawlScenario) *vC16CrawlResult {
	r := c.R
	res := &vC16CrawlResult{sc: sc, idx: map[peer.ID]int{}, kind: map[peer.ID]string{}, seedHasAd: map[peer.ID]bool{}, seedEntries: map[peer.ID]int{}}
	res.self = vsim.PeerID("crawl-self", c.Idx)
	h := vsim.NewHost(res.self, ma.StringCast("/ip4/9.9.9.9/tcp/4001"))
	defer h.Close()
	sim := vsim.NewSim(h, sc.SimK)
	// like a real host, dialing a peer for which no address is known fails
	simDial := h.DialFn
	h.DialFn = func(ctx context.Context, p peer.ID) error {
		if len(h.Peerstore().Addrs(p)) == 0 {
			return errors.New("vsim: no addresses for peer")
		}
		return simDial(ctx, p)
	}
	for i := 0; i < sc.N; i++ {
		id := vsim.PeerID(fmt.Sprintf("crawl%d", c.Idx), i)
		res.ids = append(res.ids, id)
		res.idx[id] = i
		sp := &vsim.SimPeer{ID: id}
		if r.Float64() >= sc.NoAddrFrac {
			sp.Addrs = []ma.Multiaddr{vC16Addr(i)}
			if r.Intn(6) == 0 {
				sp.Addrs = append(sp.Addrs, ma.StringCast(fmt.Sprintf("/ip4/%d.%d.%d.2/udp/4001/quic-v1", 11+(i/62500)%200, (i/250)%250, i%250)))
			}
		}
		sim.Add(sp)
	}
	// knowledge graph: PRNG out-neighbours (cycles, self-loops excluded by the honest answer, unreachable islands)
	for i, id := range res.ids {
		sp := sim.Peer(id)
		deg := sc.Degree
		if deg > 0 {
			deg = r.Intn(2*deg + 1)
		}
		seen := map[int]bool{}
		for j := 0; j < deg && len(seen) < sc.N; j++ {
			x := r.Intn(sc.N)
			if r.Intn(4) == 0 && i > 0 { // back edges make cycles likely
				x = r.Intn(i)
			}
			if !seen[x] {
				seen[x] = true
				sp.Known = append(sp.Known, res.ids[x])
			}
		}
		if r.Intn(12) == 0 { // refers to a peer nobody can reach
			sp.Known = append(sp.Known, vsim.PeerID(fmt.Sprintf("crawl-stranger%d", c.Idx), i))
		}
	}
	// behaviours
	for i, id := range res.ids {
		sp := sim.Peer(id)
		base := time.Duration(1+r.Intn(sc.MaxDelayMs)) * time.Millisecond
		kind := "ok"
		if r.Float64() < sc.FailFrac {
			kind = []string{"dead", "dialfail", "dialslow", "reqerr", "silent", "empty", "nilresp"}[r.Intn(7)]
		}
		at := r.Intn(16)
		res.kind[id] = kind
		if kind == "reqerr" || kind == "silent" || kind == "nilresp" {
			res.kind[id] = fmt.Sprintf("%s@%d", kind, at)
		}
		idx := i
		switch kind {
		case "dead":
			sp.Dead = true
			continue
		case "empty":
			sp.Known = nil
		}
		kk := kind
		sp.Script = func(cnt int, req *pb.Message) vsim.Reply {
			if req == nil {
				switch kk {
				case "dialfail":
					return vsim.Reply{DialFail: true, Delay: base}
				case "dialslow":
					return vsim.Reply{DialFail: true, Delay: 20 * time.Second}
				}
				return vsim.Reply{}
			}
			rep := vsim.Reply{Delay: base + time.Duration((cnt*31+idx)%5)*time.Millisecond}
			if cnt%16 == at {
				switch kk {
				case "reqerr":
					rep.Err = errors.New("vsim: stream reset by peer")
				case "silent":
					rep.Silent = true
				case "nilresp":
					rep.Override = pb.NewMessage(pb.Message_FIND_NODE, req.GetKey(), 0) // an answer naming nobody
				}
			}
			return rep
		}
	}
	// seeds
	nSeeds := 1 + r.Intn(5)
	for j := 0; j < nSeeds; j++ {
		var ai peer.AddrInfo
		switch x := r.Intn(12); {
		case x == 0: // a seed that does not exist
			ai = peer.AddrInfo{ID: vsim.PeerID(fmt.Sprintf("crawl-ghost%d", c.Idx), j), Addrs: []ma.Multiaddr{vC16Addr(100000 + j)}}
		case x == 1: // seed without any address: skipped by the crawler
			ai = peer.AddrInfo{ID: res.ids[r.Intn(sc.N)]}
		case x == 2: // address known to the host's peerstore only
			id := res.ids[r.Intn(sc.N)]
			ai = peer.AddrInfo{ID: id}
			h.Peerstore().AddAddrs(id, []ma.Multiaddr{vC16Addr(res.idx[id])}, peerstore.PermanentAddrTTL)
		default:
			id := res.ids[r.Intn(sc.N)]
			ai = peer.AddrInfo{ID: id, Addrs: []ma.Multiaddr{vC16Addr(res.idx[id])}}
		}
		a := ai
		res.seeds = append(res.seeds, &a)
	}
	if !sc.DupSeeds {
		// keep seeds distinct outside the dedicated fraction
		seen := map[peer.ID]bool{}
		var ds []*peer.AddrInfo
		for _, s := range res.seeds {
			if !seen[s.ID] {
				seen[s.ID] = true
				ds = append(ds, s)
			}
		}
		res.seeds = ds
	} else {
		// repeat one or two seeds (same pointer or a fresh AddrInfo), as fullrt's runCrawler does with found ∪ bootstrap
		for j := 0; j < 1+r.Intn(2); j++ {
			s := res.seeds[r.Intn(len(res.seeds))]
			if r.Intn(2) == 0 {
				cp := *s
				s = &cp
			}
			pos := r.Intn(len(res.seeds) + 1)
			res.seeds = append(res.seeds[:pos], append([]*peer.AddrInfo{s}, res.seeds[pos:]...)...)
		}
	}
	for _, s := range res.seeds {
		if len(s.Addrs) > 0 || len(h.Peerstore().Addrs(s.ID)) > 0 {
			res.seedHasAd[s.ID] = true
			res.seedUsable++
			res.seedEntries[s.ID]++
		}
	}

	cr, err := NewDefaultCrawler(h, WithParallelism(sc.Parallelism), WithConnectTimeout(sc.ConnTimeout), WithMsgTimeout(sc.MsgTimeout),
		WithCustomMessageSender(sim.Builder()))
	if err != nil {
		panic(fmt.Sprintf("NewDefaultCrawler: %v", err))
	}
	var mu sync.Mutex
	onOK := func(p peer.ID, rt []*peer.AddrInfo) {
		cb := vC16Callback{Seq: h.Seq.Add(1), VT: time.Now(), Peer: p, Success: true}
		for _, ai := range rt {
			cb.Peers = append(cb.Peers, ai.ID)
		}
		mu.Lock()
		res.cbs = append(res.cbs, cb)
		mu.Unlock()
	}
	onFail := func(p peer.ID, err error) {
		cb := vC16Callback{Seq: h.Seq.Add(1), VT: time.Now(), Peer: p, NilErr: err == nil}
		if err != nil {
			cb.Err = err.Error()
		}
		mu.Lock()
		res.cbs = append(res.cbs, cb)
		mu.Unlock()
	}
	ctx, cancel := context.WithCancel(context.Background())
	defer cancel()
	switch sc.CancelMode {
	case "pre":
		cancel()
		res.cancelVT = time.Now()
		res.cancelled = true
	case "timed":
		tm := time.AfterFunc(sc.CancelAt, func() {
			res.cancelVT = time.Now()
			res.cancelled = true
			cancel()
		})
		defer tm.Stop()
	}
	res.start = time.Now()
	if sc.NilHandlers {
		cr.Run(ctx, res.seeds, nil, nil)
	} else {
		cr.Run(ctx, res.seeds, onOK, onFail)
	}
	res.end = time.Now()
	synctest.Wait()
	res.log = sim.Log()
	res.dials = h.DialLog()
	res.lastEvent = res.start
	for _, e := range res.log {
		if e.VT.After(res.lastEvent) {
			res.lastEvent = e.VT
		}
	}
	for _, d := range res.dials {
		if d.End.After(res.lastEvent) {
			res.lastEvent = d.End
		}
	}
	return res
}

func vC16OracleCrawl(c *vh.Case, res *vC16CrawlResult) (hops int) {
	sc := res.sc
	// duplicated seed ids (input class of known finding #6)
	dupSeed := func(p peer.ID) bool { return res.seedEntries[p] > 1 }
	failDup := func(p peer.ID, clause, format string, args ...any) {
		c.Clause(clause)
		if dupSeed(p) {
			c.FailSig(clause, "crawl/duplicate-seed", format, args...)
		} else {
			c.Fail(clause, format, args...)
		}
	}

	// wire view per peer
	type wire struct {
		dials, dialFails int
		reqs, okReps     int
		errReps          int
		named            map[peer.ID]bool
	}
	w := map[peer.ID]*wire{}
	get := func(p peer.ID) *wire {
		x := w[p]
		if x == nil {
			x = &wire{named: map[peer.ID]bool{}}
			w[p] = x
		}
		return x
	}
	for _, d := range res.dials {
		x := get(d.Peer)
		x.dials++
		if d.Err != "" {
			x.dialFails++
		}
	}
	for _, e := range res.log {
		if e.Type != pb.Message_FIND_NODE {
			continue
		}
		x := get(e.Peer)
		switch e.Kind {
		case vsim.EvRequest:
			x.reqs++
		case vsim.EvReply:
			if e.Err != "" {
				x.errReps++
			} else {
				x.okReps++
				for _, q := range e.Closer {
					x.named[q] = true
				}
			}
		}
	}
	c.Obs("find_node_requests", len(res.log)/2)
	c.Obs("dials", len(res.dials))
	c.Obs("callbacks", len(res.cbs))

	if sc.NilHandlers {
		// nothing reported; only the wire clauses apply
		for p, x := range w {
			if x.dials > 1 || x.reqs > 16 {
				failDup(p, "queried-once", "%s: %d dials, %d FIND_NODE requests in one crawl", res.name(p), x.dials, x.reqs)
			} else {
				c.Clause("queried-once")
			}
		}
		return 0
	}

	// (1) exactly one outcome per peer that has any
	nOK, nFail := map[peer.ID]int{}, map[peer.ID]int{}
	okPeers := map[peer.ID][]peer.ID{}
	for _, cb := range res.cbs {
		if cb.Success {
			nOK[cb.Peer]++
			okPeers[cb.Peer] = append(okPeers[cb.Peer], cb.Peers...) // one callback per peer unless the exactly-once clauses fail
		} else {
			nFail[cb.Peer]++
		}
	}
	reported := map[peer.ID]bool{}
	for p := range nOK {
		reported[p] = true
	}
	for p := range nFail {
		reported[p] = true
	}
	for p := range reported {
		if nOK[p]+nFail[p] != 1 {
			failDup(p, "one-outcome", "%s got %d success and %d failure callbacks in one crawl", res.name(p), nOK[p], nFail[p])
		} else {
			c.Clause("one-outcome")
		}
	}
	// (2) queried once: at most one connection attempt and 16 requests per peer; every contacted peer reported
	for p, x := range w {
		if x.dials > 1 || x.reqs > 16 {
			failDup(p, "queried-once", "%s: %d dials, %d FIND_NODE requests in one crawl", res.name(p), x.dials, x.reqs)
		} else {
			c.Clause("queried-once")
		}
		c.Check(reported[p], "contacted-then-reported", "%s was contacted (%d dials, %d requests) but no outcome was reported", res.name(p), x.dials, x.reqs)
	}
	// (3) outcome agrees with the wire
	for p := range reported {
		x := get(p)
		if dupSeed(p) && (nOK[p]+nFail[p] != 1) {
			continue // already reported above; the per-query wire counts are doubled
		}
		if nOK[p] > 0 {
			ok := x.dialFails == 0 && x.errReps == 0 && x.okReps == 16 && len(x.named) > 0
			c.Check(ok, "success-iff-answered", "%s reported as success but the wire shows dialFails=%d okReplies=%d errReplies=%d named=%d", res.name(p), x.dialFails, x.okReps, x.errReps, len(x.named))
			got := map[peer.ID]bool{}
			for _, q := range okPeers[p] {
				got[q] = true
			}
			same := len(got) == len(x.named) && len(got) == len(okPeers[p])
			for q := range got {
				if !x.named[q] {
					same = false
				}
			}
			c.Check(same, "success-lists-answers", "%s: success callback lists %v, its 16 answers named %v", res.name(p), res.names(okPeers[p]), res.names(vC16Keys(x.named)))
		} else {
			failed := x.dialFails > 0 || x.errReps > 0 || (x.okReps == 16 && len(x.named) == 0)
			c.Check(failed, "failure-iff-failed", "%s reported as failure but connected and answered all 16 requests naming %d peers", res.name(p), len(x.named))
		}
	}
	// (4) reported set = closure of the seeds under the lists of successful queries
	exp := map[peer.ID]bool{}
	var queue []peer.ID
	for _, s := range res.seeds {
		if res.seedHasAd[s.ID] && !exp[s.ID] {
			exp[s.ID] = true
			queue = append(queue, s.ID)
		}
	}
	nSeeds := len(queue)
	for len(queue) > 0 {
		p := queue[0]
		queue = queue[1:]
		if nOK[p] == 0 {
			continue
		}
		for _, q := range okPeers[p] { // the list handed to the success callback (compared with what the peer really sent above)
			if !exp[q] {
				exp[q] = true
				queue = append(queue, q)
			}
		}
	}
	var missing, extra []peer.ID
	for p := range exp {
		if !reported[p] {
			missing = append(missing, p)
		}
	}
	for p := range reported {
		if !exp[p] {
			extra = append(extra, p)
		}
	}
	c.Check(len(missing) == 0, "reachable-all-queried", "reachable from the seeds through successful answers but never reported: %v (seeds %d, reachable %d, reported %d, cancelled=%v)", res.names(missing), nSeeds, len(exp), len(reported), res.cancelled)
	c.Check(len(extra) == 0, "only-reachable-queried", "reported although not reachable from the seeds through successful answers: %v", res.names(extra))
	// seeds without any address must be skipped silently
	for _, s := range res.seeds {
		if !res.seedHasAd[s.ID] && !exp[s.ID] {
			c.Check(!reported[s.ID] && w[s.ID] == nil, "addressless-seed-skipped", "seed %s has no address but was contacted/reported", res.name(s.ID))
		}
	}
	// (5) termination in virtual time
	bound := res.lastEvent.Add(time.Second)
	c.Check(!res.end.After(bound), "returns-after-last-event", "Run returned at +%v, last dial/RPC concluded at +%v", res.end.Sub(res.start), res.lastEvent.Sub(res.start))
	if res.cancelled {
		from := res.cancelVT
		if from.Before(res.start) {
			from = res.start
		}
		c.Check(!res.end.After(from.Add(time.Second)), "returns-after-cancel", "Run returned %v after its context was cancelled", res.end.Sub(from))
	}
	// generous: one query timeout per reachable peer (and per usable seed entry, so that the
	// double work caused by duplicate seeds is judged by the exactly-once clauses, not here)
	abs := time.Duration(len(exp)+res.seedUsable+1) * 3 * sc.ConnTimeout
	c.Check(res.end.Sub(res.start) <= abs, "returns-within-budget", "Run took %v of virtual time for %d peers (query timeout %v each)", res.end.Sub(res.start), len(exp), 3*sc.ConnTimeout)
	if len(reported) > nSeeds {
		hops = 2
	}
	c.Obs("peers_reported", len(reported))
	c.Obs("peers_succeeded", len(nOK))
	return hops
}

func vC16Keys(m map[peer.ID]bool) []peer.ID {
	out := make([]peer.ID, 0, len(m))
	for p := range m {
		out = append(out, p)
	}
	return out
}

func TestVerif_C16_crawl(t *testing.T) {
	vh.Run(t, vh.Spec{Prop: "C16", Unit: "crawl", Quick: 600, Thorough: 20000, CostMs: 10,
		Rule:    "PRNG digraphs of 1-200 simulated peers (thorough up to 700): out-degree 0-60 with back edges (cycles), unreachable islands, referrals to strangers; 0-60% peers dead / failing or timing out at connect / failing, silent or empty at the n-th of the 16 FIND_NODE requests / answering nothing; 0-30% peers without address; 1-5 seeds incl. ghost, addressless and peerstore-only seeds; duplicate seeds in a dedicated 1/7 of the cases; parallelism 1-200; 30% cancelled (before the call or at a PRNG instant); DefaultCrawler.Run in virtual time; oracle = closure over reported successes + wire log; non-trivial = uncancelled and some non-seed peer was queried; distinct by (shape, behaviour mix, callback order)",
		Clauses: []string{"one-outcome", "queried-once", "contacted-then-reported", "success-iff-answered", "success-lists-answers", "failure-iff-failed", "reachable-all-queried", "only-reachable-queried", "returns-after-last-event", "returns-after-cancel", "returns-within-budget", "addressless-seed-skipped"}},
		func(c *vh.Case) {
			sc := vC16GenCrawl(c)
			c.Bubble(t, 6*time.Hour, "crawl-hang", func(t *testing.T) {
				res := vC16RunCrawl(t, c, sc)
				hops := vC16OracleCrawl(c, res)
				c.Set("N", sc.N)
				c.Set("sim_k", sc.SimK)
				c.Set("parallelism", sc.Parallelism)
				c.Set("degree", sc.Degree)
				c.Set("fail_frac", sc.FailFrac)
				c.Set("noaddr_frac", sc.NoAddrFrac)
				c.Set("dup_seeds", sc.DupSeeds)
				c.Set("cancel", sc.CancelMode)
				c.Set("cancel_at_ms", sc.CancelAt.Milliseconds())
				c.Set("nil_handlers", sc.NilHandlers)
				var seeds []string
				for _, s := range res.seeds {
					seeds = append(seeds, res.name(s.ID))
				}
				c.Set("seeds", seeds)
				c.Set("virtual_duration_ms", res.end.Sub(res.start).Milliseconds())
				var order []string
				for _, cb := range res.cbs {
					tag := "-"
					if cb.Success {
						tag = "+"
					}
					order = append(order, tag+res.name(cb.Peer))
				}
				c.Logf("callbacks: %s", strings.Join(order, " "))
				var beh []string
				for p, k := range res.kind {
					if k != "ok" {
						beh = append(beh, res.name(p)+"="+k)
					}
				}
				sort.Strings(beh)
				if len(beh) > 40 {
					beh = beh[:40]
				}
				c.Logf("misbehaving: %s", strings.Join(beh, " "))
				if !res.cancelled && hops >= 2 {
					hh := sha256.Sum256([]byte(fmt.Sprintf("%d/%d/%d/%v/%s", sc.N, sc.SimK, sc.Parallelism, sc.FailFrac, strings.Join(order, ","))))
					c.Nontrivial(fmt.Sprintf("%x", hh[:8]))
				}
			})
		})
}
