//go:build verif

package crawler

// C14 (accelerated client, crawler half) — FullRT.Close cancels the context of the crawl in progress and waits for
// runCrawler, which waits for DefaultCrawler.Run: Close returns only when Run has returned, and "all goroutines the
// instance started have exited" includes the crawl's workers. The fullrt units of C14 drive a fake crawler (the
// documented seam); this unit puts the real DefaultCrawler under the same treatment: a crawl over a simulated
// digraph, cancelled at a PRNG instant while queries are outstanding; Run must return within a second of virtual
// time and no goroutine started by the crawler may be left once the outstanding RPCs have concluded.

import (
	"fmt"
	"testing"
	"testing/synctest"
	"time"

	"github.com/libp2p/go-libp2p/core/peer"

	"github.com/libp2p/go-libp2p-kad-dht/internal/verif/vh"
	"github.com/libp2p/go-libp2p-kad-dht/internal/verif/vsim"
)

func TestVerif_C14_crawler(t *testing.T) {
	vh.Run(t, vh.Spec{Prop: "C14", Unit: "crawler", Quick: 300, Thorough: 8000, CostMs: 10,
		Rule:    "crawl scenarios of C16/crawl (PRNG digraphs, failing / silent / slow peers, parallelism 1-200) whose context is cancelled at a PRNG instant (as FullRT.Close does); oracle: DefaultCrawler.Run returns within 1 s of virtual time after the cancellation, and once every outstanding dial / RPC has concluded (3 x connect timeout later) no goroutine started by the crawler is left (census of goroutines created in package crawler); non-trivial = at least two queries were outstanding at the cancellation; distinct by (shape, cancel instant, outstanding queries)",
		Clauses: []string{"run-returns-after-cancel", "no-goroutine-after-cancelled-crawl"}},
		func(c *vh.Case) {
			sc := vC16GenCrawl(c)
			sc.CancelMode = "timed"
			sc.CancelAt = time.Duration(1+c.R.Intn(20*sc.MaxDelayMs+50)) * time.Millisecond
			if sc.Parallelism < 2 {
				sc.Parallelism = 2 + c.R.Intn(6)
			}
			c.Bubble(t, 6*time.Hour, "crawl-hang", func(t *testing.T) {
				res := vC16RunCrawl(t, c, sc)
				c.Set("N", sc.N)
				c.Set("parallelism", sc.Parallelism)
				c.Set("cancel_at_ms", sc.CancelAt.Milliseconds())
				if !res.cancelled {
					return // the crawl was over before the cancellation
				}
				from := res.cancelVT
				c.Check(!res.end.After(from.Add(time.Second)), "run-returns-after-cancel", "Run returned %v after its context was cancelled", res.end.Sub(from))
				time.Sleep(3*sc.ConnTimeout + time.Second)
				synctest.Wait()
				left := 0
				var tops []string
				for _, g := range vh.Census() {
					left++
					if len(tops) < 4 {
						tops = append(tops, g.Top+" <- "+g.CreatedBy)
					}
				}
				c.Check(left == 0, "no-goroutine-after-cancelled-crawl", "%d goroutines started by the crawler are left after the cancelled crawl returned and every outstanding RPC concluded: %v", left, tops)
				// peers with an RPC on the wire at the cancellation
				replied := map[int64]time.Time{}
				for _, e := range res.log {
					if e.Kind == vsim.EvReply {
						replied[e.ReqSeq] = e.VT
					}
				}
				out := map[peer.ID]bool{}
				for _, e := range res.log {
					if e.Kind == vsim.EvRequest && !e.VT.After(from) {
						if rv, ok := replied[e.Seq]; !ok || !rv.Before(from) {
							out[e.Peer] = true
						}
					}
				}
				c.Obs("peers_with_rpc_outstanding_at_cancel", len(out))
				if len(out) >= 2 {
					c.Nontrivial(fmt.Sprintf("%d/%d/%d/%d/%d", sc.N, sc.Parallelism, sc.CancelAt.Milliseconds(), len(out), len(res.cbs)))
				}
			})
		})
}
