//go:build verif

package dual

// C04 (dual client) — dual.SearchValue / GetValue / GetPublicKey yield only validator-approved
// values for the requested key, WAN and LAN are merged under the same validator, the stream is
// strictly improving, the final value is at least as good as everything valid that was supplied
// before the search ended, nothing valid supplied means not-found, and a returned public key
// hashes to the peer id.
//
// dual.GetValue is documented (and required by C15) to return the WAN DHT's result whenever the
// WAN lookup succeeds: its "best" clause is therefore judged against the supply of the DHT whose
// result it returns; the cases in which the LAN held something better are counted, not judged.

import (
	"bytes"
	"crypto/sha256"
	"errors"
	"fmt"
	"strings"
	"testing"
	"time"

	recpb "github.com/libp2p/go-libp2p-record/pb"
	ci "github.com/libp2p/go-libp2p/core/crypto"
	"github.com/libp2p/go-libp2p/core/peer"
	"github.com/libp2p/go-libp2p/core/routing"
	ma "github.com/multiformats/go-multiaddr"

	"github.com/libp2p/go-libp2p-kad-dht/internal/verif/vh"
	"github.com/libp2p/go-libp2p-kad-dht/internal/verif/vjds"
	"github.com/libp2p/go-libp2p-kad-dht/internal/verif/vsim"
)

// vC04DSupply is one value handed to the search: by a local store (Local) or by an answer.
type vC04DSupply struct {
	VT    time.Time
	Seq   int64
	Val   []byte
	Lan   bool
	Local bool
	Valid bool // judged by the monitor's reference validator at the instant of arrival
	From  string
}

func vC04DSupplies(n *vDNet, res *vDRes, key string, localW, localL []byte) []vC04DSupply {
	var out []vC04DSupply
	if localW != nil {
		out = append(out, vC04DSupply{VT: res.Start, Seq: res.StartSeq, Val: localW, Local: true, Valid: vDValidAt(key, localW, res.Start), From: "wan-local"})
	}
	if localL != nil {
		out = append(out, vC04DSupply{VT: res.Start, Seq: res.StartSeq, Val: localL, Lan: true, Local: true, Valid: vDValidAt(key, localL, res.Start), From: "lan-local"})
	}
	for li, lg := range [][]vsim.Event{vDSince(n.W.Log(), res.W0), vDSince(n.L.Log(), res.L0)} {
		for _, s := range vDSuppliedValues(lg, key) {
			out = append(out, vC04DSupply{VT: s.VT, Seq: s.Seq, Val: s.Val, Lan: li == 1, Valid: vDValidAt(key, s.Val, s.VT), From: []string{"w:", "l:"}[li] + n.Name(s.From)})
		}
	}
	return out
}

// vC04DPlaceValues assigns records of all classes to the responders of both networks and to
// both local stores. Ranks are unique per distinct value.
func vC04DPlaceValues(n *vDNet, key string, now time.Time) (classes map[string]int) {
	r := n.C.R
	classes = map[string]int{}
	rank := 0
	nonce := 0
	ranks := r.Perm(400)
	newValid := func(expiry time.Time) []byte {
		rank++
		nonce++
		return vDMakeValue(key, 1+ranks[rank%len(ranks)], expiry, nonce)
	}
	pool := [][]byte{}
	for i := 0; i < 1+r.Intn(6); i++ {
		pool = append(pool, newValid(time.Time{}))
	}
	maxDelay := time.Duration(n.Cfg.WDelay+n.Cfg.LDelay) * time.Millisecond
	draw := func(mode string) (string, *recpb.Record) {
		cl := "missing"
		switch mode {
		case "none":
		case "valid":
			if r.Intn(2) == 0 {
				cl = "valid"
			}
		case "invalid":
			if r.Intn(2) == 0 {
				cl = []string{"badrank", "garbage", "otherkey-value", "miskeyed", "miskeyed-good-value", "empty", "stale"}[r.Intn(7)]
			}
		default: // mixed
			cl = []string{"missing", "missing", "valid", "valid", "valid-fresh", "stale", "expiring", "badrank", "garbage", "otherkey-value", "miskeyed", "miskeyed-good-value", "empty"}[r.Intn(13)]
		}
		rec := &recpb.Record{Key: []byte(key)}
		switch cl {
		case "missing":
			return cl, nil
		case "valid":
			rec.Value = pool[r.Intn(len(pool))]
		case "valid-fresh":
			rec.Value = newValid(time.Time{})
		case "stale":
			rec.Value = newValid(now.Add(-time.Duration(1+r.Intn(3600)) * time.Second))
		case "expiring":
			rec.Value = newValid(now.Add(time.Duration(r.Int63n(int64(3*maxDelay) + 1))))
		case "badrank":
			nonce++
			rec.Value = vDMakeValue(key, -1-r.Intn(5), time.Time{}, nonce)
		case "garbage":
			nonce++
			rec.Value = []byte(fmt.Sprintf("garbage-%d", nonce))
		case "otherkey-value":
			nonce++
			rec.Value = vDMakeValue(key+"-other", 390+r.Intn(10), time.Time{}, nonce)
		case "miskeyed":
			nonce++
			rec.Key = []byte(key + "-other")
			rec.Value = vDMakeValue(key+"-other", 390+r.Intn(10), time.Time{}, nonce)
		case "miskeyed-good-value":
			// filed under another key, but the value would pass the validator for the requested one
			rec.Key = []byte(key + "-other")
			rec.Value = newValid(time.Time{})
		case "empty":
		}
		return cl, rec
	}
	modes := []string{"none", "valid", "invalid", "mixed", "mixed", "mixed"}
	for li, s := range []*vsim.Sim{n.W, n.L} {
		mode := modes[r.Intn(len(modes))]
		ids := n.WIDs
		if li == 1 {
			ids = n.LIDs
		}
		for _, id := range ids {
			cl, rec := draw(mode)
			classes[[]string{"wan-", "lan-"}[li]+cl]++
			if rec != nil {
				s.Peer(id).Values[key] = rec
			}
		}
		// local store of this inner DHT
		store := []*vjds.Store{n.WDS, n.LDS}[li]
		switch x := r.Intn(12); {
		case x < 6:
		case x < 8:
			n.PutLocalRaw(store, key, pool[r.Intn(len(pool))], key)
			classes[[]string{"wan-", "lan-"}[li]+"local-valid"]++
		case x < 9:
			n.PutLocalRaw(store, key, newValid(time.Time{}), key)
			classes[[]string{"wan-", "lan-"}[li]+"local-valid"]++
		case x < 10:
			n.PutLocalRaw(store, key, newValid(now.Add(-time.Minute)), key)
			classes[[]string{"wan-", "lan-"}[li]+"local-stale"]++
		case x < 11:
			n.PutLocalRaw(store, key, []byte("local-garbage"), key)
			classes[[]string{"wan-", "lan-"}[li]+"local-garbage"]++
		default:
			n.PutLocalRaw(store, key, vDMakeValue(key+"-other", 399, time.Time{}, 0), key+"-other")
			classes[[]string{"wan-", "lan-"}[li]+"local-misfiled"]++
		}
	}
	return classes
}

func vC04DBestValid(sup []vC04DSupply, lan, both bool, before time.Time) *vC04DSupply {
	var best *vC04DSupply
	for i := range sup {
		s := &sup[i]
		if !s.Valid || (!both && s.Lan != lan) {
			continue
		}
		if !s.Local && !s.VT.Before(before) {
			continue
		}
		if best == nil || vDRank(s.Val) > vDRank(best.Val) {
			best = s
		}
	}
	return best
}

func vC04DJudgeSearch(c *vh.Case, n *vDNet, res *vDRes, sup []vC04DSupply) {
	key := res.Op.Key
	c.Check(res.Err == nil, "search-no-error", "SearchValue returned %v", res.Err)
	prev := -1
	for _, e := range res.Emits {
		c.Check(vDValidAt(key, e.Val, e.VT), "yielded-valid-at-emission", "SearchValue yielded %q, which the validator rejects for %s at the instant of emission", e.Val, key)
		supplied := false
		for _, s := range sup {
			if bytes.Equal(s.Val, e.Val) && s.Seq <= e.Seq {
				supplied = true
			}
		}
		c.Check(supplied, "yielded-was-supplied", "SearchValue yielded %q, which no local store and no answer returned so far had supplied under this key", e.Val)
		c.Check(vDRank(e.Val) > prev, "strictly-improving", "SearchValue yielded rank %d after rank %d", vDRank(e.Val), prev)
		prev = vDRank(e.Val)
	}
	if res.Cancelled || res.ChanClosed.IsZero() {
		return
	}
	best := vC04DBestValid(sup, false, true, res.ChanClosed)
	if best == nil {
		anyValid := false
		for _, s := range sup {
			if s.Valid {
				anyValid = true
			}
		}
		if !anyValid {
			c.Check(len(res.Emits) == 0, "nothing-valid-not-found", "nothing valid was supplied, yet SearchValue yielded %d values", len(res.Emits))
		}
		return
	}
	final := -1
	if len(res.Emits) > 0 {
		final = vDRank(res.Emits[len(res.Emits)-1].Val)
	}
	if final < vDRank(best.Val) {
		sig := "final-is-best"
		if best.Local {
			// a record held in a local store lost against the other inner DHT's worse one
			sig = "final-is-best/local-record-lost"
		}
		c.Clause("final-is-best")
		c.FailSig("final-is-best", sig, "the search ended at +%v with final rank %d, but %s had supplied the valid value %q (rank %d) at +%v, strictly before the end", res.ChanClosed.Sub(res.Start), final, best.From, best.Val, vDRank(best.Val), best.VT.Sub(res.Start))
	} else {
		c.Clause("final-is-best")
	}
}

func vC04DJudgeGet(c *vh.Case, n *vDNet, res *vDRes, sup []vC04DSupply) {
	key := res.Op.Key
	wanValid, lanValid := 0, 0
	for _, s := range sup {
		if s.Valid && s.Seq < res.EndSeq {
			if s.Lan {
				lanValid++
			} else {
				wanValid++
			}
		}
	}
	if res.Err == nil {
		validWhenSupplied, supplied := false, false
		lanSource := true
		for _, s := range sup {
			if bytes.Equal(s.Val, res.Val) && s.Seq < res.EndSeq {
				supplied = true
				if s.Valid {
					validWhenSupplied = true
					if !s.Lan {
						lanSource = false
					}
				}
			}
		}
		c.Check(supplied, "yielded-was-supplied", "GetValue returned %q, which nobody had supplied under this key", res.Val)
		c.Check(validWhenSupplied, "yielded-valid-at-emission", "GetValue returned %q, which the validator rejected for %s whenever it was supplied", res.Val, key)
		if !vDValidAt(key, res.Val, res.End) {
			c.Obs("getvalue_returned_value_expired_during_search", 1)
		}
		if res.Cancelled {
			return
		}
		lanSource = wanValid == 0 // C15: the WAN result is returned whenever the WAN lookup succeeded
		// the inner search whose result is returned ends at the return of the dual call, or earlier
		// when its quorum was exceeded: at the (quorum+1)-th valid value it processed
		end := res.End
		if q := res.Op.Quorum; q > 0 {
			k := 0
			for _, s := range sup { // local supply first, answers in arrival order per network
				if s.Valid && s.Lan == lanSource && s.Seq < res.EndSeq {
					if k++; k == q+1 && s.VT.Before(end) {
						end = s.VT
					}
				}
			}
		}
		best := vC04DBestValid(sup, lanSource, false, end)
		if best != nil {
			c.Check(vDRank(res.Val) >= vDRank(best.Val), "final-is-best", "GetValue returned rank %d at +%v, but %s had supplied the valid value %q (rank %d) to the %s DHT at +%v, strictly before", vDRank(res.Val), res.End.Sub(res.Start), best.From, best.Val, vDRank(best.Val), map[bool]string{false: "WAN", true: "LAN"}[lanSource], best.VT.Sub(res.Start))
		}
		if other := vC04DBestValid(sup, !lanSource, false, res.End); other != nil && vDRank(other.Val) > vDRank(res.Val) {
			c.Obs("getvalue_other_dht_held_better", 1)
		}
		return
	}
	if res.Cancelled {
		return
	}
	c.Check(res.Val == nil, "error-without-value", "GetValue returned both %q and %v", res.Val, res.Err)
	if wanValid+lanValid == 0 {
		c.Check(errors.Is(res.Err, routing.ErrNotFound), "nothing-valid-not-found", "nothing valid was supplied; GetValue returned %v", res.Err)
	} else {
		c.Check(false, "valid-supplied-found", "%d valid values were supplied before the return (wan %d, lan %d), yet GetValue failed: %v", wanValid+lanValid, wanValid, lanValid, res.Err)
	}
}

// ---- public keys ---------------------------------------------------------------------------------

type vC04DIdentity struct {
	ID  peer.ID
	Pub ci.PubKey
	Raw []byte
}

func vC04DNewIdentity(c *vh.Case) vC04DIdentity {
	_, pub, err := ci.GenerateECDSAKeyPair(c.R)
	if err != nil {
		panic(err)
	}
	id, err := peer.IDFromPublicKey(pub)
	if err != nil {
		panic(err)
	}
	raw, err := ci.MarshalPublicKey(pub)
	if err != nil {
		panic(err)
	}
	return vC04DIdentity{ID: id, Pub: pub, Raw: raw}
}

// vC04DPlaceKeys adds the key owner to the networks and spreads right / wrong / garbage key
// records over the responders.
func vC04DPlaceKeys(n *vDNet, who, other vC04DIdentity) string {
	r := n.C.R
	key := routing.KeyForPublicKey(who.ID)
	rec := func(kind string) *recpb.Record {
		switch kind {
		case "right":
			return &recpb.Record{Key: []byte(key), Value: who.Raw}
		case "other":
			return &recpb.Record{Key: []byte(key), Value: other.Raw}
		case "garbage":
			return &recpb.Record{Key: []byte(key), Value: []byte("not a key")}
		case "miskeyed":
			return &recpb.Record{Key: []byte(routing.KeyForPublicKey(other.ID)), Value: other.Raw}
		}
		return nil
	}
	ownerKind := []string{"right", "right", "other", "garbage", "none", "absent"}[r.Intn(6)]
	holderKinds := [][]string{{"right"}, {"other", "garbage", "miskeyed"}, {"right", "other", "garbage", "miskeyed", "none", "none"}, {"none"}}[r.Intn(4)]
	if ownerKind != "absent" {
		addrs := n.vDGenAddrs([]string{"public", "lanpublic", "lan"}[r.Intn(3)])
		p := &vDPeer{ID: who.ID, Name: "owner", Kind: "key-owner", Addrs: addrs, Conn: n.connAddr(addrs)}
		n.Peers[who.ID] = p
		for li, s := range []*vsim.Sim{n.W, n.L} {
			if r.Intn(3) == 0 {
				continue
			}
			sp := s.Add(&vsim.SimPeer{ID: who.ID, Addrs: addrs})
			if rc := rec(ownerKind); rc != nil {
				sp.Values[key] = rc
			}
			if li == 0 {
				p.InW = true
			} else {
				p.InL = true
			}
		}
		if r.Intn(4) != 0 { // usually we know how to reach the owner
			n.PS.Peerstore.AddAddrs(who.ID, []ma.Multiaddr(addrs), time.Hour)
			n.Seeded[who.ID] = true
		}
	}
	for li, s := range []*vsim.Sim{n.W, n.L} {
		ids := n.WIDs
		if li == 1 {
			ids = n.LIDs
		}
		for _, id := range ids {
			if rc := rec(holderKinds[r.Intn(len(holderKinds))]); rc != nil && r.Intn(2) == 0 {
				s.Peer(id).Values[key] = rc
			}
		}
	}
	return ownerKind + "/" + strings.Join(holderKinds, ",")
}

func TestVerif_C04_dual(t *testing.T) {
	vh.Run(t, vh.Spec{Prop: "C04", Unit: "dual", Quick: 400, Thorough: 20000, CostMs: 20,
		Rule: "dual client over two simulated networks (C15 generator); one key per case whose records are assigned per responder of BOTH networks and per local store from {valid (shared pool or fresh, unique ranks), stale, expiring during the search, negative rank, garbage, value made for another key, record filed under another key (with a value for that key, or with a value that would validate for the requested key), empty, missing} under a per-network mode (none / valid / invalid / mixed); quorum in {none,0,1,2,K}; latencies 5/50/400 ms per network deciding the merge order; 1 case in 10 is an offline node (both tables empty) with a different valid record in each local store; SearchValue (1/2), GetValue (1/3) or GetPublicKey (1/6: ECDSA P-256 owner reachable or not, holders serving the right key, another peer's key, garbage or a mis-keyed record); rank + expiry reference validator evaluated in virtual time; non-trivial = at least 2 valid and 1 invalid supplies reached the client (values) / at least one answer carried a key record (keys); distinct by (operation, quorum, supply sequence)",
		Clauses: []string{"yielded-valid-at-emission", "yielded-was-supplied", "strictly-improving", "final-is-best", "nothing-valid-not-found", "pubkey-matches-peer-id"}},
		func(c *vh.Case) {
			cfg := vC15GenCfg(c, false)
			if c.R.Intn(4) > 0 {
				if cfg.NW < 4 {
					cfg.NW = 4 + c.R.Intn(40)
				}
				if cfg.NL < 2 {
					cfg.NL = 2 + c.R.Intn(10)
				}
				if cfg.WSeeds == 0 && c.R.Intn(3) > 0 {
					cfg.WSeeds = 1 + c.R.Intn(cfg.K)
				}
				if cfg.LSeeds == 0 && c.R.Intn(3) > 0 {
					cfg.LSeeds = 1 + c.R.Intn(3)
				}
			}
			kind := []string{"searchvalue", "searchvalue", "searchvalue", "getvalue", "getvalue", "getpubkey"}[c.R.Intn(6)]
			// 1 case in 10: an offline node (both tables empty) holding a valid record in each local
			// store — both inner searches end at the very instant they start
			offline := c.R.Intn(10) == 0
			if offline {
				cfg.WSeeds, cfg.LSeeds = 0, 0
				kind = []string{"searchvalue", "searchvalue", "getvalue"}[c.R.Intn(3)]
			}
			c.Bubble(t, 60*time.Minute, "dual-op-hang", func(t *testing.T) {
				n := vDNewNet(c, cfg)
				defer n.Close()
				vC15Describe(c, n)
				c.Set("op", kind)
				if kind == "getpubkey" {
					who, other := vC04DNewIdentity(c), vC04DNewIdentity(c)
					layout := vC04DPlaceKeys(n, who, other)
					n.SeedTables()
					res := n.Run(vDOp{Kind: "getpubkey", Target: who.ID, Quorum: -1, CancelAt: -1})
					key := routing.KeyForPublicKey(who.ID)
					recs := 0
					for _, lg := range [][]vsim.Event{vDSince(n.W.Log(), res.W0), vDSince(n.L.Log(), res.L0)} {
						recs += len(vDSuppliedValues(lg, key))
					}
					c.Obs("pubkey_searches", 1)
					c.Obs("pubkey_records_received", recs)
					c.Set("layout", layout)
					if res.Err == nil {
						c.Obs("pubkeys_returned", 1)
						id, err := peer.IDFromPublicKey(res.PubKey)
						c.Check(err == nil && id == who.ID, "pubkey-matches-peer-id", "GetPublicKey(%s) returned a key hashing to %s (%v); layout %s", who.ID, id, err, layout)
					} else if !res.Cancelled {
						right := 0
						for _, lg := range [][]vsim.Event{vDSince(n.W.Log(), res.W0), vDSince(n.L.Log(), res.L0)} {
							for _, s := range vDSuppliedValues(lg, key) {
								if bytes.Equal(s.Val, who.Raw) && s.Seq < res.EndSeq {
									right++
								}
							}
						}
						c.Check(right == 0, "pubkey-found-when-supplied", "%d answers carried the right key before the return, yet GetPublicKey failed: %v", right, res.Err)
					}
					c.Logf("getpubkey layout=%s -> err=%v, %d key records received", layout, res.Err, recs)
					res.Keep()
					if recs > 0 {
						h := sha256.Sum256([]byte(fmt.Sprintf("pk/%s/%d/%v", layout, recs, res.Err == nil)))
						c.Nontrivial(fmt.Sprintf("%x", h[:8]))
					}
					return
				}
				key := fmt.Sprintf("/v/c04-%d", c.Idx)
				classes := vC04DPlaceValues(n, key, time.Now())
				if offline {
					ra, rb := 500+c.R.Intn(100), 700+c.R.Intn(100)
					if c.R.Intn(2) == 0 {
						ra, rb = rb, ra
					}
					n.PutLocalRaw(n.WDS, key, vDMakeValue(key, ra, time.Time{}, 9001), key)
					n.PutLocalRaw(n.LDS, key, vDMakeValue(key, rb, time.Time{}, 9002), key)
					classes["offline-both-local-valid"]++
					c.Obs("offline_cases", 1)
				}
				n.SeedTables()
				op := vDOp{Kind: kind, Key: key, CancelAt: -1}
				op.Quorum = []int{-1, 0, 0, 1, 2, cfg.K}[c.R.Intn(6)]
				localW, localL := vDLocalValue(n.WDS, key), vDLocalValue(n.LDS, key)
				res := n.Run(op)
				sup := vC04DSupplies(n, res, key, localW, localL)
				if kind == "searchvalue" {
					vC04DJudgeSearch(c, n, res, sup)
				} else {
					vC04DJudgeGet(c, n, res, sup)
				}
				res.Keep()
				valid, invalid := 0, 0
				var seq []string
				for _, s := range sup {
					if s.Valid {
						valid++
					} else {
						invalid++
					}
					seq = append(seq, fmt.Sprintf("%s=%d/%v", s.From, vDRank(s.Val), s.Valid))
				}
				// other-key records never reach the supply list (the sender log shows them)
				miskeyed := 0
				for _, lg := range [][]vsim.Event{vDSince(n.W.Log(), res.W0), vDSince(n.L.Log(), res.L0)} {
					for _, e := range lg {
						if e.Kind == vsim.EvReply && e.Err == "" && e.Record != nil && string(e.Record.GetKey()) != key {
							miskeyed++
						}
					}
				}
				c.Obs("searches", 1)
				c.Obs("op_"+kind, 1)
				c.Obs("supplies_valid", valid)
				c.Obs("supplies_invalid", invalid)
				c.Obs("answers_with_other_key_record", miskeyed)
				c.Obs("values_yielded", len(res.Emits))
				c.Set("quorum", op.Quorum)
				c.Set("classes", classes)
				c.Logf("%s quorum=%d wanRT=%d lanRT=%d -> err=%v val=%q emits=%d closed/returned at +%v", kind, op.Quorum, len(res.WRT0), len(res.LRT0), res.Err, res.Val, len(res.Emits), res.End.Sub(res.Start))
				c.Logf("supplies: %s", strings.Join(seq, " "))
				if valid >= 2 && invalid+miskeyed >= 1 {
					h := sha256.Sum256([]byte(fmt.Sprintf("%s/%d/%s", kind, op.Quorum, strings.Join(seq, ","))))
					c.Nontrivial(fmt.Sprintf("%x", h[:8]))
				}
			})
		})
}
