//go:build verif

package dual

// C15 — the dual DHT routes writes by WAN liveness, merges reads as documented and scopes
// addresses. Two units:
//
//	routing  — which simulated network saw the RPCs of Provide/PutValue vs the WAN table size at
//	           call time; GetValue / SearchValue precedence; FindPeer union; FindProvidersAsync
//	           once-each / at most count; combined errors.
//	scoping  — address scoping of the WAN DHT (referrals followed, addresses stored, addresses
//	           advertised) and of the LAN DHT (never loopback), client and server side.

import (
	"bytes"
	"context"
	"crypto/sha256"
	"errors"
	"fmt"
	"sort"
	"strings"
	"testing"
	"testing/synctest"
	"time"

	kb "github.com/libp2p/go-libp2p-kbucket"
	recpb "github.com/libp2p/go-libp2p-record/pb"
	"github.com/libp2p/go-libp2p/core/network"
	"github.com/libp2p/go-libp2p/core/peer"
	"github.com/libp2p/go-libp2p/core/routing"
	ma "github.com/multiformats/go-multiaddr"

	dht "github.com/libp2p/go-libp2p-kad-dht"
	"github.com/libp2p/go-libp2p-kad-dht/internal/verif/vh"
	"github.com/libp2p/go-libp2p-kad-dht/internal/verif/vjds"
	"github.com/libp2p/go-libp2p-kad-dht/internal/verif/vsim"
	"github.com/libp2p/go-libp2p-kad-dht/netsize"
	pb "github.com/libp2p/go-libp2p-kad-dht/pb"
)

// vC15GenCfg draws the two networks.
func vC15GenCfg(c *vh.Case, scoping bool) vDCfg {
	r := c.R
	k := []int{2, 3, 5, 8, 20}[r.Intn(5)]
	cfg := vDCfg{K: k, A: []int{1, 2, 3, 10}[r.Intn(4)]}
	cfg.B = []int{1, 2, 3, k}[r.Intn(4)]
	switch x := r.Intn(10); {
	case x < 1:
		cfg.NW = 0
	case x < 4:
		cfg.NW = 1 + r.Intn(6)
	default:
		cfg.NW = 6 + r.Intn(50)
	}
	switch x := r.Intn(10); {
	case x < 1:
		cfg.NL = 0
	case x < 5:
		cfg.NL = 1 + r.Intn(4)
	default:
		cfg.NL = 4 + r.Intn(16)
	}
	if cfg.NW > 0 && cfg.NL > 0 && r.Intn(3) == 0 {
		cfg.Overlap = 1 + r.Intn(3)
	}
	if r.Intn(100) >= 35 {
		cfg.WSeeds = 1 + r.Intn(k+2)
	}
	if r.Intn(100) >= 30 {
		cfg.LSeeds = 1 + r.Intn(5)
	}
	cfg.WMode = []dht.ModeOpt{dht.ModeAuto, dht.ModeClient, dht.ModeServer, dht.ModeAutoServer}[r.Intn(4)]
	cfg.WFail = []float64{0, 0, 0.2, 0.5, 1}[r.Intn(5)]
	cfg.LFail = []float64{0, 0, 0.2, 0.5, 1}[r.Intn(5)]
	cfg.WDelay = []int{5, 50, 400}[r.Intn(3)]
	cfg.LDelay = []int{5, 50, 400}[r.Intn(3)]
	cfg.PrivateFrac = []float64{0, 0.15, 0.3, 0.5}[r.Intn(4)]
	cfg.Liars = []float64{0, 0, 0.2}[r.Intn(3)]
	cfg.DisconnectSeeds = []float64{0, 0.5, 1}[r.Intn(3)]
	// host addresses: any mix, sometimes nothing public, sometimes nothing at all
	hostMixes := [][]string{
		{"pub4", "rfc1918-192", "loop4"}, {"pub4", "glob6", "rfc1918-10", "loop4", "loop6", "ll6"}, {"rfc1918-192", "loop4"},
		{"pub4"}, {"loop4", "loop6"}, {"relaypub", "rfc1918-10"}, {"pub4quic", "ula6", "cgnat", "relaypriv", "unroutable4"}, {},
		{"pub4", "relaypub", "dns", "rfc1918-172", "ll4"},
	}
	if scoping {
		cfg.PrivateFrac = []float64{0.2, 0.35, 0.5}[r.Intn(3)]
		cfg.Liars = []float64{0, 0.2, 0.4}[r.Intn(3)]
		hostMixes = hostMixes[:7]
		if cfg.NW < 6 {
			cfg.NW = 6 + r.Intn(50)
		}
		if r.Intn(100) < 75 {
			cfg.WSeeds = 1 + r.Intn(k+2)
		}
		cfg.WFail = []float64{0, 0, 0.2}[r.Intn(3)]
	}
	cfg.HostClasses = hostMixes[r.Intn(len(hostMixes))]
	return cfg
}

// vC15World is the content placed in the two networks for one case.
type vC15World struct {
	n        *vDNet
	keys     []string          // value keys
	cids     []string          // provider keys (names)
	rank     int               // next unique rank
	provs    map[string]map[peer.ID]bool // cid name -> providers placed anywhere (remote or local)
	targets  []peer.ID
	nonce    int
}

func (w *vC15World) nextRank() int { w.rank++; return w.rank }

// populate places value records and provider records on simulated peers and in the local stores.
func vC15Populate(n *vDNet) *vC15World {
	c, r := n.C, n.C.R
	w := &vC15World{n: n, provs: map[string]map[peer.ID]bool{}}
	for i := 0; i < 3; i++ {
		w.keys = append(w.keys, fmt.Sprintf("/v/k%d-%d", c.Idx, i))
		w.cids = append(w.cids, fmt.Sprintf("cid-%d-%d", c.Idx, i))
	}
	place := func(s *vsim.Sim, ids []peer.ID, store *vjds.Store) {
		for _, key := range w.keys {
			mode := []string{"none", "valid", "valid", "mixed", "invalid"}[r.Intn(5)]
			if mode == "none" {
				continue
			}
			for _, id := range ids {
				if r.Intn(3) != 0 {
					continue
				}
				sp := s.Peer(id)
				kind := "valid"
				if mode == "invalid" || (mode == "mixed" && r.Intn(2) == 0) {
					kind = []string{"badrank", "garbage", "otherkey-value", "miskeyed", "empty"}[r.Intn(5)]
				}
				w.nonce++
				rec := &recpb.Record{Key: []byte(key)}
				switch kind {
				case "valid":
					rec.Value = vDMakeValue(key, w.nextRank(), time.Time{}, w.nonce)
				case "badrank":
					rec.Value = vDMakeValue(key, -1, time.Time{}, w.nonce)
				case "garbage":
					rec.Value = []byte(fmt.Sprintf("garbage-%d", w.nonce))
				case "otherkey-value":
					rec.Value = vDMakeValue(key+"x", w.nextRank(), time.Time{}, w.nonce)
				case "miskeyed":
					rec.Key = []byte(key + "y")
					rec.Value = vDMakeValue(key+"y", w.nextRank(), time.Time{}, w.nonce)
				case "empty":
				}
				sp.Values[key] = rec
			}
			if r.Intn(4) == 0 {
				w.nonce++
				if r.Intn(4) == 0 {
					n.PutLocalRaw(store, key, []byte("local-garbage"), key)
				} else {
					n.PutLocalRaw(store, key, vDMakeValue(key, w.nextRank(), time.Time{}, w.nonce), key)
				}
			}
		}
	}
	place(n.W, n.WIDs, n.WDS)
	place(n.L, n.LIDs, n.LDS)
	// providers: drawn from all peers and some strangers; overlapping between the networks
	var pool []peer.ID
	pool = append(pool, n.WIDs...)
	pool = append(pool, n.LIDs...)
	for i := 0; i < 6; i++ {
		sid := vsim.PeerID(fmt.Sprintf("dprov%d", c.Idx), i)
		n.Peers[sid] = &vDPeer{ID: sid, Name: fmt.Sprintf("pv%d", i), Kind: "provider-only", Addrs: n.vDGenAddrs([]string{"public", "private", "none", "lanpublic"}[r.Intn(4)])}
		pool = append(pool, sid)
	}
	for _, name := range w.cids {
		w.provs[name] = map[peer.ID]bool{}
		key := string(vDCid(name).Hash())
		nprov := []int{0, 1, 3, 8, 25}[r.Intn(5)]
		if nprov > len(pool) {
			nprov = len(pool)
		}
		var chosen []peer.ID
		for _, i := range r.Perm(len(pool))[:nprov] {
			chosen = append(chosen, pool[i])
		}
		if len(chosen) == 0 {
			continue
		}
		holders := func(s *vsim.Sim, ids []peer.ID) {
			for _, id := range ids {
				if r.Intn(3) != 0 {
					continue
				}
				var list []peer.AddrInfo
				for _, p := range chosen {
					if r.Intn(2) == 0 {
						ai := peer.AddrInfo{ID: p}
						if r.Intn(4) != 0 { // sometimes named without addresses
							ai.Addrs = n.Peers[p].Addrs
						}
						list = append(list, ai)
						w.provs[name][p] = true
					}
				}
				s.Peer(id).Providers[key] = list
			}
		}
		holders(n.W, n.WIDs)
		holders(n.L, n.LIDs)
		for _, inner := range []*dht.IpfsDHT{n.D.WAN, n.D.LAN} {
			if r.Intn(4) == 0 {
				p := chosen[r.Intn(len(chosen))]
				if err := inner.ProviderStore().AddProvider(context.Background(), []byte(key), peer.AddrInfo{ID: p}); err != nil {
					panic(err)
				}
				w.provs[name][p] = true
			}
		}
	}
	// FindPeer targets
	pickFrom := func(ids []peer.ID) {
		if len(ids) > 0 {
			w.targets = append(w.targets, ids[r.Intn(len(ids))])
		}
	}
	pickFrom(n.WIDs)
	pickFrom(n.WIDs)
	pickFrom(n.LIDs)
	for _, id := range n.LIDs {
		if n.Peers[id].InW {
			w.targets = append(w.targets, id)
			break
		}
	}
	w.targets = append(w.targets, vsim.PeerID(fmt.Sprintf("dnobody%d", c.Idx), 0))
	return w
}

// Settle advances virtual time until no request of either network is pending (leftover
// corrective puts of value searches run on the DHT's own context with a 30 s timeout).
func (n *vDNet) Settle() {
	for i := 0; i < 4; i++ {
		time.Sleep(35 * time.Second)
		synctest.Wait()
		if n.pending() == 0 {
			return
		}
	}
}

func (n *vDNet) pending() int {
	p := 0
	for _, lg := range [][]vsim.Event{n.W.Log(), n.L.Log()} {
		open := map[int64]bool{}
		for _, e := range lg {
			switch e.Kind {
			case vsim.EvRequest, vsim.EvMessage:
				open[e.Seq] = true
			case vsim.EvReply:
				delete(open, e.ReqSeq)
			}
		}
		p += len(open)
	}
	return p
}

func vC15GenOp(w *vC15World, kinds []string) vDOp {
	c, r := w.n.C, w.n.C.R
	op := vDOp{Kind: kinds[r.Intn(len(kinds))], Quorum: -1, CancelAt: -1}
	switch op.Kind {
	case "provide":
		op.Cid = vDCid(w.cids[r.Intn(len(w.cids))])
		op.NoAnnounce = c.Idx%2 == 0 && r.Intn(3) == 0
	case "putvalue":
		op.Key = w.keys[r.Intn(len(w.keys))]
		w.nonce++
		op.Val = vDMakeValue(op.Key, 1000+w.nextRank(), time.Time{}, w.nonce)
	case "getvalue", "searchvalue":
		op.Key = w.keys[r.Intn(len(w.keys))]
		if r.Intn(4) == 0 {
			op.Quorum = []int{0, 1, 2, w.n.Cfg.K}[r.Intn(4)]
		}
	case "findpeer":
		op.Target = w.targets[r.Intn(len(w.targets))]
	case "findprovs":
		op.Cid = vDCid(w.cids[r.Intn(len(w.cids))])
		op.Count = []int{0, 0, 1, 2, 5, w.n.Cfg.K}[r.Intn(6)]
	}
	if r.Intn(8) == 0 {
		op.CancelAt = time.Duration(r.Intn(3*(w.n.Cfg.WDelay+w.n.Cfg.LDelay)+20)) * time.Millisecond
		op.Deadline = r.Intn(3) == 0 && op.CancelAt > 0
	}
	_ = c
	return op
}

// ---- routing oracle -------------------------------------------------------------------------------------

func vC15Writes(es []vjds.Entry, off int) []vjds.Entry {
	var out []vjds.Entry
	for _, e := range es {
		if e.Seq >= off && e.IsWrite() && e.Err == "" {
			out = append(out, e)
		}
	}
	return out
}

func vC15Requests(log []vsim.Event) (reqs []vsim.Event) {
	for _, e := range log {
		if e.Kind == vsim.EvRequest || e.Kind == vsim.EvMessage {
			reqs = append(reqs, e)
		}
	}
	return
}

func vC15ContainsVal(set [][]byte, v []byte) bool {
	for _, s := range set {
		if bytes.Equal(s, v) {
			return true
		}
	}
	return false
}

func vC15Best(set [][]byte) []byte {
	var best []byte
	for _, v := range set {
		if best == nil || vDRank(v) > vDRank(best) {
			best = v
		}
	}
	return best
}

// validSupply returns the valid values a network supplied during the op (local store at call
// time + replies returned before `before`), judged valid at their arrival.
func vC15ValidSupply(log []vsim.Event, local []byte, key string, start time.Time, before int64) [][]byte {
	var out [][]byte
	if local != nil && vDValidAt(key, local, start) {
		out = append(out, local)
	}
	for _, s := range vDSuppliedValues(log, key) {
		if s.Seq < before && vDValidAt(key, s.Val, s.VT) {
			out = append(out, s.Val)
		}
	}
	return out
}

func vC15JudgeRouting(c *vh.Case, n *vDNet, res *vDRes, localW, localL []byte, localProvs map[peer.ID]bool) string {
	op := res.Op
	wlog, llog := vDSince(n.W.Log(), res.W0), vDSince(n.L.Log(), res.L0)
	dials := n.H.DialLog()[res.D0:]
	wanActive := len(res.WRT0) > 0
	lanNonEmpty := len(res.LRT0) > 0
	uncancelled := !res.Cancelled && op.CancelAt < 0
	key := res.rpcKey()
	c.Obs("ops", 1)
	c.Obs("op_"+op.Kind, 1)
	c.Obs("rpcs_wan", len(vC15Requests(wlog)))
	c.Obs("rpcs_lan", len(vC15Requests(llog)))
	c.Obs("dials", len(dials))
	if res.Cancelled {
		c.Obs("ops_cancelled", 1)
	}
	outcome := "ok"
	if res.Err != nil {
		outcome = "err"
	}
	switch op.Kind {
	case "provide", "putvalue":
		active, inactive := "wan", "lan"
		alog, ilog := wlog, llog
		ajn, ijn := vC15Writes(n.WDS.J.Entries(), res.WJ0), vC15Writes(n.LDS.J.Entries(), res.LJ0)
		art := res.WRT0
		if !wanActive {
			active, inactive = "lan", "wan"
			alog, ilog = llog, wlog
			ajn, ijn = ijn, ajn
			art = res.LRT0
		}
		// the inactive DHT must not have been involved at all: no RPC, no local write
		c.Check(len(ilog) == 0 && len(ijn) == 0, "write-routed-by-wan-table",
			"%s with WAN table size %d at call time: the %s network saw %d log entries and the %s datastore %d writes (active should be %s only)",
			op.Kind, len(res.WRT0), inactive, len(ilog), inactive, len(ijn), active)
		storeType := pb.Message_ADD_PROVIDER
		if op.Kind == "putvalue" {
			storeType = pb.Message_PUT_VALUE
		}
		storeA, storeI := 0, 0
		for _, e := range alog {
			if (e.Kind == vsim.EvRequest || e.Kind == vsim.EvMessage) && e.Type == storeType {
				storeA++
			}
		}
		for _, e := range ilog {
			if (e.Kind == vsim.EvRequest || e.Kind == vsim.EvMessage) && e.Type == storeType {
				storeI++
			}
		}
		c.Obs("store_rpcs_"+active, storeA)
		if storeA+storeI > 0 {
			c.Check(storeI == 0, "store-rpcs-on-active-network", "%s: %d %v RPCs on the %s network although the WAN table size was %d", op.Kind, storeI, storeType, inactive, len(res.WRT0))
		}
		if op.NoAnnounce {
			c.Check(len(alog)+len(ilog) == 0, "no-announce-no-rpc", "Provide(announce=false) made %d log entries on the wan and %d on the lan network", len(wlog), len(llog))
		}
		if uncancelled {
			if len(art) > 0 && !op.NoAnnounce {
				contacted := len(vC15Requests(alog))
				for _, d := range dials {
					if art[d.Peer] {
						contacted++
					}
				}
				c.Check(contacted > 0, "write-reaches-active-network", "%s: the %s table held %d peers but neither a request on its network nor a dial to one of its members was made (err=%v)", op.Kind, active, len(art), res.Err)
			}
			if !wanActive && !lanNonEmpty && !op.NoAnnounce {
				c.Check(errors.Is(res.Err, kb.ErrLookupFailure) && len(alog)+len(ilog) == 0, "write-both-empty-lookup-failure", "%s with both tables empty returned %v and made %d RPCs", op.Kind, res.Err, len(alog)+len(ilog))
			}
			// local record on the active DHT
			if op.Kind == "putvalue" {
				got := vDLocalValue(map[string]*vjds.Store{"wan": n.WDS, "lan": n.LDS}[active], op.Key)
				if res.Err == nil {
					c.Check(bytes.Equal(got, op.Val), "write-local-on-active", "PutValue succeeded but the %s datastore holds %q for %s", active, got, op.Key)
				}
				for _, e := range alog {
					if e.Kind == vsim.EvRequest && e.Type == pb.Message_PUT_VALUE {
						c.Check(bytes.Equal(e.Msg.GetRecord().GetValue(), op.Val) && string(e.Msg.GetRecord().GetKey()) == op.Key, "put-payload", "PUT_VALUE to %s carries key %q value %q", n.Name(e.Peer), e.Msg.GetRecord().GetKey(), e.Msg.GetRecord().GetValue())
					}
				}
			} else {
				inner := map[string]*dht.IpfsDHT{"wan": n.D.WAN, "lan": n.D.LAN}
				pa, _ := inner[active].ProviderStore().GetProviders(context.Background(), key)
				pi, _ := inner[inactive].ProviderStore().GetProviders(context.Background(), key)
				has := func(l []peer.AddrInfo) bool {
					for _, ai := range l {
						if ai.ID == n.Self {
							return true
						}
					}
					return false
				}
				c.Check(has(pa), "write-local-on-active", "Provide: the %s provider store does not list self", active)
				if !localProvs[n.Self] {
					c.Check(!has(pi), "write-routed-by-wan-table", "Provide: the %s provider store lists self although the %s DHT was active", inactive, active)
				}
			}
		}
		outcome = fmt.Sprintf("%s/%d", active, storeA)

	case "getvalue":
		ws := vC15ValidSupply(wlog, localW, op.Key, res.Start, res.EndSeq)
		ls := vC15ValidSupply(llog, localL, op.Key, res.Start, res.EndSeq)
		c.Obs("values_supplied_wan", len(ws))
		c.Obs("values_supplied_lan", len(ls))
		if res.Err == nil {
			c.Check(vDValidAt(op.Key, res.Val, res.End) && (vC15ContainsVal(ws, res.Val) || vC15ContainsVal(ls, res.Val)), "getvalue-sound", "GetValue returned %q which is not a valid supplied value (wan %d, lan %d)", res.Val, len(ws), len(ls))
		}
		if !uncancelled {
			break
		}
		switch {
		case len(ws) > 0:
			ok := res.Err == nil && vC15ContainsVal(ws, res.Val)
			c.Check(ok, "getvalue-wan-first", "the WAN network supplied %d valid values (best %q) but GetValue returned %q, %v (LAN supplied %d)", len(ws), vC15Best(ws), res.Val, res.Err, len(ls))
			if ok && op.Quorum <= 0 {
				c.Check(bytes.Equal(res.Val, vC15Best(ws)), "getvalue-best-of-source", "GetValue returned %q, best WAN value %q", res.Val, vC15Best(ws))
			}
			if ok && len(ls) > 0 && vDRank(vC15Best(ls)) > vDRank(res.Val) {
				c.Obs("getvalue_wan_preferred_over_better_lan", 1)
			}
			outcome = "wan"
		case len(ls) > 0:
			ok := res.Err == nil && vC15ContainsVal(ls, res.Val)
			c.Check(ok, "getvalue-lan-fallback", "WAN supplied nothing valid, LAN supplied %d valid values, but GetValue returned %q, %v", len(ls), res.Val, res.Err)
			if ok && op.Quorum <= 0 {
				c.Check(bytes.Equal(res.Val, vC15Best(ls)), "getvalue-best-of-source", "GetValue returned %q, best LAN value %q", res.Val, vC15Best(ls))
			}
			outcome = "lan"
		default:
			c.Check(res.Err != nil && res.Val == nil && errors.Is(res.Err, routing.ErrNotFound), "getvalue-none-combined-error", "nothing valid supplied by either network but GetValue returned %q, %v", res.Val, res.Err)
			outcome = "none"
		}

	case "searchvalue":
		ok := res.Err == nil
		c.Check(ok, "searchvalue-no-error", "SearchValue returned error %v", res.Err)
		prev := -1
		for _, e := range res.Emits {
			ws := vC15ValidSupply(wlog, localW, op.Key, res.Start, e.Seq)
			ls := vC15ValidSupply(llog, localL, op.Key, res.Start, e.Seq)
			c.Check(vDValidAt(op.Key, e.Val, e.VT) && (vC15ContainsVal(ws, e.Val) || vC15ContainsVal(ls, e.Val)), "searchvalue-sound", "SearchValue emitted %q which no network had supplied (valid) by then", e.Val)
			c.Check(vDRank(e.Val) > prev, "searchvalue-improving", "SearchValue emitted rank %d after rank %d", vDRank(e.Val), prev)
			prev = vDRank(e.Val)
		}
		c.Obs("values_emitted", len(res.Emits))
		if uncancelled {
			ws := vC15ValidSupply(wlog, localW, op.Key, res.Start, res.EndSeq)
			ls := vC15ValidSupply(llog, localL, op.Key, res.Start, res.EndSeq)
			if len(ws)+len(ls) == 0 {
				c.Check(len(res.Emits) == 0, "searchvalue-none", "nothing valid supplied but %d values emitted", len(res.Emits))
			} else {
				c.Check(len(res.Emits) > 0, "searchvalue-some", "%d valid values supplied (wan %d, lan %d) but nothing emitted", len(ws)+len(ls), len(ws), len(ls))
			}
		}
		outcome = fmt.Sprintf("emits%d", len(res.Emits))

	case "findpeer":
		t := op.Target
		seen := map[string]bool{}
		dup := false
		for _, a := range res.Info.Addrs {
			if seen[string(a.Bytes())] {
				dup = true
			}
			seen[string(a.Bytes())] = true
		}
		c.Check(!dup, "findpeer-no-duplicate-addresses", "FindPeer returned duplicate addresses: %v", vDAddrStrings(res.Info.Addrs))
		ever := map[string]bool{}
		if n.Seeded[t] && n.Peers[t] != nil {
			for _, a := range n.Peers[t].Addrs {
				ever[string(a.Bytes())] = true
			}
		}
		for _, w := range n.PS.Writes() {
			if w.Peer == t && w.Seq < res.EndSeq {
				for _, a := range w.Addrs {
					ever[string(a.Bytes())] = true
				}
			}
		}
		sound := true
		for _, a := range res.Info.Addrs {
			if !ever[string(a.Bytes())] {
				sound = false
			}
		}
		c.Check(sound, "findpeer-addresses-known", "FindPeer returned an address never stored for the peer: %v", vDAddrStrings(res.Info.Addrs))
		if res.Err == nil {
			c.Check(res.Info.ID == t, "findpeer-id", "FindPeer returned info for %s instead of %s", n.Name(res.Info.ID), n.Name(t))
		}
		if op.Inner == "" {
			// The inner answers are exactly the PeerInfo(target) reads that IpfsDHT.FindPeer / FindLocal return
			// (an inner call that fails answers with no address): the dual answer is their union, whatever the
			// connection state, the errors and the cancellation instant.
			union := map[string]bool{}
			var reads []string
			for _, rd := range res.InnerReads {
				for _, a := range rd {
					union[string(a.Bytes())] = true
				}
				reads = append(reads, fmt.Sprint(vDAddrStrings(rd)))
			}
			same := len(union) == len(seen)
			for k := range union {
				if !seen[k] {
					same = false
				}
			}
			c.Check(same, "findpeer-union-exact", "FindPeer returned %v (err %v); the inner DHTs answered %v: the result is not the union of both address sets", vDAddrStrings(res.Info.Addrs), res.Err, reads)
			if len(res.InnerReads) == 2 && fmt.Sprint(vDAddrStrings(res.InnerReads[0])) != fmt.Sprint(vDAddrStrings(res.InnerReads[1])) {
				c.Obs("findpeer_inner_answers_differ", 1)
			}
		}
		if !uncancelled {
			break
		}
		contacted := res.Conn0[t]
		for _, d := range dials {
			if d.Peer == t {
				contacted = true
			}
		}
		for _, lg := range [][]vsim.Event{wlog, llog} {
			for _, e := range lg {
				if e.Peer == t {
					contacted = true
				}
			}
		}
		switch {
		case res.ConnAtEnd:
			c.Check(res.Err == nil, "findpeer-success-when-reached", "the peer is connected after FindPeer but the call failed: %v", res.Err)
			if len(op.GrowAfterFirstRead) == 0 { // (the directed case feeds the peerstore itself after the first read: only the exact union is judged)
				want := map[string]bool{}
				for _, a := range res.PSAtEnd {
					want[string(a.Bytes())] = true
				}
				// the inner call that returns last answers with the peerstore content of that instant
				// (= now); addresses of the earlier answer may have aged out since, so only ⊇ is judged
				// (⊆ everything ever stored is findpeer-addresses-known above)
				same := true
				for k := range want {
					if !seen[k] {
						same = false
					}
				}
				c.Check(same, "findpeer-union", "FindPeer returned %v; the union of both inner answers contains the peerstore content at the instant the later inner call returned: %v", vDAddrStrings(res.Info.Addrs), vDAddrStrings(res.PSAtEnd))
			}
			outcome = fmt.Sprintf("found%d", len(res.Info.Addrs))
		case !contacted:
			wantErr := error(routing.ErrNotFound)
			if !wanActive && !lanNonEmpty {
				wantErr = kb.ErrLookupFailure
			}
			c.Check(res.Err != nil && errors.Is(res.Err, wantErr), "findpeer-combined-error", "the peer was never contacted; FindPeer returned %v, expected %v (WAN table %d, LAN table %d)", res.Err, wantErr, len(res.WRT0), len(res.LRT0))
			outcome = "notfound"
		default:
			outcome = "contacted"
		}

	case "findprovs":
		named := map[peer.ID]int64{} // provider -> seq of the first reply naming it
		for _, lg := range [][]vsim.Event{wlog, llog} {
			for _, e := range lg {
				if e.Kind == vsim.EvReply && e.Type == pb.Message_GET_PROVIDERS && e.Err == "" && bytes.Equal(e.Key, key) {
					for _, p := range e.Provs {
						if s, ok := named[p]; !ok || e.Seq < s {
							named[p] = e.Seq
						}
					}
				}
			}
		}
		got := map[peer.ID]int{}
		for _, e := range res.Emits {
			got[e.AI.ID]++
			s, isNamed := named[e.AI.ID]
			c.Check(localProvs[e.AI.ID] || (isNamed && s < e.Seq), "findprovs-sound", "FindProvidersAsync yielded %s which was neither stored locally nor named in an answer returned before", n.Name(e.AI.ID))
		}
		once := true
		for _, k := range got {
			if k > 1 {
				once = false
			}
		}
		c.Check(once, "findprovs-once-each", "a provider was yielded more than once: %v", got)
		if op.Count > 0 {
			c.Check(len(res.Emits) <= op.Count, "findprovs-at-most-count", "count=%d but %d providers yielded", op.Count, len(res.Emits))
		}
		if uncancelled && op.Count == 0 {
			missing := 0
			for p := range named {
				if got[p] == 0 {
					missing++
				}
			}
			for p := range localProvs {
				if got[p] == 0 {
					missing++
				}
			}
			c.Check(missing == 0, "findprovs-count0-complete", "count=0: %d providers named in processed answers or stored locally were not yielded (yielded %d)", missing, len(got))
		}
		c.Obs("providers_yielded", len(res.Emits))
		c.Obs("providers_named", len(named))
		outcome = fmt.Sprintf("provs%d", len(res.Emits))
	}
	return fmt.Sprintf("%s:%v/%v:%s", op.Kind, wanActive, lanNonEmpty, outcome)
}

func vC15LocalProvs(n *vDNet, key []byte) map[peer.ID]bool {
	out := map[peer.ID]bool{}
	for _, inner := range []*dht.IpfsDHT{n.D.WAN, n.D.LAN} {
		l, _ := inner.ProviderStore().GetProviders(context.Background(), key)
		for _, ai := range l {
			out[ai.ID] = true
		}
	}
	return out
}

func vC15Describe(c *vh.Case, n *vDNet) {
	cfg := n.Cfg
	c.Set("wan_peers", cfg.NW)
	c.Set("lan_peers", cfg.NL)
	c.Set("overlap", cfg.Overlap)
	c.Set("K_alpha_beta", []int{cfg.K, cfg.A, cfg.B})
	c.Set("seeds_wan_lan", []int{n.D.WAN.RoutingTable().Size(), n.D.LAN.RoutingTable().Size()})
	c.Set("fail_wan_lan", []float64{cfg.WFail, cfg.LFail})
	c.Set("delay_ms_wan_lan", []int{cfg.WDelay, cfg.LDelay})
	c.Set("private_frac", cfg.PrivateFrac)
	c.Set("liars", cfg.Liars)
	c.Set("host_addrs", vDAddrStrings(n.H.Addrs()))
	c.Set("wan_mode", int(cfg.WMode))
}

func vC15LogOp(c *vh.Case, n *vDNet, i int, res *vDRes) {
	op := res.Op
	what := op.Key
	switch op.Kind {
	case "provide", "findprovs":
		what = op.Cid.String()
	case "findpeer":
		what = n.Name(op.Target)
	}
	c.Logf("op%d %s(%s count=%d quorum=%d cancel=%v) wanRT=%d lanRT=%d -> err=%v val=%q emits=%d addrs=%d dur=%v wanRPC=%d lanRPC=%d",
		i, op.Kind, what, op.Count, op.Quorum, op.CancelAt, len(res.WRT0), len(res.LRT0), res.Err, res.Val, len(res.Emits), len(res.Info.Addrs),
		res.End.Sub(res.Start), len(vC15Requests(vDSince(n.W.Log(), res.W0))), len(vC15Requests(vDSince(n.L.Log(), res.L0))))
}

func TestVerif_C15_routing(t *testing.T) {
	vh.Run(t, vh.Spec{Prop: "C15", Unit: "routing", Quick: 400, Thorough: 16000, CostMs: 25,
		Rule: "one fake host shared by the WAN and LAN IpfsDHT of dual.New, two simulated networks told apart by the protocol list given to the message-sender builder; PRNG networks (WAN 0-55 peers, LAN 0-19, optional overlap; K in {2,3,5,8,20}, alpha in {1,2,3,10}; each table empty in ~1/3 of the cases; 0-100% failing peers per network by dial/request/silence; latencies 5/50/400 ms per network deciding which DHT answers first; value records valid/invalid/mis-keyed/empty and provider records spread over both networks and both local stores); 4-6 operations per case drawn from Provide (in every second case a third of them with announce=false: local record only, on the DHT the write is routed to), PutValue, GetValue, SearchValue, FindPeer, FindProvidersAsync (1/8 cancelled at a PRNG instant), each judged against the WAN/LAN table sizes read at call time and the two wire logs; every fifth case ends with a directed FindPeer during which 1-3 further addresses of the target enter the peerstore between the two inner reads (partly overlapping inner answers: the result is their union); failed seeds leave the tables so that later operations of a case see other emptiness combinations; non-trivial = at least one judged write and one judged read with RPCs on some network; distinct by (table emptiness, operation, outcome) sequence",
		Clauses: []string{"write-routed-by-wan-table", "store-rpcs-on-active-network", "write-reaches-active-network", "write-both-empty-lookup-failure", "write-local-on-active", "no-announce-no-rpc", "findpeer-union-partial-overlap",
			"getvalue-wan-first", "getvalue-lan-fallback", "getvalue-lan-fallback-on-wan-timeout", "getvalue-none-combined-error", "getvalue-best-of-source", "searchvalue-sound", "searchvalue-improving",
			"findpeer-union", "findpeer-union-exact", "findpeer-combined-error", "findpeer-no-duplicate-addresses", "findprovs-once-each", "findprovs-at-most-count", "findprovs-sound", "findprovs-count0-complete"}},
		func(c *vh.Case) {
			cfg := vC15GenCfg(c, false)
			c.Bubble(t, 60*time.Minute, "dual-op-hang", func(t *testing.T) {
				n := vDNewNet(c, cfg)
				defer n.Close()
				w := vC15Populate(n)
				n.SeedTables()
				n.U.SelfCheck(c)
				vC15Describe(c, n)
				nops := 4 + c.R.Intn(3)
				var sigs []string
				writes, reads := 0, 0
				for i := 0; i < nops; i++ {
					op := vC15GenOp(w, []string{"provide", "provide", "putvalue", "putvalue", "getvalue", "getvalue", "searchvalue", "findpeer", "findpeer", "findprovs", "findprovs"})
					synctest.Wait()
					var localW, localL []byte
					var localProvs map[peer.ID]bool
					switch op.Kind {
					case "getvalue", "searchvalue":
						localW, localL = vDLocalValue(n.WDS, op.Key), vDLocalValue(n.LDS, op.Key)
					case "findprovs", "provide":
						localProvs = vC15LocalProvs(n, []byte(op.Cid.Hash()))
					}
					res := n.Run(op)
					sig := vC15JudgeRouting(c, n, res, localW, localL, localProvs)
					vC15LogOp(c, n, i, res)
					res.Keep()
					sigs = append(sigs, sig)
					rp := len(vC15Requests(vDSince(n.W.Log(), res.W0))) + len(vC15Requests(vDSince(n.L.Log(), res.L0)))
					if rp > 0 && !res.Cancelled {
						if op.Kind == "provide" || op.Kind == "putvalue" {
							writes++
						} else {
							reads++
						}
					}
					n.Settle()
				}
				// directed final operation (every fifth case): the LAN DHT answers at once from its local store (its table is
				// emptied), the WAN DHT - every peer silent from now on - runs into the CALLER's deadline. "GetValue returns
				// the WAN result when the WAN lookup succeeds and otherwise the LAN result": the LAN value, not the
				// deadline error.
				if c.Idx%5 == 2 && n.D.WAN.RoutingTable().Size() > 0 {
					synctest.Wait()
					key := fmt.Sprintf("/v/lanonly-%d", c.Idx)
					val := vDMakeValue(key, 7, time.Time{}, 424242)
					n.PutLocalRaw(n.LDS, key, val, key)
					for _, p := range n.D.LAN.RoutingTable().ListPeers() {
						n.D.LAN.RoutingTable().RemovePeer(p)
					}
					for _, id := range n.W.IDs() {
						n.W.Peer(id).Script = func(_ int, req *pb.Message) vsim.Reply {
							if req == nil {
								return vsim.Reply{}
							}
							return vsim.Reply{Silent: true}
						}
					}
					res := n.Run(vDOp{Kind: "getvalue", Key: key, Quorum: -1, CancelAt: time.Duration(2+c.R.Intn(5)) * time.Second, Deadline: true})
					wanRPCs := len(vC15Requests(vDSince(n.W.Log(), res.W0)))
					c.Check(res.Err == nil && bytes.Equal(res.Val, val), "getvalue-lan-fallback-on-wan-timeout", "LAN holds a valid local record (LAN table empty: it answers at once), the WAN lookup (%d requests, all peers silent) ran into the caller's deadline of %v: GetValue returned %q, %v instead of the LAN value", wanRPCs, res.Op.CancelAt, res.Val, res.Err)
					vC15LogOp(c, n, nops, res)
					res.Keep()
					n.Settle()
				}
				// directed: FindPeer whose two inner answers overlap only partly. Both inner DHTs answer from the one
				// peerstore of the host, so their answers differ when addresses arrive between the two reads; here 1-3
				// further addresses arrive right after the first read. The answer is the union, whatever the order in which
				// the peerstore lists them.
				if c.Idx%5 == 4 && len(w.targets) > 0 {
					synctest.Wait()
					t := w.targets[c.R.Intn(len(w.targets))]
					var have, grow []ma.Multiaddr
					for i := 0; i < 2+c.R.Intn(2); i++ {
						have = append(have, n.U.Gen([]string{"pub4", "pub4quic", "rfc1918-10", "rfc1918-192"}[c.R.Intn(4)]))
					}
					for i := 0; i < 1+c.R.Intn(3); i++ {
						grow = append(grow, n.U.Gen([]string{"pub4", "rfc1918-10", "rfc1918-172", "glob6"}[c.R.Intn(4)]))
					}
					n.H.Peerstore().AddAddrs(t, have, time.Hour)
					if c.R.Intn(4) != 0 {
						// connected target: both inner DHTs answer from the peerstore at once (FindLocal), in either order
						n.H.Net.AddConn(t, network.DirOutbound, nil, false)
					}
					res := n.Run(vDOp{Kind: "findpeer", Target: t, Quorum: -1, CancelAt: -1, GrowAfterFirstRead: grow})
					c.Obs("directed_findpeer_inner_reads", len(res.InnerReads))
					for i, rd := range res.InnerReads {
						c.Logf("directed findpeer: inner read %d: %v", i, vDAddrStrings(rd))
					}
					c.Logf("directed findpeer: returned %v err=%v", vDAddrStrings(res.Info.Addrs), res.Err)
					if len(res.InnerReads) == 2 && len(res.InnerReads[1]) > len(res.InnerReads[0]) && len(res.InnerReads[0]) > 0 {
						c.Clause("findpeer-union-partial-overlap")
					}
					vC15JudgeRouting(c, n, res, nil, nil, nil)
					vC15LogOp(c, n, nops+1, res)
					res.Keep()
					n.Settle()
				}
				if writes > 0 && reads > 0 {
					h := sha256.Sum256([]byte(strings.Join(sigs, ";")))
					c.Nontrivial(fmt.Sprintf("%x", h[:8]))
				}
			})
		})
}

// ---- scoping ---------------------------------------------------------------------------------------------

// vC15JudgeScoping checks the address-scoping clauses over everything the case did.
func vC15JudgeScoping(c *vh.Case, n *vDNet, ress []*vDRes) {
	u := n.U
	wlog, llog := n.W.Log(), n.L.Log()
	dials := n.H.DialLog()
	namings := n.Namings()
	// peers the LAN DHT can legitimately know: members of the LAN simulation, of the LAN table,
	// or named in any LAN reply
	lanKnown := map[peer.ID]int64{} // peer -> first seq at which the LAN side knew it (0: from the start)
	for _, id := range n.LIDs {
		lanKnown[id] = 0
	}
	for _, r := range ress {
		for p := range r.LRT0 {
			lanKnown[p] = 0
		}
	}
	for p, ns := range namings {
		for _, nm := range ns {
			if nm.Lan {
				if s, ok := lanKnown[p]; !ok || nm.Seq < s {
					lanKnown[p] = nm.Seq
				}
			}
		}
	}
	hasPublicBefore := func(p peer.ID, seq int64) bool {
		if n.Seeded[p] && n.Peers[p] != nil && u.HasPublicNonRelay(n.Peers[p].Addrs) {
			return true
		}
		for _, nm := range namings[p] {
			if nm.Seq < seq && u.HasPublicNonRelay(nm.Addrs) {
				return true
			}
		}
		return false
	}
	opOf := func(seq int64) *vDRes {
		var cur *vDRes
		for _, r := range ress {
			if r.StartSeq <= seq {
				cur = r
			}
		}
		return cur
	}
	// (S1) the WAN DHT only follows referrals to peers with a public non-relay address
	judgeContact := func(p peer.ID, seq int64, how string) {
		r := opOf(seq)
		if r == nil {
			return
		}
		isSeed := r.WRT0[p]
		isTarget := (r.Op.Kind == "findpeer" && r.Op.Target == p) || (r.Op.Kind == "getpubkey" && r.Op.Target == p)
		switch {
		case isSeed:
			c.Obs("wan_contacts_seed", 1)
		case isTarget:
			c.Obs("wan_contacts_target", 1)
		default:
			ok := hasPublicBefore(p, seq)
			var named []string
			for _, nm := range namings[p] {
				if nm.Seq < seq {
					named = append(named, strings.Join(vDAddrStrings(nm.Addrs), ","))
				}
			}
			c.Check(ok, "wan-follows-only-public-peers", "the WAN DHT contacted (%s) %s [%s] during %s although no public non-relay address was known for it; addresses named before: %v", how, n.Name(p), n.kind(p), r.Op.Kind, named)
		}
	}
	for _, e := range wlog {
		if e.Kind == vsim.EvRequest || e.Kind == vsim.EvMessage {
			judgeContact(e.Peer, e.Seq, "request "+e.Type.String())
		}
	}
	for _, d := range dials {
		if s, known := lanKnown[d.Peer]; known && s < d.Seq {
			continue // the LAN DHT may have dialed it
		}
		r := opOf(d.Seq)
		if r != nil && r.Op.Inner == "lan" {
			continue
		}
		judgeContact(d.Peer, d.Seq, "dial")
	}
	// refused referrals (evidence that the filter had something to refuse)
	for p, ns := range namings {
		wanNamed := false
		for _, nm := range ns {
			if !nm.Lan {
				wanNamed = true
			}
		}
		if wanNamed && p != n.Self && !hasPublicBefore(p, 1<<62) {
			c.Obs("wan_referrals_without_public_address", 1)
		}
	}
	// (S2) peers known only through WAN messages: the peerstore gained only public addresses
	for _, w := range n.PS.Writes() {
		if _, known := lanKnown[w.Peer]; known || n.Seeded[w.Peer] || w.Peer == n.Self || len(w.Addrs) == 0 {
			continue
		}
		if r := opOf(w.Seq); r == nil || r.Op.Inner == "lan" {
			continue
		}
		bad := []string{}
		for _, a := range w.Addrs {
			i, ok := u.Of(a)
			if !ok {
				bad = append(bad, a.String()+" (foreign)")
			} else if !i.Public && !i.Neutral {
				bad = append(bad, a.String()+" ("+i.Class+")")
			}
		}
		c.Check(len(bad) == 0, "wan-stores-only-public-addresses", "peer %s [%s] is known only through WAN DHT messages, yet %s stored non-public addresses %v", n.Name(w.Peer), n.kind(w.Peer), w.Op, bad)
	}
	// (S3) / (S4) advertised own addresses
	hostAddrs := map[string]bool{}
	for _, a := range n.H.Addrs() {
		hostAddrs[string(a.Bytes())] = true
	}
	judgePayload := func(e vsim.Event, wan bool) {
		for _, mp := range e.Msg.GetProviderPeers() {
			if peer.ID(mp.GetId()) != n.Self {
				c.Fail("provider-is-self", "ADD_PROVIDER names %s as provider", n.Name(peer.ID(mp.GetId())))
				continue
			}
			var bad []string
			for _, a := range mp.Addresses() {
				i, ok := u.Of(a)
				switch {
				case !ok || !hostAddrs[string(a.Bytes())]:
					bad = append(bad, a.String()+" (not a host address)")
				case wan && !i.Public && !i.Neutral:
					bad = append(bad, a.String()+" ("+i.Class+")")
				case !wan && i.Loopback:
					bad = append(bad, a.String()+" (loopback)")
				}
			}
			if wan {
				c.Check(len(bad) == 0 && len(mp.Addresses()) > 0, "wan-advertises-only-public-addresses", "WAN ADD_PROVIDER to %s advertises %v (bad: %v); host addresses %v", n.Name(e.Peer), vDAddrStrings(mp.Addresses()), bad, vDAddrStrings(n.H.Addrs()))
			} else {
				c.Check(len(bad) == 0 && len(mp.Addresses()) > 0, "lan-never-advertises-loopback", "LAN ADD_PROVIDER to %s advertises %v (bad: %v); host addresses %v", n.Name(e.Peer), vDAddrStrings(mp.Addresses()), bad, vDAddrStrings(n.H.Addrs()))
			}
		}
	}
	for _, e := range wlog {
		if e.Kind == vsim.EvMessage && e.Type == pb.Message_ADD_PROVIDER {
			judgePayload(e, true)
		}
	}
	for _, e := range llog {
		if e.Kind == vsim.EvMessage && e.Type == pb.Message_ADD_PROVIDER {
			judgePayload(e, false)
		}
	}
	c.Obs("rpcs_wan", len(vC15Requests(wlog)))
	c.Obs("rpcs_lan", len(vC15Requests(llog)))
	c.Obs("dials", len(dials))
	c.Obs("peerstore_writes", len(n.PS.Writes()))
}

func (n *vDNet) kind(p peer.ID) string {
	if dp := n.Peers[p]; dp != nil {
		return dp.Kind + " " + strings.Join(vDAddrStrings(dp.Addrs), ",")
	}
	return "unknown"
}

// ---- server side: what the WAN / LAN handlers store and serve -----------------------------------------------

// vC15Serve sends one request to the handler an inner DHT registered on the fake host and
// returns the answer (nil for ADD_PROVIDER / when the stream was reset).
func vC15Serve(n *vDNet, lan bool, from peer.ID, req *pb.Message, wantReply bool) *pb.Message {
	proto := n.WProtos[0]
	if lan {
		proto = n.LProtos[0]
	}
	h := n.H.Handler(proto)
	if h == nil {
		return nil
	}
	local, remote := n.H.NewInboundStream(from, proto)
	done := make(chan struct{})
	go func() { defer close(done); h(local) }()
	var resp *pb.Message
	if err := remote.WriteMsg(req); err == nil && wantReply {
		m := new(pb.Message)
		remote.SetReadDeadline(time.Now().Add(5 * time.Second))
		if err := remote.ReadMsg(m); err == nil {
			resp = m
		}
	}
	if !wantReply {
		// give the handler the time to process the message before the stream goes away
		synctest.Wait()
	}
	remote.Close()
	remote.Reset()
	<-done
	return resp
}

// vC15ServerScoping: a remote peer announces itself as provider with a mix of addresses to the
// WAN and to the LAN handler; what each stores (peerstore) and serves back is scoped.
func vC15ServerScoping(c *vh.Case, n *vDNet) {
	r := c.R
	for round := 0; round < 2; round++ {
		lan := round == 1
		proto := "wan"
		if lan {
			proto = "lan"
		}
		if (lan && n.H.Handler(n.LProtos[0]) == nil) || (!lan && n.H.Handler(n.WProtos[0]) == nil) {
			c.Obs("server_"+proto+"_not_serving", 1)
			continue
		}
		for j := 0; j < 2; j++ {
			n.strangers++
			from := vsim.PeerID(fmt.Sprintf("dann%d", c.Idx), n.strangers)
			kind := []string{"public", "private", "lanpublic", "lan", "loopback", "relayonly"}[r.Intn(6)]
			addrs := n.vDGenAddrs(kind)
			if len(addrs) == 0 {
				continue
			}
			n.Peers[from] = &vDPeer{ID: from, Name: fmt.Sprintf("ann%d", n.strangers), Kind: "announcer-" + kind, Addrs: addrs, Conn: n.connAddr(addrs)}
			key := []byte(vDCid(fmt.Sprintf("srv-%d-%d-%d", c.Idx, round, j)).Hash())
			ps0 := len(n.PS.Writes())
			add := pb.NewMessage(pb.Message_ADD_PROVIDER, key, 0)
			add.ProviderPeers = pb.RawPeerInfosToPBPeers([]peer.AddrInfo{{ID: from, Addrs: addrs}})
			vC15Serve(n, lan, from, add, false)
			synctest.Wait()
			for _, w := range n.PS.Writes()[ps0:] {
				if w.Peer != from {
					continue
				}
				var bad []string
				for _, a := range w.Addrs {
					i, _ := n.U.Of(a)
					if (!lan && !i.Public && !i.Neutral) || (lan && i.Loopback) {
						bad = append(bad, a.String()+" ("+i.Class+")")
					}
				}
				if lan {
					c.Check(len(bad) == 0, "lan-server-stores-no-loopback", "LAN handler stored announced addresses %v of %s", bad, n.Name(from))
				} else {
					c.Check(len(bad) == 0, "wan-server-stores-only-public-addresses", "WAN handler stored announced addresses %v of %s (announced %v)", bad, n.Name(from), vDAddrStrings(addrs))
				}
			}
			// ask for the providers from another peer: the served addresses are scoped as well
			n.strangers++
			asker := vsim.PeerID(fmt.Sprintf("dask%d", c.Idx), n.strangers)
			n.Peers[asker] = &vDPeer{ID: asker, Name: fmt.Sprintf("ask%d", n.strangers), Kind: "asker"}
			// the announcer's connection is gone by now; make the peerstore hold everything the
			// announcer claimed (as identify would), so that the filter on the way out has work to do
			n.PS.Peerstore.AddAddrs(from, addrs, time.Hour)
			resp := vC15Serve(n, lan, asker, pb.NewMessage(pb.Message_GET_PROVIDERS, key, 0), true)
			if resp == nil {
				c.Obs("server_"+proto+"_no_answer", 1)
				continue
			}
			for _, mp := range resp.GetProviderPeers() {
				var bad []string
				for _, a := range mp.Addresses() {
					i, _ := n.U.Of(a)
					if (!lan && !i.Public && !i.Neutral) || (lan && i.Loopback) {
						bad = append(bad, a.String()+" ("+i.Class+")")
					}
				}
				if lan {
					c.Check(len(bad) == 0, "lan-server-serves-no-loopback", "LAN GET_PROVIDERS answer carries %v for %s", bad, n.Name(peer.ID(mp.GetId())))
				} else {
					c.Check(len(bad) == 0, "wan-server-serves-only-public-addresses", "WAN GET_PROVIDERS answer carries %v for %s", bad, n.Name(peer.ID(mp.GetId())))
				}
			}
			c.Obs("server_"+proto+"_answers", 1)
			n.H.Net.Disconnect(from, false)
			n.H.Net.Disconnect(asker, false)
		}
		// the node itself as provider (what an earlier Provide leaves in the store): its own record is scoped like any other
		inner := n.D.WAN
		if lan {
			inner = n.D.LAN
		}
		key := []byte(vDCid(fmt.Sprintf("srv-self-%d-%d", c.Idx, round)).Hash())
		if err := inner.ProviderStore().AddProvider(context.Background(), key, peer.AddrInfo{ID: n.Self}); err != nil {
			c.Obs("server_"+proto+"_self_record_not_stored", 1)
			continue
		}
		n.strangers++
		asker := vsim.PeerID(fmt.Sprintf("dask%d", c.Idx), n.strangers)
		n.Peers[asker] = &vDPeer{ID: asker, Name: fmt.Sprintf("ask%d", n.strangers), Kind: "asker"}
		resp := vC15Serve(n, lan, asker, pb.NewMessage(pb.Message_GET_PROVIDERS, key, 0), true)
		if resp == nil {
			c.Obs("server_"+proto+"_no_answer", 1)
			continue
		}
		for _, mp := range resp.GetProviderPeers() {
			var bad []string
			for _, a := range mp.Addresses() {
				i, _ := n.U.Of(a)
				if (!lan && !i.Public && !i.Neutral) || (lan && i.Loopback) {
					bad = append(bad, a.String()+" ("+i.Class+")")
				}
			}
			if lan {
				c.Check(len(bad) == 0, "lan-server-serves-no-loopback", "LAN GET_PROVIDERS answer carries %v for the node's own provider record (host addresses %v)", bad, vDAddrStrings(n.H.Addrs()))
			} else {
				c.Check(len(bad) == 0, "wan-server-serves-only-public-addresses", "WAN GET_PROVIDERS answer carries %v for the node's own provider record (host addresses %v)", bad, vDAddrStrings(n.H.Addrs()))
			}
			if peer.ID(mp.GetId()) == n.Self {
				c.Obs("server_"+proto+"_own_record_served", 1)
			}
		}
		n.H.Net.Disconnect(asker, false)
	}
}

func TestVerif_C15_scoping(t *testing.T) {
	vh.Run(t, vh.Spec{Prop: "C15", Unit: "scoping", Quick: 400, Thorough: 16000, CostMs: 30,
		Rule: "networks as in C15/routing with 20-50% of the WAN peers lacking a public non-relay address (RFC1918, CGNAT, loopback, link-local, IPv6 ULA, TEST-NET, circuit-only through public or private relays, no address at all), IPv6-global-only peers, liars naming strangers with generated address mixes, host address mixes (public/private/loopback/link-local/relay/IPv6); 4-6 operations per case on the dual client and directly on its WAN and LAN members (Provide, PutValue, GetValue, FindPeer incl. private targets, FindProvidersAsync); then the WAN and LAN stream handlers are fed ADD_PROVIDER / GET_PROVIDERS with address mixes; oracle over both wire logs, the dial log and a peerstore that logs every address write, with the monitor's own address classification (cross-checked against net.IP); non-trivial = the WAN DHT was referred to at least one peer without public address and sent at least one RPC beyond its seeds; distinct by (network shape, address mix, contact sequence)",
		Clauses: []string{"wan-follows-only-public-peers", "wan-stores-only-public-addresses", "wan-advertises-only-public-addresses", "lan-never-advertises-loopback",
			"wan-server-stores-only-public-addresses", "wan-server-serves-only-public-addresses", "lan-server-serves-no-loopback"}},
		func(c *vh.Case) {
			cfg := vC15GenCfg(c, true)
			// every eighth case (no PRNG draw) enables optimistic provide on both members and warms their network-size
			// estimators with lookups, so that Provide advertises through lookup_optim.go where the network allows it
			// (fewer than K reachable peers: the code falls back to the classic path)
			optProv := c.Idx%8 == 5
			if optProv {
				cfg.ExtraWan = append(cfg.ExtraWan, dht.EnableOptimisticProvide())
				cfg.ExtraLan = append(cfg.ExtraLan, dht.EnableOptimisticProvide())
			}
			c.Set("optimistic_provide", optProv)
			c.Bubble(t, 60*time.Minute, "dual-op-hang", func(t *testing.T) {
				n := vDNewNet(c, cfg)
				defer n.Close()
				w := vC15Populate(n)
				n.SeedTables()
				n.U.SelfCheck(c)
				vC15Describe(c, n)
				if optProv {
					for i := 0; i <= netsize.MinMeasurementsThreshold; i++ {
						wctx, wcancel := context.WithTimeout(context.Background(), time.Minute)
						n.D.WAN.GetClosestPeers(wctx, fmt.Sprintf("/v/c15-warm-%d-%d", c.Idx, i))
						n.D.LAN.GetClosestPeers(wctx, fmt.Sprintf("/v/c15-warm-%d-%d", c.Idx, i))
						wcancel()
						n.Settle()
					}
				}
				nops := 4 + c.R.Intn(3)
				var ress []*vDRes
				for i := 0; i < nops; i++ {
					op := vC15GenOp(w, []string{"provide", "provide", "putvalue", "getvalue", "findpeer", "findpeer", "findprovs"})
					op.CancelAt = -1
					switch c.R.Intn(5) {
					case 0:
						op.Inner = "wan"
					case 1:
						op.Inner = "lan"
					}
					res := n.Run(op)
					vC15LogOp(c, n, i, res)
					res.Keep()
					ress = append(ress, res)
					n.Settle()
				}
				vC15JudgeScoping(c, n, ress)
				vC15ServerScoping(c, n)
				// non-triviality and signature
				beyond := 0
				var seq []string
				for _, e := range n.W.Log() {
					if e.Kind == vsim.EvRequest || e.Kind == vsim.EvMessage {
						seq = append(seq, n.Name(e.Peer))
						seeded := false
						for _, r := range ress {
							if r.WRT0[e.Peer] {
								seeded = true
							}
						}
						if !seeded {
							beyond++
						}
					}
				}
				refused := 0
				for p, ns := range n.Namings() {
					pub := false
					wanNamed := false
					for _, nm := range ns {
						if n.U.HasPublicNonRelay(nm.Addrs) {
							pub = true
						}
						if !nm.Lan {
							wanNamed = true
						}
					}
					if wanNamed && !pub && p != n.Self {
						refused++
					}
				}
				c.Obs("wan_rpcs_beyond_seeds", beyond)
				if beyond > 0 && refused > 0 {
					sort.Strings(seq)
					h := sha256.Sum256([]byte(fmt.Sprintf("%d/%d/%v/%s", cfg.NW, cfg.NL, cfg.HostClasses, strings.Join(seq, ","))))
					c.Nontrivial(fmt.Sprintf("%x", h[:8]))
				}
			})
		})
}

var _ = network.Connected
var _ ma.Multiaddr
