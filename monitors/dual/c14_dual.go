//go:build verif

package dual

// C14 — dual.DHT: "Close blocks until both the WAN and LAN DHTs have shut down"; a failing LAN
// constructor must not leave the already started WAN DHT running.
//
// One fake host, one simulated network (half of the peers public with a connection, half
// private) behind both inner DHTs; public operations of the dual client in flight; Close
// instants enumerated over the boundary events (wire log, dials, datastore accesses) of a
// reference run of the identically seeded scenario.

import (
	"context"
	"errors"
	"fmt"
	"math/rand"
	"runtime"
	"sort"
	"strings"
	"sync"
	"sync/atomic"
	"testing"
	"testing/synctest"
	"time"

	"github.com/ipfs/go-cid"
	record "github.com/libp2p/go-libp2p-record"
	"github.com/libp2p/go-libp2p/core/host"
	"github.com/libp2p/go-libp2p/core/network"
	"github.com/libp2p/go-libp2p/core/peer"
	"github.com/libp2p/go-libp2p/core/protocol"
	ma "github.com/multiformats/go-multiaddr"
	mh "github.com/multiformats/go-multihash"

	dht "github.com/libp2p/go-libp2p-kad-dht"
	"github.com/libp2p/go-libp2p-kad-dht/internal/verif/vc14"
	"github.com/libp2p/go-libp2p-kad-dht/internal/verif/vh"
	"github.com/libp2p/go-libp2p-kad-dht/internal/verif/vjds"
	"github.com/libp2p/go-libp2p-kad-dht/internal/verif/vsim"
	pb "github.com/libp2p/go-libp2p-kad-dht/pb"
	"github.com/libp2p/go-libp2p-kad-dht/records"
)

const (
	vC14DuCloseBound = 2 * time.Second
	vC14DuCloseHang  = 5 * time.Minute
	vC14DuSlack      = time.Second
)

var vC14DuLoopFrags = []string{
	"(*IpfsDHT).persistRTPeersInPeerStore", "(*IpfsDHT).rtPeerLoop", "(*IpfsDHT).runFixLowPeersLoop", "(*IpfsDHT).startNetworkSubscriber",
	"(*RtRefreshManager).loop", "(*ProviderManager).gcLoop", "(*ValueStore).gcLoop",
}

type vC14DuVal struct{}

func (vC14DuVal) Validate(string, []byte) error { return nil }
func (vC14DuVal) Select(_ string, vals [][]byte) (int, error) {
	best := 0
	for i, v := range vals {
		if string(v) > string(vals[best]) {
			best = i
		}
	}
	return best, nil
}

type vC14DuSender struct {
	*vsim.Sim
	bd    *vc14.Boundary
	grace time.Duration
}

func (s *vC14DuSender) OnDisconnect(ctx context.Context, p peer.ID) {
	s.bd.Tick("disc", vsim.Short(p))
	time.Sleep(s.grace)
	s.Sim.OnDisconnect(ctx, p)
}

func (s *vC14DuSender) SendRequest(ctx context.Context, p peer.ID, m *pb.Message) (*pb.Message, error) {
	resp, err := s.Sim.SendRequest(ctx, p, m)
	if err != nil && ctx.Err() != nil {
		time.Sleep(s.grace)
	}
	return resp, err
}

type vC14DuScn struct {
	Seed      int64
	WanClient bool
	Auto      bool
	N, K      int
	NOps      int
	Emits     int
}

func (s vC14DuScn) String() string {
	return fmt.Sprintf("wanclient=%v autorefresh=%v N=%d K=%d ops=%d emits=%d", s.WanClient, s.Auto, s.N, s.K, s.NOps, s.Emits)
}

type vC14DuOp struct {
	Kind        string
	Offset, Tmo time.Duration
	Start, Ret  time.Duration
	Returned    bool
	Late        bool
	Err         string
	cancel      context.CancelFunc
	started     bool
	hasDl       bool
	dl          time.Duration
}

type vC14DuRes struct {
	Events     []vc14.Ev
	CloseIdx   int
	CloseLabel string
	Busy       string
	CloseTook  time.Duration
	InFlight   int
}

func vC14DuSleep(ctx context.Context, d, grace time.Duration) error {
	if d <= 0 {
		return ctx.Err()
	}
	tm := time.NewTimer(d)
	defer tm.Stop()
	select {
	case <-tm.C:
		return nil
	case <-ctx.Done():
		time.Sleep(grace)
		return ctx.Err()
	}
}

func vC14DuPub(i int) ma.Multiaddr {
	return ma.StringCast(fmt.Sprintf("/ip4/%d.%d.0.1/tcp/4001", 11+(i/250)%200, i%250))
}
func vC14DuPriv(i int) ma.Multiaddr {
	return ma.StringCast(fmt.Sprintf("/ip4/10.%d.%d.1/tcp/4001", (i/250)%250, i%250))
}

// vC14DuEnv is the environment shared by the Close scenarios and the constructor-failure cases.
type vC14DuEnv struct {
	h      *vsim.Host
	bus    *vc14.Bus
	sim    *vsim.Sim
	bd     *vc14.Boundary
	j      *vjds.Journal
	ids    []peer.ID
	public []bool
	opts   []Option
	grace  time.Duration
	late   func() []string
	closed *atomic.Bool
}

func vC14DuMkEnv(r *rand.Rand, sc vC14DuScn, target int) *vC14DuEnv {
	e := &vC14DuEnv{closed: new(atomic.Bool)}
	e.bd = vc14.NewBoundary(max(target, 0), vC14DuLoopFrags...)
	self := vsim.PeerID("c14du-self", int(sc.Seed%1000003))
	e.h = vsim.NewHost(self, vC14DuPub(999), vC14DuPriv(999))
	e.bus = vc14.NewBus(e.h.EventBus())
	e.h.BusOverride = e.bus
	e.sim = vsim.NewSim(e.h, sc.K)
	name := map[peer.ID]string{}
	dialLat := map[peer.ID]time.Duration{}
	addr := map[peer.ID]ma.Multiaddr{}
	for i := 0; i < sc.N; i++ {
		id := vsim.PeerID(fmt.Sprintf("c14du%d", sc.Seed%1000003), i)
		pub := i%2 == 0
		a := vC14DuPriv(i)
		if pub {
			a = vC14DuPub(i)
		}
		e.ids, e.public = append(e.ids, id), append(e.public, pub)
		name[id], addr[id] = fmt.Sprintf("p%d", i), a
		sp := e.sim.Add(&vsim.SimPeer{ID: id, Addrs: []ma.Multiaddr{a}})
		e.h.Peerstore().AddProtocols(id, "/verif/kad/1.0.0", "/verif/lan/kad/1.0.0")
		lat := time.Duration(3+r.Intn(300)) * time.Millisecond
		dialLat[id] = time.Duration(1+r.Intn(100)) * time.Millisecond
		kind := "ok"
		if r.Intn(10) < 3 {
			kind = []string{"silent", "reqerr", "dead"}[r.Intn(3)]
		}
		if kind == "dead" {
			sp.Dead = true
			continue
		}
		k := kind
		sp.Script = func(n int, req *pb.Message) vsim.Reply {
			if req == nil {
				return vsim.Reply{}
			}
			rep := vsim.Reply{Delay: lat}
			switch k {
			case "silent":
				rep.Silent = true
			case "reqerr":
				rep.Err = errors.New("vsim: stream reset by peer")
			}
			return rep
		}
	}
	e.sim.KnowFull()
	e.h.RemoteAddrFn = func(p peer.ID) ma.Multiaddr { return addr[p] }
	e.sim.OnEvent = func(ev vsim.Event) { e.bd.Tick(ev.Kind, ev.Type.String()+" "+name[ev.Peer]) }
	e.grace = time.Duration(1+r.Intn(30)) * time.Millisecond
	inner := e.h.DialFn
	e.h.DialFn = func(ctx context.Context, p peer.ID) error {
		e.bd.Tick("dial", name[p])
		err := vC14DuSleep(ctx, dialLat[p], e.grace)
		if err == nil {
			err = inner(ctx, p)
		}
		e.bd.Tick("dialend", name[p])
		return err
	}
	sender := &vC14DuSender{Sim: e.sim, bd: e.bd, grace: e.grace}
	e.j = vjds.NewJournal()
	gcDelay := time.Duration(1+r.Intn(8)) * time.Millisecond
	var lateMu sync.Mutex
	var late []string
	e.late = func() []string { lateMu.Lock(); defer lateMu.Unlock(); return append([]string(nil), late...) }
	e.j.Hook = func(en *vjds.Entry) error {
		gc := vc14.OnStack("gcLoop") != ""
		underLock := gc && vc14.OnStack("discardIfUnchanged") != ""
		e.bd.Tick("ds", en.Store+" "+en.Op+" "+en.Key)
		if e.closed.Load() && (gc || strings.HasSuffix(en.Store, "prov")) {
			lateMu.Lock()
			late = append(late, fmt.Sprintf("+%v %s %s %s gc=%v", e.bd.Since(), en.Store, en.Op, en.Key, gc))
			lateMu.Unlock()
		}
		if gc && !underLock {
			time.Sleep(gcDelay)
		} else {
			runtime.Gosched()
		}
		return nil
	}
	gcI := func() time.Duration { return time.Duration(200+r.Intn(900)) * time.Millisecond }
	e.opts = []Option{
		DHTOption(dht.ProtocolPrefix("/verif"), dht.BucketSize(sc.K), dht.Validator(record.NamespacedValidator{"v": vC14DuVal{}}),
			dht.WithCustomMessageSender(func(_ host.Host, _ []protocol.ID) pb.MessageSenderWithDisconnect { return sender }),
			dht.MaxRecordAge(time.Duration(800+r.Intn(2000))*time.Millisecond), dht.ValueGCInterval(gcI()),
			dht.ProviderManagerOpts(records.CleanupInterval(gcI()), records.ProvideValidity(time.Duration(800+r.Intn(2000))*time.Millisecond)),
			dht.RoutingTableRefreshPeriod(time.Duration(5+r.Intn(30))*time.Second)),
		WanDHTOption(dht.Datastore(vjds.NewNamed(e.j, "wan")), dht.ProviderDatastore(vjds.NewNamed(e.j, "wan-prov"))),
		LanDHTOption(dht.Datastore(vjds.NewNamed(e.j, "lan")), dht.ProviderDatastore(vjds.NewNamed(e.j, "lan-prov"))),
	}
	if !sc.Auto {
		e.opts = append(e.opts, DHTOption(dht.DisableAutoRefresh()))
	}
	if sc.WanClient {
		e.opts = append(e.opts, WanDHTOption(dht.Mode(dht.ModeClient)))
	} else {
		e.opts = append(e.opts, WanDHTOption(dht.Mode(dht.ModeServer)))
	}
	return e
}

func vC14DuRun(t *testing.T, c *vh.Case, sc vC14DuScn, target int) *vC14DuRes {
	var res *vC14DuRes
	c.Bubble(t, 45*time.Minute, "close-hang", func(t *testing.T) {
		res = vC14DuRunInBubble(t, c, sc, target)
	})
	return res
}

func vC14DuRunInBubble(t *testing.T, c *vh.Case, sc vC14DuScn, target int) *vC14DuRes {
	r := rand.New(rand.NewSource(sc.Seed))
	res := &vC14DuRes{}
	tag := fmt.Sprintf("[close@%d] ", target)
	base := vc14.Owned()
	c.Check(len(base) == 0, "baseline-clean", "%sinstance-owned goroutines before construction: %v", tag, vc14.Summary(base))
	e := vC14DuMkEnv(r, sc, target)
	bd, h := e.bd, e.h
	d, err := New(h, e.opts...)
	if err != nil {
		panic(fmt.Sprintf("vC14: dual.New failed: %v", err))
	}
	if target >= 0 {
		for i, id := range e.ids {
			if r.Intn(3) == 0 {
				continue
			}
			if e.public[i] {
				h.Net.AddConn(id, network.DirOutbound, nil, false) // the WAN diversity filter wants a connection address
				d.WAN.RoutingTable().TryAddPeer(id, true, false)
			} else {
				d.LAN.RoutingTable().TryAddPeer(id, true, false)
			}
		}
	}
	c.ObsMax("wan_table", d.WAN.RoutingTable().Size())
	c.ObsMax("lan_table", d.LAN.RoutingTable().Size())
	atOpen := vc14.Summary(vc14.WithFrame(vc14.Owned(), vC14DuLoopFrags...))

	var opsWG, actorsWG sync.WaitGroup
	actx, acancel := context.WithCancel(context.Background())
	var closing atomic.Bool
	var mu sync.Mutex
	var ops []*vC14DuOp
	kinds := []string{"provide", "findprovs", "findpeer", "putvalue", "getvalue", "searchvalue", "getpubkey", "bootstrap"}
	keyOf := func(i int) string { return fmt.Sprintf("/v/c14du-%d-%d", sc.Seed%9973, i%3) }
	cidOf := func(i int) cid.Cid {
		hh, _ := mh.Sum([]byte(fmt.Sprintf("c14du-cid-%d-%d", sc.Seed%9973, i%3)), mh.SHA2_256, -1)
		return cid.NewCidV1(cid.Raw, hh)
	}
	for i := 0; i < sc.NOps; i++ {
		op := &vC14DuOp{Kind: kinds[r.Intn(len(kinds))], Tmo: []time.Duration{0, 15 * time.Second, 40 * time.Second, 90 * time.Second}[r.Intn(4)]}
		if i > 0 {
			op.Offset = time.Duration(r.Intn(2500)) * time.Millisecond
		}
		tgt := e.ids[r.Intn(len(e.ids))]
		salt, cnt := r.Int63(), r.Intn(3)
		ops = append(ops, op)
		idx := i
		opsWG.Add(1)
		go func() {
			defer opsWG.Done()
			time.Sleep(op.Offset)
			ctx, cancel := context.WithCancel(context.Background())
			if op.Tmo > 0 {
				ctx, cancel = context.WithTimeout(context.Background(), op.Tmo)
			}
			defer cancel()
			mu.Lock()
			op.cancel, op.started, op.Start, op.Late = cancel, true, bd.Since(), closing.Load()
			if op.Tmo > 0 {
				op.hasDl, op.dl = true, op.Start+op.Tmo
			}
			mu.Unlock()
			var err error
			switch op.Kind {
			case "provide":
				err = d.Provide(ctx, cidOf(idx), true)
			case "findprovs":
				for range d.FindProvidersAsync(ctx, cidOf(idx), cnt) {
				}
			case "findpeer":
				_, err = d.FindPeer(ctx, tgt)
			case "putvalue":
				err = d.PutValue(ctx, keyOf(idx), []byte(fmt.Sprintf("val-%d", salt)))
			case "getvalue":
				_, err = d.GetValue(ctx, keyOf(idx))
			case "searchvalue":
				var ch <-chan []byte
				if ch, err = d.SearchValue(ctx, keyOf(idx)); err == nil {
					for range ch {
					}
				}
			case "getpubkey":
				_, err = d.GetPublicKey(ctx, tgt)
			case "bootstrap":
				err = d.Bootstrap(ctx)
			}
			mu.Lock()
			op.Ret, op.Returned = bd.Since(), true
			if err != nil {
				op.Err = err.Error()
			}
			mu.Unlock()
		}()
	}
	for i := 0; i < sc.Emits; i++ {
		off := time.Duration(r.Intn(3000)) * time.Millisecond
		p := e.ids[r.Intn(len(e.ids))]
		kind := r.Intn(2)
		actorsWG.Add(1)
		go func() {
			defer actorsWG.Done()
			if vC14DuSleep(actx, off, 0) != nil {
				return
			}
			bd.Tick("emit", fmt.Sprint(kind))
			if kind == 0 {
				h.Net.EmitConnectedness(p, network.NotConnected)
			} else {
				h.Net.AddConn(p, network.DirInbound, nil, true)
			}
		}()
	}

	opsDone := make(chan struct{})
	go func() { opsWG.Wait(); close(opsDone) }()
	settled := make(chan struct{})
	go func() { <-opsDone; time.Sleep(20 * time.Second); close(settled) }()
	if target < 0 {
		bd.FireNow()
	}
	select {
	case <-bd.Fire:
	case <-settled:
		bd.FireNow()
	}
	closing.Store(true)
	evs := bd.Events()
	res.CloseIdx = len(evs)
	if n := len(evs); n > 0 {
		res.CloseLabel, res.Busy = evs[n-1].Kind+" "+evs[n-1].Label, evs[n-1].Owner
	}
	mu.Lock()
	for _, op := range ops {
		if op.started && !op.Returned {
			res.InFlight++
		}
	}
	mu.Unlock()
	doClose := func(what string) (time.Duration, error) {
		t0 := bd.Since()
		ret := make(chan error, 1)
		go func() { ret <- d.Close() }()
		tm := time.NewTimer(vC14DuCloseHang)
		defer tm.Stop()
		select {
		case err := <-ret:
			return bd.Since() - t0, err
		case <-tm.C:
			buf := make([]byte, 1<<22)
			buf = buf[:runtime.Stack(buf, true)]
			c.FailSig("close-hang", "close-hang@"+vh.BlockedRepoFrame(buf), "%s%s did not return within %v (%s; closed at event #%d %q); goroutines:\n%s", tag, what, vC14DuCloseHang, sc, res.CloseIdx, res.CloseLabel, vh.FilterBubble(buf))
			c.ExitNow()
			return 0, nil
		}
	}
	took, cerr := doClose("Close")
	e.closed.Store(true)
	closeRet := bd.Since()
	res.CloseTook = took
	c.Check(took <= vC14DuCloseBound && cerr == nil, "close-returns-in-bound", "%sClose took %v (bound %v), returned %v (%s; closed at event #%d %q)", tag, took, vC14DuCloseBound, cerr, sc, res.CloseIdx, res.CloseLabel)
	synctest.Wait()
	cA := vc14.Owned()
	loops := vc14.WithFrame(cA, vC14DuLoopFrags...)
	c.Check(len(loops) == 0, "no-loop-after-close", "%slong-lived loops of the WAN/LAN DHTs still running after Close returned (%s; closed at event #%d %q, busy %q; at open %v): %v\n%s", tag, sc, res.CloseIdx, res.CloseLabel, res.Busy, atOpen, vc14.Summary(loops), vc14.Dump(loops, 4))
	c.Check(e.bus.Live() == 0, "subscription-closed-at-close", "%s%d of %d event-bus subscriptions still open after Close returned", tag, e.bus.Live(), e.bus.Total())
	for k := 2; k <= 3; k++ {
		tk, ce := doClose(fmt.Sprintf("Close #%d", k))
		c.Check(tk <= vC14DuCloseBound && ce == nil, "close-again-returns", "%sClose #%d took %v, returned %v", tag, k, tk, ce)
	}
	tm := time.NewTimer(4 * time.Minute)
	select {
	case <-opsDone:
	case <-tm.C:
		mu.Lock()
		var stuck []string
		for _, op := range ops {
			if !op.Returned {
				stuck = append(stuck, fmt.Sprintf("%s(start +%v timeout %v late=%v)", op.Kind, op.Start, op.Tmo, op.Late))
				if op.cancel != nil {
					op.cancel()
				}
			}
		}
		mu.Unlock()
		buf := make([]byte, 1<<22)
		buf = buf[:runtime.Stack(buf, true)]
		c.FailSig("op-returns", "op-returns/stuck@"+vh.BlockedRepoFrame(buf), "%soperations still running 4 virtual minutes after Close returned (%s; closed at event #%d %q): %v\n%s", tag, sc, res.CloseIdx, res.CloseLabel, stuck, vh.FilterBubble(buf))
		t2 := time.NewTimer(time.Minute)
		select {
		case <-opsDone:
		case <-t2.C:
			c.ExitNow()
		}
	}
	tm.Stop()
	evs = bd.Events()
	lastBefore := func(t time.Duration) time.Duration {
		i := sort.Search(len(evs), func(i int) bool { return evs[i].VT > t })
		if i == 0 {
			return 0
		}
		return evs[i-1].VT
	}
	slack := vC14DuSlack + e.grace
	for _, op := range ops {
		ref := max(lastBefore(op.Ret), op.Start)
		if closeRet <= op.Ret {
			ref = max(ref, closeRet)
		}
		ok := op.Ret-ref <= slack || (op.hasDl && op.Ret >= op.dl && op.Ret-op.dl <= slack)
		clause := "op-returns"
		if op.Late {
			clause = "late-op-returns"
		}
		c.Check(ok, clause, "%s%s started +%v (timeout %v) returned +%v: %v after the last boundary event / Close return (+%v) / its deadline (%s)", tag, op.Kind, op.Start, op.Tmo, op.Ret, op.Ret-ref, closeRet, sc)
	}
	acancel()
	actorsWG.Wait()
	time.Sleep(2 * time.Minute)
	synctest.Wait()
	cB := vc14.Owned()
	if !c.Check(len(cB) == 0, "no-goroutine-after-2min", "%sinstance-owned goroutines 2 virtual minutes after Close and the last operation (%s; closed at event #%d %q): %v\n%s", tag, sc, res.CloseIdx, res.CloseLabel, vc14.Summary(cB), vc14.Dump(cB, 4)) {
		c.ExitNow()
	}
	c.Check(e.bus.Live() == 0, "no-subscription-left", "%s%d event-bus subscriptions still open", tag, e.bus.Live())
	late := e.late()
	c.Check(len(late) == 0, "stores-quiet-after-close", "%sprovider datastore or GC access after Close returned (+%v): %v", tag, closeRet, late)
	h.Close()
	res.Events = evs
	c.Obs("runs", 1)
	c.Obs("boundary_events", len(evs))
	c.Obs("journal_entries", e.j.Len())
	c.Obs("ops", len(ops))
	c.Obs("ops_in_flight_at_close", res.InFlight)
	if res.Busy != "" {
		c.Obs("closes_on_busy_loop", 1)
	}
	return res
}

func TestVerif_C14_dual(t *testing.T) {
	vh.Run(t, vh.Spec{Prop: "C14", Unit: "dual", Quick: 40, Thorough: 1500, CostMs: 230,
		Rule:    "PRNG dual.DHT over one fake host (WAN client/server, auto-refresh on/off, 6-30 peers half public with a connection / half private, 30% silent/failing/dead, both inner DHTs GC-ing every 0.2-1.1 vs over journaling stores) with 1-5 dual operations and 0-5 connectedness events; reference run counts boundary events, re-runs Close immediately after construction, at 2 events on a background loop's stack and 2 PRNG indices (thorough: all on small scenarios, <= 48); non-trivial = Close while an operation was in flight or on a background loop's boundary event",
		Clauses: []string{"baseline-clean", "close-returns-in-bound", "no-loop-after-close", "close-again-returns", "op-returns", "no-goroutine-after-2min", "no-subscription-left", "stores-quiet-after-close"}},
		func(c *vh.Case) {
			r := c.R
			sc := vC14DuScn{Seed: r.Int63(), WanClient: r.Intn(2) == 0, Auto: r.Intn(2) == 0, N: 6 + r.Intn(25), K: []int{2, 3, 5, 20}[r.Intn(4)], NOps: 1 + r.Intn(5), Emits: r.Intn(6)}
			if c.Tier == "thorough" && r.Intn(3) == 0 {
				sc.N, sc.NOps, sc.Emits = 4+r.Intn(6), 1+r.Intn(2), r.Intn(2)
			}
			c.Set("scenario", sc.String())
			c.Set("seed", sc.Seed)
			ref := vC14DuRun(t, c, sc, 0)
			idxs := vc14.PickIndices(r, ref.Events, 2, 2, c.Tier == "thorough" && sc.N <= 10, 48)
			c.Set("close_indices", idxs)
			c.Logf("reference run: %d boundary events, Close after everything took %v", len(ref.Events), ref.CloseTook)
			var sigs []string
			for _, i := range idxs {
				if i > len(ref.Events) {
					continue
				}
				tg := i
				if i == 0 {
					tg = -1
				}
				res := vC14DuRun(t, c, sc, tg)
				c.Logf("close@%d: event #%d %q busy=%q in-flight=%d took %v", tg, res.CloseIdx, res.CloseLabel, res.Busy, res.InFlight, res.CloseTook)
				if res.InFlight > 0 || res.Busy != "" {
					k, _, _ := strings.Cut(res.CloseLabel, " ")
					sigs = append(sigs, fmt.Sprintf("%s/%s/%d", k, res.Busy, min(res.InFlight, 2)))
				}
			}
			if len(sigs) > 0 {
				sort.Strings(sigs)
				c.Nontrivial(fmt.Sprintf("%v/%v/%s", sc.WanClient, sc.Auto, strings.Join(sigs, ",")))
			}
		})
}

func TestVerif_C14_dual_ctor(t *testing.T) {
	vh.Run(t, vh.Spec{Prop: "C14", Unit: "dual_ctor", Quick: 60, Thorough: 1500, CostMs: 10,
		Rule:    "dual.New failing at an enumerated point: dual option error, WAN option error, WAN Subscribe failing, LAN option error after the WAN DHT started, LAN invalid mode after its stores started, LAN Subscribe failing (2nd Subscribe call); x WAN mode x auto-refresh; oracle: error returned, instance-owned census and live bus subscriptions equal the empty baseline; non-trivial = the failure lies after the WAN DHT started",
		Clauses: []string{"ctor-returns-error", "ctor-fail-no-goroutine", "ctor-fail-no-subscription"}},
		func(c *vh.Case) {
			r := c.R
			points := []string{"dual-option", "wan-option", "wan-subscribe", "lan-option", "lan-invalid-mode", "lan-subscribe"}
			pt := points[c.Idx%len(points)]
			sc := vC14DuScn{Seed: r.Int63(), WanClient: r.Intn(2) == 0 || pt == "lan-invalid-mode", Auto: r.Intn(2) == 0, N: 4, K: 5}
			c.Set("point", pt)
			c.Set("scenario", sc.String())
			c.Bubble(t, 10*time.Minute, "ctor-hang", func(t *testing.T) {
				base := vc14.Owned()
				c.Check(len(base) == 0, "baseline-clean", "instance-owned goroutines before construction: %v", vc14.Summary(base))
				e := vC14DuMkEnv(rand.New(rand.NewSource(sc.Seed)), sc, 0)
				injected := errors.New("vC14: injected option failure")
				switch pt {
				case "dual-option":
					e.opts = append(e.opts, func(*config) error { return injected })
				case "wan-option":
					e.opts = append(e.opts, WanDHTOption(dht.ProviderManagerOpts(func(*records.ProviderManager) error { return injected })))
				case "wan-subscribe":
					e.bus.FailSubscribeAt(0)
				case "lan-option":
					e.opts = append(e.opts, LanDHTOption(dht.ProviderManagerOpts(func(*records.ProviderManager) error { return injected })))
				case "lan-invalid-mode":
					e.opts = append(e.opts, LanDHTOption(dht.Mode(dht.ModeOpt(40+r.Intn(50)))))
				case "lan-subscribe":
					e.bus.FailSubscribeAt(1)
				}
				d, err := New(e.h, e.opts...)
				if !c.Check(err != nil && d == nil, "ctor-returns-error", "dual.New succeeded although failure point %q was armed", pt) {
					if d != nil {
						d.Close()
					}
					e.h.Close()
					return
				}
				c.Logf("dual.New failed as planned at %q: %v", pt, err)
				synctest.Wait()
				cs := vc14.Owned()
				c.Check(len(cs) == 0, "ctor-fail-no-goroutine", "failure point %q (%s): goroutines left after dual.New returned %q: %v\n%s", pt, sc, err, vc14.Summary(cs), vc14.Dump(cs, 4))
				c.Check(e.bus.Live() == 0, "ctor-fail-no-subscription", "failure point %q: %d of %d bus subscriptions left open", pt, e.bus.Live(), e.bus.Total())
				if n := len(e.h.Protocols()); n > 0 {
					c.Obs("ctor_fail_stream_handlers_left_registered", n)
				}
				time.Sleep(2 * time.Minute)
				synctest.Wait()
				cs = vc14.Owned()
				if !c.Check(len(cs) == 0, "ctor-fail-no-goroutine", "failure point %q: goroutines 2 virtual minutes after the failed dual.New: %v", pt, vc14.Summary(cs)) {
					c.ExitNow()
				}
				c.Obs("subscriptions_opened", e.bus.Total())
				e.h.Close()
				if strings.HasPrefix(pt, "lan-") {
					c.Nontrivial(fmt.Sprintf("%s/%v/%v", pt, sc.WanClient, sc.Auto))
				}
			})
		})
}
