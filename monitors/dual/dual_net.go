//go:build verif

package dual

// Shared harness of the dual-DHT monitors (C15 and the dual halves of C03/C04/C08): ONE fake
// host shared by the WAN and the LAN IpfsDHT, TWO simulated networks (vsim.Sim) told apart by
// the protocol list handed to the message-sender builder, a peerstore that logs every address
// written to it, one journaling datastore per inner DHT, generated address classes with the
// monitor's own public / relay / loopback classification, and a generic operation runner that
// records everything an oracle needs. Must be used inside a synctest bubble.

import (
	"bytes"
	"context"
	"fmt"
	"net"
	"runtime"
	"sort"
	"strconv"
	"strings"
	"sync"
	"testing/synctest"
	"time"

	"github.com/ipfs/go-cid"
	ds "github.com/ipfs/go-datastore"
	record "github.com/libp2p/go-libp2p-record"
	recpb "github.com/libp2p/go-libp2p-record/pb"
	ci "github.com/libp2p/go-libp2p/core/crypto"
	"github.com/libp2p/go-libp2p/core/host"
	"github.com/libp2p/go-libp2p/core/network"
	"github.com/libp2p/go-libp2p/core/peer"
	"github.com/libp2p/go-libp2p/core/peerstore"
	"github.com/libp2p/go-libp2p/core/protocol"
	"github.com/libp2p/go-libp2p/core/routing"
	"github.com/multiformats/go-base32"
	ma "github.com/multiformats/go-multiaddr"
	mh "github.com/multiformats/go-multihash"
	"google.golang.org/protobuf/proto"

	dht "github.com/libp2p/go-libp2p-kad-dht"
	dhtcfg "github.com/libp2p/go-libp2p-kad-dht/internal/config"
	"github.com/libp2p/go-libp2p-kad-dht/internal/verif/vh"
	"github.com/libp2p/go-libp2p-kad-dht/internal/verif/vjds"
	"github.com/libp2p/go-libp2p-kad-dht/internal/verif/vsim"
	pb "github.com/libp2p/go-libp2p-kad-dht/pb"
)

// ---- address classes ---------------------------------------------------------------------------

// vDAddr is the monitor's own knowledge about a generated address (fixed at generation time,
// independent of manet / dht_filters.go).
type vDAddr struct {
	Class    string
	Public   bool // globally routable unicast IP (or a circuit through a relay with such an IP)
	Relay    bool // p2p-circuit address
	Loopback bool
	Neutral  bool // DNS names: not judged either way
	IP       string
}

// vDUniverse maps every address the monitor generated to its class.
type vDUniverse struct {
	mu  sync.Mutex
	cls map[string]vDAddr
	n   int
}

func vDNewUniverse() *vDUniverse { return &vDUniverse{cls: map[string]vDAddr{}} }

// first octets usable for public IPv4 test addresses: not private, not special-purpose, and not
// one of the legacy class-A blocks that go-libp2p-kbucket's diversity filter groups by /8.
var vDSafeA = func() []int {
	bad := map[int]bool{12: true, 17: true, 19: true, 38: true, 48: true, 56: true, 73: true, 53: true, 100: true, 127: true, 169: true, 172: true, 192: true, 198: true, 203: true}
	var out []int
	for a := 20; a < 224; a++ {
		if !bad[a] {
			out = append(out, a)
		}
	}
	return out
}()

var vDClassesPrivate = []string{"rfc1918-10", "rfc1918-172", "rfc1918-192", "cgnat", "loop4", "loop6", "ll4", "ll6", "ula6", "relaypriv", "unroutable4"}
var vDClassesPublic = []string{"pub4", "pub4quic", "glob6"}

// Gen creates a fresh address of the given class.
func (u *vDUniverse) Gen(class string) ma.Multiaddr {
	u.mu.Lock()
	u.n++
	n := u.n
	u.mu.Unlock()
	pubIP := func(k int) string { return fmt.Sprintf("%d.%d.0.%d", vDSafeA[(k/200)%len(vDSafeA)], 1+k%200, 1+k%250) }
	var s string
	info := vDAddr{Class: class}
	switch class {
	case "pub4":
		info.IP, info.Public = pubIP(n), true
		s = "/ip4/" + info.IP + "/tcp/4001"
	case "pub4quic":
		info.IP, info.Public = pubIP(n), true
		s = "/ip4/" + info.IP + "/udp/4001/quic-v1"
	case "glob6":
		info.IP, info.Public = fmt.Sprintf("2a01:%x::1", 0x100+n), true
		s = "/ip6/" + info.IP + "/tcp/4001"
	case "rfc1918-10":
		info.IP = fmt.Sprintf("10.%d.%d.1", n%250, (n/250)%250)
		s = "/ip4/" + info.IP + "/tcp/4001"
	case "rfc1918-172":
		info.IP = fmt.Sprintf("172.%d.%d.1", 16+n%16, (n/16)%250)
		s = "/ip4/" + info.IP + "/tcp/4001"
	case "rfc1918-192":
		info.IP = fmt.Sprintf("192.168.%d.%d", n%250, 1+(n/250)%250)
		s = "/ip4/" + info.IP + "/tcp/4001"
	case "cgnat":
		info.IP = fmt.Sprintf("100.%d.%d.1", 64+n%64, (n/64)%250)
		s = "/ip4/" + info.IP + "/tcp/4001"
	case "loop4":
		info.IP, info.Loopback = "127.0.0.1", true
		s = fmt.Sprintf("/ip4/127.0.0.1/tcp/%d", 4000+n%20000)
	case "loop6":
		info.IP, info.Loopback = "::1", true
		s = fmt.Sprintf("/ip6/::1/tcp/%d", 4000+n%20000)
	case "ll4":
		info.IP = fmt.Sprintf("169.254.%d.%d", n%250, 1+(n/250)%250)
		s = "/ip4/" + info.IP + "/tcp/4001"
	case "ll6":
		info.IP = fmt.Sprintf("fe80::%x", 1+n)
		s = "/ip6/" + info.IP + "/tcp/4001"
	case "ula6":
		info.IP = fmt.Sprintf("fd00:%x::1", 1+n)
		s = "/ip6/" + info.IP + "/tcp/4001"
	case "unroutable4":
		info.IP = fmt.Sprintf("203.0.113.%d", 1+n%250)
		s = fmt.Sprintf("/ip4/%s/tcp/%d", info.IP, 4000+n%20000)
	case "relaypub":
		info.IP, info.Public, info.Relay = pubIP(n), true, true
		s = "/ip4/" + info.IP + "/tcp/4001/p2p/" + vsim.PeerID("relay", n).String() + "/p2p-circuit"
	case "relaypriv":
		info.IP, info.Relay = fmt.Sprintf("10.%d.%d.7", n%250, (n/250)%250), true
		s = "/ip4/" + info.IP + "/tcp/4001/p2p/" + vsim.PeerID("relay", n).String() + "/p2p-circuit"
	case "dns":
		info.Neutral = true
		s = fmt.Sprintf("/dns4/node%d.example.com/tcp/4001", n)
	default:
		panic("vDUniverse.Gen: unknown class " + class)
	}
	a := ma.StringCast(s)
	u.mu.Lock()
	u.cls[string(a.Bytes())] = info
	u.mu.Unlock()
	return a
}

// Of returns the class of an address (ok=false: the monitor never generated it).
func (u *vDUniverse) Of(a ma.Multiaddr) (vDAddr, bool) {
	u.mu.Lock()
	defer u.mu.Unlock()
	i, ok := u.cls[string(a.Bytes())]
	return i, ok
}

// SelfCheck compares the generation-time labels with the standard library's view of the IP.
func (u *vDUniverse) SelfCheck(c *vh.Case) {
	u.mu.Lock()
	defer u.mu.Unlock()
	for _, i := range u.cls {
		if i.IP == "" {
			continue
		}
		ip := net.ParseIP(i.IP)
		if ip == nil {
			c.Fail("harness-address-selfcheck", "generated IP %q does not parse", i.IP)
			continue
		}
		special := i.Class == "cgnat" || i.Class == "unroutable4"
		std := ip.IsGlobalUnicast() && !ip.IsPrivate() && !ip.IsLoopback() && !ip.IsLinkLocalUnicast() && !special
		if std != i.Public {
			c.Fail("harness-address-selfcheck", "class %s ip %s: labelled public=%v, net.IP says %v", i.Class, i.IP, i.Public, std)
		}
		if ip.IsLoopback() != i.Loopback {
			c.Fail("harness-address-selfcheck", "class %s ip %s: labelled loopback=%v", i.Class, i.IP, i.Loopback)
		}
	}
}

// HasPublicNonRelay reports whether any of the addresses is public and not a circuit address.
func (u *vDUniverse) HasPublicNonRelay(as []ma.Multiaddr) bool {
	for _, a := range as {
		if i, ok := u.Of(a); ok && i.Public && !i.Relay {
			return true
		}
	}
	return false
}

// ---- validator -----------------------------------------------------------------------------------

// vDValidator accepts values "v|<key>|<rank>|<expiry unix ms or 0>|<nonce>" made for the key they
// are stored under, with rank >= 0 and not expired (virtual time); Select prefers the highest
// rank (first on ties). Ranks are unique per case, so the order is total.
type vDValidator struct{}

func vDMakeValue(key string, rank int, expiry time.Time, nonce int) []byte {
	ex := int64(0)
	if !expiry.IsZero() {
		ex = expiry.UnixMilli()
	}
	return []byte(fmt.Sprintf("v|%s|%d|%d|%d", key, rank, ex, nonce))
}

func vDParseValue(val []byte) (key string, rank int, expiry time.Time, ok bool) {
	parts := strings.Split(string(val), "|")
	if len(parts) != 5 || parts[0] != "v" {
		return "", 0, time.Time{}, false
	}
	r, err1 := strconv.Atoi(parts[2])
	ex, err2 := strconv.ParseInt(parts[3], 10, 64)
	if err1 != nil || err2 != nil {
		return "", 0, time.Time{}, false
	}
	if ex != 0 {
		expiry = time.UnixMilli(ex)
	}
	return parts[1], r, expiry, true
}

// vDValidAt is the monitor's reference judgement of a value for a key at an instant.
func vDValidAt(key string, val []byte, at time.Time) bool {
	k, r, ex, ok := vDParseValue(val)
	if !ok || k != key || r < 0 {
		return false
	}
	return ex.IsZero() || at.Before(ex)
}

func vDRank(val []byte) int {
	_, r, _, ok := vDParseValue(val)
	if !ok {
		return -1
	}
	return r
}

func (vDValidator) Validate(key string, val []byte) error {
	if !vDValidAt(key, val, time.Now()) {
		return fmt.Errorf("vDValidator: invalid value for %q", key)
	}
	return nil
}

func (vDValidator) Select(key string, vals [][]byte) (int, error) {
	best, bi := -1, -1
	for i, v := range vals {
		if r := vDRank(v); r > best {
			best, bi = r, i
		}
	}
	if bi < 0 {
		return 0, fmt.Errorf("vDValidator: no selectable value")
	}
	return bi, nil
}

func vDNewValidator() record.Validator {
	return record.NamespacedValidator{"v": vDValidator{}, "pk": record.PublicKeyValidator{}}
}

// ---- network -------------------------------------------------------------------------------------

// vDPeer is one simulated peer (possibly present in both simulated networks).
type vDPeer struct {
	ID       peer.ID
	Name     string
	Kind     string
	Addrs    []ma.Multiaddr
	Conn     ma.Multiaddr // remote address of connections to it
	InW, InL bool
	BehW     string // behaviour in the WAN / LAN simulation
	BehL     string
}

// vDCfg describes the two simulated networks and the dual DHT under test.
type vDCfg struct {
	NW, NL, Overlap  int
	K, A, B          int
	WSeeds, LSeeds   int
	WMode            dht.ModeOpt
	HostClasses      []string
	WFail, LFail     float64 // fraction of failing peers per network
	WDelay, LDelay   int     // max base latency (ms)
	PrivateFrac      float64 // WAN peers without any public non-relay address
	Liars            float64 // WAN/LAN peers adding strangers with generated address mixes to their referrals
	DisconnectSeeds  float64 // fraction of seeds whose connection is dropped again (dial path)
	ExtraWan, ExtraLan []dht.Option
}

// vDNet is a dual DHT wired to two simulated networks over one fake host.
type vDNet struct {
	opNo  int // operations run so far (Run is sequential)
	C     *vh.Case
	Cfg   vDCfg
	U     *vDUniverse
	H     *vsim.Host
	PS    *vsim.LogPeerstore
	W, L  *vsim.Sim
	D     *DHT
	Self  peer.ID
	Peers map[peer.ID]*vDPeer
	WIDs  []peer.ID
	LIDs  []peer.ID
	WDS   *vjds.Store
	LDS   *vjds.Store

	WProtos, LProtos []protocol.ID
	setupWrites      int              // address writes made by the monitor itself (prefix of the log)
	Seeded           map[peer.ID]bool // peers whose addresses the monitor put into the peerstore
	strangers        int
}

func vDNoFixLow(c *dhtcfg.Config) error { c.DisableFixLowPeers = true; return nil }

// vDGenAddrs draws an address set of the given kind.
func (n *vDNet) vDGenAddrs(kind string) []ma.Multiaddr {
	r, u := n.C.R, n.U
	pick := func(list []string) string { return list[r.Intn(len(list))] }
	var out []ma.Multiaddr
	switch kind {
	case "public":
		out = append(out, u.Gen(pick([]string{"pub4", "pub4", "pub4quic"})))
		for i := r.Intn(3); i > 0; i-- {
			out = append(out, u.Gen(pick(append(append([]string{"relaypub", "dns"}, vDClassesPrivate...), "pub4"))))
		}
	case "public6":
		out = append(out, u.Gen("glob6"))
		if r.Intn(2) == 0 {
			out = append(out, u.Gen(pick([]string{"ula6", "ll6", "loop6"})))
		}
	case "private":
		for i := 1 + r.Intn(3); i > 0; i-- {
			out = append(out, u.Gen(pick(vDClassesPrivate)))
		}
	case "lan":
		out = append(out, u.Gen(pick([]string{"rfc1918-10", "rfc1918-172", "rfc1918-192"})))
		for i := r.Intn(3); i > 0; i-- {
			out = append(out, u.Gen(pick([]string{"loop4", "loop6", "ll4", "ula6", "rfc1918-10"})))
		}
	case "lanpublic":
		out = append(out, u.Gen(pick([]string{"rfc1918-10", "rfc1918-192"})), u.Gen("pub4"))
		if r.Intn(2) == 0 {
			out = append(out, u.Gen("loop4"))
		}
	case "loopback":
		out = append(out, u.Gen(pick([]string{"loop4", "loop6"})))
	case "relayonly":
		out = append(out, u.Gen("relaypub"))
		if r.Intn(2) == 0 {
			out = append(out, u.Gen(pick(vDClassesPrivate)))
		}
	case "none":
	default:
		panic("vDGenAddrs: kind " + kind)
	}
	r.Shuffle(len(out), func(i, j int) { out[i], out[j] = out[j], out[i] })
	return out
}

func (n *vDNet) connAddr(as []ma.Multiaddr) ma.Multiaddr {
	var firstIP ma.Multiaddr
	for _, a := range as {
		i, _ := n.U.Of(a)
		if i.Public && !i.Relay {
			return a
		}
		if firstIP == nil && i.IP != "" && !i.Relay {
			firstIP = a
		}
	}
	return firstIP
}

func vDBehaviour(c *vh.Case, fail float64) string {
	if c.R.Float64() < fail {
		return []string{"dead", "reqerr", "silent", "dialslow"}[c.R.Intn(4)]
	}
	return "ok"
}

// vDNewNet builds both simulations and the dual DHT. Call inside a bubble; Close before leaving.
func vDNewNet(c *vh.Case, cfg vDCfg) *vDNet {
	n := &vDNet{C: c, Cfg: cfg, U: vDNewUniverse(), Peers: map[peer.ID]*vDPeer{}, Seeded: map[peer.ID]bool{}}
	r := c.R
	n.Self = vsim.PeerID("dualself", c.Idx)
	var hostAddrs []ma.Multiaddr
	for _, cl := range cfg.HostClasses {
		hostAddrs = append(hostAddrs, n.U.Gen(cl))
	}
	n.H, n.PS = vsim.NewLoggedHost(n.Self, hostAddrs...)
	n.W = vsim.NewSim(n.H, cfg.K)
	n.L = vsim.NewSim(n.H, cfg.K)
	n.H.DialFn = vsim.CombinedDial(n.H, true, n.W, n.L)
	n.H.RemoteAddrFn = func(p peer.ID) ma.Multiaddr {
		if dp := n.Peers[p]; dp != nil {
			return dp.Conn
		}
		return nil
	}
	// WAN peers
	for i := 0; i < cfg.NW; i++ {
		kind := "public"
		switch x := r.Float64(); {
		case x < cfg.PrivateFrac*0.6:
			kind = "private"
		case x < cfg.PrivateFrac*0.85:
			kind = "relayonly"
		case x < cfg.PrivateFrac:
			kind = "none"
		case x < cfg.PrivateFrac+0.06:
			kind = "public6"
		}
		p := &vDPeer{ID: vsim.PeerID(fmt.Sprintf("dw%d", c.Idx), i), Name: fmt.Sprintf("w%d", i), Kind: kind, InW: true}
		p.Addrs = n.vDGenAddrs(kind)
		p.Conn = n.connAddr(p.Addrs)
		n.Peers[p.ID] = p
		n.WIDs = append(n.WIDs, p.ID)
	}
	// LAN peers: the first Overlap ones are WAN peers too
	for i := 0; i < cfg.NL; i++ {
		if i < cfg.Overlap && i < len(n.WIDs) {
			p := n.Peers[n.WIDs[r.Intn(len(n.WIDs))]]
			if !p.InL {
				p.InL = true
				p.Name += "+l"
				n.LIDs = append(n.LIDs, p.ID)
			}
			continue
		}
		kind := []string{"lan", "lan", "lan", "lan", "lanpublic", "lanpublic", "loopback", "none", "private", "lan"}[r.Intn(10)]
		p := &vDPeer{ID: vsim.PeerID(fmt.Sprintf("dl%d", c.Idx), i), Name: fmt.Sprintf("l%d", i), Kind: kind, InL: true}
		p.Addrs = n.vDGenAddrs(kind)
		p.Conn = n.connAddr(p.Addrs)
		n.Peers[p.ID] = p
		n.LIDs = append(n.LIDs, p.ID)
	}
	for _, id := range n.WIDs {
		p := n.Peers[id]
		p.BehW = vDBehaviour(c, cfg.WFail)
		n.W.Add(&vsim.SimPeer{ID: id, Addrs: p.Addrs})
	}
	for _, id := range n.LIDs {
		p := n.Peers[id]
		p.BehL = vDBehaviour(c, cfg.LFail)
		if p.InW && p.BehW == "dead" {
			p.BehL = "dead" // one connection, one dial behaviour
		}
		n.L.Add(&vsim.SimPeer{ID: id, Addrs: p.Addrs})
	}
	if r.Intn(2) == 0 {
		n.W.KnowFull()
	} else {
		n.W.KnowKBucket(cfg.K, r)
	}
	n.L.KnowFull()
	n.script(n.W, n.WIDs, cfg.WDelay, true)
	n.script(n.L, n.LIDs, cfg.LDelay, false)

	n.WDS, n.LDS = vjds.New(), vjds.New()
	builder := func(_ host.Host, protos []protocol.ID) pb.MessageSenderWithDisconnect {
		for _, p := range protos {
			if strings.Contains(string(p), "/lan/") {
				n.LProtos = protos
				n.L.Protocols = protos
				return n.L
			}
		}
		n.WProtos = protos
		n.W.Protocols = protos
		return n.W
	}
	common := []dht.Option{dht.BucketSize(cfg.K), dht.Concurrency(cfg.A), dht.Resiliency(cfg.B), dht.DisableAutoRefresh(), vDNoFixLow,
		dht.WithCustomMessageSender(builder), dht.Validator(vDNewValidator())}
	wan := append([]dht.Option{dht.Datastore(n.WDS)}, cfg.ExtraWan...)
	if cfg.WMode != 0 {
		wan = append(wan, dht.Mode(cfg.WMode))
	}
	lan := append([]dht.Option{dht.Datastore(n.LDS)}, cfg.ExtraLan...)
	d, err := New(n.H,
		WanDHTOption(dht.ProtocolPrefix("/verif")),
		LanDHTOption(dht.ProtocolPrefix("/verif"), dht.ProtocolExtension(LanExtension)),
		DHTOption(common...), WanDHTOption(wan...), LanDHTOption(lan...))
	if err != nil {
		panic(fmt.Sprintf("vDNewNet: dual.New: %v", err))
	}
	n.D = d
	if len(n.WProtos) != 1 || len(n.LProtos) != 1 || n.WProtos[0] == n.LProtos[0] || d.WAN.MessageSender() != pb.MessageSender(n.W) || d.LAN.MessageSender() != pb.MessageSender(n.L) {
		panic(fmt.Sprintf("vDNewNet: senders not told apart: wan=%v lan=%v", n.WProtos, n.LProtos))
	}
	return n
}

// SeedTables fills the routing tables: seeds get a connection whose remote address is the
// peer's connection address (the WAN diversity filter refuses peers without one) and their
// addresses in the peerstore, as identify would leave them.
func (n *vDNet) SeedTables() {
	r, cfg := n.C.R, n.Cfg
	seed := func(ids []peer.ID, want int, wan bool) {
		added := 0
		for _, i := range r.Perm(len(ids)) {
			if added >= want {
				break
			}
			p := n.Peers[ids[i]]
			if p.Conn == nil || (wan && !n.U.HasPublicNonRelay(p.Addrs)) {
				continue
			}
			n.PS.Peerstore.AddAddrs(p.ID, p.Addrs, peerstore.PermanentAddrTTL) // unlogged: the log holds only writes of the code under test
			n.Seeded[p.ID] = true
			n.H.Net.AddConn(p.ID, network.DirOutbound, p.Conn, false)
			rt := n.D.LAN.RoutingTable()
			if wan {
				rt = n.D.WAN.RoutingTable()
			}
			if ok, _ := rt.TryAddPeer(p.ID, true, false); ok {
				added++
			}
			if r.Float64() < cfg.DisconnectSeeds {
				n.H.Net.Disconnect(p.ID, false)
			}
		}
	}
	seed(n.WIDs, cfg.WSeeds, true)
	seed(n.LIDs, cfg.LSeeds, false)
	n.setupWrites = len(n.PS.Writes())
}

// MarkSetupDone must be called when the monitor has finished writing addresses itself.
func (n *vDNet) MarkSetupDone() { n.setupWrites = len(n.PS.Writes()) }

// script installs the per-peer behaviour.
func (n *vDNet) script(s *vsim.Sim, ids []peer.ID, maxDelay int, wan bool) {
	r := n.C.R
	if maxDelay < 1 {
		maxDelay = 1
	}
	for idx, id := range ids {
		p := n.Peers[id]
		sp := s.Peer(id)
		beh := p.BehL
		if wan {
			beh = p.BehW
		}
		if beh == "dead" {
			sp.Dead = true
			continue
		}
		base := time.Duration(1+r.Intn(maxDelay)) * time.Millisecond
		liar := ""
		if beh == "ok" && r.Float64() < n.Cfg.Liars {
			liar = []string{"private-strangers", "public-strangers", "mixed-strangers", "self", "noaddr-known"}[r.Intn(5)]
		}
		var extra []peer.AddrInfo
		switch liar {
		case "private-strangers", "public-strangers", "mixed-strangers":
			for j := 0; j < 1+r.Intn(3); j++ {
				kind := map[string]string{"private-strangers": "private", "public-strangers": "public"}[liar]
				if kind == "" {
					kind = []string{"private", "public", "relayonly", "loopback", "none"}[r.Intn(5)]
				}
				n.strangers++
				sid := vsim.PeerID(fmt.Sprintf("dx%d", n.C.Idx), n.strangers)
				as := n.vDGenAddrs(kind)
				n.Peers[sid] = &vDPeer{ID: sid, Name: fmt.Sprintf("x%d", n.strangers), Kind: "stranger-" + kind, Addrs: as}
				extra = append(extra, peer.AddrInfo{ID: sid, Addrs: as})
			}
		case "self":
			extra = append(extra, peer.AddrInfo{ID: n.Self, Addrs: n.H.Addrs()})
		case "noaddr-known":
			// names real peers of the same network without any address
			for j := 0; j < 2 && len(ids) > 0; j++ {
				extra = append(extra, peer.AddrInfo{ID: ids[r.Intn(len(ids))]})
			}
		}
		if liar != "" {
			if wan {
				p.BehW += "/" + liar
			} else {
				p.BehL += "/" + liar
			}
		}
		kk, ix := beh, idx
		sp.Script = func(cnt int, req *pb.Message) vsim.Reply {
			if req == nil {
				if kk == "dialslow" {
					return vsim.Reply{DialFail: true, Delay: base}
				}
				return vsim.Reply{}
			}
			rep := vsim.Reply{Delay: base + time.Duration((cnt*37+ix)%7)*time.Millisecond}
			switch kk {
			case "reqerr":
				rep.Err = fmt.Errorf("vsim: stream reset by peer")
			case "silent":
				rep.Silent = true
			}
			if len(extra) > 0 && req.GetType() != pb.Message_PUT_VALUE && req.GetType() != pb.Message_ADD_PROVIDER {
				rep.Mutate = func(_, resp *pb.Message) {
					resp.CloserPeers = append(pb.RawPeerInfosToPBPeers(extra), resp.CloserPeers...)
				}
			}
			return rep
		}
	}
}

// Close shuts the dual DHT and the host down (inside the bubble).
func (n *vDNet) Close() error {
	err := n.D.Close()
	n.H.Close()
	return err
}

// Name renders a peer id.
func (n *vDNet) Name(p peer.ID) string {
	if p == n.Self {
		return "self"
	}
	if dp := n.Peers[p]; dp != nil {
		return dp.Name
	}
	return "?" + vsim.Short(p)
}

func (n *vDNet) Names(ps []peer.ID) []string {
	out := make([]string, len(ps))
	for i, p := range ps {
		out[i] = n.Name(p)
	}
	return out
}

func vDSet(ps []peer.ID) map[peer.ID]bool {
	m := make(map[peer.ID]bool, len(ps))
	for _, p := range ps {
		m[p] = true
	}
	return m
}

// ---- local stores -----------------------------------------------------------------------------------

// vDValueDsKey is the monitor's own rendering of the documented datastore layout of value
// records: "/" + namespace + "/" + base32(full key).
func vDValueDsKey(key string) ds.Key {
	ns, _, _ := record.SplitKey(key)
	return ds.NewKey("/" + ns + "/" + base32.RawStdEncoding.EncodeToString([]byte(key)))
}

// PutLocalRaw files a record directly in an inner DHT's datastore (no validation).
func (n *vDNet) PutLocalRaw(store *vjds.Store, key string, val []byte, recKey string) {
	rec := &recpb.Record{Key: []byte(recKey), Value: val, TimeReceived: time.Now().UTC().Format(time.RFC3339Nano)}
	b, err := proto.Marshal(rec)
	if err != nil {
		panic(err)
	}
	if err := store.Put(context.Background(), vDValueDsKey(key), b); err != nil {
		panic(err)
	}
}

// LocalValue returns the value stored for key in an inner DHT's datastore (nil if none / foreign key).
func vDLocalValue(store *vjds.Store, key string) []byte {
	b, ok := store.Snapshot()[vDValueDsKey(key).String()]
	if !ok {
		return nil
	}
	rec := new(recpb.Record)
	if proto.Unmarshal(b, rec) != nil || string(rec.GetKey()) != key {
		return nil
	}
	return rec.GetValue()
}

func vDCid(name string) cid.Cid {
	h, err := mh.Sum([]byte(name), mh.SHA2_256, -1)
	if err != nil {
		panic(err)
	}
	return cid.NewCidV1(cid.Raw, h)
}

// ---- operations ---------------------------------------------------------------------------------------

// vDOp describes one call on the dual client.
type vDOp struct {
	Kind     string // provide | putvalue | getvalue | searchvalue | findpeer | findprovs | getpubkey
	Key      string // value key
	Val      []byte
	Cid      cid.Cid
	Target   peer.ID
	Count    int
	Quorum   int           // -1: no option
	CancelAt time.Duration // <0: never; 0: cancelled before the call
	Deadline bool          // cancel by deadline instead of cancel()
	Inner    string        // "", "wan", "lan": call the inner client directly instead of the dual
	// NoAnnounce (provide): Provide(announce=false) - only the local provider record is written, on the DHT the
	// write is routed to
	NoAnnounce bool
	// GrowAfterFirstRead (findpeer): addresses that enter the peerstore right after the first inner DHT has read its
	// answer (identify / the other lookup learning them): the second inner answer is a superset of the first
	GrowAfterFirstRead []ma.Multiaddr
}

type vDEmit struct {
	VT  time.Time
	Seq int64
	Val []byte
	AI  peer.AddrInfo
}

// vDRes is everything observed around one operation.
type vDRes struct {
	Op                     vDOp
	Start, End, ChanClosed time.Time
	StartSeq, EndSeq       int64
	CancelVT               time.Time // zero: not cancelled
	WRT0, LRT0             map[peer.ID]bool
	Conn0                  map[peer.ID]bool
	W0, L0, D0, PS0        int // offsets into the logs at call time
	WJ0, LJ0               int
	Err                    error
	Val                    []byte
	Emits                  []vDEmit
	Info                   peer.AddrInfo
	PubKey                 ci.PubKey
	Cancelled              bool // ctx was done when the call returned
	PSAtEnd                []ma.Multiaddr
	ConnAtEnd              bool
	InnerReads             [][]ma.Multiaddr // findpeer: every PeerInfo(target) read returned by IpfsDHT.FindPeer / FindLocal = the inner answers
	Keep                   context.CancelFunc // cancels the operation's ctx (call after the census)
}

func (r *vDRes) rpcKey() []byte {
	switch r.Op.Kind {
	case "provide", "findprovs":
		return []byte(r.Op.Cid.Hash())
	case "findpeer":
		return []byte(r.Op.Target)
	case "getpubkey":
		return []byte(routing.KeyForPublicKey(r.Op.Target))
	}
	return []byte(r.Op.Key)
}

func vDSince(log []vsim.Event, off int) []vsim.Event {
	if off > len(log) {
		return nil
	}
	return log[off:]
}

// Run executes one operation and records its surroundings. The network must be at rest.
// The operation's context stays alive until res.Keep() is called, unless the op is cancelled.
func (n *vDNet) Run(op vDOp) *vDRes {
	synctest.Wait()
	res := &vDRes{Op: op}
	res.WRT0, res.LRT0 = vDSet(n.D.WAN.RoutingTable().ListPeers()), vDSet(n.D.LAN.RoutingTable().ListPeers())
	res.Conn0 = vDSet(n.H.Net.Peers())
	res.W0, res.L0, res.D0, res.PS0 = len(n.W.Log()), len(n.L.Log()), len(n.H.DialLog()), len(n.PS.Writes())
	res.WJ0, res.LJ0 = n.WDS.J.Len(), n.LDS.J.Len()
	ctx, cancel := context.WithCancel(context.Background())
	res.Keep = cancel
	// every second operation of a case runs under a context subscribed to routing query events (as `ipfs dht query`
	// style callers do): the clients publish and forward those events on code paths of their own
	n.opNo++
	if (n.opNo+n.C.Idx)%2 == 0 {
		var qch <-chan *routing.QueryEvent
		ctx, qch = routing.RegisterForQueryEvents(ctx)
		go func() {
			k := 0
			for range qch {
				k++
			}
			n.C.Obs("query_events_seen", k)
		}()
	}
	var tm *time.Timer
	var cmu sync.Mutex
	markCancel := func() {
		cmu.Lock()
		if res.CancelVT.IsZero() {
			res.CancelVT = time.Now()
		}
		cmu.Unlock()
	}
	switch {
	case op.CancelAt == 0:
		markCancel()
		cancel()
	case op.CancelAt > 0 && op.Deadline:
		var c2 context.CancelFunc
		ctx, c2 = context.WithDeadline(ctx, time.Now().Add(op.CancelAt))
		res.Keep = func() { c2(); cancel() }
		res.CancelVT = time.Now().Add(op.CancelAt)
	case op.CancelAt > 0:
		tm = time.AfterFunc(op.CancelAt, func() { markCancel(); cancel() })
	}
	var opts []routing.Option
	if op.Quorum >= 0 {
		opts = append(opts, dht.Quorum(op.Quorum))
	}
	type client interface {
		routing.Routing
		GetPublicKey(context.Context, peer.ID) (ci.PubKey, error)
	}
	var cl client = n.D
	switch op.Inner {
	case "wan":
		cl = n.D.WAN
	case "lan":
		cl = n.D.LAN
	}
	res.StartSeq = n.H.Seq.Add(1)
	res.Start = time.Now()
	switch op.Kind {
	case "provide":
		res.Err = cl.Provide(ctx, op.Cid, !op.NoAnnounce)
	case "putvalue":
		res.Err = cl.PutValue(ctx, op.Key, op.Val, opts...)
	case "getvalue":
		res.Val, res.Err = cl.GetValue(ctx, op.Key, opts...)
	case "searchvalue":
		var ch <-chan []byte
		ch, res.Err = cl.SearchValue(ctx, op.Key, opts...)
		if res.Err == nil {
			for v := range ch {
				res.Emits = append(res.Emits, vDEmit{VT: time.Now(), Seq: n.H.Seq.Add(1), Val: v})
			}
			res.ChanClosed = time.Now()
		}
	case "findpeer":
		var rmu sync.Mutex
		n.PS.SetPeerInfoHook(func(p peer.ID, ai peer.AddrInfo) {
			if p != op.Target || !vDReadReturnedByFindPeer() {
				return
			}
			rmu.Lock()
			res.InnerReads = append(res.InnerReads, append([]ma.Multiaddr(nil), ai.Addrs...))
			first := len(res.InnerReads) == 1
			rmu.Unlock()
			if first && len(op.GrowAfterFirstRead) > 0 {
				n.H.Peerstore().AddAddrs(op.Target, op.GrowAfterFirstRead, time.Hour)
			}
		})
		if len(op.GrowAfterFirstRead) > 0 {
			// directed: the LAN side (third closure of dual.FindPeer: deferred trace end, WAN goroutine, LAN goroutine) reads after the WAN side (it waits up to 200 virtual ms for it), so that the LAN
			// answer is the superset
			n.PS.SetPeerInfoPreHook(func(p peer.ID) {
				if p != op.Target || !vDStackHas("dual.(*DHT).FindPeer.func3") {
					return
				}
				for i := 0; i < 200; i++ {
					rmu.Lock()
					done := len(res.InnerReads) > 0
					rmu.Unlock()
					if done {
						return
					}
					time.Sleep(time.Millisecond)
				}
			})
		}
		res.Info, res.Err = cl.FindPeer(ctx, op.Target)
		n.PS.SetPeerInfoHook(nil)
		n.PS.SetPeerInfoPreHook(nil)
	case "findprovs":
		for ai := range cl.FindProvidersAsync(ctx, op.Cid, op.Count) {
			res.Emits = append(res.Emits, vDEmit{VT: time.Now(), Seq: n.H.Seq.Add(1), AI: ai})
		}
		res.ChanClosed = time.Now()
	case "getpubkey":
		res.PubKey, res.Err = cl.GetPublicKey(ctx, op.Target)
	default:
		panic("vDNet.Run: kind " + op.Kind)
	}
	res.End = time.Now()
	res.EndSeq = n.H.Seq.Add(1)
	res.Cancelled = ctx.Err() != nil
	if op.Kind == "findpeer" {
		res.PSAtEnd = n.H.Peerstore().Addrs(op.Target)
		res.ConnAtEnd = n.H.Net.Connectedness(op.Target) == network.Connected
	}
	if tm != nil {
		tm.Stop()
	}
	if !res.Cancelled {
		res.CancelVT = time.Time{}
	}
	return res
}

// vDReadReturnedByFindPeer reports whether the peerstore read in progress on this goroutine was
// issued directly by IpfsDHT.FindPeer, or by IpfsDHT.FindLocal called from it: both return the
// value read as their answer (routing.go FindPeer, dht.go FindLocal).
func vDReadReturnedByFindPeer() bool {
	var pcs [32]uintptr
	fr := runtime.CallersFrames(pcs[:runtime.Callers(2, pcs[:])])
	var fns []string
	for {
		f, more := fr.Next()
		fns = append(fns, f.Function)
		if !more {
			break
		}
	}
	for i, fn := range fns {
		if !strings.HasSuffix(fn, "(*LogPeerstore).PeerInfo") {
			continue
		}
		if i+1 < len(fns) && strings.HasSuffix(fns[i+1], "(*IpfsDHT).FindPeer") {
			return true
		}
		return i+2 < len(fns) && strings.HasSuffix(fns[i+1], "(*IpfsDHT).FindLocal") && strings.HasSuffix(fns[i+2], "(*IpfsDHT).FindPeer")
	}
	return false
}

// ---- views over the logs -------------------------------------------------------------------------------

// vDNamed collects, per peer, the addresses any reply (of either network) has named for it,
// with the sequence stamp of the reply.
type vDNaming struct {
	Seq   int64
	Addrs []ma.Multiaddr
	Lan   bool
}

func (n *vDNet) Namings() map[peer.ID][]vDNaming {
	out := map[peer.ID][]vDNaming{}
	scan := func(log []vsim.Event, lan bool) {
		for _, e := range log {
			if e.Kind != vsim.EvReply || e.Err != "" || e.Msg == nil {
				continue
			}
			for _, list := range [][]*pb.Message_Peer{e.Msg.GetCloserPeers(), e.Msg.GetProviderPeers()} {
				for _, mp := range list {
					id := peer.ID(mp.GetId())
					out[id] = append(out[id], vDNaming{Seq: e.Seq, Addrs: mp.Addresses(), Lan: lan})
				}
			}
		}
	}
	scan(n.W.Log(), false)
	scan(n.L.Log(), true)
	return out
}

// vDSuppliedValues lists the values a network supplied for key during an operation: records
// of error-free GET_VALUE replies filed under the requested key with a non-empty value.
type vDSupplied struct {
	VT   time.Time
	Seq  int64
	Val  []byte
	From peer.ID
}

func vDSuppliedValues(log []vsim.Event, key string) []vDSupplied {
	var out []vDSupplied
	for _, e := range log {
		if e.Kind != vsim.EvReply || e.Type != pb.Message_GET_VALUE || e.Err != "" || string(e.Key) != key {
			continue
		}
		if rec := e.Record; rec != nil && bytes.Equal(rec.GetKey(), []byte(key)) && len(rec.GetValue()) > 0 {
			out = append(out, vDSupplied{VT: e.VT, Seq: e.Seq, Val: rec.GetValue(), From: e.Peer})
		}
	}
	return out
}

func vDSortedStrings(m map[string]bool) []string {
	var out []string
	for k := range m {
		out = append(out, k)
	}
	sort.Strings(out)
	return out
}

func vDAddrStrings(as []ma.Multiaddr) []string {
	out := make([]string, len(as))
	for i, a := range as {
		out[i] = a.String()
	}
	sort.Strings(out)
	return out
}

// vDLastConclusion returns the virtual instant at which the last RPC or dial started within
// [startSeq, endSeq] concluded (zero if none).
func (n *vDNet) vDLastConclusion(res *vDRes) time.Time {
	var last time.Time
	upd := func(t time.Time) {
		if t.After(last) {
			last = t
		}
	}
	for _, lg := range [][]vsim.Event{vDSince(n.W.Log(), res.W0), vDSince(n.L.Log(), res.L0)} {
		for _, e := range lg {
			if e.Kind == vsim.EvReply {
				upd(e.VT)
			}
		}
	}
	dl := n.H.DialLog()
	if res.D0 <= len(dl) {
		for _, d := range dl[res.D0:] {
			upd(d.End)
		}
	}
	return last
}

// vDStackHas tells whether a function whose name ends in suffix is on the calling goroutine's stack.
func vDStackHas(suffix string) bool {
	var pcs [48]uintptr
	fr := runtime.CallersFrames(pcs[:runtime.Callers(2, pcs[:])])
	for {
		f, more := fr.Next()
		if strings.HasSuffix(f.Function, suffix) {
			return true
		}
		if !more {
			return false
		}
	}
}
