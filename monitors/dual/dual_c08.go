//go:build verif

package dual

// C08 (dual client) — dual.FindProvidersAsync yields only providers stored locally (in either
// inner DHT) or named by an answer that either network returned before the emission, never
// repeats a peer, yields at most count, asks nobody after count was reached, yields every named
// provider when count is 0, and always closes its channel (after completion or cancellation).

import (
	"bytes"
	"context"
	"crypto/sha256"
	"fmt"
	"sort"
	"strings"
	"testing"
	"testing/synctest"
	"time"

	"github.com/libp2p/go-libp2p/core/peer"

	dht "github.com/libp2p/go-libp2p-kad-dht"
	"github.com/libp2p/go-libp2p-kad-dht/internal/verif/vh"
	"github.com/libp2p/go-libp2p-kad-dht/internal/verif/vsim"
	pb "github.com/libp2p/go-libp2p-kad-dht/pb"
)

// vC08DPlace spreads provider records for one key over both networks and both local stores.
func vC08DPlace(n *vDNet, name string) (placed map[peer.ID]bool) {
	c, r := n.C, n.C.R
	placed = map[peer.ID]bool{}
	key := string(vDCid(name).Hash())
	var pool []peer.ID
	pool = append(pool, n.WIDs...)
	pool = append(pool, n.LIDs...)
	for i := 0; i < 40; i++ {
		sid := vsim.PeerID(fmt.Sprintf("dc08prov%d", c.Idx), i)
		n.Peers[sid] = &vDPeer{ID: sid, Name: fmt.Sprintf("pv%d", i), Kind: "provider-only", Addrs: n.vDGenAddrs([]string{"public", "private", "none", "lanpublic", "lan"}[r.Intn(5)])}
		pool = append(pool, sid)
	}
	nprov := []int{0, 1, 2, 4, 8, 20, 45}[r.Intn(7)]
	if nprov > len(pool) {
		nprov = len(pool)
	}
	var chosen []peer.ID
	for _, i := range r.Perm(len(pool))[:nprov] {
		chosen = append(chosen, pool[i])
	}
	holderFrac := []float64{0.1, 0.3, 0.7, 1}[r.Intn(4)]
	shareFrac := []float64{0.2, 0.5, 1}[r.Intn(3)]
	holders := func(s *vsim.Sim, ids []peer.ID) {
		for _, id := range ids {
			if r.Float64() >= holderFrac || len(chosen) == 0 {
				continue
			}
			var list []peer.AddrInfo
			for _, p := range chosen {
				if r.Float64() < shareFrac {
					ai := peer.AddrInfo{ID: p}
					if r.Intn(3) != 0 { // a third of the mentions come without addresses
						ai.Addrs = n.Peers[p].Addrs
					}
					list = append(list, ai)
					placed[p] = true
					if r.Intn(12) == 0 { // duplicates inside one answer
						list = append(list, ai)
					}
				}
			}
			s.Peer(id).Providers[key] = list
		}
	}
	holders(n.W, n.WIDs)
	holders(n.L, n.LIDs)
	for _, inner := range []*dht.IpfsDHT{n.D.WAN, n.D.LAN} {
		for k := []int{0, 0, 1, 3}[r.Intn(4)]; k > 0 && len(chosen) > 0; k-- {
			p := chosen[r.Intn(len(chosen))]
			if err := inner.ProviderStore().AddProvider(context.Background(), []byte(key), peer.AddrInfo{ID: p}); err != nil {
				panic(err)
			}
			if r.Intn(2) == 0 && len(n.Peers[p].Addrs) > 0 {
				n.PS.Peerstore.AddAddrs(p, n.Peers[p].Addrs, time.Hour)
				n.Seeded[p] = true
			}
			placed[p] = true
		}
	}
	return placed
}

func TestVerif_C08_dual(t *testing.T) {
	vh.Run(t, vh.Spec{Prop: "C08", Unit: "dual", Quick: 400, Thorough: 15000, CostMs: 20,
		Rule: "dual client over two simulated networks (C15 generator: WAN 0-55 / LAN 0-19 peers, tables empty in ~1/3, failing peers, latencies 5/50/400 ms per network); 0-45 providers (simulated peers of both networks and 40 provider-only peers, with and without addresses, duplicated inside answers) spread over 10-100% of the responders of both networks and over both local provider stores, overlapping; count in {0,0,1,2,5,K,3K}; 1/4 of the searches cancelled at a PRNG instant or by deadline; unbuffered consumer stamping each emission; non-trivial = at least one provider yielded from a network answer and at least 2 GET_PROVIDERS answers; distinct by (shape, count, arrival order of answers)",
		Clauses: []string{"yielded-was-reported", "never-repeated", "at-most-count", "no-request-after-count", "count0-yields-all", "chan-closed-bounded", "chan-closed-after-cancel"}},
		func(c *vh.Case) {
			cfg := vC15GenCfg(c, false)
			if c.R.Intn(4) > 0 { // most searches have somebody to ask on both sides
				if cfg.NW < 4 {
					cfg.NW = 4 + c.R.Intn(40)
				}
				if cfg.NL < 2 {
					cfg.NL = 2 + c.R.Intn(10)
				}
				if cfg.WSeeds == 0 {
					cfg.WSeeds = 1 + c.R.Intn(cfg.K)
				}
				if cfg.LSeeds == 0 && c.R.Intn(2) == 0 {
					cfg.LSeeds = 1 + c.R.Intn(3)
				}
				if cfg.WFail == 1 {
					cfg.WFail = 0.2
				}
			}
			c.Bubble(t, 60*time.Minute, "dual-op-hang", func(t *testing.T) {
				n := vDNewNet(c, cfg)
				defer n.Close()
				name := fmt.Sprintf("c08-%d", c.Idx)
				placed := vC08DPlace(n, name)
				n.SeedTables()
				vC15Describe(c, n)
				op := vDOp{Kind: "findprovs", Cid: vDCid(name), Quorum: -1, CancelAt: -1}
				op.Count = []int{0, 0, 1, 2, 5, cfg.K, 3 * cfg.K}[c.R.Intn(7)]
				if c.R.Intn(4) == 0 {
					op.CancelAt = time.Duration(c.R.Intn(3*(cfg.WDelay+cfg.LDelay)+20)) * time.Millisecond
					op.Deadline = c.R.Intn(3) == 0 && op.CancelAt > 0
				}
				key := []byte(op.Cid.Hash())
				local := vC15LocalProvs(n, key)
				res := n.Run(op)
				closedAt := res.ChanClosed
				time.Sleep(2 * time.Minute) // let everything in flight conclude
				wlog, llog := vDSince(n.W.Log(), res.W0), vDSince(n.L.Log(), res.L0)
				dials := n.H.DialLog()[res.D0:]

				type answer struct {
					seq  int64
					vt   time.Time
					from string
				}
				named := map[peer.ID]int64{}
				var answers []answer
				var reqs []vsim.Event
				for li, lg := range [][]vsim.Event{wlog, llog} {
					for _, e := range lg {
						if !bytes.Equal(e.Key, key) || e.Type != pb.Message_GET_PROVIDERS {
							continue
						}
						switch e.Kind {
						case vsim.EvRequest:
							reqs = append(reqs, e)
						case vsim.EvReply:
							if e.Err != "" {
								continue
							}
							answers = append(answers, answer{e.Seq, e.VT, []string{"w:", "l:"}[li] + n.Name(e.Peer)})
							for _, p := range e.Provs {
								if s, ok := named[p]; !ok || e.Seq < s {
									named[p] = e.Seq
								}
							}
						}
					}
				}
				c.Obs("searches", 1)
				c.Obs("get_providers_requests", len(reqs))
				c.Obs("get_providers_answers", len(answers))
				c.Obs("providers_named", len(named))
				c.Obs("providers_local", len(local))
				c.Obs("providers_yielded", len(res.Emits))
				c.Set("count", op.Count)
				c.Set("cancel_at_ms", op.CancelAt.Milliseconds())
				c.Set("providers_placed", len(placed))

				// (a) soundness, (b) no repeats, cap
				got := map[peer.ID]int{}
				fromNet := 0
				var tCount time.Time
				for i, e := range res.Emits {
					got[e.AI.ID]++
					s, isNamed := named[e.AI.ID]
					ok := local[e.AI.ID] || (isNamed && s < e.Seq)
					c.Check(ok, "yielded-was-reported", "yielded %s, which is neither stored locally nor named in a GET_PROVIDERS answer returned before the emission (placed anywhere: %v)", n.Name(e.AI.ID), placed[e.AI.ID])
					if !local[e.AI.ID] {
						fromNet++
					}
					if op.Count > 0 && i+1 == op.Count {
						tCount = e.VT
					}
				}
				rep := []string{}
				for p, k := range got {
					if k > 1 {
						rep = append(rep, fmt.Sprintf("%s x%d", n.Name(p), k))
					}
				}
				c.Check(len(rep) == 0, "never-repeated", "the dual client repeated providers: %v", rep)
				if op.Count > 0 {
					c.Check(len(got) <= op.Count && len(res.Emits) <= op.Count, "at-most-count", "count=%d, %d emissions, %d distinct", op.Count, len(res.Emits), len(got))
				}
				// (c) nobody is asked after the count was reached
				if !tCount.IsZero() {
					late := 0
					var ex string
					for _, rq := range reqs {
						if rq.VT.After(tCount) {
							late++
							ex = n.Name(rq.Peer)
						}
					}
					c.Check(late == 0, "no-request-after-count", "count=%d reached at +%v, yet %d GET_PROVIDERS requests were started later (e.g. to %s)", op.Count, tCount.Sub(res.Start), late, ex)
					c.Obs("count_reached", 1)
				}
				// (d) count 0: everything named by a processed answer (and everything local) is yielded
				if op.Count == 0 && !res.Cancelled && op.CancelAt < 0 {
					var missing []string
					for p := range named {
						if got[p] == 0 {
							missing = append(missing, n.Name(p))
						}
					}
					for p := range local {
						if got[p] == 0 {
							missing = append(missing, "local:"+n.Name(p))
						}
					}
					sort.Strings(missing)
					c.Check(len(missing) == 0, "count0-yields-all", "count=0 and the search completed, but %d named/local providers were never yielded: %v", len(missing), missing)
				}
				// (e) the channel is closed, within the C03 bound
				if c.Check(!closedAt.IsZero(), "chan-closed-bounded", "result channel never closed") {
					if !res.CancelVT.IsZero() && !res.CancelVT.After(closedAt) {
						c.Check(!closedAt.After(res.CancelVT.Add(time.Second)), "chan-closed-after-cancel", "channel closed %v after the context ended", closedAt.Sub(res.CancelVT))
					} else {
						// nothing in flight at the close => the last conclusion / emission is at most 1 s old
						last, inflight := res.Start, 0
						replied := map[int64]time.Time{}
						for _, lg := range [][]vsim.Event{wlog, llog} {
							for _, e := range lg {
								if e.Kind == vsim.EvReply {
									replied[e.ReqSeq] = e.VT
									if !e.VT.After(closedAt) && e.VT.After(last) {
										last = e.VT
									}
								}
							}
						}
						for _, lg := range [][]vsim.Event{wlog, llog} {
							for _, e := range lg {
								if (e.Kind == vsim.EvRequest || e.Kind == vsim.EvMessage) && e.Seq < res.EndSeq {
									if rt, ok := replied[e.Seq]; !ok || rt.After(closedAt) {
										inflight++
									}
								}
							}
						}
						for _, d := range dials {
							if d.Seq < res.EndSeq && d.End.After(closedAt) {
								inflight++
							}
							if !d.End.After(closedAt) && d.End.After(last) {
								last = d.End
							}
						}
						for _, e := range res.Emits {
							if e.VT.After(last) {
								last = e.VT
							}
						}
						if inflight == 0 {
							c.Check(!closedAt.After(last.Add(time.Second)), "chan-closed-bounded", "channel closed %v after the last answer / dial / emission of the search concluded", closedAt.Sub(last))
						} else {
							c.Obs("closed_with_rpcs_in_flight", 1)
						}
					}
				}
				res.Keep()
				// (f) a consumer that cancels and walks away: one case in three runs a second search
				// (count 0) whose consumer reads at most one value, cancels and stops reading. The
				// channel must be closed all the same; no producer may stay blocked sending on it.
				if c.Idx%3 == 0 {
					ctx2, cancel2 := context.WithCancel(context.Background())
					ch := n.D.FindProvidersAsync(ctx2, op.Cid, 0)
					tm := time.NewTimer(time.Duration(c.Idx%5) * time.Duration(cfg.WDelay+cfg.LDelay+1) * time.Millisecond)
					read, closedEarly := 0, false
				consume:
					for read == 0 {
						select {
						case _, ok := <-ch:
							if !ok {
								closedEarly = true
								break consume
							}
							read++
						case <-tm.C:
							break consume
						}
					}
					tm.Stop()
					cancel2()
					if !closedEarly {
						time.Sleep(time.Second) // the bound of clause chan-closed-after-cancel
						synctest.Wait()
						select {
						case ai, ok := <-ch:
							c.Check(!ok, "chan-closed-after-cancel", "the consumer read %d values, cancelled and stopped reading; 1 s later the channel is not closed: a producer was still blocked sending %s on it", read, n.Name(ai.ID))
						default:
							c.Check(false, "chan-closed-after-cancel", "the consumer read %d values, cancelled and stopped reading; 1 s later the channel is still open", read)
						}
						for range ch { // let whatever is left conclude
						}
						c.Obs("abandoned_searches", 1)
					}
					time.Sleep(2 * time.Minute)
				}
				var order []string
				for _, a := range answers {
					order = append(order, a.from)
				}
				c.Logf("count=%d cancel=%v wanRT=%d lanRT=%d: %d requests, %d answers, %d named, %d local, %d yielded, closed at +%v", op.Count, op.CancelAt, len(res.WRT0), len(res.LRT0), len(reqs), len(answers), len(named), len(local), len(res.Emits), closedAt.Sub(res.Start))
				c.Logf("answer order: %s", strings.Join(order, " "))
				if fromNet > 0 && len(answers) >= 2 {
					h := sha256.Sum256([]byte(fmt.Sprintf("%d/%d/%d/%d/%s", cfg.NW, cfg.NL, cfg.K, op.Count, strings.Join(order, ","))))
					c.Nontrivial(fmt.Sprintf("%x", h[:8]))
				}
			})
		})
}
