//go:build verif

package dual

// C03 (dual client) — every routing operation of dual.DHT terminates, honours cancellation,
// closes its result channel, never panics and leaves no background work behind.
//
// A scenario (two simulated networks with failing / silent / slow peers, one operation) is run
// once un-cancelled; the boundary events of that run (every request, reply, dial start / end,
// emission) give the cancel instants of the following runs of the same scenario (rebuilt from
// the same seed): cancelled before the call, cancelled at PRNG-chosen boundary instants
// (cancel() or deadline). Oracle, all in virtual time:
//
//	dual-op-hang       the bubble watchdog (3 virtual hours) — the call never returned
//	return-bounded     nothing in flight at the return => the last RPC / dial / emission of the
//	                   operation concluded at most 1 s earlier; never later than 30 virtual minutes
//	cancel-prompt      a call that returns after its context ended returns <= t_c + 1 s
//	chan-closed        result channels get closed (the close instant is the return above)
//	quiet-after-return 2 virtual minutes after the return no RPC of either network is in flight
//	no-leak            ... and no goroutine started by the module beyond the at-rest census is left
//	                   (the operation's context is still live unless the run cancelled it)
//	closed-empty       after cancel + Close + 1 virtual minute no goroutine started by the module is left

import (
	"context"
	"crypto/sha256"
	"fmt"
	"math/rand"
	"sort"
	"strings"
	"testing"
	"testing/synctest"
	"time"

	recpb "github.com/libp2p/go-libp2p-record/pb"

	"github.com/libp2p/go-libp2p-kad-dht/internal/verif/vh"
	"github.com/libp2p/go-libp2p-kad-dht/internal/verif/vsim"
)

const (
	vC03DEps      = time.Second
	vC03DAbsolute = 30 * time.Minute
	vC03DSettle   = 2 * time.Minute
)

func vC03DCensus() (map[string]int, []vh.Goro) {
	m := map[string]int{}
	var gs []vh.Goro
	for _, g := range vh.Census() {
		if !strings.Contains(g.Header, "synctest") {
			continue
		}
		m[g.CreatedBy+"@"+g.CreatedAt]++
		gs = append(gs, g)
	}
	return m, gs
}

func vC03DExtra(base, now map[string]int) []string {
	var out []string
	for k, v := range now {
		if v > base[k] {
			out = append(out, fmt.Sprintf("%s x%d", k, v-base[k]))
		}
	}
	sort.Strings(out)
	return out
}

// vC03DTopFrame names the innermost function of the module under test (not a monitor file) in
// a goroutine's stack, e.g. "(*IpfsDHT).getValues.func1.1".
func vC03DTopFrame(text string) string {
	lines := strings.Split(text, "\n")
	for i := 0; i+1 < len(lines); i++ {
		l := lines[i]
		if !strings.HasPrefix(l, "github.com/libp2p/go-libp2p-kad-dht") {
			continue
		}
		file := strings.TrimSpace(lines[i+1])
		if strings.Contains(file, "zz_verif_") || strings.Contains(file, "/internal/verif/") {
			continue
		}
		if j := strings.LastIndex(l, "("); j > 0 {
			l = l[:j]
		}
		l = strings.TrimPrefix(l, "github.com/libp2p/go-libp2p-kad-dht")
		return strings.TrimLeft(l, "./")
	}
	return "unknown"
}

type vC03DCancel struct {
	Mode string // none | pre | at | deadline
	At   time.Duration
}

type vC03DOut struct {
	Res        *vDRes
	Boundaries []time.Duration // offsets of the boundary events of the run from the call
	Sig        string
}

// vC03DRun builds the scenario from seed, runs its operation under the cancel mode and judges it.
func vC03DRun(t *testing.T, c *vh.Case, seed int64, cm vC03DCancel, scoped bool) *vC03DOut {
	out := &vC03DOut{}
	saved := c.R
	c.R = rand.New(rand.NewSource(seed))
	defer func() { c.R = saved }()
	c.Bubble(t, 3*time.Hour, "dual-op-hang", func(t *testing.T) {
		cfg := vC15GenCfg(c, scoped)
		// C03 wants failing, silent and slow peers in most scenarios
		if c.R.Intn(3) > 0 {
			cfg.WFail = []float64{0.2, 0.5, 1}[c.R.Intn(3)]
			cfg.LFail = []float64{0, 0.2, 0.5, 1}[c.R.Intn(4)]
		}
		if c.R.Intn(4) > 0 && cfg.WSeeds == 0 {
			cfg.WSeeds = 1 + c.R.Intn(cfg.K+2)
		}
		// 1 scenario in 16: many holders, wide lookups, small quorum — the search is aborted by the
		// quorum while several answers carrying a record are still in flight
		heavy := c.R.Intn(16) == 0
		if heavy {
			cfg.K, cfg.A, cfg.B = 20, 10, 3
			cfg.NW, cfg.WSeeds, cfg.WFail, cfg.PrivateFrac, cfg.Liars = 30+c.R.Intn(30), 20, 0, 0, 0
		}
		n := vDNewNet(c, cfg)
		closed := false
		defer func() {
			if !closed {
				n.Close()
			}
		}()
		w := vC15Populate(n)
		n.SeedTables()
		op := vC15GenOp(w, []string{"provide", "putvalue", "getvalue", "getvalue", "searchvalue", "searchvalue", "findpeer", "findprovs", "findprovs"})
		if op.Kind == "getvalue" || op.Kind == "searchvalue" {
			op.Quorum = []int{-1, 0, 1, 1, 2, cfg.K}[c.R.Intn(6)]
		}
		if heavy {
			op = vDOp{Kind: []string{"getvalue", "searchvalue"}[c.R.Intn(2)], Key: w.keys[0], Quorum: 1 + c.R.Intn(2)}
			for i, id := range n.WIDs {
				n.W.Peer(id).Values[op.Key] = &recpb.Record{Key: []byte(op.Key), Value: vDMakeValue(op.Key, 5000+i, time.Time{}, i)}
			}
			c.Obs("quorum_heavy_runs", 1)
		}
		op.CancelAt, op.Deadline = -1, false
		switch cm.Mode {
		case "pre":
			op.CancelAt = 0
		case "at":
			op.CancelAt = cm.At
			if op.CancelAt <= 0 {
				op.CancelAt = 1
			}
		case "deadline":
			op.CancelAt, op.Deadline = cm.At, true
			if op.CancelAt <= 0 {
				op.CancelAt = 1
			}
		}
		synctest.Wait()
		base, _ := vC03DCensus()
		c.ObsMax("census_at_rest", len(base))

		res := n.Run(op)
		out.Res = res
		tret := res.End
		if !res.ChanClosed.IsZero() {
			tret = res.ChanClosed
		}
		c.Obs("runs", 1)
		c.Obs("op_"+op.Kind, 1)
		c.Obs("cancel_"+cm.Mode, 1)

		// ---- background work must end by itself (context still live unless the run cancelled it)
		time.Sleep(vC03DSettle)
		synctest.Wait()
		pend := n.pending()
		c.Check(pend == 0, "quiet-after-return", "%d RPCs still in flight %v after %s returned", pend, vC03DSettle, op.Kind)
		now, gs := vC03DCensus()
		c.Clause("no-leak")
		if extra := vC03DExtra(base, now); len(extra) > 0 {
			frame := "unknown"
			for _, g := range gs {
				if base[g.CreatedBy+"@"+g.CreatedAt] == 0 {
					c.Logf("leaked goroutine:\n%s", g.Text)
					if f := vC03DTopFrame(g.Text); f != "unknown" && (frame == "unknown" || f < frame) {
						frame = f
					}
				}
			}
			ctxState := "still live"
			if res.Cancelled || !res.CancelVT.IsZero() {
				ctxState = "ended"
			}
			c.FailSig("no-leak", "no-leak@"+frame, "goroutines started by the module beyond the at-rest census are still alive %v after %s (quorum %d, count %d) returned at +%v with %v; cancel mode %s, the operation's context is %s: %v",
				vC03DSettle, op.Kind, op.Quorum, op.Count, tret.Sub(res.Start), res.Err, cm.Mode, ctxState, extra)
		}

		// ---- timeline clauses
		wlog, llog := vDSince(n.W.Log(), res.W0), vDSince(n.L.Log(), res.L0)
		dials := n.H.DialLog()[res.D0:]
		var bounds []time.Time
		last := res.Start
		inflightAtReturn := 0
		replied := map[int64]time.Time{}
		for _, lg := range [][]vsim.Event{wlog, llog} {
			for _, e := range lg {
				if e.Kind == vsim.EvReply {
					replied[e.ReqSeq] = e.VT
				}
			}
		}
		for _, lg := range [][]vsim.Event{wlog, llog} {
			for _, e := range lg {
				bounds = append(bounds, e.VT)
				switch e.Kind {
				case vsim.EvRequest, vsim.EvMessage:
					if e.Seq < res.EndSeq {
						if rt, ok := replied[e.Seq]; !ok || rt.After(tret) {
							inflightAtReturn++
						}
					}
				case vsim.EvReply:
					if !e.VT.After(tret) && e.VT.After(last) {
						last = e.VT
					}
				}
			}
		}
		for _, d := range dials {
			bounds = append(bounds, d.Start, d.End)
			if d.Seq < res.EndSeq && d.End.After(tret) {
				inflightAtReturn++
			}
			if !d.End.After(tret) && d.End.After(last) {
				last = d.End
			}
		}
		for _, e := range res.Emits {
			bounds = append(bounds, e.VT)
			if e.VT.After(last) {
				last = e.VT
			}
		}
		for _, b := range bounds {
			if d := b.Sub(res.Start); d >= 0 && !b.After(tret) {
				out.Boundaries = append(out.Boundaries, d)
			}
		}
		sort.Slice(out.Boundaries, func(i, j int) bool { return out.Boundaries[i] < out.Boundaries[j] })
		c.Obs("rpcs", len(vC15Requests(wlog))+len(vC15Requests(llog)))
		c.Obs("dials", len(dials))
		c.ObsMax("op_virtual_ms", int(tret.Sub(res.Start).Milliseconds()))
		ended := !res.CancelVT.IsZero() && !res.CancelVT.After(tret)
		if cm.Mode == "pre" {
			ended = true
		}
		detail := func() string {
			return fmt.Sprintf("%s (quorum %d, count %d) WAN table %d LAN table %d, cancel mode %s at +%v; called at %v, returned at +%v (err %v, %d emissions), last conclusion at +%v, %d in flight at return",
				op.Kind, op.Quorum, op.Count, len(res.WRT0), len(res.LRT0), cm.Mode, cm.At, res.Start.Format("15:04:05.000"), tret.Sub(res.Start), res.Err, len(res.Emits), last.Sub(res.Start), inflightAtReturn)
		}
		if ended {
			c.Obs("cancel_took_effect", 1)
			tc := res.CancelVT
			if cm.Mode == "pre" {
				tc = res.Start
			}
			c.Check(!tret.After(tc.Add(vC03DEps)), "cancel-prompt", "returned %v after its context ended: %s", tret.Sub(tc), detail())
			if inflightAtReturn > 0 {
				c.Obs("cancelled_with_rpcs_in_flight", 1)
			}
		} else {
			if inflightAtReturn == 0 {
				c.Check(!tret.After(last.Add(vC03DEps)), "return-bounded", "returned %v after the last thing it waited for concluded: %s", tret.Sub(last), detail())
			} else {
				c.Obs("returned_with_rpcs_in_flight", 1)
			}
			c.Check(tret.Sub(res.Start) <= vC03DAbsolute, "return-bounded", "took %v: %s", tret.Sub(res.Start), detail())
		}
		if op.Kind == "searchvalue" || op.Kind == "findprovs" {
			c.Check(!res.ChanClosed.IsZero() || res.Err != nil, "chan-closed", "result channel not closed: %s", detail())
			c.Obs("channels_closed", 1)
			c.Obs("items_returned", len(res.Emits))
		}
		c.Logf("%s", detail())
		out.Sig = fmt.Sprintf("%s/%d/%d/%v/%v/%s/%d", op.Kind, op.Quorum, op.Count, len(res.WRT0) > 0, len(res.LRT0) > 0, cm.Mode, len(out.Boundaries))

		// ---- a caller that got what it wanted: on the same instance, FindProvidersAsync once more with a consumer that
		// stops reading after the first provider and cancels its context ("for p := range ch { use(p); break }; cancel()").
		// Whatever the merge still holds must be dropped; nothing may stay blocked on the abandoned channel.
		if cm.Mode == "none" && op.Kind == "findprovs" && !c.Failed() {
			ctx2, cancel2 := context.WithCancel(context.Background())
			got := 0
			for range n.D.FindProvidersAsync(ctx2, op.Cid, op.Count) {
				got++
				break
			}
			cancel2()
			time.Sleep(vC03DSettle)
			synctest.Wait()
			now2, gs2 := vC03DCensus()
			c.Clause("no-leak-after-walkaway")
			c.Obs("walkaway_probes", 1)
			c.Obs("walkaway_probes_with_item", got)
			if extra := vC03DExtra(base, now2); len(extra) > 0 {
				frame := "unknown"
				for _, g := range gs2 {
					if base[g.CreatedBy+"@"+g.CreatedAt] == 0 {
						c.Logf("leaked goroutine:\n%s", g.Text)
						if f := vC03DTopFrame(g.Text); f != "unknown" && (frame == "unknown" || f < frame) {
							frame = f
						}
					}
				}
				c.FailSig("no-leak-after-walkaway", "no-leak-after-walkaway@"+frame, "FindProvidersAsync (count %d): the consumer took %d provider(s), cancelled its context and stopped reading; %v later goroutines started by the module beyond the at-rest census are still alive: %v", op.Count, got, vC03DSettle, extra)
			}
		}

		// ---- shutdown
		res.Keep()
		n.Close()
		closed = true
		synctest.Wait()
		time.Sleep(time.Minute)
		synctest.Wait()
		after, gs2 := vC03DCensus()
		c.Clause("closed-empty")
		if len(after) > 0 {
			var left []string
			for k, v := range after {
				left = append(left, fmt.Sprintf("%s x%d", k, v))
			}
			sort.Strings(left)
			txt := ""
			for _, g := range gs2 {
				txt += g.Text + "\n\n"
			}
			c.FailSig("closed-empty", "closed-empty@"+strings.SplitN(left[0], "@", 2)[0], "goroutines started by the module survive cancel + Close + 1 virtual minute after %s: %v\n%s", op.Kind, left, txt)
			c.ExitNow()
		}
		vC15Describe(c, n)
	})
	return out
}

func TestVerif_C03_dual(t *testing.T) {
	vh.Run(t, vh.Spec{Prop: "C03", Unit: "dual", Quick: 300, Thorough: 5000, CostMs: 300,
		Rule: "dual client over two simulated networks (C15 generator; 2/3 of the scenarios with 20-100% failing / silent / slow-dialing peers per network, each table empty in ~1/4); one operation per scenario among Provide, PutValue, GetValue, SearchValue (quorum none/0/1/2/K), FindPeer, FindProvidersAsync (count 0/1/2/5/K; after the un-cancelled run once more on the same instance with a consumer that stops reading after the first provider and cancels); the scenario is run un-cancelled, then rebuilt from the same seed and run cancelled before the call and at PRNG-chosen boundary instants of the un-cancelled run (quick: 3 instants, cancel() or deadline; thorough: up to 12); non-trivial = the un-cancelled run made RPCs and at least one cancelled run had its context end while the call was running; distinct by (operation, parameters, table emptiness, number of boundaries)",
		Clauses: []string{"return-bounded", "cancel-prompt", "chan-closed", "quiet-after-return", "no-leak", "closed-empty"}},
		func(c *vh.Case) {
			seed := c.R.Int63()
			pick := rand.New(rand.NewSource(seed ^ 0x5bd1e995))
			first := vC03DRun(t, c, seed, vC03DCancel{Mode: "none"}, false)
			if first.Res == nil {
				return
			}
			vC03DRun(t, c, seed, vC03DCancel{Mode: "pre"}, false)
			k := 3
			if c.Tier == "thorough" {
				k = 12
			}
			took := 0
			bs := first.Boundaries
			for i := 0; i < k && len(bs) > 0; i++ {
				at := bs[pick.Intn(len(bs))]
				switch pick.Intn(3) {
				case 1:
					at += time.Nanosecond
				case 2:
					at += time.Duration(pick.Intn(3)) * time.Millisecond
				}
				mode := "at"
				if pick.Intn(4) == 0 {
					mode = "deadline"
				}
				o := vC03DRun(t, c, seed, vC03DCancel{Mode: mode, At: at}, false)
				if o.Res != nil && o.Res.Cancelled && !o.Res.CancelVT.IsZero() {
					took++
				}
			}
			c.Set("boundaries", len(bs))
			if len(bs) > 2 && took > 0 {
				h := sha256.Sum256([]byte(first.Sig))
				c.Nontrivial(fmt.Sprintf("%x", h[:8]))
			}
		})
}
