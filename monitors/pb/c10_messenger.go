//go:build verif

package dht_pb

// C10 — no remote response can crash, wedge or over-feed a client (ProtocolMessenger level).
//
// The six ProtocolMessenger calls are fed with GENERATED replies through a fake MessageSender.
// Every verdict is taken on wire-realistic replies only: the generated reply is marshalled,
// bounded by the real sender's read limit (network.MessageSizeMax) and unmarshalled again —
// exactly what a remote peer can make the real sender return. Replies a remote peer cannot
// produce (nil message with nil error, nil entries in repeated fields) are fed as well but
// only observed (counter `nonwire_panics`), because the property quantifies over what a
// *remote peer* can send.

import (
	"bytes"
	"context"
	"crypto/sha256"
	"errors"
	"fmt"
	"math/rand"
	"runtime/debug"
	"strings"
	"sync"
	"testing"

	recpb "github.com/libp2p/go-libp2p-record/pb"
	"github.com/libp2p/go-libp2p/core/host"
	"github.com/libp2p/go-libp2p/core/network"
	"github.com/libp2p/go-libp2p/core/peer"
	ma "github.com/multiformats/go-multiaddr"
	mh "github.com/multiformats/go-multihash"
	"google.golang.org/protobuf/proto"

	"github.com/libp2p/go-libp2p-kad-dht/internal/verif/vh"
)

// ---- fake sender ---------------------------------------------------------------------------

// vC10Reply is one scripted reaction of the remote peer as the sender reports it.
type vC10Reply struct {
	class   string   // input class (for signatures and evidence)
	msg     *Message // what the caller gets (after the wire round trip, if wire)
	ref     *Message // an independent decoding of the same bytes for the oracle (the calls trim the reply in place)
	err     error    // or the error the sender returns
	nonwire bool     // not producible by a remote peer through the real sender
	sent    *Message // the reply as generated (before the wire), for witnesses
	wireLen int
}

type vC10Sender struct {
	reply  vC10Reply
	msgErr error
	gotReq *Message
	gotMsg *Message
	nReq   int
	nMsg   int
}

func (s *vC10Sender) SendRequest(ctx context.Context, p peer.ID, pmes *Message) (*Message, error) {
	s.nReq++
	s.gotReq = pmes
	if s.reply.err != nil {
		return nil, s.reply.err
	}
	return s.reply.msg, nil
}

func (s *vC10Sender) SendMessage(ctx context.Context, p peer.ID, pmes *Message) error {
	s.nMsg++
	s.gotMsg = pmes
	return s.msgErr
}

// vC10Host is the minimal host.Host PutProvider needs (ID and Addrs).
type vC10Host struct {
	host.Host
	id    peer.ID
	addrs []ma.Multiaddr
}

func (h *vC10Host) ID() peer.ID           { return h.id }
func (h *vC10Host) Addrs() []ma.Multiaddr { return h.addrs }

// ---- generators ----------------------------------------------------------------------------

func vC10PeerID(r *rand.Rand) peer.ID {
	var b [8]byte
	r.Read(b[:])
	h := sha256.Sum256(b[:])
	return peer.ID(append([]byte{0x12, 0x20}, h[:]...))
}

var vC10ValidAddrStrings = []string{
	"/ip4/1.2.3.4/tcp/4001",
	"/ip4/203.0.113.7/udp/4001/quic-v1",
	"/ip6/2001:db8::1/tcp/4001",
	"/ip6/::1/udp/9/quic-v1/webtransport",
	"/dns4/example.com/tcp/443/wss",
	"/dns/a.b.c.d.example.org/tcp/4001",
	"/ip4/10.0.0.1/tcp/1",
	"/ip4/127.0.0.1/udp/1234",
	"/ip4/8.8.8.8/tcp/4001/p2p/QmNnooDu7bfjPFoTZYxMNLWUQJyrVwtbZg5gBMjTezGAJN",
	"/ip4/1.1.1.1/tcp/4001/p2p/QmNnooDu7bfjPFoTZYxMNLWUQJyrVwtbZg5gBMjTezGAJN/p2p-circuit",
	"/onion3/vww6ybal4bd7szmgncyruucpgfkqahzddi37ktceo3ah7ngmcopnpyyd:1234",
	"/unix/tmp/sock",
}

var (
	vC10PoolOnce sync.Once
	vC10Pool     [][]byte
)

// vC10Small returns the bytes of one of the small valid addresses (encoded once).
func vC10Small(r *rand.Rand) []byte {
	vC10PoolOnce.Do(func() {
		for _, s := range vC10ValidAddrStrings {
			vC10Pool = append(vC10Pool, ma.StringCast(s).Bytes())
		}
	})
	return vC10Pool[r.Intn(len(vC10Pool))]
}

// vC10Dns builds the bytes of /dns4/<n times ch>/tcp/443 by hand (code 54, uvarint length, name; code 6, port).
func vC10Dns(ch byte, n int) []byte {
	b := []byte{54}
	for x := uint64(n); ; {
		if x < 0x80 {
			b = append(b, byte(x))
			break
		}
		b = append(b, byte(x)|0x80)
		x >>= 7
	}
	b = append(b, bytes.Repeat([]byte{ch}, n)...)
	return append(b, 6, 0x01, 0xbb)
}

func vC10ValidAddr(r *rand.Rand) []byte {
	switch x := r.Intn(20); {
	case x < 14:
		return vC10Small(r)
	case x < 18:
		// a long but valid dns name: 100..1500 bytes
		return vC10Dns('a', 100+r.Intn(1400))
	default:
		// a very long valid address (beyond the whole record budget on its own sometimes)
		return vC10Dns('b', 3000+r.Intn(7000))
	}
}

func vC10BadAddr(r *rand.Rand) []byte {
	switch r.Intn(9) {
	case 0:
		return []byte{0x04, 1, 2} // truncated ip4
	case 1:
		return []byte{0xff, 0xff, 0x03, 1, 2, 3} // unknown protocol code
	case 2:
		b := make([]byte, 1+r.Intn(40))
		r.Read(b)
		b[0] |= 0x80 // make sure the leading varint does not name a tiny valid code by accident
		return b
	case 3:
		return []byte{4, 1, 2, 3, 4, 6, 0x0f, 0xa1, 0x06} // /ip4/1.2.3.4/tcp/4001 + dangling code
	case 4:
		return []byte{0x35, 0xff, 0xff, 0xff, 0xff, 0x0f} // dns4 with a length prefix beyond the data
	case 5:
		b := bytes.Repeat([]byte{0xfe, byte(r.Intn(256)), 0x01}, 700+r.Intn(2600)) // big junk (counts against the budget, then is dropped)
		return b
	case 6:
		return []byte{0x06} // tcp without port
	case 7:
		return []byte("/ip4/1.2.3.4/tcp/4001") // textual form in a binary field
	default:
		return []byte{0x00}
	}
}

// vC10GenPeer generates one Message_Peer with a chosen shape.
func vC10GenPeer(r *rand.Rand, shape int) *Message_Peer {
	p := &Message_Peer{}
	switch x := r.Intn(20); {
	case x < 12:
		p.Id = []byte(vC10PeerID(r))
	case x < 14:
		p.Id = nil
	case x < 15:
		p.Id = []byte{}
	case x < 17:
		p.Id = make([]byte, 1+r.Intn(4))
		r.Read(p.Id)
	case x < 19:
		p.Id = bytes.Repeat([]byte{byte(r.Intn(256))}, 100+r.Intn(2000))
	default:
		p.Id = bytes.Repeat([]byte{byte(r.Intn(256))}, 8000+r.Intn(2000)) // the id alone (nearly) exhausts the budget
	}
	switch r.Intn(8) {
	case 0:
		p.Connection = Message_ConnectionType(99)
	case 1:
		p.Connection = Message_ConnectionType(-1) // 10-byte varint
	case 2:
		p.Connection = Message_ConnectionType(1<<31 - 1)
	default:
		p.Connection = Message_ConnectionType(r.Intn(5))
	}
	var n int
	badFrac := []float64{0, 0, 0.1, 0.5, 1}[r.Intn(5)]
	switch shape {
	case 0: // tiny (for huge peer lists)
		n = r.Intn(2)
		if r.Intn(2) == 0 {
			p.Id = p.Id[:min(len(p.Id), 2)]
		}
	case 1: // ordinary
		n = r.Intn(6)
	case 2: // many small addresses: the budget cuts somewhere in the list
		n = 200 + r.Intn(1200)
	case 3: // huge address list
		n = 3000 + r.Intn(9000)
	default: // few big addresses
		n = 3 + r.Intn(12)
	}
	for i := 0; i < n; i++ {
		var a []byte
		switch {
		case r.Float64() < badFrac:
			a = vC10BadAddr(r)
		case shape == 4:
			a = vC10Dns('c', 500+r.Intn(1200))
		case shape == 0 || shape == 2 || shape == 3:
			a = vC10Small(r)
		default:
			a = vC10ValidAddr(r)
		}
		if r.Intn(60) == 0 {
			a = []byte{} // empty address entry
		}
		p.Addrs = append(p.Addrs, a)
	}
	return p
}

// vC10GenPeers generates a peer list. big: allow the 10^4..10^5-entry class.
func vC10GenPeers(r *rand.Rand, huge bool) ([]*Message_Peer, string) {
	switch x := r.Intn(20); {
	case x < 2:
		return nil, "none"
	case x < 10:
		n := 1 + r.Intn(25)
		ps := make([]*Message_Peer, n)
		for i := range ps {
			ps[i] = vC10GenPeer(r, 1)
		}
		return ps, "ordinary"
	case x < 14:
		n := 1 + r.Intn(4)
		ps := make([]*Message_Peer, n)
		for i := range ps {
			ps[i] = vC10GenPeer(r, []int{2, 3, 4, 4}[r.Intn(4)])
		}
		return ps, "over-budget-addrs"
	case x < 16:
		// same peer repeated, empty entries
		n := 2 + r.Intn(40)
		one := vC10GenPeer(r, 1)
		ps := make([]*Message_Peer, n)
		for i := range ps {
			if r.Intn(3) == 0 {
				ps[i] = &Message_Peer{}
			} else {
				ps[i] = one
			}
		}
		return ps, "dups-and-empties"
	case x < 19 || !huge:
		n := 300 + r.Intn(3000)
		ps := make([]*Message_Peer, n)
		for i := range ps {
			ps[i] = vC10GenPeer(r, 0)
		}
		return ps, "long-list"
	default:
		n := 10000 + r.Intn(90000)
		ps := make([]*Message_Peer, n)
		proto := []*Message_Peer{vC10GenPeer(r, 0), vC10GenPeer(r, 0), vC10GenPeer(r, 0), {}}
		for i := range ps {
			ps[i] = proto[r.Intn(len(proto))]
		}
		return ps, "huge-list"
	}
}

func vC10OtherKey(r *rand.Rand, key []byte) []byte {
	switch r.Intn(7) {
	case 0:
		return nil
	case 1:
		return []byte{}
	case 2:
		return append(append([]byte(nil), key...), 0)
	case 3:
		if len(key) > 0 {
			return append([]byte(nil), key[:len(key)-1]...)
		}
		return []byte("x")
	case 4:
		k := append([]byte(nil), key...)
		if len(k) > 0 {
			k[r.Intn(len(k))] ^= 0x20
			return k
		}
		return []byte{0}
	case 5:
		return []byte("/pk/other")
	default:
		k := make([]byte, 1+r.Intn(64))
		r.Read(k)
		return k
	}
}

var vC10Types = []Message_MessageType{Message_PUT_VALUE, Message_GET_VALUE, Message_ADD_PROVIDER, Message_GET_PROVIDERS,
	Message_FIND_NODE, Message_PING, 6, 7, 99, -1, 1<<31 - 1, -1 << 31}

// vC10GenMessage generates a reply message for a request: schema-driven, every sub-message
// optionally absent.
func vC10GenMessage(r *rand.Rand, req *Message, huge bool) (*Message, string) {
	m := &Message{}
	var tags []string
	// type: usually the request's, sometimes any known or unknown value
	switch x := r.Intn(10); {
	case x < 6:
		m.Type = req.GetType()
	default:
		m.Type = vC10Types[r.Intn(len(vC10Types))]
		if m.Type != req.GetType() {
			tags = append(tags, "type")
		}
	}
	// key
	switch x := r.Intn(10); {
	case x < 6:
		m.Key = req.GetKey()
	case x < 8:
		m.Key = nil
	default:
		m.Key = vC10OtherKey(r, req.GetKey())
	}
	if r.Intn(4) == 0 {
		m.ClusterLevelRaw = []int32{-1, 1, 2, 1<<31 - 1, -1 << 31}[r.Intn(5)]
	}
	// record
	switch x := r.Intn(20); {
	case x < 5:
		tags = append(tags, "norec")
	case x < 7:
		m.Record = &recpb.Record{} // present but empty
		tags = append(tags, "emptyrec")
	case x < 13:
		// the record the request is about
		m.Record = &recpb.Record{Key: req.GetKey(), Value: req.GetRecord().GetValue(), TimeReceived: "2026-01-01T00:00:00Z"}
		if req.GetRecord() == nil {
			m.Record.Value = []byte("value-for-" + string(req.GetKey()))
		}
		tags = append(tags, "ownrec")
	case x < 17:
		m.Record = &recpb.Record{Key: vC10OtherKey(r, req.GetKey()), Value: []byte("other-value")}
		tags = append(tags, "otherkeyrec")
	case x < 19:
		// own key, different value
		v := make([]byte, r.Intn(100))
		r.Read(v)
		m.Record = &recpb.Record{Key: req.GetKey(), Value: v, TimeReceived: "garbage\x00time"}
		tags = append(tags, "othervalrec")
	default:
		v := make([]byte, 50000+r.Intn(250000))
		m.Record = &recpb.Record{Key: req.GetKey(), Value: v}
		tags = append(tags, "bigrec")
	}
	var t string
	m.CloserPeers, t = vC10GenPeers(r, huge)
	tags = append(tags, "closer:"+t)
	if r.Intn(2) == 0 || req.GetType() == Message_GET_PROVIDERS {
		m.ProviderPeers, t = vC10GenPeers(r, huge && len(m.CloserPeers) < 10000)
		tags = append(tags, "provs:"+t)
	}
	return m, strings.Join(tags, ",")
}

// vC10Wire passes a generated reply through the wire exactly like the real sender would read it.
func vC10Wire(class string, m *Message) vC10Reply {
	b, err := proto.Marshal(m)
	if err != nil {
		return vC10Reply{class: class + "/unmarshalable", err: err, sent: m}
	}
	return vC10WireBytes(class, b, m)
}

func vC10WireBytes(class string, b []byte, sent *Message) vC10Reply {
	if len(b) > network.MessageSizeMax {
		return vC10Reply{class: class + "/too-large", err: errors.New("message too large"), sent: sent, wireLen: len(b)}
	}
	out := new(Message)
	if err := proto.Unmarshal(b, out); err != nil {
		return vC10Reply{class: class + "/undecodable", err: err, sent: sent, wireLen: len(b)}
	}
	ref := new(Message)
	if err := proto.Unmarshal(b, ref); err != nil {
		panic("harness: second decoding failed")
	}
	return vC10Reply{class: class, msg: out, ref: ref, sent: sent, wireLen: len(b)}
}

// vC10GenReply generates the sender's reaction to req.
func vC10GenReply(r *rand.Rand, req *Message, huge bool) vC10Reply {
	switch x := r.Intn(100); {
	case x < 62:
		m, tags := vC10GenMessage(r, req, huge)
		return vC10Wire("schema["+tags+"]", m)
	case x < 70:
		// the honest minimal answers
		m := &Message{Type: req.GetType(), Key: req.GetKey()}
		if req.GetType() == Message_PUT_VALUE && r.Intn(2) == 0 {
			m.Record = req.GetRecord()
			return vC10Wire("honest-echo", m)
		}
		return vC10Wire("bare[norec]", m)
	case x < 73:
		return vC10Wire("empty-message[norec]", &Message{})
	case x < 83:
		// any byte string: random bytes, or a valid frame damaged (bit flips, truncation, junk appended, unknown fields)
		var b []byte
		switch r.Intn(5) {
		case 0:
			b = make([]byte, r.Intn(200))
			r.Read(b)
		case 1:
			m, _ := vC10GenMessage(r, req, false)
			b, _ = proto.Marshal(m)
			for i := 0; i < 1+r.Intn(4) && len(b) > 0; i++ {
				b[r.Intn(len(b))] ^= byte(1 << r.Intn(8))
			}
		case 2:
			m, _ := vC10GenMessage(r, req, false)
			b, _ = proto.Marshal(m)
			if len(b) > 0 {
				b = b[:r.Intn(len(b))]
			}
		case 3:
			m, _ := vC10GenMessage(r, req, false)
			b, _ = proto.Marshal(m)
			// unknown fields: field 15 varint, field 100 bytes, field 3 (record) repeated a second time
			b = append(b, 0x78, 0x05, 0xa2, 0x06, 0x03, 'a', 'b', 'c')
			if r.Intn(2) == 0 {
				rb, _ := proto.Marshal(&recpb.Record{Key: []byte("second-record")})
				b = append(b, 0x1a, byte(len(rb)))
				b = append(b, rb...)
			}
		default:
			// fields with the wrong wire type: key (field 2) as varint, record (field 3) as fixed64
			b = []byte{0x10, 0x07, 0x19, 1, 2, 3, 4, 5, 6, 7, 8, 0x08, 0x01}
		}
		return vC10WireBytes("bytes", b, nil)
	case x < 90:
		e := []error{errors.New("timed out reading response"), context.DeadlineExceeded, network.ErrReset, errors.New("stream refused")}[r.Intn(4)]
		return vC10Reply{class: "silence-or-reset", err: e}
	case x < 94:
		return vC10Reply{class: "nonwire/nil-reply", nonwire: true}
	default:
		// structure no decoder produces: nil entries in the repeated fields
		m, _ := vC10GenMessage(r, req, false)
		m.CloserPeers = append(m.CloserPeers, nil)
		m.ProviderPeers = append([]*Message_Peer{nil}, m.ProviderPeers...)
		return vC10Reply{class: "nonwire/nil-entries", msg: m, nonwire: true, sent: m}
	}
}

// ---- oracle --------------------------------------------------------------------------------

func vC10Decode(raw []byte) (ma.Multiaddr, bool) {
	a, err := ma.NewMultiaddrBytes(raw)
	return a, err == nil
}

// vC10CheckPeers judges the peer infos a call returned against the peer list the reply carried.
// Reference = the documented semantic of MaxPeerRecordSize: (a) the record (id, returned
// addresses, connection flag) serializes within 8 KiB (proto.Size, independent of the code's
// arithmetic); (b) returned addresses are an in-order selection of the reply's decodable
// addresses, nothing undecodable, nothing invented; (c) nothing that fits the budget is
// dropped (with the 4 bytes of slack the conservative sizing of absent id / zero connection
// fields may cost); (d) every entry yields one peer info with the id as sent.
func vC10CheckPeers(c *vh.Case, call, field string, sent []*Message_Peer, got []*peer.AddrInfo) {
	if !c.Check(len(got) == len(sent), "peer-ids-kept", "%s %s: reply carried %d peer entries, call returned %d", call, field, len(sent), len(got)) {
		return
	}
	c.Obs("peer_entries_judged", len(sent))
	nb, nsel, nkept := 0, 0, 0
	for i, sp := range sent {
		ai := got[i]
		if ai == nil {
			c.Check(false, "peer-ids-kept", "%s %s: nil AddrInfo at %d", call, field, i)
			return
		}
		if string(ai.ID) != string(sp.GetId()) {
			c.Check(false, "peer-ids-kept", "%s %s: entry %d id %x returned as %x", call, field, i, sp.GetId(), []byte(ai.ID))
			return
		}
		raw := sp.GetAddrs()
		if len(raw) == 0 && len(ai.Addrs) == 0 {
			continue // nothing to bound or drop: the id is always kept
		}
		// (a)
		rec := &Message_Peer{Id: sp.GetId(), Connection: sp.GetConnection()}
		for _, a := range ai.Addrs {
			rec.Addrs = append(rec.Addrs, a.Bytes())
		}
		sz := proto.Size(rec)
		nb++
		if sz > MaxPeerRecordSize && len(ai.Addrs) > 0 {
			c.Check(false, "peer-record-bounded", "%s %s: entry %d returned with %d addresses, record size %d > %d (reply entry had %d addresses, id %d bytes)", call, field, i, len(ai.Addrs), sz, MaxPeerRecordSize, len(raw), len(sp.GetId()))
			return
		}
		// (b) in-order selection of decodable raw addresses
		dec := make([]ma.Multiaddr, len(raw))
		dok := make([]bool, len(raw))
		ndec := 0
		for k, a := range raw {
			if dec[k], dok[k] = vC10Decode(a); dok[k] {
				ndec++
			}
		}
		j := 0
		okSel := true
		lastIdx := -1
		for _, a := range ai.Addrs {
			found := false
			for ; j < len(raw); j++ {
				d, ok := dec[j], dok[j]
				if ok && d.Equal(a) {
					found = true
					lastIdx = j
					j++
					break
				}
			}
			if !found {
				okSel = false
				break
			}
			if _, ok := vC10Decode(a.Bytes()); !ok {
				okSel = false
				break
			}
		}
		nsel++
		if !okSel {
			c.Check(false, "undecodable-absent", "%s %s: entry %d: returned addresses are not an in-order selection of the reply's decodable addresses (returned %d, reply %d)", call, field, i, len(ai.Addrs), len(raw))
			return
		}
		// (c) nothing within the budget dropped: all decodable addresses of the guaranteed prefix are present
		base := &Message_Peer{Id: sp.GetId(), Connection: sp.GetConnection()}
		size := proto.Size(base) + 4
		var want []ma.Multiaddr
		for k, a := range raw {
			size += 1 + vC10SizeVarint(uint64(len(a))) + len(a)
			if size > MaxPeerRecordSize {
				break
			}
			if dok[k] {
				want = append(want, dec[k])
			}
		}
		nkept++
		okKept := len(ai.Addrs) >= len(want)
		for k := 0; okKept && k < len(want); k++ {
			okKept = ai.Addrs[k].Equal(want[k])
		}
		if !okKept {
			c.Check(false, "within-budget-kept", "%s %s: entry %d: %d decodable addresses fit the 8 KiB budget, %d returned (last matched raw index %d)", call, field, i, len(want), len(ai.Addrs), lastIdx)
			return
		}
		if len(want) < ndec {
			c.Obs("records_cut_by_budget", 1)
		}
		if len(ai.Addrs) < len(raw) {
			c.Obs("addresses_dropped", len(raw)-len(ai.Addrs))
		}
		for _, a := range ai.Addrs {
			if len(a) == 0 {
				c.Obs("empty_multiaddr_returned", 1)
			}
		}
	}
	c.ClauseN("peer-record-bounded", nb)
	c.ClauseN("undecodable-absent", nsel)
	c.ClauseN("within-budget-kept", nkept)
}

func vC10SizeVarint(x uint64) int {
	n := 1
	for x >= 0x80 {
		x >>= 7
		n++
	}
	return n
}

// vC10Guard runs one ProtocolMessenger call and converts a panic into a violation (or, for
// non-wire replies, into an observation). Returns false if the call panicked.
func vC10Guard(c *vh.Case, call string, rep vC10Reply, f func()) (ok bool) {
	defer func() {
		if r := recover(); r != nil {
			ok = false
			st := debug.Stack()
			if rep.nonwire {
				c.Obs("nonwire_panics", 1)
				c.Logf("%s on %s (not producible by a remote peer): panic %v @%s", call, rep.class, r, vh.TopRepoFrame(st))
				return
			}
			c.Clause("no-panic")
			sig := "panic@" + vh.TopRepoFrame(st)
			if call == "PutValue" && rep.msg.GetRecord() == nil {
				sig = "putvalue-echo-without-record"
			}
			wit := "<nil>"
			if rep.msg != nil {
				wit = vC10Brief(rep.msg)
			}
			c.FailSig("no-panic", sig, "%s panicked on reply class %s: %v\nreply: %s\n%s", call, rep.class, r, wit, st)
		}
	}()
	f()
	if !rep.nonwire {
		c.Clause("no-panic")
	}
	return true
}

func vC10Brief(m *Message) string {
	rec := "absent"
	if m.Record != nil {
		rec = fmt.Sprintf("{key=%q value=%d bytes}", m.Record.GetKey(), len(m.Record.GetValue()))
	}
	return fmt.Sprintf("type=%d key=%q record=%s closer=%d provs=%d", int32(m.GetType()), m.GetKey(), rec, len(m.GetCloserPeers()), len(m.GetProviderPeers()))
}

var vC10Calls = []string{"PutValue", "GetValue", "GetClosestPeers", "PutProvider", "PutProviderAddrs", "GetProviders", "Ping"}

func TestVerif_C10_messenger(t *testing.T) {
	vh.Run(t, vh.Spec{Prop: "C10", Unit: "messenger", Quick: 1500, Thorough: 75000, CostMs: 30,
		Rule:    "each case: 8 ProtocolMessenger calls (PutValue, GetValue, GetClosestPeers, PutProvider, PutProviderAddrs, GetProviders, Ping; PRNG keys incl. empty) answered by a fake MessageSender with GENERATED replies: message schema with every field optionally absent / mismatched (type incl. unknown enum values, key, record absent / empty / own / other-key / other-value / 50-300 KB, closer and provider lists: none, ordinary, over-budget address lists (200-12000 addresses, 0.5-10 KB addresses), duplicates and empty entries, 300-3000 and 10^4-10^5 entries; ids absent / 1-4 bytes / valid / up to 10 KB; undecodable address bytes of 9 kinds; unknown connection enum values), arbitrary and damaged byte strings, silence/reset errors; every reply passes the wire (marshal, 4 MiB read limit, unmarshal) before the call sees it; replies no remote can produce (nil reply, nil entries) are fed but only observed; non-trivial = a sanitizing clause (other-key, peer-record-bounded with a cut, undecodable dropped) had something to reject/cut in the case; distinct by (call, reply class, outcome) sequence",
		Clauses: []string{"no-panic", "returns-error-or-result", "other-key-record-rejected", "peer-record-bounded", "undecodable-absent", "within-budget-kept", "peer-ids-kept", "sender-error-propagates"}},
		func(c *vh.Case) {
			r := c.R
			ctx := context.Background()
			snd := &vC10Sender{}
			pm, err := NewProtocolMessenger(snd)
			if err != nil {
				panic(err)
			}
			remote := vC10PeerID(r)
			var trail []string
			interesting := false
			ncalls := 8
			for i := 0; i < ncalls; i++ {
				call := vC10Calls[r.Intn(len(vC10Calls))]
				var key []byte
				switch r.Intn(8) {
				case 0:
					key = nil
				case 1:
					key = []byte("/pk/" + string(vC10PeerID(r)))
				case 2:
					h, _ := mh.Sum([]byte(fmt.Sprint(r.Int63())), mh.SHA2_256, -1)
					key = h
				default:
					key = []byte(fmt.Sprintf("/v/key-%d-%d", c.Idx, r.Intn(1000)))
				}
				huge := r.Intn(12) == 0
				// the request the call is going to send (to generate a matching/mismatching reply)
				var req *Message
				var value []byte
				switch call {
				case "PutValue":
					value = make([]byte, r.Intn(40))
					r.Read(value)
					if r.Intn(6) == 0 {
						value = nil
					}
					req = &Message{Type: Message_PUT_VALUE, Key: key, Record: &recpb.Record{Key: key, Value: value}}
				case "GetValue":
					req = &Message{Type: Message_GET_VALUE, Key: key}
				case "GetClosestPeers":
					req = &Message{Type: Message_FIND_NODE, Key: key}
				case "GetProviders":
					req = &Message{Type: Message_GET_PROVIDERS, Key: key}
				case "Ping":
					req = &Message{Type: Message_PING}
				default:
					req = &Message{Type: Message_ADD_PROVIDER, Key: key}
				}
				rep := vC10GenReply(r, req, huge)
				snd.reply = rep
				snd.msgErr = nil
				if r.Intn(4) == 0 {
					snd.msgErr = network.ErrReset
				}
				snd.gotReq, snd.gotMsg = nil, nil
				outcome := "?"
				c.Obs("calls", 1)
				if rep.msg != nil && !rep.nonwire {
					c.Obs("wire_replies_decoded", 1)
					c.Obs("wire_bytes", rep.wireLen)
				}
				if rep.err != nil {
					c.Obs("sender_errors", 1)
				}
				judgeErr := func(err error) {
					// the sender failed (silence, reset, undecodable bytes, over-long frame): the call must fail
					if rep.err != nil && !rep.nonwire {
						c.Check(err != nil, "sender-error-propagates", "%s returned nil error although the sender failed with %v", call, rep.err)
					}
				}
				switch call {
				case "PutValue":
					var err error
					if vC10Guard(c, call, rep, func() { err = pm.PutValue(ctx, remote, &recpb.Record{Key: key, Value: value}) }) {
						c.Clause("returns-error-or-result")
						judgeErr(err)
						outcome = vC10Outcome(err)
						if err != nil && rep.err == nil {
							c.Obs("putvalue_echo_rejected", 1)
						}
					} else {
						outcome = "panic"
					}
				case "GetValue":
					var rec *recpb.Record
					var peers []*peer.AddrInfo
					var err error
					if vC10Guard(c, call, rep, func() { rec, peers, err = pm.GetValue(ctx, remote, string(key)) }) {
						c.Clause("returns-error-or-result")
						judgeErr(err)
						outcome = vC10Outcome(err)
						if rep.msg != nil && !rep.nonwire {
							if rr := rep.ref.GetRecord(); rr != nil && string(rr.GetKey()) != string(key) {
								interesting = true
								c.Check(err != nil && rec == nil, "other-key-record-rejected", "GetValue(%q) accepted a reply whose record is for key %q (err=%v)", key, rr.GetKey(), err)
								outcome += "/otherkey"
							}
							if err == nil {
								c.Check(rec == nil || string(rec.GetKey()) == string(key), "other-key-record-rejected", "GetValue(%q) returned a record for key %q", key, rec.GetKey())
								vC10CheckPeers(c, call, "closer", rep.ref.GetCloserPeers(), peers)
							} else {
								c.Check(rec == nil && peers == nil, "returns-error-or-result", "GetValue returned both an error and results")
							}
						}
					} else {
						outcome = "panic"
					}
				case "GetClosestPeers":
					var peers []*peer.AddrInfo
					var err error
					if vC10Guard(c, call, rep, func() { peers, err = pm.GetClosestPeers(ctx, remote, peer.ID(key)) }) {
						c.Clause("returns-error-or-result")
						judgeErr(err)
						outcome = vC10Outcome(err)
						if rep.msg != nil && !rep.nonwire && err == nil {
							vC10CheckPeers(c, call, "closer", rep.ref.GetCloserPeers(), peers)
						}
					} else {
						outcome = "panic"
					}
				case "GetProviders":
					var provs, peers []*peer.AddrInfo
					var err error
					if vC10Guard(c, call, rep, func() { provs, peers, err = pm.GetProviders(ctx, remote, mh.Multihash(key)) }) {
						c.Clause("returns-error-or-result")
						judgeErr(err)
						outcome = vC10Outcome(err)
						if rep.msg != nil && !rep.nonwire && err == nil {
							vC10CheckPeers(c, call, "providers", rep.ref.GetProviderPeers(), provs)
							vC10CheckPeers(c, call, "closer", rep.ref.GetCloserPeers(), peers)
						}
					} else {
						outcome = "panic"
					}
				case "Ping":
					var err error
					if vC10Guard(c, call, rep, func() { err = pm.Ping(ctx, remote) }) {
						c.Clause("returns-error-or-result")
						judgeErr(err)
						outcome = vC10Outcome(err)
						if rep.msg != nil && !rep.nonwire && rep.msg.GetType() != Message_PING {
							c.Obs("ping_wrong_type_replies", 1)
							if err != nil {
								c.Obs("ping_wrong_type_rejected", 1)
							}
						}
					} else {
						outcome = "panic"
					}
				default: // PutProvider, PutProviderAddrs: fire-and-forget, the remote never answers
					self := peer.AddrInfo{ID: vC10PeerID(r)}
					for j := r.Intn(4); j > 0; j-- {
						a, _ := vC10Decode(vC10ValidAddr(r))
						self.Addrs = append(self.Addrs, a)
					}
					var err error
					rep = vC10Reply{class: "none"}
					okc := vC10Guard(c, call, rep, func() {
						if call == "PutProvider" {
							err = pm.PutProvider(ctx, remote, mh.Multihash(key), &vC10Host{id: self.ID, addrs: self.Addrs})
						} else {
							err = pm.PutProviderAddrs(ctx, remote, mh.Multihash(key), self)
						}
					})
					if okc {
						c.Clause("returns-error-or-result")
						outcome = vC10Outcome(err)
						if len(self.Addrs) > 0 {
							c.Check((err != nil) == (snd.msgErr != nil), "sender-error-propagates", "%s: sender error %v, call returned %v", call, snd.msgErr, err)
							if m := snd.gotMsg; m != nil {
								// egress sanity: the single provider entry is this node, within the record budget
								pp := m.GetProviderPeers()
								okp := len(pp) == 1 && string(pp[0].GetId()) == string(self.ID) && proto.Size(pp[0]) <= MaxPeerRecordSize
								c.Check(okp, "peer-record-bounded", "%s sent %d provider entries / size %d", call, len(pp), proto.Size(m))
							}
						} else {
							c.Check(err != nil && snd.gotMsg == nil, "returns-error-or-result", "%s without addresses: err=%v, message sent=%v", call, err, snd.gotMsg != nil)
						}
					} else {
						outcome = "panic"
					}
				}
				cls := rep.class
				trail = append(trail, call+":"+cls+"="+outcome)
				c.Logf("%s <- %s => %s", call, rep.class, outcome)
				if strings.Contains(cls, "over-budget") || strings.Contains(cls, "list") || strings.Contains(cls, "bytes") || strings.Contains(cls, "otherkeyrec") {
					interesting = true
				}
			}
			c.Set("calls", trail)
			if interesting {
				h := sha256.Sum256([]byte(strings.Join(trail, ";")))
				c.Nontrivial(fmt.Sprintf("%x", h[:8]))
			}
		})
}

func vC10Outcome(err error) string {
	if err != nil {
		return "err"
	}
	return "ok"
}
