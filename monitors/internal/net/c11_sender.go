//go:build verif

package net

// C11 — every RPC reply is matched to its own request.
//
// The real messageSenderImpl runs over fake streams: Host.StreamFn creates an outbound stream
// pair per NewStream call, wraps the local end in a logging network.Stream and hands the remote
// end to a scripted remote goroutine. Requests carry a unique id in Message.Key; the remote
// echoes the id in its reply and stamps every reply frame with a serial number
// (ClusterLevelRaw), so a returned message names the exact frame, stream and request
// transmission it answers. The remote writes exactly one frame per request that expects one
// and never answers ADD_PROVIDER (pairing is positional per stream: DESIGN C11 FA).
//
// Two variants: `bubble` (virtual time, exact 10 s read timeout) and the real-time twin
// `TestVerifRace_C11_twin` (read timeout shrunk to 60 ms, -race build), whose verdict uses
// logical matching only.

import (
	"context"
	"crypto/sha256"
	"errors"
	"fmt"
	"sort"
	"strings"
	"sync"
	"testing"
	"testing/synctest"
	"time"

	"github.com/libp2p/go-libp2p/core/network"
	"github.com/libp2p/go-libp2p/core/peer"
	"github.com/libp2p/go-libp2p/core/protocol"
	"google.golang.org/protobuf/encoding/protowire"
	"google.golang.org/protobuf/proto"

	"github.com/libp2p/go-libp2p-kad-dht/internal/verif/vh"
	"github.com/libp2p/go-libp2p-kad-dht/internal/verif/vsim"
	pb "github.com/libp2p/go-libp2p-kad-dht/pb"
)

type vC11CallKey struct{}

// vC11Beh is the remote's reaction to one request it read (that expects a reply).
type vC11Beh struct {
	Kind  string        // prompt delay silent reset close garbage-proto garbage-len partial-silent partial-close
	Delay time.Duration // for delay
	Hook  string        // "", cancel-on-read, cancel-after-reply, disc-on-read, disc-after-reply
}

func (b vC11Beh) String() string {
	s := b.Kind
	if b.Kind == "delay" {
		s += "(" + b.Delay.String() + ")"
	}
	if b.Hook != "" {
		s += "+" + b.Hook
	}
	return s
}

type vC11Write struct {
	seq     int64
	vt      time.Time
	id      string
	expects bool
	pos     int // index among the reply-expecting requests written on the stream (-1 if !expects)
	failed  bool
	st      *vC11Stream
	done    int64 // seq at which the exchange ended on the stream (reply consumed / client reset or close); 0 = outstanding
}

type vC11Frame struct {
	serial      int32
	id          string
	st          *vC11Stream
	ansPos      int // index of the reply-expecting request (as read by the remote on this stream) it answers
	endOff      int64
	seq         int64
	vt          time.Time
	garbage     bool
	undeliv     bool
	consumedSeq int64
}

// vC11Stream is the logging local end handed to the message sender.
type vC11Stream struct {
	*vsim.Stream
	hs  *vC11Harness
	p   *vC11Peer
	no  int
	end *vsim.End

	// guarded by hs.mu
	openSeq       int64
	clientReset   int64 // seq of the first client Reset / Close (0: open)
	closed        bool  // ended by Close rather than Reset
	writes        []*vC11Write
	nExpect       int
	frames        []*vC11Frame
	inEnd         int64 // bytes the remote wrote
	consumed      int64 // bytes the client read
	killed        bool
	opener        string // id of the call whose context NewStream was given
	readsByRemote int    // reply-expecting requests read by the remote
}

type vC11Peer struct {
	id      peer.ID
	name    string
	script  []vC11Beh
	sscript []string // per NewStream: ok refuse refuse-slow slow-ok reset-on-open dead-on-open
	// guarded by hs.mu
	streams     []*vC11Stream
	nNew        int
	nReq        int
	disconnects int
	maxOpen     int
	orphaned    bool
	opening     *vC11Stream // stream being registered by newStream (for orphanSig)
}

type vC11Call struct {
	id        string
	caller    int
	p         *vC11Peer
	message   bool // SendMessage
	cancel    context.CancelFunc
	ctxEnd    time.Time // when its ctx ended (cancel invoked by the harness or deadline), zero if never
	hasCtxEnd bool
	startSeq  int64
	retSeq    int64
	err       error
}

type vC11Harness struct {
	c       *vh.Case
	h       *vsim.Host
	m       pb.MessageSenderWithDisconnect
	bubble  bool
	timeout time.Duration
	done    chan struct{}
	wg      sync.WaitGroup // remote goroutines
	discCtx context.Context

	mu     sync.Mutex
	seq    int64
	serial int32
	peers  map[peer.ID]*vC11Peer
	order  []*vC11Peer
	calls  map[string]*vC11Call
	frames map[int32]*vC11Frame
	byID   map[string][]*vC11Write
	trace  []string
	onRead func(id string) // called (outside the lock) when the remote has read a request
	sig    string          // signature override for the stream-discipline clauses (forced schedules)
}

// orphanSig recognises the known defect "sender orphaned by its cancelled creator" behind a
// second open stream (signature only; the verdict does not depend on it): some call to the
// peer ended with a context error without transmitting anything, started before a still-open
// stream was opened and returned after the call that opened it had started. hs.mu held.
func (hs *vC11Harness) orphanSig(p *vC11Peer) string {
	if p.orphaned {
		return "orphaned-sender" // two sender generations coexist from the first orphaning on: consequences
	}
	cand := p.streams
	if p.opening != nil {
		cand = append(append([]*vC11Stream(nil), cand...), p.opening) // the orphan's stream may be the one being opened
	}
	for _, o := range cand {
		if o.clientReset != 0 {
			continue
		}
		openerStart := o.openSeq
		if oc := hs.calls[o.opener]; oc != nil {
			openerStart = oc.startSeq
		}
		for _, x := range hs.calls {
			if x.p != p || len(hs.byID[x.id]) != 0 || x.startSeq >= o.openSeq {
				continue
			}
			returnedCancelled := x.retSeq > openerStart && (errors.Is(x.err, context.Canceled) || errors.Is(x.err, context.DeadlineExceeded))
			// the harness may see the return of the cancelled creator only later
			inFlightCancelled := x.retSeq == 0 && x.hasCtxEnd && !time.Now().Before(x.ctxEnd)
			if returnedCancelled || inFlightCancelled {
				p.orphaned = true
				return "orphaned-sender"
			}
		}
	}
	return ""
}

// check evaluates a stream-discipline clause; in forced schedules the violation carries the
// schedule's signature so that a known finding can be told apart from a new one.
func (hs *vC11Harness) check(ok bool, clause, format string, args ...any) bool {
	return hs.checkP(ok, clause, nil, format, args...)
}

// checkP is check for violations that may be the footprint of an orphaned sender of peer p.
func (hs *vC11Harness) checkP(ok bool, clause string, p *vC11Peer, format string, args ...any) bool {
	hs.c.Clause(clause)
	if !ok {
		sig := clause
		if hs.sig != "" {
			sig = hs.sig
		} else if p != nil {
			if o := hs.orphanSig(p); o != "" {
				sig = o
			}
		}
		hs.c.FailSig(clause, sig, format, args...)
	}
	return ok
}

func (hs *vC11Harness) logf(format string, args ...any) {
	// hs.mu held
	if len(hs.trace) < 300 {
		hs.trace = append(hs.trace, fmt.Sprintf("#%d ", hs.seq)+fmt.Sprintf(format, args...))
	}
}

func (hs *vC11Harness) sleep(d time.Duration) {
	if d <= 0 {
		return
	}
	t := time.NewTimer(d)
	defer t.Stop()
	select {
	case <-t.C:
	case <-hs.done:
	}
}

// ---- logging stream --------------------------------------------------------------------------

func vC11ParseFrame(b []byte) (id string, typ pb.Message_MessageType, ok bool) {
	n, k := protowire.ConsumeVarint(b)
	if k < 0 || int(n) != len(b)-k {
		return "", 0, false
	}
	var m pb.Message
	if err := proto.Unmarshal(b[k:], &m); err != nil {
		return "", 0, false
	}
	return string(m.GetKey()), m.GetType(), true
}

func (s *vC11Stream) Write(b []byte) (int, error) {
	hs := s.hs
	id, typ, ok := vC11ParseFrame(b)
	hs.mu.Lock()
	hs.seq++
	w := &vC11Write{seq: hs.seq, vt: time.Now(), id: id, expects: ok && typ != pb.Message_ADD_PROVIDER, pos: -1, st: s}
	if !ok {
		hs.c.Fail("harness-unparsed-write", "client write of %d bytes on %s is not one whole frame", len(b), s.name())
	}
	kill := false
	if s.clientReset != 0 {
		hs.c.Check(false, "no-write-after-reset", "request %s written on %s after the sender itself reset/closed it (#%d)", id, s.name(), s.clientReset)
	} else {
		hs.c.Clause("no-write-after-reset")
	}
	// exchange windows: no request may be written to a peer while another exchange with it is outstanding
	for _, o := range s.p.streams {
		if o.clientReset != 0 {
			continue
		}
		for _, ow := range o.writes {
			if !ow.expects || ow.done != 0 || ow.failed {
				continue
			}
			oc := hs.calls[ow.id]
			returned := oc == nil || oc.retSeq != 0 || ow.id == id
			switch {
			case o == s && returned:
				hs.check(false, "failed-exchange-resets-stream", "request %s written on %s although the exchange of %s on it (#%d) ended without its reply being read: the stream was reused, not reset", id, s.name(), ow.id, ow.seq)
				kill = true
			case o == s:
				hs.check(false, "exchanges-serialized", "request %s written on %s while the exchange of %s (#%d, call still in flight) is outstanding on the same stream", id, s.name(), ow.id, ow.seq)
				kill = true
			case s.p.disconnects == 0:
				hs.checkP(false, "exchanges-serialized", s.p, "request %s written on %s while the exchange of %s (#%d) is outstanding on %s of the same peer (no OnDisconnect so far)", id, s.name(), ow.id, ow.seq, o.name())
			}
		}
	}
	hs.c.Clause("exchanges-serialized")
	if w.expects {
		w.pos = s.nExpect
		s.nExpect++
	}
	s.writes = append(s.writes, w)
	hs.byID[id] = append(hs.byID[id], w)
	hs.logf("client write %s on %s", id, s.name())
	if kill && hs.bubble && !s.killed {
		s.killed = true
	} else {
		kill = false
	}
	hs.mu.Unlock()
	n, err := s.Stream.Write(b)
	if err != nil {
		hs.mu.Lock()
		w.failed = true
		hs.mu.Unlock()
	}
	if kill {
		// a second read is about to queue behind the pending one on msgio's mutex, which would
		// stall the bubble: the verdict is in, unwind by breaking the stream from the remote side
		s.end.Reset()
	}
	return n, err
}

func (s *vC11Stream) Read(b []byte) (int, error) {
	n, err := s.Stream.Read(b)
	hs := s.hs
	hs.mu.Lock()
	hs.seq++
	s.consumed += int64(n)
	for _, f := range s.frames {
		if f.consumedSeq == 0 && f.endOff <= s.consumed {
			f.consumedSeq = hs.seq
			if f.garbage {
				continue // no reply: the exchange stays outstanding until the sender resets the stream
			}
			for _, w := range s.writes {
				if w.expects && w.pos == f.ansPos && w.done == 0 {
					w.done = hs.seq
				}
			}
		}
	}
	hs.mu.Unlock()
	return n, err
}

func (s *vC11Stream) end_(closed bool) {
	hs := s.hs
	hs.mu.Lock()
	hs.seq++
	if s.clientReset == 0 {
		s.clientReset = hs.seq
		s.closed = closed
		for _, w := range s.writes {
			if w.done == 0 {
				w.done = hs.seq
			}
		}
		if closed {
			hs.logf("client close %s", s.name())
		} else {
			hs.logf("client reset %s", s.name())
		}
	}
	hs.mu.Unlock()
}

func (s *vC11Stream) Reset() error {
	s.end_(false)
	return s.Stream.Reset()
}

func (s *vC11Stream) ResetWithError(network.StreamErrorCode) error { return s.Reset() }

func (s *vC11Stream) Close() error {
	s.end_(true)
	return s.Stream.Close()
}

func (s *vC11Stream) name() string { return fmt.Sprintf("%s/s%d", s.p.name, s.no) }

// ---- host side -------------------------------------------------------------------------------

func (hs *vC11Harness) newStream(ctx context.Context, p peer.ID, protos []protocol.ID) (network.Stream, error) {
	if err := ctx.Err(); err != nil {
		return nil, err
	}
	hs.mu.Lock()
	vp := hs.peers[p]
	if vp == nil {
		hs.mu.Unlock()
		return nil, errors.New("vC11: no route to peer")
	}
	k := vp.nNew
	vp.nNew++
	beh := "ok"
	if k < len(vp.sscript) {
		beh = vp.sscript[k]
	}
	hs.seq++
	hs.logf("NewStream(%s) #%d: %s", vp.name, k, beh)
	hs.mu.Unlock()
	hs.c.Obs("newstream_calls", 1)
	switch beh {
	case "refuse":
		return nil, errors.New("vC11: stream refused")
	case "refuse-slow", "slow-ok":
		d := 3 * time.Second
		if !hs.bubble {
			d = 8 * time.Millisecond
		}
		t := time.NewTimer(d)
		select {
		case <-t.C:
		case <-ctx.Done():
			t.Stop()
			return nil, ctx.Err()
		}
		if beh == "refuse-slow" {
			return nil, errors.New("vC11: stream refused (slowly)")
		}
	}
	local, remote := hs.h.NewOutboundStream(p, protos[0])
	st := &vC11Stream{Stream: local, hs: hs, p: vp, end: remote}
	st.opener, _ = ctx.Value(vC11CallKey{}).(string)
	hs.mu.Lock()
	hs.seq++
	st.openSeq = hs.seq
	st.no = len(vp.streams)
	open := 0
	var names []string
	for _, o := range vp.streams {
		if o.clientReset == 0 {
			open++
			names = append(names, o.name())
		}
	}
	// every stream of an earlier sender generation may still be open; within one generation a
	// new stream is opened only after the previous one was reset or closed
	vp.opening = st
	hs.checkP(open <= vp.disconnects, "one-open-stream", vp, "NewStream(%s) while %d outbound stream(s) to it are still open (%v) and only %d OnDisconnect call(s) were made", vp.name, open, names, vp.disconnects)
	vp.opening = nil
	if open+1 > vp.maxOpen {
		vp.maxOpen = open + 1
	}
	vp.streams = append(vp.streams, st)
	hs.mu.Unlock()
	hs.c.Obs("streams_opened", 1)
	if beh == "dead-on-open" {
		remote.Reset() // before the stream is handed out: the first write on it fails
		return st, nil
	}
	hs.wg.Add(1)
	go hs.serve(st, beh == "reset-on-open")
	return st, nil
}

// serve plays the remote peer on one stream.
func (hs *vC11Harness) serve(st *vC11Stream, resetOnOpen bool) {
	defer hs.wg.Done()
	if resetOnOpen {
		st.end.Reset()
		return
	}
	for {
		var req pb.Message
		if err := st.end.ReadMsg(&req); err != nil {
			return
		}
		id := string(req.GetKey())
		hs.mu.Lock()
		hs.seq++
		if req.GetType() == pb.Message_ADD_PROVIDER {
			hs.logf("remote %s read message %s (never answered)", st.name(), id)
			hs.mu.Unlock()
			hs.c.Obs("messages_read_by_remote", 1)
			continue
		}
		beh := vC11Beh{Kind: "prompt"}
		if st.p.nReq < len(st.p.script) {
			beh = st.p.script[st.p.nReq]
		}
		st.p.nReq++
		ansPos := st.readsByRemote
		st.readsByRemote++
		hs.logf("remote %s read request %s -> %v", st.name(), id, beh)
		hs.mu.Unlock()
		hs.c.Obs("requests_read_by_remote", 1)
		hs.c.Obs("remote_"+beh.Kind, 1)
		if hs.onRead != nil {
			hs.onRead(id)
		}
		switch beh.Hook {
		case "cancel-on-read":
			hs.cancelCall(id)
		case "disc-on-read":
			hs.disconnect(st.p)
		}
		reply := func() bool {
			m := &pb.Message{Type: req.GetType(), Key: req.GetKey()}
			hs.mu.Lock()
			hs.serial++
			m.ClusterLevelRaw = hs.serial
			b, _ := proto.Marshal(m)
			frame := protowire.AppendVarint(nil, uint64(len(b)))
			frame = append(frame, b...)
			hs.seq++
			f := &vC11Frame{serial: hs.serial, id: id, st: st, ansPos: ansPos, seq: hs.seq, vt: time.Now()}
			st.inEnd += int64(len(frame))
			f.endOff = st.inEnd
			st.frames = append(st.frames, f)
			hs.frames[f.serial] = f
			hs.logf("remote %s writes reply frame %d to %s", st.name(), f.serial, id)
			hs.mu.Unlock()
			if _, err := st.end.Write(frame); err != nil {
				hs.mu.Lock()
				f.undeliv = true
				hs.mu.Unlock()
				hs.c.Obs("late_replies_hit_reset_stream", 1)
				return false
			}
			hs.c.Obs("reply_frames_written", 1)
			return true
		}
		raw := func(b []byte, counts bool) bool {
			hs.mu.Lock()
			hs.seq++
			if counts {
				hs.serial++
				f := &vC11Frame{serial: hs.serial, id: id, st: st, ansPos: ansPos, seq: hs.seq, vt: time.Now(), garbage: true}
				st.inEnd += int64(len(b))
				f.endOff = st.inEnd
				st.frames = append(st.frames, f)
				hs.frames[f.serial] = f
			} else {
				st.inEnd += int64(len(b))
			}
			hs.mu.Unlock()
			_, err := st.end.Write(b)
			hs.c.Obs("garbage_writes", 1)
			return err == nil
		}
		switch beh.Kind {
		case "prompt":
			if !reply() {
				return
			}
		case "delay":
			hs.sleep(beh.Delay)
			if !reply() {
				return
			}
		case "silent":
			// nothing: the next read fails once the sender resets the stream
		case "reset":
			st.end.Reset()
			return
		case "close":
			st.end.Close()
		case "garbage-proto":
			// one frame whose payload is no protobuf message: an unterminated varint field
			if !raw([]byte{3, 0x08, 0xff, 0xff}, true) {
				return
			}
		case "garbage-len":
			// a length prefix beyond network.MessageSizeMax
			if !raw([]byte{0xff, 0xff, 0xff, 0xff, 0x0f, 1, 2, 3}, true) {
				return
			}
		case "partial-silent":
			if !raw([]byte{100, 0x08, 0x01, 0x12}, true) {
				return
			}
		case "partial-close":
			if !raw([]byte{100, 0x08, 0x01, 0x12}, true) {
				return
			}
			st.end.Close()
		}
		switch beh.Hook {
		case "cancel-after-reply":
			hs.cancelCall(id)
		case "disc-after-reply":
			hs.disconnect(st.p)
		}
	}
}

func (hs *vC11Harness) cancelCall(id string) {
	hs.mu.Lock()
	cl := hs.calls[id]
	if cl != nil && !cl.hasCtxEnd {
		cl.hasCtxEnd = true
		cl.ctxEnd = time.Now()
	}
	hs.mu.Unlock()
	if cl != nil {
		cl.cancel()
		hs.c.Obs("cancellations", 1)
	}
}

func (hs *vC11Harness) disconnect(p *vC11Peer) {
	hs.mu.Lock()
	hs.seq++
	p.disconnects++
	hs.logf("OnDisconnect(%s)", p.name)
	hs.mu.Unlock()
	hs.m.OnDisconnect(hs.discCtx, p.id)
	hs.c.Obs("ondisconnect_calls", 1)
}

// ---- scenario ---------------------------------------------------------------------------------

type vC11Scenario struct {
	Callers  int
	Peers    int
	PerCall  int // calls per caller
	Scripts  [][]vC11Beh
	SScripts [][]string
	Discs    []time.Duration // OnDisconnect instants (peer chosen round-robin)
	Forced   *vC11Forced
	Burst    bool // all callers start at once on fresh senders, 30% pre-cancelled contexts, no think time
}

// vC11Forced is a forced interleaving: caller A's context ends exactly when it first waits on
// the per-peer lock (its Done() is first consulted there), after caller B — started at that
// very instant — has taken the lock and has its request read by the remote.
type vC11Forced struct {
	Creator    bool // A is the caller that creates the peer's sender (fresh peer); else a sender exists
	AMessage   bool
	BDelay     time.Duration
	Later      int  // callers after A returned
	Concurrent bool // later callers run concurrently
	LaterThink time.Duration
	DiscAtEnd  bool
}

// vC11TrigCtx is a context whose cancellation is placed at a boundary event: the first time
// Done() is consulted it runs fire() and is cancelled from then on.
type vC11TrigCtx struct {
	context.Context
	once sync.Once
	fire func()
	ch   chan struct{}
}

func (t *vC11TrigCtx) Done() <-chan struct{} {
	t.once.Do(func() {
		t.fire()
		close(t.ch)
	})
	return t.ch
}

func (t *vC11TrigCtx) Err() error {
	select {
	case <-t.ch:
		return context.Canceled
	default:
		return nil
	}
}

func vC11GenScenario(c *vh.Case, bubble bool, T time.Duration) vC11Scenario {
	r := c.R
	sc := vC11Scenario{Callers: 1 + r.Intn(8), Peers: 1 + r.Intn(3), PerCall: 1 + r.Intn(5)}
	unit := time.Second
	if !bubble {
		unit = T / 10 // 6 ms
	}
	maxSlow := 6
	if !bubble {
		maxSlow = 3
	}
	faulty := []float64{0, 0.2, 0.5}[r.Intn(3)]
	for p := 0; p < sc.Peers; p++ {
		var s []vC11Beh
		slow := 0
		for i := 0; i < 60; i++ {
			b := vC11Beh{Kind: "prompt"}
			if r.Float64() < faulty {
				switch x := r.Intn(20); {
				case x < 4:
					b = vC11Beh{Kind: "delay", Delay: time.Duration(1+r.Intn(9)) * unit} // below the timeout
				case x < 7:
					b = vC11Beh{Kind: "delay", Delay: T + time.Duration(1+r.Intn(15))*unit} // above
					if !bubble {
						b.Delay = 3*T + time.Duration(r.Intn(10))*unit
					}
				case x < 9:
					// at the boundary (exact only in virtual time)
					b = vC11Beh{Kind: "delay", Delay: T + time.Duration(r.Intn(3)-1)*time.Millisecond}
				case x < 11:
					b.Kind = "silent"
				case x < 13:
					b.Kind = "reset"
				case x < 14:
					b.Kind = "close"
				case x < 15:
					b.Kind = "garbage-proto"
				case x < 16:
					b.Kind = "garbage-len"
				case x < 17:
					b.Kind = "partial-silent"
				case x < 18:
					b.Kind = "partial-close"
				default:
					b = vC11Beh{Kind: "delay", Delay: time.Duration(1+r.Intn(5)) * unit}
				}
				if b.Kind == "silent" || b.Kind == "partial-silent" || (b.Kind == "delay" && b.Delay >= T-time.Millisecond) {
					slow++
					if slow > maxSlow {
						b = vC11Beh{Kind: "prompt"}
					}
				}
			}
			if r.Intn(12) == 0 {
				b.Hook = []string{"cancel-on-read", "cancel-after-reply", "disc-on-read", "disc-after-reply"}[r.Intn(4)]
			}
			s = append(s, b)
		}
		sc.Scripts = append(sc.Scripts, s)
		var ss []string
		for i := 0; i < 40; i++ {
			x := "ok"
			if r.Float64() < faulty/2 {
				x = []string{"refuse", "refuse-slow", "slow-ok", "reset-on-open", "dead-on-open"}[r.Intn(5)]
			}
			ss = append(ss, x)
		}
		if faulty > 0 && r.Intn(4) == 0 {
			// a run of 2-3 streams that are already reset when they are handed out (the first write on each fails):
			// a call then sees its first attempt and its single retry fail at the write
			at := r.Intn(12)
			for j, k := 0, 2+r.Intn(2); j < k; j++ {
				ss[at+j] = "dead-on-open"
			}
		}
		sc.SScripts = append(sc.SScripts, ss)
	}
	for i := r.Intn(4); i > 0 && r.Intn(2) == 0; i-- {
		sc.Discs = append(sc.Discs, time.Duration(r.Intn(400))*unit/10)
	}
	if r.Intn(6) == 0 {
		sc.Burst = true
		sc.Callers = 4 + r.Intn(5)
	}
	return sc
}

var vC11ReqTypes = []pb.Message_MessageType{pb.Message_FIND_NODE, pb.Message_GET_VALUE, pb.Message_GET_PROVIDERS, pb.Message_PING, pb.Message_PUT_VALUE}

// vC11Run executes one scenario against a fresh messageSenderImpl and judges it.
func vC11Run(c *vh.Case, sc vC11Scenario, bubble bool) {
	r := c.R
	T := dhtReadMessageTimeout
	unit := time.Second
	if !bubble {
		unit = T / 10
	}
	self := vsim.PeerID("c11self", c.Idx)
	hs := &vC11Harness{c: c, h: vsim.NewHost(self), bubble: bubble, timeout: T, done: make(chan struct{}),
		peers: map[peer.ID]*vC11Peer{}, calls: map[string]*vC11Call{}, frames: map[int32]*vC11Frame{}, byID: map[string][]*vC11Write{}}
	defer hs.h.Close()
	hs.h.StreamFn = hs.newStream
	var discCancel context.CancelFunc
	hs.discCtx, discCancel = context.WithCancel(context.Background())
	defer discCancel()
	for i := 0; i < sc.Peers; i++ {
		p := &vC11Peer{id: vsim.PeerID(fmt.Sprintf("c11p%d", c.Idx), i), name: fmt.Sprintf("p%d", i), script: sc.Scripts[i], sscript: sc.SScripts[i]}
		hs.peers[p.id] = p
		hs.order = append(hs.order, p)
	}
	hs.m = NewMessageSenderImpl(hs.h, []protocol.ID{"/verif/kad/1.0.0"})
	if sc.Forced != nil && sc.Forced.Creator {
		hs.sig = "orphaned-sender"
	}

	// pre-draw every caller's plan (the PRNG is not shared between goroutines)
	type plan struct {
		peer    int
		message bool
		typ     pb.Message_MessageType
		think   time.Duration
		ctxKind string // none precancelled timeout cancel-at
		d       time.Duration
	}
	plans := make([][]plan, sc.Callers)
	for ci := range plans {
		for j := 0; j < sc.PerCall; j++ {
			pl := plan{peer: r.Intn(sc.Peers), message: r.Intn(5) == 0, typ: vC11ReqTypes[r.Intn(len(vC11ReqTypes))], think: time.Duration(r.Intn(30)) * unit / 10}
			switch x := r.Intn(20); {
			case x < 12:
				pl.ctxKind = "none"
			case x < 13:
				pl.ctxKind = "precancelled"
			case x < 16:
				pl.ctxKind = "timeout"
				pl.d = []time.Duration{time.Millisecond, T / 2, T, T + time.Millisecond, T - time.Millisecond, 3 * T / 2, 2 * T}[r.Intn(7)]
			default:
				pl.ctxKind = "cancel-at"
				pl.d = []time.Duration{0, T / 3, T, T + time.Millisecond, 2*T + time.Millisecond, time.Duration(r.Intn(250)) * unit / 10}[r.Intn(6)]
			}
			if sc.Burst {
				pl.think = 0
				if r.Intn(10) < 3 {
					pl.ctxKind = "precancelled"
				}
			}
			plans[ci] = append(plans[ci], pl)
		}
	}

	if sc.Forced != nil {
		hs.driveForced(sc)
	}
	var cwg sync.WaitGroup
	for ci := range plans {
		if sc.Forced != nil {
			break
		}
		cwg.Add(1)
		go func(ci int) {
			defer cwg.Done()
			for j, pl := range plans[ci] {
				hs.sleep(pl.think)
				id := fmt.Sprintf("c%d-%d", ci, j)
				vp := hs.order[pl.peer]
				ctx, cancel := context.WithCancel(context.WithValue(context.Background(), vC11CallKey{}, id))
				cl := &vC11Call{id: id, caller: ci, p: vp, message: pl.message, cancel: cancel}
				var tm *time.Timer
				switch pl.ctxKind {
				case "precancelled":
					cancel()
					cl.hasCtxEnd, cl.ctxEnd = true, time.Now()
				case "timeout":
					var c2 context.CancelFunc
					ctx, c2 = context.WithTimeout(ctx, pl.d)
					defer c2()
					cl.hasCtxEnd, cl.ctxEnd = true, time.Now().Add(pl.d)
				}
				hs.mu.Lock()
				hs.seq++
				cl.startSeq = hs.seq
				hs.calls[id] = cl
				hs.logf("call %s -> %s (%s, ctx %s %v)", id, vp.name, map[bool]string{true: "SendMessage", false: "SendRequest"}[pl.message], pl.ctxKind, pl.d)
				hs.mu.Unlock()
				if pl.ctxKind == "cancel-at" {
					tm = time.AfterFunc(pl.d, func() { hs.cancelCall(id) })
				}
				var resp *pb.Message
				var err error
				if pl.message {
					m := pb.NewMessage(pb.Message_ADD_PROVIDER, []byte(id), 0)
					err = hs.m.SendMessage(ctx, vp.id, m)
				} else {
					m := pb.NewMessage(pl.typ, []byte(id), 0)
					resp, err = hs.m.SendRequest(ctx, vp.id, m)
				}
				if tm != nil {
					tm.Stop()
				}
				hs.judgeReturn(cl, resp, err)
				cancel()
			}
		}(ci)
	}
	// OnDisconnect at PRNG instants
	var dwg sync.WaitGroup
	for i, d := range sc.Discs {
		dwg.Add(1)
		go func(i int, d time.Duration) {
			defer dwg.Done()
			hs.sleep(d)
			hs.disconnect(hs.order[i%len(hs.order)])
		}(i, d)
	}
	cwg.Wait()
	dwg.Wait()

	// ---- rest: all calls returned; wait for the asynchronous invalidations
	rest := true
	if bubble {
		synctest.Wait()
	} else {
		rest = false
		for i := 0; i < 2000; i++ {
			busy := false
			for _, g := range vh.Census() {
				if strings.Contains(g.CreatedBy, "OnDisconnect") {
					busy = true
				}
			}
			if !busy {
				rest = true
				break
			}
			time.Sleep(2 * time.Millisecond)
		}
	}
	hs.mu.Lock()
	if rest {
		for _, p := range hs.order {
			open := 0
			var names []string
			for _, s := range p.streams {
				if s.clientReset == 0 {
					open++
					names = append(names, s.name())
				}
			}
			hs.checkP(open <= 1, "one-open-stream", p, "at rest %d outbound streams to %s are open (%v) after %d OnDisconnect call(s)", open, p.name, names, p.disconnects)
		}
	} else {
		c.Obs("rest_not_reached", 1)
	}
	// descriptor, evidence
	nOK, nErr, nStreams, nDisc, maxOpen := 0, 0, 0, 0, 0
	var sigParts []string
	ids := make([]string, 0, len(hs.calls))
	for id := range hs.calls {
		ids = append(ids, id)
	}
	sort.Strings(ids)
	for _, id := range ids {
		cl := hs.calls[id]
		if cl.err == nil {
			nOK++
		} else {
			nErr++
		}
		sigParts = append(sigParts, fmt.Sprintf("%s:%d:%v", id, len(hs.byID[id]), cl.err == nil))
	}
	failedExchanges := 0
	for _, p := range hs.order {
		nStreams += len(p.streams)
		nDisc += p.disconnects
		if p.maxOpen > maxOpen {
			maxOpen = p.maxOpen
		}
		for _, s := range p.streams {
			sigParts = append(sigParts, fmt.Sprintf("%s:%d:%d", s.name(), len(s.writes), len(s.frames)))
			if s.clientReset != 0 && !s.closed {
				failedExchanges++
			}
		}
	}
	trace := hs.trace
	hs.mu.Unlock()
	c.Obs("calls_ok", nOK)
	c.Obs("calls_failed", nErr)
	c.ObsMax("open_streams_per_peer", maxOpen)
	c.Obs("streams_reset_by_sender", failedExchanges)
	c.Set("callers", sc.Callers)
	c.Set("peers", sc.Peers)
	c.Set("calls_per_caller", sc.PerCall)
	c.Set("ondisconnect_timers", len(sc.Discs))
	c.Set("burst", sc.Burst)
	c.Set("streams", nStreams)
	c.Set("ok_failed", []int{nOK, nErr})
	for _, l := range trace {
		c.Logf("%s", l)
	}
	// non-trivial: concurrency on one peer or a failed exchange followed by further traffic
	if sc.Forced != nil {
		sigParts = append(sigParts, fmt.Sprintf("%+v", *sc.Forced))
	}
	if nOK > 0 && (failedExchanges > 0 || nDisc > 0 || sc.Forced != nil) && sc.Callers >= 2 {
		h := sha256.Sum256([]byte(strings.Join(sigParts, ";")))
		c.Nontrivial(fmt.Sprintf("%x", h[:8]))
	}

	// ---- teardown: end every remote goroutine and pending reader
	close(hs.done)
	hs.mu.Lock()
	var all []*vC11Stream
	for _, p := range hs.order {
		all = append(all, p.streams...)
	}
	hs.mu.Unlock()
	for _, s := range all {
		s.end.Reset()
	}
	hs.wg.Wait()
	discCancel()
	if bubble {
		synctest.Wait()
	}
}

// call performs one SendRequest / SendMessage and judges its return.
func (hs *vC11Harness) call(ctx context.Context, id string, vp *vC11Peer, message bool, note string) {
	ctx = context.WithValue(ctx, vC11CallKey{}, id)
	cl := &vC11Call{id: id, p: vp, message: message, cancel: func() {}}
	hs.mu.Lock()
	hs.seq++
	cl.startSeq = hs.seq
	hs.calls[id] = cl
	hs.logf("call %s -> %s (%s, %s)", id, vp.name, map[bool]string{true: "SendMessage", false: "SendRequest"}[message], note)
	hs.mu.Unlock()
	var resp *pb.Message
	var err error
	if message {
		err = hs.m.SendMessage(ctx, vp.id, pb.NewMessage(pb.Message_ADD_PROVIDER, []byte(id), 0))
	} else {
		resp, err = hs.m.SendRequest(ctx, vp.id, pb.NewMessage(pb.Message_FIND_NODE, []byte(id), 0))
	}
	hs.judgeReturn(cl, resp, err)
}

// driveForced runs the forced interleaving described by sc.Forced against peer 0.
func (hs *vC11Harness) driveForced(sc vC11Scenario) {
	f := sc.Forced
	vp := hs.order[0]
	bg := context.Background()
	if !f.Creator {
		hs.call(bg, "W-0", vp, false, "warm-up: the peer's sender exists") // consumes script entry 0
	}
	bSeen := make(chan struct{})
	var once sync.Once
	hs.onRead = func(id string) {
		if id == "B-0" {
			once.Do(func() { close(bSeen) })
		}
	}
	var bwg sync.WaitGroup
	trig := &vC11TrigCtx{Context: bg, ch: make(chan struct{})}
	trig.fire = func() {
		bwg.Add(1)
		go func() {
			defer bwg.Done()
			hs.call(bg, "B-0", vp, false, "started when A first consulted its context")
			once.Do(func() { close(bSeen) })
		}()
		<-bSeen // B holds the per-peer lock and the remote has read its request (or B is over)
	}
	hs.call(trig, "A-0", vp, f.AMessage, "context ends when first consulted")
	var lwg sync.WaitGroup
	for i := 0; i < f.Later; i++ {
		id := fmt.Sprintf("C-%d", i)
		if f.Concurrent {
			lwg.Add(1)
			go func() {
				defer lwg.Done()
				hs.call(bg, id, vp, false, "later caller")
			}()
		} else {
			hs.sleep(f.LaterThink)
			hs.call(bg, id, vp, false, "later caller")
		}
	}
	lwg.Wait()
	bwg.Wait()
	if f.DiscAtEnd {
		hs.disconnect(vp)
	}
}

// judgeReturn evaluates the per-call clauses at the instant the call returned.
func (hs *vC11Harness) judgeReturn(cl *vC11Call, resp *pb.Message, err error) {
	c := hs.c
	hs.mu.Lock()
	defer hs.mu.Unlock()
	hs.seq++
	cl.retSeq = hs.seq
	cl.err = err
	hs.logf("return %s: err=%v", cl.id, err)
	writes := hs.byID[cl.id]
	var used *vC11Write
	if cl.message {
		c.Check(resp == nil, "own-reply", "SendMessage returned a message")
		if err == nil {
			// the message was written without error on some stream
			for _, w := range writes {
				if !w.failed {
					used = w
				}
			}
			c.Check(used != nil, "message-written", "SendMessage(%s) returned nil but no write of it succeeded (%d writes)", cl.id, len(writes))
		}
	} else if err == nil {
		if resp == nil {
			c.Check(false, "own-reply", "SendRequest(%s) returned nil, nil", cl.id)
		} else if c.Check(string(resp.GetKey()) == cl.id, "own-reply", "SendRequest(%s) returned the reply to %q (frame %d)", cl.id, resp.GetKey(), resp.GetClusterLevelRaw()) {
			f := hs.frames[resp.GetClusterLevelRaw()]
			if c.Check(f != nil && !f.garbage && f.id == cl.id, "reply-from-carrying-transmission", "SendRequest(%s) returned frame %d, which the remote never wrote as a reply to it", cl.id, resp.GetClusterLevelRaw()) {
				for _, w := range writes {
					if w.st == f.st && w.expects && w.pos == f.ansPos {
						used = w
					}
				}
				c.Check(used != nil, "reply-from-carrying-transmission", "SendRequest(%s) returned frame %d written on %s as answer to request #%d of that stream, but the request was transmitted on %s", cl.id, f.serial, f.st.name(), f.ansPos, vC11WriteNames(writes))
				if hs.bubble && used != nil {
					late := f.vt.Sub(used.vt)
					c.Check(late <= hs.timeout, "late-reply-not-returned", "SendRequest(%s) returned frame %d written %v after the request was transmitted (read timeout %v)", cl.id, f.serial, late, hs.timeout)
					if cl.hasCtxEnd {
						c.Check(!f.vt.After(cl.ctxEnd), "late-reply-not-returned", "SendRequest(%s) returned frame %d written %v after its context had ended", cl.id, f.serial, f.vt.Sub(cl.ctxEnd))
					}
				}
			}
		}
	}
	// every transmission of this request that did not end with its own reply being returned is a
	// failed exchange: its stream must have been reset by now
	for _, w := range writes {
		if w == used {
			continue
		}
		if w.expects || w.failed {
			c.Check(w.st.clientReset != 0 && !w.st.closed, "failed-exchange-resets-stream", "call %s returned (err=%v): its transmission #%d on %s failed (write error=%v) but the sender has not reset that stream", cl.id, err, w.seq, w.st.name(), w.failed)
		}
	}
}

func vC11WriteNames(ws []*vC11Write) string {
	var out []string
	for _, w := range ws {
		out = append(out, fmt.Sprintf("%s#%d", w.st.name(), w.pos))
	}
	return strings.Join(out, ",")
}

var vC11Clauses = []string{"own-reply", "reply-from-carrying-transmission", "exchanges-serialized", "one-open-stream", "failed-exchange-resets-stream", "no-write-after-reset"}

func TestVerif_C11_bubble(t *testing.T) {
	vh.Run(t, vh.Spec{Prop: "C11", Unit: "bubble", Quick: 3000, Thorough: 150000, CostMs: 4, WallS: 60,
		Rule:    "virtual time, real 10 s read timeout: 1-8 callers x 1-3 peers x 1-5 calls each (SendRequest of 5 types, 20% SendMessage/ADD_PROVIDER), think times 0-3 s; per-peer remote script over the requests it reads (fault share 0/20/50%): prompt, delayed 1-9 s, delayed 10 s +/- 1 ms (boundary), delayed 11-25 s, silent, reset after reading, close, non-protobuf frame, over-long length prefix, truncated frame (+ silence or EOF); per-stream script: refused, slowly refused, slow, reset on open, already reset when handed out (runs of 2-3 such streams in a quarter of the faulty cases); contexts: none / pre-cancelled / deadline in {1 ms, 5 s, 10 s -/+ 1 ms, 15 s, 20 s} / cancelled at {0, 3.3 s, 10 s, 10 s + 1 ms, 20 s + 1 ms, PRNG}; boundary hooks cancel the caller or call OnDisconnect when the remote has read the request / written the reply; OnDisconnect timers; 1 case in 6 is a burst (4-8 callers start at once without think time, 30% pre-cancelled contexts); oracle on ids + frame serials + logging stream; non-trivial = >= 2 callers, >= 1 successful request and (>= 1 stream reset by the sender or >= 1 OnDisconnect); distinct by (per-call transmissions and outcome, per-stream writes/frames)",
		Clauses: append([]string{"late-reply-not-returned"}, vC11Clauses...)},
		func(c *vh.Case) {
			sc := vC11GenScenario(c, true, 10*time.Second)
			c.Bubble(t, 6*time.Hour, "sender-hang", func(t *testing.T) {
				vC11Run(c, sc, true)
			})
		})
}

func TestVerifRace_C11_twin(t *testing.T) {
	old := dhtReadMessageTimeout
	dhtReadMessageTimeout = 60 * time.Millisecond
	defer func() { dhtReadMessageTimeout = old }()
	vh.Run(t, vh.Spec{Prop: "C11", Unit: "twin", Quick: 400, Thorough: 16000, CostMs: 60, WallS: 120,
		Rule:    "real time, -race build, read timeout shrunk to 60 ms: same scenario generator as `bubble` with the time unit scaled (delays below = 6-54 ms, above = 180-240 ms, at most 3 timeout-class reactions per peer); no stream is broken by the harness, so a stream reused after a failed exchange delivers its late frame to the next exchange; verdict uses only ids, frame serials and the order of logged events, never durations; non-trivial as `bubble`",
		Clauses: vC11Clauses},
		func(c *vh.Case) {
			sc := vC11GenScenario(c, false, dhtReadMessageTimeout)
			vC11Run(c, sc, false)
		})
}

// TestVerif_C11_forced places a cancellation at a boundary no timer can hit: the instant a
// caller first waits for the per-peer lock.
func TestVerif_C11_forced(t *testing.T) {
	vh.Run(t, vh.Spec{Prop: "C11", Unit: "forced", Quick: 300, Thorough: 6000, CostMs: 4, WallS: 60,
		Rule:    "virtual time; forced interleaving on one peer: caller A (SendRequest, 25% SendMessage) passes a context that ends the first time it is consulted, i.e. exactly when A starts waiting for the per-peer lock; at that instant caller B is started and A's context ends once the remote has read B's request (B holds the lock, its reply is delayed 1-9 s); A is either the caller that creates the peer's sender (fresh peer, 2/3) or arrives at an existing one; then 1-4 later callers (sequential with 0-12 s think time, or concurrent), optional OnDisconnect at the end; remote answers promptly or with 0-2 s delay; same oracle as `bubble`; every case is non-trivial, distinct by (variant, delays, later callers, per-stream writes)",
		Clauses: []string{"own-reply", "reply-from-carrying-transmission", "exchanges-serialized", "one-open-stream", "no-write-after-reset"}},
		func(c *vh.Case) {
			r := c.R
			f := &vC11Forced{Creator: r.Intn(3) != 0, AMessage: r.Intn(4) == 0, BDelay: time.Duration(1000+r.Intn(8000)) * time.Millisecond,
				Later: 1 + r.Intn(4), Concurrent: r.Intn(2) == 0, LaterThink: time.Duration(r.Intn(12000)) * time.Millisecond, DiscAtEnd: r.Intn(4) == 0}
			sc := vC11Scenario{Callers: 2 + f.Later, Peers: 1, PerCall: 1, Forced: f}
			var script []vC11Beh
			for i := 0; i < 20; i++ {
				b := vC11Beh{Kind: "prompt"}
				if r.Intn(3) == 0 {
					b = vC11Beh{Kind: "delay", Delay: time.Duration(r.Intn(2000)) * time.Millisecond}
				}
				script = append(script, b)
			}
			bIdx := 0
			if !f.Creator {
				bIdx = 1
			}
			script[bIdx] = vC11Beh{Kind: "delay", Delay: f.BDelay}
			sc.Scripts = [][]vC11Beh{script}
			sc.SScripts = [][]string{nil}
			c.Set("forced", fmt.Sprintf("%+v", *f))
			c.Bubble(t, time.Hour, "sender-hang", func(t *testing.T) {
				vC11Run(c, sc, true)
			})
		})
}
