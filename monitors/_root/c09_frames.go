//go:build verif

package dht

// C09 — a server answers any request safely, within protocol bounds.
//
// Units
//   frames      schema-driven requests (every message type incl. unknown enum values, generated keys,
//               records, peer lists and address lists) sent over inbound fake streams to the
//               *registered* stream handler of a server-mode DHT with pre-filled routing table,
//               peerstore, provider store and value store; after every frame a control PING on a
//               fresh stream; oracle over the bytes read back, the datastore journal and the
//               peerstore before/after.
//   raw         byte strings (random, truncated, bit-flipped, over-long varint, length prefix above
//               the limit, doubled frames, junk tails).
//   budget      provider sets whose records exceed the 4 MiB response budget.
//   clientmode  a client-mode node registers no handler and answers nothing.

import (
	"bytes"
	"context"
	"fmt"
	"math/rand"
	"strings"
	"testing"
	"testing/synctest"
	"time"

	ds "github.com/ipfs/go-datastore"
	record "github.com/libp2p/go-libp2p-record"
	recpb "github.com/libp2p/go-libp2p-record/pb"
	"github.com/libp2p/go-libp2p/core/network"
	"github.com/libp2p/go-libp2p/core/peer"
	"github.com/libp2p/go-libp2p/core/peerstore"
	"github.com/multiformats/go-base32"
	ma "github.com/multiformats/go-multiaddr"
	"google.golang.org/protobuf/proto"

	"github.com/libp2p/go-libp2p-kad-dht/internal"
	"github.com/libp2p/go-libp2p-kad-dht/internal/verif/vh"
	"github.com/libp2p/go-libp2p-kad-dht/internal/verif/vjds"
	"github.com/libp2p/go-libp2p-kad-dht/internal/verif/vsim"
	pb "github.com/libp2p/go-libp2p-kad-dht/pb"
)

const vC09MaxPeerRecord = 8 << 10 // the property's bound, restated (not pb.MaxPeerRecordSize)

func vC09ProvDsKey(key []byte, p peer.ID) string {
	return ds.NewKey("/providers/" + base32.RawStdEncoding.EncodeToString(key) + "/" + base32.RawStdEncoding.EncodeToString([]byte(p))).String()
}

// ---- addresses ---------------------------------------------------------------------------------

var vC09Undecodable = [][]byte{{0x04, 0x01}, {0xff, 0xff, 0xff, 0x7f, 0x01}, {0x06, 0x00, 0x50}, {0x36, 0x7f}}

// vC09Addr returns the binary form of one generated address of the given kind.
func vC09Addr(r *rand.Rand, kind string, i int) []byte {
	switch kind {
	case "public":
		return ma.StringCast(fmt.Sprintf("/ip4/%d.%d.%d.%d/tcp/%d", []int{8, 23, 45, 99, 150, 200}[r.Intn(6)], (i>>16)&255, (i>>8)&255, i&255, 4001+r.Intn(3))).Bytes()
	case "private":
		return ma.StringCast(fmt.Sprintf("/ip4/%s.%d.%d/tcp/4001", []string{"10.1", "192.168", "172.16"}[r.Intn(3)], (i>>8)&255, i&255)).Bytes()
	case "loopback":
		if r.Intn(2) == 0 {
			return ma.StringCast(fmt.Sprintf("/ip4/127.0.0.1/tcp/%d", 1024+i%60000)).Bytes()
		}
		return ma.StringCast(fmt.Sprintf("/ip6/::1/tcp/%d", 1024+i%60000)).Bytes()
	case "relay":
		return ma.StringCast(fmt.Sprintf("/ip4/45.%d.%d.9/tcp/4001/p2p/%s/p2p-circuit", (i>>8)&255, i&255, vsim.PeerID("relay", i%7).String())).Bytes()
	case "public6":
		b := []byte{0x29, 0x20, 0x01, 0x0d, 0xb8, 0, 0, 0, 0, byte(i >> 56), byte(i >> 48), byte(i >> 40), byte(i >> 32), byte(i >> 24), byte(i >> 16), byte(i >> 8), byte(i), 0x06, 0x0f, 0xa1}
		return b
	case "dnslong":
		// three 63-byte labels + a short one: ~250 bytes per address
		l := func(ch byte) string { return strings.Repeat(string(rune('a'+int(ch)%26)), 63) }
		return ma.StringCast(fmt.Sprintf("/dns4/%s.%s.%s.h%d.example/tcp/443", l(byte(i)), l(byte(i>>3)), l(byte(i>>5)), i)).Bytes()
	default: // undecodable
		b := vC09Undecodable[r.Intn(len(vC09Undecodable))]
		if r.Intn(3) == 0 {
			b = make([]byte, 1+r.Intn(12))
			r.Read(b)
			if _, err := ma.NewMultiaddrBytes(b); err == nil {
				b = vC09Undecodable[0]
			}
		}
		return append([]byte(nil), b...)
	}
}

// vC09FilterKeep is the generated address filter's predicate: private and loopback ranges are dropped.
func vC09FilterKeep(a ma.Multiaddr) bool {
	s := a.String()
	for _, p := range []string{"/ip4/10.", "/ip4/192.168.", "/ip4/172.16.", "/ip4/127.", "/ip6/::1"} {
		if strings.HasPrefix(s, p) {
			return false
		}
	}
	return true
}

func vC09Filter(in []ma.Multiaddr) []ma.Multiaddr {
	out := make([]ma.Multiaddr, 0, len(in))
	for _, a := range in {
		if vC09FilterKeep(a) {
			out = append(out, a)
		}
	}
	return out
}

// vC09AddrList generates the address list of one peer entry; homogeneous reports that all
// addresses are of one decodability class (required of lists that may cross the 8 KiB bound).
func vC09AddrList(r *rand.Rand, base int) (addrs [][]byte, kind string) {
	kinds := []string{"none", "public", "public", "private", "loopback", "relay", "mixed", "undecodable", "dnslong40", "public1e4", "undecodable1e4"}
	kind = kinds[r.Intn(len(kinds))]
	if (kind == "public1e4" || kind == "undecodable1e4") && r.Intn(4) != 0 {
		kind = "public" // the 10^4 lists are expensive: keep them at ~5 % of the entries
	}
	switch kind {
	case "none":
	case "mixed":
		for j, k := range []string{"undecodable", "private", "public", "loopback", "relay", "undecodable"} {
			if r.Intn(3) != 0 {
				addrs = append(addrs, vC09Addr(r, k, base+j))
			}
		}
		r.Shuffle(len(addrs), func(i, j int) { addrs[i], addrs[j] = addrs[j], addrs[i] })
	case "dnslong40":
		for j := 0; j < 40; j++ {
			addrs = append(addrs, vC09Addr(r, "dnslong", base+j))
		}
	case "public1e4":
		for j := 0; j < 10000; j++ {
			addrs = append(addrs, vC09Addr(r, "public", base+j))
		}
	case "undecodable1e4":
		for j := 0; j < 10000; j++ {
			addrs = append(addrs, vC09Addr(r, "undecodable", base+j))
		}
	default:
		for j, n := 0, 1+r.Intn(3); j < n; j++ {
			addrs = append(addrs, vC09Addr(r, kind, base+j))
		}
	}
	return addrs, kind
}

// vC09BoundaryAddrs returns distinct /dns4/<name>/tcp/443 addresses such that a peer record made of
// id and exactly these addresses, without connection field, serialises to `target` bytes (monitor's own
// arithmetic: tag + length prefix + bytes per field). With target within a few bytes of the 8 KiB bound
// the two bytes of a CONNECTED flag decide whether the record fits.
func vC09BoundaryAddrs(id peer.ID, base, target int) []ma.Multiaddr {
	vl := func(n int) int {
		if n < 128 {
			return 1
		}
		return 2
	}
	mk := func(j, alen int) ma.Multiaddr { // an address of exactly alen (>= 140) bytes
		nameLen := alen - 6 // code 54, 2-byte name length, name, code 6, 2-byte port
		name := fmt.Sprintf("b%d-%d-", base, j)
		name += strings.Repeat("z", nameLen-len(name))
		b := append([]byte{54, byte(nameLen&0x7f) | 0x80, byte(nameLen >> 7)}, name...)
		return ma.Cast(append(b, 6, 0x01, 0xbb))
	}
	rem := target - (1 + vl(len(id)) + len(id))
	var out []ma.Multiaddr
	for j := 0; rem >= 2*203; j++ {
		out = append(out, mk(j, 200)) // contributes 1 + 2 + 200
		rem -= 203
	}
	out = append(out, mk(len(out), rem-3)) // 203 <= rem < 406: contributes 1 + 2 + (rem-3)
	return out
}

// ---- the server under test ---------------------------------------------------------------------

type vC09Srv struct {
	t      *testing.T
	c      *vh.Case
	n      *vNet
	K      int
	filter bool
	noProv bool // provider subsystem disabled (DisableProviders): provider RPCs are reported unsupported
	noVal  bool // value subsystem disabled (DisableValues): value RPCs are reported unsupported
	maxAge time.Duration

	strangers []peer.ID // ids that are in neither the table nor (initially) the peerstore
	psOnly    []peer.ID // ids with peerstore addresses that are not routing-table members
	valKeys   []string  // keys with a stored, valid record
	planted   []string  // keys under which a bad entry was planted (expired / mis-filed / corrupt)
	provKeys  [][]byte
	provModel map[string]map[peer.ID]bool

	psSnap map[peer.ID]map[string]bool // running peerstore snapshot
	jpos   int                         // journal entries judged so far
	valID  int
	frames int
	ctl    int
	cnt    map[string]int
	look   func(resp *pb.Message, frameLen int) // optional observer of decoded replies (unit budget)
}

// obs counts an observation both in the evidence and for the non-triviality rule.
func (s *vC09Srv) obs(k string, n int) {
	if s.cnt == nil {
		s.cnt = map[string]int{}
	}
	s.cnt[k] += n
	s.c.Obs(k, n)
}

func (s *vC09Srv) psSnapshot() map[peer.ID]map[string]bool {
	ps := s.n.H.Peerstore()
	out := map[peer.ID]map[string]bool{}
	for _, p := range ps.PeersWithAddrs() {
		m := map[string]bool{}
		for _, a := range ps.Addrs(p) {
			m[string(a.Bytes())] = true
		}
		out[p] = m
	}
	return out
}

func (s *vC09Srv) newVal(key string, rank int, bad bool, pad int) []byte {
	s.valID++
	return vInEnc(vInVal{ID: s.valID, Rank: rank, Bad: bad, Pad: pad, Key: key})
}

func vC09NewSrv(t *testing.T, c *vh.Case) *vC09Srv {
	r := c.R
	s := &vC09Srv{t: t, c: c, provModel: map[string]map[peer.ID]bool{}, maxAge: 2 * time.Hour}
	s.K = []int{1, 2, 3, 5, 8, 20, 20, 64}[r.Intn(8)]
	N := r.Intn(3*s.K + 8)
	if r.Intn(10) == 0 {
		N = 0
	}
	s.filter = r.Intn(2) == 0
	opts := []Option{MaxRecordAge(s.maxAge)}
	if s.filter {
		opts = append(opts, AddressFilter(vC09Filter))
	}
	// forked-DHT configurations with a subsystem switched off (handler dispatch is gated by them)
	switch r.Intn(10) {
	case 0:
		s.noProv = true
		opts = append(opts, DisableProviders())
	case 1:
		s.noVal = true
		opts = append(opts, DisableValues())
	}
	s.n = vNewNet(t, c, vNetCfg{N: N, K: s.K, A: 3, B: 3, Seeds: N, Mode: ModeServer, Validator: vInValidator{}, Opts: opts})
	n := s.n
	ps := n.H.Peerstore()
	ctx := context.Background()
	inTable := map[peer.ID]bool{}
	for _, p := range n.D.routingTable.ListPeers() {
		inTable[p] = true
	}
	// peerstore content for the simulated peers (table members and not admitted ones)
	for i, id := range n.IDs {
		var addrs []ma.Multiaddr
		switch x := r.Float64(); {
		case x < 0.2:
		case x < 0.7:
			addrs = []ma.Multiaddr{vPeerAddr(i, false)}
		case x < 0.85:
			for _, k := range []string{"public", "private", "loopback", "public"}[:2+r.Intn(3)] {
				addrs = append(addrs, ma.Cast(vC09Addr(r, k, i*8)))
			}
		case x < 0.93:
			addrs = []ma.Multiaddr{ma.Cast(vC09Addr(r, "relay", i)), vPeerAddr(i, false)}
		default:
			for j := 0; j < 64; j++ {
				addrs = append(addrs, ma.Cast(vC09Addr(r, "dnslong", i*64+j)))
			}
		}
		if r.Intn(8) == 0 {
			// id + addresses serialise to 8192-3 .. 8192 bytes: whether the record fits is decided by the connection flag
			addrs = vC09BoundaryAddrs(id, i, vC09MaxPeerRecord-r.Intn(4))
			c.Obs("boundary_address_lists", 1)
		}
		if len(addrs) > 0 {
			ps.AddAddrs(id, addrs, peerstore.PermanentAddrTTL)
			if !inTable[id] {
				s.psOnly = append(s.psOnly, id)
			}
		}
	}
	for i := 0; i < 3; i++ {
		id := vsim.PeerID(fmt.Sprintf("psonly%d", c.Idx), i)
		if i == 0 {
			ps.AddAddrs(id, vC09BoundaryAddrs(id, 1000, vC09MaxPeerRecord-r.Intn(4)), peerstore.PermanentAddrTTL)
			c.Obs("boundary_address_lists", 1)
		} else {
			ps.AddAddrs(id, []ma.Multiaddr{ma.Cast(vC09Addr(r, "public", 1000+i))}, peerstore.PermanentAddrTTL)
		}
		s.psOnly = append(s.psOnly, id)
	}
	for i := 0; i < 6; i++ {
		s.strangers = append(s.strangers, vsim.PeerID(fmt.Sprintf("stranger%d", c.Idx), i))
	}
	if r.Intn(2) == 0 {
		ps.AddAddrs(n.Self, n.H.Addrs(), peerstore.PermanentAddrTTL)
	}
	// provider store
	s.provKeys = [][]byte{[]byte("p"), append([]byte{0x12, 0x20}, bytes.Repeat([]byte{byte(c.Idx)}, 32)...), bytes.Repeat([]byte("k"), 80)}
	for _, k := range s.provKeys {
		s.provModel[string(k)] = map[peer.ID]bool{}
		for j, np := 0, r.Intn(7); j < np; j++ {
			var id peer.ID
			if len(n.IDs) > 0 && r.Intn(2) == 0 {
				id = n.IDs[r.Intn(len(n.IDs))]
			} else {
				id = s.strangers[r.Intn(len(s.strangers))]
			}
			ai := peer.AddrInfo{ID: id, Addrs: []ma.Multiaddr{ma.Cast(vC09Addr(r, "public", 5000+j))}}
			if s.noProv {
				continue
			}
			if err := n.D.providerStore.AddProvider(ctx, k, ai); err != nil {
				panic(err)
			}
			s.provModel[string(k)][id] = true
		}
	}
	// value store: valid records, and planted bad entries
	for i := 0; i < 3; i++ {
		key := fmt.Sprintf("/v/stored-%d-%d", c.Idx, i)
		if i == 2 && len(n.IDs) > 0 {
			key = string(n.IDs[0]) // a record filed under a key that is also a peer id
		}
		rec := record.MakePutRecord(key, s.newVal(key, 5+i, false, 0))
		s.valKeys = append(s.valKeys, key)
		if s.noVal {
			continue
		}
		if err := n.D.valueStore.Put(ctx, key, rec); err != nil {
			panic(err)
		}
	}
	plant := func(key string, raw []byte) {
		if err := n.J.Put(ctx, vInValueDsKey(key), raw); err != nil {
			panic(err)
		}
		s.planted = append(s.planted, key)
	}
	kExp := fmt.Sprintf("/v/planted-expired-%d", c.Idx)
	rec := record.MakePutRecord(kExp, s.newVal(kExp, 9, false, 0))
	rec.TimeReceived = internal.FormatRFC3339(time.Now().Add(-s.maxAge - time.Hour))
	b, _ := proto.Marshal(rec)
	plant(kExp, b)
	kMis := fmt.Sprintf("/v/planted-misfiled-%d", c.Idx)
	other := kMis + "-other"
	rec = record.MakePutRecord(other, s.newVal(other, 9, false, 0))
	rec.TimeReceived = internal.FormatRFC3339(time.Now())
	b, _ = proto.Marshal(rec)
	plant(kMis, b)
	plant(fmt.Sprintf("/v/planted-corrupt-%d", c.Idx), []byte{0xff, 0xff, 0xff, 0x01, 0x02})
	kNoTime := fmt.Sprintf("/v/planted-notime-%d", c.Idx)
	rec = record.MakePutRecord(kNoTime, s.newVal(kNoTime, 9, false, 0))
	b, _ = proto.Marshal(rec)
	plant(kNoTime, b)

	synctest.Wait()
	s.psSnap = s.psSnapshot()
	s.jpos = n.J.J.Len()
	c.Set("K", s.K)
	c.Set("table", len(inTable))
	c.Set("address_filter", s.filter)
	c.Set("providers_disabled", s.noProv)
	c.Set("values_disabled", s.noVal)
	return s
}

func (s *vC09Srv) Close() { s.n.Close() }

func (s *vC09Srv) table() []peer.ID { return s.n.D.routingTable.ListPeers() }

// pickPeer picks a requester / list member identity.
func (s *vC09Srv) pickPeer(kind string) peer.ID {
	r := s.c.R
	switch kind {
	case "table":
		if tb := s.table(); len(tb) > 0 {
			return tb[r.Intn(len(tb))]
		}
	case "psonly":
		return s.psOnly[r.Intn(len(s.psOnly))]
	case "self":
		return s.n.Self
	}
	return s.strangers[r.Intn(len(s.strangers))]
}

// ---- frame generator ---------------------------------------------------------------------------

type vC09Frame struct {
	Msg      *pb.Message
	KeyKind  string
	RecKind  string
	ProvKind []string
	ClosKind []string
	Big      bool
}

func (f *vC09Frame) String() string {
	return fmt.Sprintf("type=%d key=%s(%dB) rec=%s prov=%v closer=%v", int32(f.Msg.GetType()), f.KeyKind, len(f.Msg.GetKey()), f.RecKind, f.ProvKind, f.ClosKind)
}

func (s *vC09Srv) genKey(from peer.ID, typ pb.Message_MessageType) ([]byte, string) {
	r := s.c.R
	kinds := []string{"empty", "1", "32", "80", "81", "4k", "tablepeer", "tablepeer", "requester", "self", "valkey", "planted", "provkey", "provkey", "psonly", "stranger", "nons"}
	kind := kinds[r.Intn(len(kinds))]
	// steer the key towards what the message type is about, half of the time
	if r.Intn(2) == 0 {
		switch typ {
		case pb.Message_GET_VALUE, pb.Message_PUT_VALUE:
			kind = []string{"valkey", "planted", "valkey", "32"}[r.Intn(4)]
		case pb.Message_GET_PROVIDERS, pb.Message_ADD_PROVIDER:
			kind = []string{"provkey", "provkey", "80", "1"}[r.Intn(4)]
		case pb.Message_FIND_NODE:
			kind = []string{"tablepeer", "psonly", "requester", "self", "stranger"}[r.Intn(5)]
		}
	}
	rnd := func(n int) []byte { b := make([]byte, n); r.Read(b); return b }
	switch kind {
	case "empty":
		return nil, kind
	case "1":
		return rnd(1), kind
	case "32":
		return rnd(32), kind
	case "80":
		return rnd(80), kind
	case "81":
		return rnd(81), kind
	case "4k":
		return rnd(4096), kind
	case "tablepeer":
		return []byte(s.pickPeer("table")), kind
	case "requester":
		return []byte(from), kind
	case "self":
		return []byte(s.n.Self), kind
	case "valkey":
		return []byte(s.valKeys[r.Intn(len(s.valKeys))]), kind
	case "planted":
		return []byte(s.planted[r.Intn(len(s.planted))]), kind
	case "provkey":
		return s.provKeys[r.Intn(len(s.provKeys))], kind
	case "psonly":
		return []byte(s.pickPeer("psonly")), kind
	case "nons":
		return []byte(fmt.Sprintf("no-namespace-%d", r.Intn(4))), kind
	default:
		return []byte(s.pickPeer("stranger")), "stranger"
	}
}

func (s *vC09Srv) genRecord(key []byte) (*recpb.Record, string) {
	r := s.c.R
	kinds := []string{"nil", "nil", "ok", "ok", "wrongkey", "invalid", "empty", "huge", "foreignvalue", "garbagevalue"}
	kind := kinds[r.Intn(len(kinds))]
	k := string(key)
	switch kind {
	case "nil":
		return nil, kind
	case "ok":
		return record.MakePutRecord(k, s.newVal(k, r.Intn(12), false, 0)), kind
	case "wrongkey":
		o := k + "-other"
		return record.MakePutRecord(o, s.newVal(o, r.Intn(12), false, 0)), kind
	case "invalid":
		return record.MakePutRecord(k, s.newVal(k, r.Intn(12), true, 0)), kind
	case "empty":
		return &recpb.Record{}, kind
	case "huge":
		return record.MakePutRecord(k, s.newVal(k, r.Intn(12), false, 100_000+r.Intn(900_000))), kind
	case "foreignvalue":
		return record.MakePutRecord(k, s.newVal(k+"-foreign", r.Intn(12), false, 0)), kind
	default:
		b := make([]byte, r.Intn(64))
		r.Read(b)
		rec := record.MakePutRecord(k, b)
		rec.TimeReceived = "not a time"
		return rec, "garbagevalue"
	}
}

func (s *vC09Srv) genPeerList(from peer.ID) (out []*pb.Message_Peer, kinds []string, big bool) {
	r := s.c.R
	n := []int{0, 0, 1, 1, 2, 3, 4}[r.Intn(7)]
	for i := 0; i < n; i++ {
		idKind := []string{"sender", "sender", "other", "self", "emptyid", "garbageid"}[r.Intn(6)]
		var id []byte
		switch idKind {
		case "sender":
			id = []byte(from)
		case "other":
			id = []byte(s.pickPeer([]string{"table", "stranger", "psonly"}[r.Intn(3)]))
		case "self":
			id = []byte(s.n.Self)
		case "emptyid":
		default:
			id = make([]byte, 1+r.Intn(100))
			r.Read(id)
		}
		addrs, ak := vC09AddrList(r, r.Intn(1<<20))
		if len(addrs) >= 10000 {
			big = true
		}
		p := &pb.Message_Peer{Id: id, Addrs: addrs}
		if r.Intn(4) == 0 {
			p.Connection = pb.Message_ConnectionType([]int32{1, 2, 3, 77, -1}[r.Intn(5)])
		}
		out = append(out, p)
		kinds = append(kinds, idKind+"/"+ak)
	}
	return out, kinds, big
}

func (s *vC09Srv) genFrame(from peer.ID) *vC09Frame {
	r := s.c.R
	types := []int32{0, 1, 2, 3, 4, 5, 0, 1, 2, 3, 4, 5, 0, 1, 2, 3, 4, 5, 6, 7, 100, -1, 1<<31 - 1}
	typ := pb.Message_MessageType(types[r.Intn(len(types))])
	f := &vC09Frame{Msg: &pb.Message{Type: typ}}
	f.Msg.Key, f.KeyKind = s.genKey(from, typ)
	f.RecKind = "nil"
	switch typ {
	case pb.Message_PUT_VALUE:
		f.Msg.Record, f.RecKind = s.genRecord(f.Msg.Key)
	default:
		if r.Intn(4) == 0 {
			f.Msg.Record, f.RecKind = s.genRecord(f.Msg.Key)
		}
	}
	wantProv := typ == pb.Message_ADD_PROVIDER || r.Intn(4) == 0
	if wantProv {
		var big bool
		f.Msg.ProviderPeers, f.ProvKind, big = s.genPeerList(from)
		f.Big = f.Big || big
		if typ == pb.Message_ADD_PROVIDER && len(f.Msg.ProviderPeers) == 0 && r.Intn(3) != 0 {
			f.Msg.ProviderPeers, f.ProvKind, big = s.genPeerList(from)
			f.Big = f.Big || big
		}
	}
	if r.Intn(4) == 0 {
		var big bool
		f.Msg.CloserPeers, f.ClosKind, big = s.genPeerList(from)
		f.Big = f.Big || big
	}
	if r.Intn(5) == 0 {
		f.Msg.ClusterLevelRaw = []int32{1, 2, -1, 1 << 30}[r.Intn(4)]
	}
	return f
}

// ---- oracle ------------------------------------------------------------------------------------

// recordSize is the serialized size of a peer record as it appears in a message.
func vC09RecordSize(p *pb.Message_Peer) int { return proto.Size(p) }

// checkPeerRecords judges the per-record bound on every peer record of a reply.
func (s *vC09Srv) checkPeerRecords(resp *pb.Message, what string) {
	c := s.c
	for _, list := range [][]*pb.Message_Peer{resp.GetCloserPeers(), resp.GetProviderPeers()} {
		for _, p := range list {
			sz := vC09RecordSize(p)
			c.ObsMax("peer_record_bytes", sz)
			c.Check(sz <= vC09MaxPeerRecord, "peer-record-at-most-8k", "%s: peer record of %s is %d bytes (%d addresses)", what, vsim.Short(peer.ID(p.GetId())), sz, len(p.GetAddrs()))
		}
	}
}

// checkCloser judges the closer-peers list of a reply to (typ, key) requested by from.
// known(p) tells whether the peerstore held an address for p before the request.
func (s *vC09Srv) checkCloser(typ pb.Message_MessageType, key []byte, from peer.ID, resp *pb.Message, table []peer.ID, known func(peer.ID) bool, what string) {
	c, n, K := s.c, s.n, s.K
	ids := vInPeerIDs(resp.GetCloserPeers())
	target := peer.ID(key)
	rest := ids
	if typ == pb.Message_FIND_NODE {
		if known(target) {
			c.Check(len(ids) > 0 && ids[0] == target, "find-node-target-first", "%s: addresses of the target are known but the reply's first entry is %v", what, n.Names(ids[:min(1, len(ids))]))
		}
		if len(ids) > 0 && ids[0] == target {
			rest = ids[1:]
		}
		ok := true
		for _, p := range resp.GetCloserPeers() {
			if len(p.GetAddrs()) == 0 {
				ok = false
			}
		}
		if len(ids) > 0 {
			c.Check(ok, "find-node-only-peers-with-addresses", "%s: FIND_NODE reply lists a peer without addresses: %v", what, n.Names(ids))
		}
	}
	c.Check(len(rest) <= K, "closer-at-most-k", "%s: %d closer peers, K=%d", what, len(rest), K)
	bad := ""
	for _, p := range rest {
		if p == from {
			bad = "the requester"
		}
		if p == n.Self {
			bad = "the node itself"
		}
	}
	c.Check(bad == "", "closer-never-requester-or-self", "%s: closer peers contain %s: %v (requester %s)", what, bad, n.Names(ids), n.Name(from))
	c.Check(vInAscending(key, ids), "closer-ascending", "%s: closer peers not in strictly ascending XOR distance to the key: %v", what, n.Names(ids))
	// documented selection (closestPeersToQuery): the K nearest routing-table members other than the requester
	var cand []peer.ID
	for _, p := range table {
		if p != from && p != n.Self {
			cand = append(cand, p)
		}
	}
	want := vsim.Nearest(key, cand, K)
	if typ == pb.Message_FIND_NODE {
		if len(want) == 0 || want[0] != target {
			want = append([]peer.ID{target}, want...)
		}
		var w []peer.ID
		for _, p := range want {
			if known(p) {
				w = append(w, p)
			}
		}
		want = w
	}
	c.Check(vEqualIDs(ids, want), "closer-are-nearest-of-table", "%s: closer peers %v, expected the K=%d nearest table members other than the requester %v", what, n.Names(ids), K, n.Names(want))
}

// vC09ProvVerdict predicts the effect of an ADD_PROVIDER frame from the property text.
type vC09ProvVerdict struct {
	valid   bool            // some entry: id == sender, >= 1 decodable address, key length 1..80
	allowed map[string]bool // addresses (binary) the peerstore may gain for the sender
}

func (s *vC09Srv) predictAddProvider(from peer.ID, m *pb.Message) vC09ProvVerdict {
	v := vC09ProvVerdict{allowed: map[string]bool{}}
	keyOK := len(m.GetKey()) >= 1 && len(m.GetKey()) <= 80 && !s.noProv
	for _, p := range m.GetProviderPeers() {
		if peer.ID(p.GetId()) != from {
			continue
		}
		dec := 0
		for _, a := range p.GetAddrs() {
			m, err := ma.NewMultiaddrBytes(a)
			if err != nil {
				continue
			}
			dec++
			if !s.filter || vC09FilterKeep(m) {
				v.allowed[string(m.Bytes())] = true
			}
		}
		if dec > 0 && keyOK {
			v.valid = true
		}
	}
	if !keyOK {
		v.allowed = map[string]bool{}
	}
	return v
}

// exchange sends one generated frame on st, waits for rest and judges everything observable.
// It returns whether the stream is still usable.
func (s *vC09Srv) exchange(st *vInStream, f *vC09Frame, what string) bool {
	c, n := s.c, s.n
	m := f.Msg
	typ, key, from := m.GetType(), m.GetKey(), st.From
	ps := n.H.Peerstore()
	table := s.table()
	knownBefore := map[peer.ID]bool{}
	known := func(p peer.ID) bool {
		if v, ok := knownBefore[p]; ok {
			return v
		}
		return false
	}
	knownBefore[peer.ID(key)] = len(ps.Addrs(peer.ID(key))) > 0
	for _, p := range table {
		knownBefore[p] = len(ps.Addrs(p)) > 0
	}
	sent := proto.Clone(m).(*pb.Message)
	wire := vInFrame(m)
	if _, err := st.E.Write(wire); err != nil {
		c.Fail("harness", "%s: cannot write the request: %v", what, err)
		return false
	}
	synctest.Wait()
	s.frames++
	c.Obs("frames", 1)
	c.Obs(fmt.Sprintf("frames_type_%d", int32(typ)), 1)
	data, reset, eof := st.Drain()
	frames, rest := vInSplitFrames(data)
	vInPanicCheck(c, st, "no-panic")
	c.Check(len(rest) == 0, "reply-well-framed", "%s: %d trailing bytes that are not a complete frame", what, len(rest))
	outcome := "silent"
	switch {
	case reset:
		outcome = "reset"
	case len(frames) > 0:
		outcome = "answered"
	}
	s.obs("outcome_"+outcome, 1)
	c.Logf("%s from=%s %s -> %s", what, n.Name(from), f, outcome)
	known09 := typ >= 0 && typ <= 5
	// a disabled subsystem's RPCs are reported unsupported (dht.go: nil store => no handler => stream reset)
	disabled := (s.noVal && (typ == pb.Message_GET_VALUE || typ == pb.Message_PUT_VALUE)) || (s.noProv && (typ == pb.Message_GET_PROVIDERS || typ == pb.Message_ADD_PROVIDER))
	if disabled {
		c.Check(len(frames) == 0 && reset, "disabled-subsystem-not-served", "%s: type %v although its subsystem is disabled (providers off=%v, values off=%v): %s", what, typ, s.noProv, s.noVal, outcome)
		s.obs("disabled_subsystem_requests", 1)
	}
	if typ == pb.Message_ADD_PROVIDER {
		c.Check(len(frames) == 0, "add-provider-never-answered", "%s: ADD_PROVIDER was answered with %d frame(s)", what, len(frames))
		c.Check(!eof || reset, "one-reply-or-reset", "%s: stream closed by the server although the requester did not close it", what)
	} else {
		c.Check((len(frames) == 1 && !reset && !eof) || (len(frames) == 0 && reset), "one-reply-or-reset", "%s: %d reply frames, reset=%v, closed=%v", what, len(frames), reset, eof)
	}
	if reset {
		c.Check(st.Ended(), "handler-ends-after-reset", "%s: stream reset but the handler goroutine has not returned", what)
	}
	// requests that are plainly valid must be served (documented behaviour of a server)
	validReq := false
	switch typ {
	case pb.Message_PING:
		validReq = true
	case pb.Message_FIND_NODE:
		validReq = len(key) > 0
	case pb.Message_GET_VALUE:
		validReq = len(key) > 0 && !s.noVal
	case pb.Message_GET_PROVIDERS:
		validReq = len(key) >= 1 && len(key) <= 80 && !s.noProv
	}
	if validReq {
		c.Check(outcome == "answered", "valid-request-answered", "%s: a well-formed request (type %v, %d-byte key) was not answered: %s", what, typ, len(key), outcome)
	}
	var resp *pb.Message
	if len(frames) >= 1 && typ != pb.Message_ADD_PROVIDER {
		resp = new(pb.Message)
		if err := proto.Unmarshal(frames[0], resp); err != nil {
			c.Check(false, "reply-well-formed", "%s: reply does not unmarshal: %v", what, err)
			resp = nil
		} else {
			c.Check(resp.GetType() == typ, "reply-well-formed", "%s: reply type %v to a request of type %v", what, resp.GetType(), typ)
			c.Check(known09, "unknown-type-not-answered", "%s: message of unknown type %d was answered", what, int32(typ))
		}
		c.ObsMax("reply_bytes", len(frames[0]))
	}
	if resp != nil {
		if s.look != nil {
			s.look(resp, len(frames[0]))
		}
		s.checkPeerRecords(resp, what)
		switch typ {
		case pb.Message_FIND_NODE:
			c.Check(len(frames[0]) <= network.MessageSizeMax, "reply-within-message-limit", "%s: FIND_NODE reply of %d bytes", what, len(frames[0]))
			s.checkCloser(typ, key, from, resp, table, known, what)
			c.Check(len(resp.GetProviderPeers()) == 0 && resp.GetRecord() == nil, "reply-well-formed", "%s: FIND_NODE reply carries providers or a record", what)
		case pb.Message_PING, pb.Message_PUT_VALUE:
			c.Check(len(resp.GetCloserPeers()) == 0 && len(resp.GetProviderPeers()) == 0, "echo-without-peer-records", "%s: echo carries %d closer and %d provider peer records", what, len(resp.GetCloserPeers()), len(resp.GetProviderPeers()))
			c.Check(bytes.Equal(resp.GetKey(), key), "reply-well-formed", "%s: echo key differs from the request key", what)
			if typ == pb.Message_PUT_VALUE {
				rec := sent.GetRecord()
				ok := rec != nil && len(key) > 0 && bytes.Equal(rec.GetKey(), key) && vInValidator{}.Validate(string(key), rec.GetValue()) == nil
				c.Check(ok, "put-ack-implies-valid-record", "%s: PUT_VALUE acknowledged for record kind %s (message key %q, record key %q)", what, f.RecKind, vInTrim(key), vInTrim(rec.GetKey()))
				c.Check(proto.Equal(resp.GetRecord(), rec), "reply-well-formed", "%s: PUT_VALUE echo carries a different record", what)
			}
		case pb.Message_GET_VALUE:
			c.Check(bytes.Equal(resp.GetKey(), key), "reply-well-formed", "%s: GET_VALUE reply key differs from the request key", what)
			s.checkCloser(typ, key, from, resp, table, known, what)
			if rec := resp.GetRecord(); rec != nil {
				c.Check(bytes.Equal(rec.GetKey(), key), "get-value-record-has-requested-key", "%s: record key %q served for request key %q", what, vInTrim(rec.GetKey()), vInTrim(key))
				tr, err := internal.ParseRFC3339(rec.GetTimeReceived())
				c.Check(err == nil && time.Since(tr) <= s.maxAge, "get-value-record-not-expired", "%s: served record received at %q (now %v, max age %v)", what, rec.GetTimeReceived(), time.Now().UTC(), s.maxAge)
				c.Obs("get_value_records_served", 1)
			}
			c.Check(len(resp.GetProviderPeers()) == 0, "reply-well-formed", "%s: GET_VALUE reply carries provider records", what)
		case pb.Message_GET_PROVIDERS:
			c.Check(len(frames[0]) <= network.MessageSizeMax, "reply-within-message-limit", "%s: GET_PROVIDERS reply of %d bytes", what, len(frames[0]))
			c.Check(bytes.Equal(resp.GetKey(), key), "reply-well-formed", "%s: GET_PROVIDERS reply key differs from the request key", what)
			s.checkCloser(typ, key, from, resp, table, known, what)
			model := s.provModel[string(key)]
			seen := map[peer.ID]bool{}
			ok, dup := true, false
			for _, p := range vInPeerIDs(resp.GetProviderPeers()) {
				if !model[p] {
					ok = false
				}
				if seen[p] {
					dup = true
				}
				seen[p] = true
			}
			c.Check(ok && !dup, "providers-are-stored-providers", "%s: provider list %v is not a duplicate-free subset of the stored providers (%d stored)", what, n.Names(vInPeerIDs(resp.GetProviderPeers())), len(model))
			c.Obs("provider_records_served", len(seen))
		}
	}
	// ---- effects on the stores ----
	ents := n.J.J.Entries()
	newEnts := ents[s.jpos:]
	s.jpos = len(ents)
	var puts []vjds.Entry
	for _, e := range newEnts {
		if e.Op == vjds.OpPut {
			puts = append(puts, e)
		}
	}
	after := s.psSnapshot()
	gained := map[peer.ID][]string{}
	for p, m := range after {
		for a := range m {
			if !s.psSnap[p][a] {
				gained[p] = append(gained[p], a)
			}
		}
	}
	s.psSnap = after
	switch typ {
	case pb.Message_ADD_PROVIDER:
		v := s.predictAddProvider(from, sent)
		wantKey := vC09ProvDsKey(key, from)
		stored := false
		foreign := ""
		for _, e := range puts {
			if e.Key == wantKey {
				stored = true
			} else {
				foreign = e.Key
			}
		}
		c.Check(foreign == "", "add-provider-stores-only-sender-record", "%s: datastore write under %s (sender record would be %s)", what, foreign, wantKey)
		// (address lists that can cross the 8 KiB receive bound are generated homogeneous, so the bound cannot change the verdict)
		c.Check(stored == v.valid, "add-provider-stored-iff-valid", "%s: stored=%v but provider==sender with >=1 address and 1<=|key|<=80 is %v (key %d bytes, entries %v)", what, stored, v.valid, len(key), f.ProvKind)
		if v.valid {
			c.Check(outcome == "silent", "add-provider-accepted-silently", "%s: valid ADD_PROVIDER ended as %s", what, outcome)
			if s.provModel[string(key)] == nil {
				s.provModel[string(key)] = map[peer.ID]bool{}
			}
			s.provModel[string(key)][from] = true
			provs, err := n.D.providerStore.GetProviders(context.Background(), key)
			has := false
			for _, p := range provs {
				if p.ID == from {
					has = true
				}
			}
			c.Check(err == nil && has, "add-provider-stored-iff-valid", "%s: accepted provider record is not returned by the provider store (err=%v)", what, err)
			s.obs("add_provider_stored", 1)
		} else {
			c.Check(outcome == "reset", "add-provider-rejected-with-reset", "%s: invalid ADD_PROVIDER ended as %s", what, outcome)
			s.obs("add_provider_rejected", 1)
		}
		okGain := true
		detail := ""
		for p, as := range gained {
			for _, a := range as {
				if p != from || !v.allowed[a] {
					okGain = false
					detail = fmt.Sprintf("%s gained %s", n.Name(p), vC09AddrString([]byte(a)))
				}
			}
		}
		c.Check(okGain, "peerstore-gains-only-filtered-sender-addresses", "%s: %s (filter=%v, valid=%v)", what, detail, s.filter, v.valid)
		if n := len(gained[from]); n > 0 {
			c.Obs("peerstore_addresses_gained", n)
		}
	case pb.Message_PUT_VALUE:
		wantKey := vInValueDsKey(string(key)).String()
		for _, e := range puts {
			rec := new(recpb.Record)
			ok := e.Key == wantKey && proto.Unmarshal(e.Value, rec) == nil && bytes.Equal(rec.GetKey(), key) && vInValidator{}.Validate(string(key), rec.GetValue()) == nil
			c.Check(ok, "put-value-writes-only-valid-record-of-key", "%s: datastore write %s does not hold a valid record of the message key", what, e.Key)
		}
		c.Check(len(puts) == 0 || outcome == "answered", "put-value-writes-only-valid-record-of-key", "%s: %d datastore writes although the request ended as %s", what, len(puts), outcome)
		c.Check(len(gained) == 0, "peerstore-unchanged-by-other-requests", "%s: peerstore gained addresses for %d peers", what, len(gained))
	default:
		c.Check(len(puts) == 0, "read-requests-write-nothing", "%s: %d datastore writes, first %s", what, len(puts), vC09FirstKey(puts))
		c.Check(len(gained) == 0, "peerstore-unchanged-by-other-requests", "%s: peerstore gained addresses for %d peers", what, len(gained))
	}
	return outcome != "reset" && !eof
}

func vC09FirstKey(es []vjds.Entry) string {
	if len(es) == 0 {
		return ""
	}
	return es[0].Key
}

func vC09AddrString(b []byte) string {
	if m, err := ma.NewMultiaddrBytes(b); err == nil {
		s := m.String()
		if len(s) > 80 {
			s = s[:80] + "…"
		}
		return s
	}
	return fmt.Sprintf("%x", b)
}

// controlPing checks that the node still serves: a PING on a fresh stream through the
// registered handler is echoed, and the handler ends when the requester closes.
func (s *vC09Srv) controlPing(what string) {
	c, n := s.c, s.n
	s.ctl++
	from := s.pickPeer([]string{"table", "stranger", "psonly"}[c.R.Intn(3)])
	st := vInOpen(n, from, nil)
	if !c.Check(st != nil, "control-ping-answered", "%s: no stream handler registered any more", what) {
		return
	}
	key := []byte(fmt.Sprintf("control-%d", s.ctl))
	st.E.WriteMsg(&pb.Message{Type: pb.Message_PING, Key: key})
	synctest.Wait()
	data, reset, _ := st.Drain()
	frames, rest := vInSplitFrames(data)
	ok := !reset && len(frames) == 1 && len(rest) == 0
	if ok {
		var resp pb.Message
		ok = proto.Unmarshal(frames[0], &resp) == nil && resp.GetType() == pb.Message_PING && bytes.Equal(resp.GetKey(), key)
	}
	c.Check(ok, "control-ping-answered", "%s: control PING from %s not echoed (reset=%v, %d frames, %d stray bytes)", what, n.Name(from), reset, len(frames), len(rest))
	c.Obs("control_pings", 1)
	st.E.Close()
	synctest.Wait()
	c.Check(st.Ended() && st.L.Closes.Load() == 1 && st.L.Resets.Load() == 0, "handler-ends-after-eof", "%s: after the requester closed: handler ended=%v closes=%d resets=%d", what, st.Ended(), st.L.Closes.Load(), st.L.Resets.Load())
	vInPanicCheck(c, st, "no-panic")
	if !st.Ended() {
		st.E.Reset()
		synctest.Wait()
	}
	// the journal entries and peerstore state of a PING are part of the next frame's baseline
	ents := n.J.J.Entries()
	for _, e := range ents[s.jpos:] {
		if e.Op == vjds.OpPut {
			c.Check(false, "read-requests-write-nothing", "%s: control PING caused a datastore write under %s", what, e.Key)
		}
	}
	s.jpos = len(ents)
}

// finish ends a stream the way a requester would (close or reset) and checks the handler returns.
func (s *vC09Srv) finish(st *vInStream, what string) {
	c := s.c
	if st.Ended() {
		return
	}
	if c.R.Intn(2) == 0 {
		st.E.Close()
		synctest.Wait()
		c.Check(st.Ended() && st.L.Closes.Load() == 1, "handler-ends-after-eof", "%s: requester closed, handler ended=%v closes=%d", what, st.Ended(), st.L.Closes.Load())
	} else {
		st.E.Reset()
		synctest.Wait()
		c.Check(st.Ended(), "handler-ends-after-reset", "%s: requester reset the stream, handler has not returned", what)
	}
	vInPanicCheck(c, st, "no-panic")
	if !st.Ended() {
		st.E.Reset()
		synctest.Wait()
	}
}

func TestVerif_C09_frames(t *testing.T) {
	vh.Run(t, vh.Spec{Prop: "C09", Unit: "frames", Quick: 160, Thorough: 8000, CostMs: 80,
		Rule:    "per case one server-mode DHT (K in {1,2,3,5,8,20,64}, 0..3K+8 table peers, peerstore with none/public/private/relay/64 long dns addresses per peer, 3 provider keys, valid + planted expired/mis-filed/corrupt value entries, address filter in half the cases, provider or value subsystem disabled in a fifth, some peers with address lists that fill the 8 KiB record bound to within 0-3 bytes) and 12-30 inbound streams from table peers / strangers / peerstore-only peers / the node's own id, 1-4 generated frames each: type in {0..5, unknown enums} x key {empty,1,32,80,81,4 KiB, table peer, requester, self, stored key, planted key, provider key} x record {nil, ok, wrong key, invalid, empty, huge, foreign, garbage} x provider/closer lists {sender, other, self, empty id, garbage id} x addresses {none, public, private, loopback, relay, mixed, undecodable, 40 long dns, 10^4 public, 10^4 undecodable}; a control PING on a fresh stream after every frame; non-trivial = at least one frame answered, one reset and one ADD_PROVIDER judged; distinct by (K, table size, outcome sequence)",
		Clauses: []string{"one-reply-or-reset", "control-ping-answered", "closer-at-most-k", "closer-never-requester-or-self", "closer-ascending", "closer-are-nearest-of-table", "find-node-target-first", "find-node-only-peers-with-addresses", "peer-record-at-most-8k", "reply-within-message-limit", "echo-without-peer-records", "get-value-record-has-requested-key", "get-value-record-not-expired", "add-provider-stored-iff-valid", "add-provider-never-answered", "peerstore-gains-only-filtered-sender-addresses", "read-requests-write-nothing", "valid-request-answered", "handler-ends-after-reset", "handler-ends-after-eof", "providers-are-stored-providers", "disabled-subsystem-not-served"}},
		func(c *vh.Case) {
			c.Bubble(t, 6*time.Hour, "handler-hang", func(t *testing.T) {
				s := vC09NewSrv(t, c)
				defer s.Close()
				r := c.R
				var outcomes []string
				nStreams := 12 + r.Intn(19)
				for i := 0; i < nStreams; i++ {
					from := s.pickPeer([]string{"table", "table", "stranger", "psonly", "self"}[r.Intn(5)])
					st := vInOpen(s.n, from, nil)
					if !c.Check(st != nil, "control-ping-answered", "server-mode node has no registered stream handler") {
						return
					}
					nf := 1 + r.Intn(4)
					alive := true
					for j := 0; j < nf && alive; j++ {
						f := s.genFrame(from)
						what := fmt.Sprintf("s%d.f%d", i, j)
						alive = s.exchange(st, f, what)
						s.controlPing(what)
						if r.Intn(3) == 0 {
							time.Sleep(time.Duration(1+r.Intn(2000)) * time.Millisecond)
						}
					}
					s.finish(st, fmt.Sprintf("s%d", i))
				}
				obs := func(k string) int { return s.cnt[k] }
				outcomes = append(outcomes, fmt.Sprint(obs("outcome_answered"), obs("outcome_reset"), obs("outcome_silent")))
				if obs("outcome_answered") > 0 && obs("outcome_reset") > 0 && obs("add_provider_stored")+obs("add_provider_rejected") > 0 {
					c.Nontrivial(fmt.Sprintf("K%d/t%d/%s", s.K, len(s.table()), strings.Join(outcomes, ",")))
				}
			})
		})
}
