//go:build verif

package dht

// C13/inflight — "a node in client mode handles no inbound DHT stream", for a stream on which a request is being
// handled at the very instant the node switches to client mode.
//
// The switch is placed deterministically inside the handling of a request: the node's address filter (consulted
// synchronously by the ADD_PROVIDER and GET_PROVIDERS handlers) emits the reachability event and waits until the
// node has processed it. The stream is either an ordinary one (listed by its connection, so the switch resets
// it) or one whose connection the host no longer lists (a connection being torn down: removed from the
// connection list first, streams reset last), which the reset loop of the switch cannot find - there the
// per-message mode check of the stream's handler is what keeps a client-mode node from serving. After the switch,
// at rest: nothing written on the stream after the in-flight request's own reply, later requests unanswered and
// without effect on the provider store, handler returned.

import (
	"bytes"
	"context"
	"fmt"
	"testing"
	"testing/synctest"
	"time"

	"github.com/libp2p/go-libp2p/core/event"
	"github.com/libp2p/go-libp2p/core/network"
	"github.com/libp2p/go-libp2p/core/peer"
	ma "github.com/multiformats/go-multiaddr"
	"google.golang.org/protobuf/proto"

	"github.com/libp2p/go-libp2p-kad-dht/internal/verif/vh"
	"github.com/libp2p/go-libp2p-kad-dht/internal/verif/vsim"
	pb "github.com/libp2p/go-libp2p-kad-dht/pb"
)

func TestVerif_C13_inflight(t *testing.T) {
	vh.Run(t, vh.Spec{Prop: "C13", Unit: "inflight", Quick: 300, Thorough: 8000, CostMs: 6,
		Rule:    "Mode(ModeAuto) or Mode(ModeAutoServer) node brought to server mode, one inbound stream on which 0-2 requests were served; then a request whose handler consults the address filter (ADD_PROVIDER naming the sender, or GET_PROVIDERS for a key with stored providers), and from inside that filter call the event ReachabilityPrivate is emitted and fully processed (the node is in client mode before the handler goes on); the stream is listed by its connection (the switch resets it) or belongs to a connection the host no longer lists (tear-down window: the reset loop cannot find it); afterwards 1-3 further requests (PING, FIND_NODE, ADD_PROVIDER for a fresh key) on the same stream; oracle at rest: no stream handler registered, none of the later requests answered, the later ADD_PROVIDER not in the provider store, the stream's handler returned; non-trivial = the switch happened inside the handler and the stream was not listed; distinct by (option, in-flight request type, listed, later requests)",
		Clauses: []string{"switch-inside-handler", "handlers-iff-mode-of-last-event", "client-mode-answers-nothing", "client-mode-stores-nothing", "client-mode-stream-handler-returns"}},
		func(c *vh.Case) {
			c.Bubble(t, time.Hour, "mode-switch-hang", func(t *testing.T) {
				r := c.R
				opt := []ModeOpt{ModeAuto, ModeAutoServer}[r.Intn(2)]
				listed := c.Idx%3 == 0
				inflightType := []pb.Message_MessageType{pb.Message_ADD_PROVIDER, pb.Message_ADD_PROVIDER, pb.Message_GET_PROVIDERS}[r.Intn(3)]
				c.Set("mode_option", vC13ModeNames[opt])
				c.Set("stream_listed_by_its_connection", listed)
				c.Set("in_flight_request", inflightType.String())
				armed, fired := false, make(chan struct{})
				var n *vNet
				filter := func(as []ma.Multiaddr) []ma.Multiaddr {
					if armed {
						armed = false
						n.H.Emit(event.EvtLocalReachabilityChanged{Reachability: network.ReachabilityPrivate})
						time.Sleep(time.Millisecond)
						synctest.Wait() // the subscriber has switched the node to client mode
						close(fired)
					}
					return as
				}
				N := 3 + r.Intn(6)
				n = vNewNet(t, c, vNetCfg{N: N, K: 3, A: 3, B: 3, Seeds: N, Mode: ModeClient, Opts: []Option{Mode(opt), AddressFilter(filter)}})
				defer n.Close()
				pr := vInProto(n.D)
				n.H.Emit(event.EvtLocalReachabilityChanged{Reachability: network.ReachabilityPublic})
				time.Sleep(time.Millisecond)
				synctest.Wait()
				if !c.Check(n.H.Handler(pr) != nil, "handlers-iff-mode-of-last-event", "option %s after ReachabilityPublic: no stream handler registered", vC13ModeNames[opt]) {
					return
				}
				from := vsim.PeerID(fmt.Sprintf("c13f%d", c.Idx), 0)
				fromAddr := ma.StringCast("/ip4/140.7.7.7/tcp/4001")
				key := func(i int) []byte {
					return append([]byte{0x12, 0x20}, bytes.Repeat([]byte{byte(c.Idx), byte(i)}, 16)...)
				}
				st := vInOpen(n, from, nil)
				defer func() {
					st.E.Reset()
					synctest.Wait()
				}()
				// some ordinary traffic first
				seq := 0
				ping := func() *pb.Message {
					seq++
					return &pb.Message{Type: pb.Message_PING, Key: []byte(fmt.Sprintf("c13f-%d-%d", c.Idx, seq))}
				}
				for i, k := 0, r.Intn(3); i < k; i++ {
					req := ping()
					st.E.WriteMsg(req)
					synctest.Wait()
					out, detail := vC13Outcome(st, req)
					c.Check(out == "answered", "server-mode-answers", "request in server mode: outcome %s %s", out, detail)
				}
				if inflightType == pb.Message_GET_PROVIDERS {
					if err := n.D.providerStore.AddProvider(context.Background(), key(0), peer.AddrInfo{ID: n.IDs[0], Addrs: []ma.Multiaddr{vPeerAddr(0, false)}}); err != nil {
						panic(err)
					}
					synctest.Wait()
				}
				if !listed {
					n.H.Net.Unlist(from)
				}
				// the in-flight request
				armed = true
				var req *pb.Message
				if inflightType == pb.Message_ADD_PROVIDER {
					req = &pb.Message{Type: pb.Message_ADD_PROVIDER, Key: key(0), ProviderPeers: pb.RawPeerInfosToPBPeers([]peer.AddrInfo{{ID: from, Addrs: []ma.Multiaddr{fromAddr}}})}
				} else {
					req = &pb.Message{Type: pb.Message_GET_PROVIDERS, Key: key(0)}
				}
				st.E.WriteMsg(req)
				tm := time.NewTimer(time.Minute)
				select {
				case <-fired:
					tm.Stop()
				case <-tm.C:
				}
				synctest.Wait()
				if !c.Check(!armed, "switch-inside-handler", "the %s handler did not consult the address filter: the switch could not be placed", inflightType) {
					return
				}
				c.Check(n.H.Handler(pr) == nil, "handlers-iff-mode-of-last-event", "option %s after ReachabilityPrivate: stream handler still registered", vC13ModeNames[opt])
				st.Drain() // the in-flight request's own reply (accepted in server mode), if any
				written := st.L.BytesToRemote()
				// later requests on the same stream
				var later []string
				for i, k := 0, 1+r.Intn(3); i < k; i++ {
					var m *pb.Message
					switch r.Intn(3) {
					case 0:
						m = ping()
					case 1:
						m = &pb.Message{Type: pb.Message_FIND_NODE, Key: []byte(n.IDs[r.Intn(len(n.IDs))])}
					default:
						m = &pb.Message{Type: pb.Message_ADD_PROVIDER, Key: key(1 + i), ProviderPeers: pb.RawPeerInfosToPBPeers([]peer.AddrInfo{{ID: from, Addrs: []ma.Multiaddr{fromAddr}}})}
					}
					later = append(later, m.GetType().String())
					st.E.WriteMsg(m)
					time.Sleep(time.Duration(1+r.Intn(50)) * time.Millisecond)
					synctest.Wait()
					c.Obs("requests_after_switch", 1)
					data, _, _ := st.Drain()
					frames, _ := vInSplitFrames(data)
					var resp pb.Message
					answered := len(frames) > 0 && proto.Unmarshal(frames[0], &resp) == nil
					c.Check(st.L.BytesToRemote() == written && !answered, "client-mode-answers-nothing", "request %d (%s) sent on the open stream after the node switched to client mode inside the %s handler (stream listed: %v) was answered (%d new bytes, reply type %v)", i, m.GetType(), inflightType, listed, st.L.BytesToRemote()-written, resp.GetType())
					if m.GetType() == pb.Message_ADD_PROVIDER {
						provs, _ := n.D.providerStore.GetProviders(context.Background(), m.GetKey())
						c.Check(len(provs) == 0, "client-mode-stores-nothing", "ADD_PROVIDER sent after the switch to client mode was stored (%d providers for its key)", len(provs))
					}
				}
				c.Check(st.Ended(), "client-mode-stream-handler-returns", "the handler of the stream is still running although the node is in client mode (in-flight %s, stream listed: %v)", inflightType, listed)
				if !listed {
					c.Nontrivial(fmt.Sprintf("%s/%s/%v", vC13ModeNames[opt], inflightType, later))
				}
			})
		})
}
