//go:build verif

package dht

// Shared helpers for monitors that play remote peers on *inbound* streams (C05 handler half,
// C09, C13): stream plumbing around vsim.Host.NewInboundStream, non-blocking draining of what
// the handler wrote, frame splitting, a generated record validator, XOR-order helpers.

import (
	"encoding/binary"
	"errors"
	"fmt"
	"io"
	"runtime/debug"
	"strconv"
	"strings"
	"sync"
	"time"

	ds "github.com/ipfs/go-datastore"
	record "github.com/libp2p/go-libp2p-record"
	"github.com/libp2p/go-libp2p/core/network"
	"github.com/libp2p/go-libp2p/core/peer"
	"github.com/libp2p/go-libp2p/core/protocol"
	"github.com/multiformats/go-base32"
	"google.golang.org/protobuf/proto"

	"github.com/libp2p/go-libp2p-kad-dht/internal/verif/vh"
	"github.com/libp2p/go-libp2p-kad-dht/internal/verif/vsim"
	pb "github.com/libp2p/go-libp2p-kad-dht/pb"
)

// vInStream is one inbound stream played by the monitor: L is the end handed to the handler
// of the code under test, E the remote end.
type vInStream struct {
	From peer.ID
	L    *vsim.Stream
	E    *vsim.End
	Done chan struct{} // closed when the handler returned

	mu    sync.Mutex
	panic string // recovered panic of the handler goroutine (value + stack)
}

// vInProto is the protocol id the DHT serves.
func vInProto(d *IpfsDHT) protocol.ID { return d.serverProtocols[0] }

// vInOpen opens an inbound stream from `from` and runs handler on it in its own goroutine.
// handler == nil: the handler currently registered at the fake host is used, and nil is
// returned when there is none (the host would refuse the protocol).
func vInOpen(n *vNet, from peer.ID, handler network.StreamHandler) *vInStream {
	proto := vInProto(n.D)
	if handler == nil {
		handler = n.H.Handler(proto)
		if handler == nil {
			return nil
		}
	}
	l, e := n.H.NewInboundStream(from, proto)
	s := &vInStream{From: from, L: l, E: e, Done: make(chan struct{})}
	go s.run(handler)
	return s
}

// vInOpenLate creates an inbound stream whose protocol is still unset — multistream negotiation
// in progress: the stream already belongs to its connection, the handler has been looked up, but
// the protocol is not yet recorded on the stream — and returns the function that completes the
// negotiation (records the protocol, then dispatches to handler), as a libp2p host does.
func vInOpenLate(n *vNet, from peer.ID, handler network.StreamHandler) (*vInStream, func()) {
	l, e := n.H.NewInboundStream(from, "")
	s := &vInStream{From: from, L: l, E: e, Done: make(chan struct{})}
	proto := vInProto(n.D)
	return s, func() {
		l.SetProtocol(proto)
		go s.run(handler)
	}
}

func (s *vInStream) run(handler network.StreamHandler) {
	defer close(s.Done)
	defer func() {
		if r := recover(); r != nil {
			s.mu.Lock()
			s.panic = fmt.Sprintf("%v\n%s", r, debug.Stack())
			s.mu.Unlock()
		}
	}()
	handler(s.L)
}

// Panicked returns the recovered panic of the handler goroutine ("" if none).
func (s *vInStream) Panicked() string {
	s.mu.Lock()
	defer s.mu.Unlock()
	return s.panic
}

// Ended reports whether the handler returned.
func (s *vInStream) Ended() bool {
	select {
	case <-s.Done:
		return true
	default:
		return false
	}
}

// Drain returns, without blocking, everything the handler has written and the monitor has
// not yet read, and whether the stream was reset / closed by the handler. To be called at
// rest (after synctest.Wait()) inside a bubble.
func (s *vInStream) Drain() (data []byte, reset, eof bool) {
	s.E.SetReadDeadline(time.Now())
	defer s.E.SetReadDeadline(time.Time{})
	buf := make([]byte, 64<<10)
	for {
		n, err := s.E.Read(buf)
		data = append(data, buf[:n]...)
		if err != nil {
			if errors.Is(err, vsim.ErrReset) {
				reset = true
			} else if err == io.EOF {
				eof = true
			}
			return
		}
	}
}

// vInSplitFrames splits a byte string into uvarint-length-prefixed frames; rest is what
// remains after the last complete frame (an incomplete or malformed tail).
func vInSplitFrames(b []byte) (frames [][]byte, rest []byte) {
	for len(b) > 0 {
		l, n := binary.Uvarint(b)
		if n <= 0 || uint64(len(b)-n) < l {
			return frames, b
		}
		frames = append(frames, b[n:n+int(l)])
		b = b[n+int(l):]
	}
	return frames, nil
}

// vInFrame renders a message as one length-prefixed frame.
func vInFrame(m proto.Message) []byte {
	b, err := proto.Marshal(m)
	if err != nil {
		panic(err)
	}
	return vInRawFrame(b)
}

// vInRawFrame prefixes a payload with its uvarint length.
func vInRawFrame(payload []byte) []byte {
	var hdr [binary.MaxVarintLen64]byte
	n := binary.PutUvarint(hdr[:], uint64(len(payload)))
	return append(hdr[:n:n], payload...)
}

// vInPanicCheck reports a handler panic as a violation (signature = top repo frame).
func vInPanicCheck(c *vh.Case, s *vInStream, clause string) {
	if p := s.Panicked(); p != "" {
		c.FailSig(clause, clause+"@"+vh.TopRepoFrame([]byte(p)), "stream handler panicked: %s", p)
	}
}

// vInAscending reports whether peers are in strictly ascending XOR distance to key
// (monitor's own arithmetic; strictness also excludes duplicates).
func vInAscending(key []byte, ps []peer.ID) bool {
	t := vsim.KadID(key)
	for i := 1; i < len(ps); i++ {
		if vsim.CmpDist(t, vsim.KadID([]byte(ps[i-1])), vsim.KadID([]byte(ps[i]))) >= 0 {
			return false
		}
	}
	return true
}

func vInPeerIDs(ps []*pb.Message_Peer) []peer.ID {
	out := make([]peer.ID, 0, len(ps))
	for _, p := range ps {
		out = append(out, peer.ID(p.GetId()))
	}
	return out
}

// ---- generated validator -----------------------------------------------------------------------

// vInVal is the content of a generated record value.
type vInVal struct {
	ID   int    // unique per generated value
	Rank int    // Select prefers the higher rank (ties: the first listed)
	Bad  bool   // Validate rejects
	Exp  int64  // unix nanos after which Validate rejects (0: never)
	Pad  int    // padding bytes
	Key  string // the key the value was made for: Validate rejects it under any other key
}

func vInEnc(v vInVal) []byte {
	return []byte(fmt.Sprintf("v1|%d|%d|%t|%d|%s|%s", v.ID, v.Rank, v.Bad, v.Exp, strings.Repeat("x", v.Pad), v.Key))
}

func vInDec(b []byte) (vInVal, bool) {
	p := strings.SplitN(string(b), "|", 7)
	if len(p) != 7 || p[0] != "v1" {
		return vInVal{}, false
	}
	id, e1 := strconv.Atoi(p[1])
	rank, e2 := strconv.Atoi(p[2])
	bad, e3 := strconv.ParseBool(p[3])
	exp, e4 := strconv.ParseInt(p[4], 10, 64)
	if e1 != nil || e2 != nil || e3 != nil || e4 != nil {
		return vInVal{}, false
	}
	return vInVal{ID: id, Rank: rank, Bad: bad, Exp: exp, Pad: len(p[5]), Key: p[6]}, true
}

// vInValidator is a record.Validator over vInVal values.
type vInValidator struct{}

func (vInValidator) Validate(key string, value []byte) error {
	v, ok := vInDec(value)
	switch {
	case !ok:
		return errors.New("vInValidator: undecodable value")
	case v.Bad:
		return errors.New("vInValidator: value marked invalid")
	case v.Key != key:
		return errors.New("vInValidator: value made for another key")
	case v.Exp != 0 && time.Now().UnixNano() > v.Exp:
		return errors.New("vInValidator: value expired")
	}
	return nil
}

func (vInValidator) Select(key string, vals [][]byte) (int, error) {
	if len(vals) == 0 {
		return 0, errors.New("vInValidator: nothing to select from")
	}
	best, bestRank := 0, -1<<31
	for i, b := range vals {
		r := -1 << 30
		if v, ok := vInDec(b); ok {
			r = v.Rank
		}
		if r > bestRank {
			best, bestRank = i, r
		}
	}
	return best, nil
}

// vInValueDsKey recomputes the datastore key of a value record (records/value_store.go valueDsKey).
func vInValueDsKey(key string) ds.Key {
	ns, _, _ := record.SplitKey(key)
	if ns == "providers" {
		ns = base32.RawStdEncoding.EncodeToString([]byte(ns))
	}
	return ds.NewKey("/" + ns + "/" + base32.RawStdEncoding.EncodeToString([]byte(key)))
}

// vInTrim renders a key / value for messages.
func vInTrim(b []byte) string {
	if len(b) > 60 {
		return fmt.Sprintf("%x…(%d bytes)", b[:16], len(b))
	}
	return string(b)
}

// vInHash is a short stable hash for case signatures.
func vInHash(s string) string {
	var h uint64 = 14695981039346656037
	for i := 0; i < len(s); i++ {
		h ^= uint64(s[i])
		h *= 1099511628211
	}
	return fmt.Sprintf("%016x", h)
}
