//go:build verif

package dht

// C01/realsender — lookups that follow each other on ONE instance, over the DHT's own message sender.
//
// The other C01 units hand the DHT a simulated message sender, so nothing of internal/net is between the lookup
// and the peers. Here the real sender runs over simulated streams (dials and stream opens take virtual time), every
// peer is healthy and honest and knows the whole network, and the first lookup is cancelled at a PRNG instant
// inside the window in which connections and streams are being opened. The lookups that follow are not cancelled:
// no dial and no request of theirs fails on the wire, so
//   - none of them may report a peer unreachable (the events agree with what the peers were asked and answered),
//   - each returns exactly the K nearest of all peers (every peer is learned from the first answer and none failed).
// State that a cancelled lookup leaves behind in the instance (senders, streams, peerstore) must not change that.

import (
	"context"
	"fmt"
	"testing"
	"testing/synctest"
	"time"

	"github.com/libp2p/go-libp2p/core/peer"

	"github.com/libp2p/go-libp2p-kad-dht/internal/verif/vh"
	"github.com/libp2p/go-libp2p-kad-dht/internal/verif/vsim"
	pb "github.com/libp2p/go-libp2p-kad-dht/pb"
)

func TestVerif_C01_realsender(t *testing.T) {
	vh.Run(t, vh.Spec{Prop: "C01", Unit: "realsender", Quick: 300, Thorough: 8000, CostMs: 20,
		Rule:    "standard client with its own message sender over simulated streams; 4-40 healthy honest peers that know the whole network (K in {2,3,5,20}, alpha in {1,3,10}), 1-K+2 of them seeded; dials take 0-30 ms, stream opens 1-30 ms, answers 1-40 ms; lookup 1 is cancelled at a PRNG instant 0-120 ms after its start (every fourth case: not cancelled); after 1 virtual minute of rest, 2-3 uncancelled lookups (the first for the same key) are judged: no failure on the wire => no peer reported unreachable, result = exactly the K nearest of all peers, ascending, without the local node; non-trivial = lookup 1 was cancelled while a dial or stream open was in progress; distinct by (N, K, alpha, cancel instant)",
		Clauses: []string{"unreachable-iff-failed", "result-is-k-nearest-of-learned", "uncancelled-no-error"}},
		func(c *vh.Case) {
			r := c.R
			k := []int{2, 3, 5, 20}[r.Intn(4)]
			a := []int{1, 3, 10}[r.Intn(3)]
			n := 4 + r.Intn(37)
			cancelAt := time.Duration(r.Intn(120000)) * time.Microsecond
			if c.Idx%4 == 3 {
				cancelAt = 0
			}
			cfg := vNetCfg{N: n, K: k, A: a, B: k, Knowledge: "full", Seeds: 1 + r.Intn(k+2), RealSender: true}
			c.Set("N", n)
			c.Set("K_alpha", []int{k, a})
			c.Set("first_lookup_cancelled_after", cancelAt.String())
			opening := false
			c.Bubble(t, time.Hour, "hang", func(t *testing.T) {
				net := vNewNet(t, c, cfg)
				defer net.Close()
				defer func() {
					net.S.CloseStreams()
					synctest.Wait()
				}()
				dialLat, openLat := map[peer.ID]time.Duration{}, map[peer.ID]time.Duration{}
				var inOpen int
				for i, id := range net.IDs {
					dialLat[id] = time.Duration(r.Intn(30000)) * time.Microsecond
					openLat[id] = time.Duration(1000+r.Intn(29000)) * time.Microsecond
					base := time.Duration(1+r.Intn(40)) * time.Millisecond
					idx, d := i, dialLat[id]
					net.S.Peer(id).Script = func(cnt int, req *pb.Message) vsim.Reply {
						if req == nil {
							return vsim.Reply{Delay: d}
						}
						return vsim.Reply{Delay: base + time.Duration((cnt*37+idx)%7)*time.Millisecond}
					}
				}
				var openMu = make(chan struct{}, 1)
				openMu <- struct{}{}
				net.S.StreamOpenDelay = func(p peer.ID) time.Duration {
					<-openMu
					inOpen++
					openMu <- struct{}{}
					time.AfterFunc(openLat[p], func() { <-openMu; inOpen--; openMu <- struct{}{} })
					return openLat[p]
				}
				synctest.Wait()
				key1 := fmt.Sprintf("/verif/c01rs/%d/%d", c.Idx, r.Int63())
				ctx1, cancel1 := context.WithCancel(context.Background())
				if cancelAt > 0 {
					tm := time.AfterFunc(cancelAt, func() {
						<-openMu
						busy := inOpen > 0
						openMu <- struct{}{}
						if busy {
							opening = true
						}
						cancel1()
					})
					defer tm.Stop()
				}
				_, err1 := net.D.GetClosestPeers(ctx1, key1)
				cancelled1 := ctx1.Err() != nil
				cancel1()
				c.Logf("lookup 1: cancelled=%v err=%v", cancelled1, err1)
				for _, d := range net.H.DialLog() {
					if d.CtxErr != "" {
						opening = true // a dial was in progress when the lookup was cancelled
					}
				}
				time.Sleep(time.Minute)
				synctest.Wait()
				keys := []string{key1, fmt.Sprintf("/verif/c01rs/%d/%d", c.Idx, r.Int63())}
				if r.Intn(2) == 0 {
					keys = append(keys, string(net.IDs[r.Intn(n)]))
				}
				for li, key := range keys {
					logFrom := len(net.S.Log())
					dialFrom := len(net.H.DialLog())
					ctx2, cancel2 := context.WithCancel(context.Background())
					lctx, events, wait := net.WithEvents(ctx2)
					R, err := net.D.GetClosestPeers(lctx, key)
					cancel2()
					wait()
					synctest.Wait()
					failedWire := map[peer.ID]string{}
					for _, e := range net.S.Log()[logFrom:] {
						if e.Kind == vsim.EvReply && e.Err != "" {
							failedWire[e.Peer] = e.Err
						}
					}
					for _, d := range net.H.DialLog()[dialFrom:] {
						if d.Err != "" {
							failedWire[d.Peer] = d.Err
						}
					}
					c.Check(err == nil, "uncancelled-no-error", "lookup %d (%q) returned error %v", li+2, key, err)
					var unreach []string
					for _, e := range events() {
						if e.Ev.Response == nil {
							continue
						}
						for _, p := range vEvPeers(e.Ev.Response.Unreachable) {
							if _, ok := failedWire[p]; !ok {
								unreach = append(unreach, net.Name(p))
							}
						}
					}
					c.Check(len(unreach) == 0, "unreachable-iff-failed", "lookup %d (after lookup 1 cancelled=%v at +%v) reported %v unreachable, but no dial and no request to them failed on the wire during this lookup (all peers are healthy)", li+2, cancelled1, cancelAt, unreach)
					if len(failedWire) == 0 {
						want := vsim.Nearest([]byte(key), net.IDs, k)
						c.Check(vEqualIDs(R, want), "result-is-k-nearest-of-learned", "lookup %d (after lookup 1 cancelled=%v at +%v): every peer is healthy, honest and knows all %d peers, nothing failed on the wire, yet the result %v differs from the %d nearest %v", li+2, cancelled1, cancelAt, n, net.Names(R), k, net.Names(want))
					}
					c.Obs("lookups_judged", 1)
				}
			})
			if opening {
				c.Nontrivial(fmt.Sprintf("%d/%d/%d/%v", n, k, a, cancelAt))
			}
		})
}
