//go:build verif

package dht

// C12/probeempty — "correctly answered": the admission probe (FIND_NODE for the candidate's own id) must
// return at least one peer once the routing table holds bucketSize members (dht.go lookupCheck); a candidate
// that answers the probe with an empty list is then not admitted. The histories/concurrent units keep K far
// above the number of peers (no bucket ever fills), so this rule needs a unit of its own with small K.

import (
	"fmt"
	"testing"
	"testing/synctest"
	"time"

	"github.com/libp2p/go-libp2p/core/event"
	"github.com/libp2p/go-libp2p/core/network"
	"github.com/libp2p/go-libp2p/core/peer"

	"github.com/libp2p/go-libp2p-kad-dht/internal/verif/vh"
	"github.com/libp2p/go-libp2p-kad-dht/internal/verif/vsim"
	pb "github.com/libp2p/go-libp2p-kad-dht/pb"
)

func TestVerif_C12_probeempty(t *testing.T) {
	vh.Run(t, vh.Spec{Prop: "C12", Unit: "probeempty", Quick: 300, Thorough: 8000, CostMs: 12,
		Rule: "K in {2,3,4,5}, 10-16 healthy simulated peers connect and identify one by one (admitted through the admission probe until their buckets are full), then 4-7 candidates that answer every FIND_NODE with an EMPTY closer-peers list connect and identify; every second case starts with an empty-answering candidate whose probe takes 300-900 ms while K+2 healthy candidates are admitted behind it (the table passes K during the probe: the rule looks at the table when the answer is judged); no lookups are run (a lookup query admits whatever it answers) and the fix-low-peers loop is off; oracle at rest after each candidate: if the table held >= K members when the probe was sent and the table had room for the candidate (UsefulNewPeer), the candidate is not a member afterwards, and it received exactly one probe; candidates probed while the table held fewer than K members may be admitted (documented leniency); non-trivial = at least one candidate was probed against a table of >= K members; distinct by (K, table size sequence)",
		Clauses: []string{"probe-empty-answer-not-admitted", "healthy-candidates-admitted"}},
		func(c *vh.Case) {
			k := 2 + c.R.Intn(4)
			nHealthy := 10 + c.R.Intn(7)
			nEmpty := 4 + c.R.Intn(4)
			c.Set("K", k)
			c.Set("healthy", nHealthy)
			c.Set("empty_answerers", nEmpty)
			c.Bubble(t, time.Hour, "c12-hang", func(t *testing.T) {
				n := vNewNet(t, c, vNetCfg{N: nHealthy + nEmpty, K: k, A: 3, B: k, Knowledge: "full", Seeds: 0})
				defer n.Close()
				// every peer answers with a little latency. The fix-low-peers loop is off: with auto-refresh disabled the node
				// stays in its bootstrapping state, where every admission into a full bucket replaces a replaceable member,
				// whose removal re-triggers the loop - an endless replacement churn that has nothing to do with this clause.
				for i := 0; i < nHealthy; i++ {
					lat := time.Duration(1+c.R.Intn(20)) * time.Millisecond
					n.S.Peer(n.IDs[i]).Script = func(int, *pb.Message) vsim.Reply { return vsim.Reply{Delay: lat} }
				}
				for i := nHealthy; i < nHealthy+nEmpty; i++ {
					sp := n.S.Peer(n.IDs[i])
					sp.Script = func(_ int, req *pb.Message) vsim.Reply {
						if req == nil {
							return vsim.Reply{}
						}
						return vsim.Reply{Delay: 5 * time.Millisecond, Mutate: func(_, resp *pb.Message) { resp.CloserPeers = nil }}
					}
				}
				probesTo := func(p peer.ID) int {
					cnt := 0
					for _, e := range n.S.Log() {
						if e.Kind == vsim.EvRequest && e.Type == pb.Message_FIND_NODE && e.Peer == p && string(e.Key) == string(p) {
							cnt++
						}
					}
					return cnt
				}
				member := func(p peer.ID) bool {
					for _, q := range n.D.routingTable.ListPeers() {
						if q == p {
							return true
						}
					}
					return false
				}
				introduce := func(p peer.ID) {
					n.H.Net.AddConn(p, network.DirOutbound, nil, true)
					n.H.Peerstore().AddProtocols(p, n.D.protocols...)
					n.H.Emit(event.EvtPeerIdentificationCompleted{Peer: p})
					time.Sleep(2 * time.Second) // the probe and the table update conclude in virtual time
					synctest.Wait()
				}
				admitted := 0
				// every second case: an empty-answering candidate whose probe is slow (300-900 ms) is introduced first, and
				// K+2 healthy candidates right behind it without waiting: the table grows past K while that probe is in flight.
				// The rule speaks of the table at the time the answer is judged.
				if c.Idx%2 == 0 && nHealthy >= k+2 {
					e := n.IDs[nHealthy] // the first empty answerer
					sp := n.S.Peer(e)
					lat := time.Duration(300+c.R.Intn(600)) * time.Millisecond
					sizeAtAnswer := -1
					sp.Script = func(_ int, req *pb.Message) vsim.Reply {
						if req == nil {
							return vsim.Reply{}
						}
						return vsim.Reply{Delay: lat, Mutate: func(_, resp *pb.Message) {
							resp.CloserPeers = nil
							sizeAtAnswer = n.D.routingTable.Size()
						}}
					}
					emit := func(p peer.ID) {
						n.H.Net.AddConn(p, network.DirOutbound, nil, true)
						n.H.Peerstore().AddProtocols(p, n.D.protocols...)
						n.H.Emit(event.EvtPeerIdentificationCompleted{Peer: p})
					}
					emit(e)
					for i := 0; i < k+2; i++ {
						emit(n.IDs[i])
					}
					time.Sleep(2 * time.Second)
					synctest.Wait()
					room := n.D.routingTable.UsefulNewPeer(e) || member(e)
					c.Logf("slow empty answerer %s: table size when its answer arrived %d (K=%d), member afterwards=%v", n.Name(e), sizeAtAnswer, k, member(e))
					if sizeAtAnswer >= k && room {
						c.Obs("slow_empty_answerers_judged", 1)
						c.Check(!member(e), "probe-empty-answer-not-admitted", "candidate %s answered its admission probe with an empty list %v after the probe was sent; the table held %d >= K=%d members when the answer arrived, and it was admitted", n.Name(e), lat, sizeAtAnswer, k)
					}
				}
				for i := 0; i < nHealthy; i++ {
					p := n.IDs[i]
					room := n.D.routingTable.UsefulNewPeer(p)
					introduce(p)
					if room {
						c.Check(member(p), "healthy-candidates-admitted", "healthy candidate %s (room in its bucket, protocol advertised, probe answered with peers) was not admitted", n.Name(p))
					}
					if member(p) {
						admitted++
					}
				}
				var sizes []int
				judged := 0
				for i := nHealthy; i < nHealthy+nEmpty; i++ {
					p := n.IDs[i]
					size := n.D.routingTable.Size()
					room := n.D.routingTable.UsefulNewPeer(p)
					introduce(p)
					sizes = append(sizes, size)
					c.Logf("candidate %s: table size %d (K=%d), room=%v, probes=%d, member afterwards=%v", n.Name(p), size, k, room, probesTo(p), member(p))
					if size >= k && room {
						judged++
						c.Check(probesTo(p) >= 1 && !member(p), "probe-empty-answer-not-admitted", "candidate %s answered its admission probe with an empty list while the table held %d >= K=%d members, and was admitted (probes sent: %d)", n.Name(p), size, k, probesTo(p))
					}
				}
				c.Obs("healthy_admitted", admitted)
				c.Obs("empty_answerers_judged", judged)
				c.Obs("rpcs", len(n.S.Log())/2)
				if judged > 0 {
					c.Nontrivial(fmt.Sprintf("%d/%v", k, sizes))
				}
			})
		})
}
