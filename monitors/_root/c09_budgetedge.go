//go:build verif

package dht

// C09/budgetedge — "every ... GET_PROVIDERS response at most the transport message limit", at the byte: the provider
// set of a key is built from records of one exact size s chosen so that, after as many records as fit, the room
// left is s, s+1 or s+2 bytes - enough for the bytes of one more record, not for its tag and length prefix. The
// order in which the server walks its providers does not matter (all records have the same size).

import (
	"bytes"
	"context"
	"fmt"
	"strings"
	"testing"
	"testing/synctest"
	"time"

	"github.com/libp2p/go-libp2p/core/network"
	"github.com/libp2p/go-libp2p/core/peer"
	ma "github.com/multiformats/go-multiaddr"
	"google.golang.org/protobuf/encoding/protowire"
	"google.golang.org/protobuf/proto"

	"github.com/libp2p/go-libp2p-kad-dht/internal/verif/vh"
	"github.com/libp2p/go-libp2p-kad-dht/internal/verif/vsim"
	pb "github.com/libp2p/go-libp2p-kad-dht/pb"
)

func TestVerif_C09_budgetedge(t *testing.T) {
	vh.Run(t, vh.Spec{Prop: "C09", Unit: "budgetedge", Quick: 12, Thorough: 300, CostMs: 700, WallS: 600,
		Rule:    "server-mode DHT with an empty routing table (the reply carries no closer peers) and one provider key; every provider record has the same exact wire size s in [300, 2400] (34-byte id + one /dns4 address per record whose name length is tuned), s chosen by the monitor's own arithmetic so that (limit - size of the reply without providers) mod (s + tag + length prefix) lies in {s, s+1, s+2} (slack 0, 1 or 2 by case index; a fourth of the cases use a remainder of s-1 as control: one record fewer, nothing at stake); enough providers to overflow the limit by 3-40 records; 2 GET_PROVIDERS requests; oracle: reply frame <= network.MessageSizeMax, reply lists exactly floor((limit - base)/(s + framing)) providers, all of them stored; non-trivial = the edge class (not the control); distinct by (s, slack)",
		Clauses: []string{"reply-within-message-limit", "budget-uses-all-the-room", "providers-are-stored-providers"}},
		func(c *vh.Case) {
			c.Bubble(t, 6*time.Hour, "handler-hang", func(t *testing.T) {
				r := c.R
				n := vNewNet(t, c, vNetCfg{N: 2, K: 2, A: 1, B: 1, Seeds: 0, Mode: ModeServer})
				defer n.Close()
				key := append([]byte{0x12, 0x20}, bytes.Repeat([]byte{byte(c.Idx + 7)}, 32)...)
				base := proto.Size(&pb.Message{Type: pb.Message_GET_PROVIDERS, Key: key})
				room := network.MessageSizeMax - base
				control := c.Idx%4 == 3 // control: the remainder is s-1 or s-2 (one record fewer, nothing at stake)
				var s, slack int
				start := 300 + r.Intn(2500)
				for off := 0; off < 5700 && s == 0; off++ {
					cand := 300 + (start-300+off)%5700
					per := 1 + protowire.SizeBytes(cand) // tag + length prefix + bytes
					rem := room % per
					if !control && rem >= cand && rem <= cand+2 {
						s, slack = cand, rem-cand
					}
					if control && (rem == cand-1 || rem == cand-2) {
						s, slack = cand, rem-cand
					}
				}
				if !c.Check(s > 0, "harness", "no record size with the wanted remainder found from %d", start) {
					return
				}
				per := 1 + protowire.SizeBytes(s)
				fit := room / per
				// record = id field (1 + 1 + 34) + address fields (1 + length prefix + bytes each) = s
				var lens []int
				rest := s - 36
				for rest > 0 {
					f := 203 // one-byte tag, two-byte prefix, 200 bytes
					if rest < 203+40 {
						f = rest
					}
					switch {
					case f == 130:
						// no single field is 130 bytes long (2 + 127 = 129, 3 + 128 = 131: the length prefix grows): two fields
						lens = append(lens, 60-2, 70-2)
					case f >= 131:
						lens = append(lens, f-3)
					default:
						lens = append(lens, f-2)
					}
					rest -= f
				}
				mkAddrs := func(i int) []ma.Multiaddr {
					var out []ma.Multiaddr
					for j, al := range lens {
						// /dns4/<name>/tcp/4001: 1 (protocol code) + varint(len(name)) + name + 1 (tcp code) + 2 (port)
						nameLen := al - 1 - 1 - 1 - 2
						if nameLen >= 128 {
							nameLen--
						}
						name := fmt.Sprintf("p%d-%d.", i, j)
						for len(name) < nameLen {
							lab := 60
							if nameLen-len(name) < 61 {
								lab = nameLen - len(name)
							}
							name += strings.Repeat("x", lab-1) + "."
						}
						name = name[:nameLen-1] + "y"
						out = append(out, ma.StringCast("/dns4/"+name+"/tcp/4001"))
					}
					return out
				}
				nprov := fit + 3 + r.Intn(38)
				ctx := context.Background()
				stored := map[peer.ID]bool{}
				for i := 0; i < nprov; i++ {
					id := vsim.PeerID(fmt.Sprintf("edge%d", c.Idx), i)
					as := mkAddrs(i)
					if i < 3 {
						got := proto.Size(pb.RawPeerInfosToPBPeers([]peer.AddrInfo{{ID: id, Addrs: as}})[0])
						if !c.Check(got == s, "harness", "record built with %d bytes, wanted %d (address field lengths %v)", got, s, lens) {
							return
						}
					}
					if err := n.D.providerStore.AddProvider(ctx, key, peer.AddrInfo{ID: id, Addrs: as}); err != nil {
						panic(err)
					}
					stored[id] = true
				}
				synctest.Wait()
				c.Set("record_size", s)
				c.Set("room_left_after_the_last_fitting_record", room%per)
				c.Set("slack", slack)
				c.Set("records_that_fit", fit)
				c.Set("providers_stored", nprov)
				for q := 0; q < 2; q++ {
					from := vsim.PeerID(fmt.Sprintf("edgeq%d", c.Idx), q)
					st := vInOpen(n, from, nil)
					st.E.WriteMsg(&pb.Message{Type: pb.Message_GET_PROVIDERS, Key: key})
					synctest.Wait()
					data, reset, _ := st.Drain()
					frames, rest := vInSplitFrames(data)
					if !c.Check(!reset && len(frames) == 1 && len(rest) == 0, "reply-well-framed", "GET_PROVIDERS: reset=%v, %d frames, %d stray bytes", reset, len(frames), len(rest)) {
						st.E.Reset()
						synctest.Wait()
						return
					}
					c.Check(len(frames[0]) <= network.MessageSizeMax, "reply-within-message-limit", "GET_PROVIDERS reply of %d bytes (limit %d): records of %d bytes, %d fit with their framing (%d bytes each) leaving %d bytes", len(frames[0]), network.MessageSizeMax, s, fit, per, room%per)
					var resp pb.Message
					if err := proto.Unmarshal(frames[0], &resp); err != nil {
						c.Fail("reply-well-framed", "reply does not decode: %v", err)
					} else {
						c.Check(len(resp.GetProviderPeers()) == fit, "budget-uses-all-the-room", "reply lists %d providers; %d records of %d+%d bytes fit into the %d bytes left by the rest of the reply", len(resp.GetProviderPeers()), fit, s, per-s, room)
						for _, pp := range resp.GetProviderPeers() {
							c.Check(stored[peer.ID(pp.GetId())], "providers-are-stored-providers", "reply lists a provider that was never stored")
						}
					}
					st.E.Close()
					synctest.Wait()
				}
				if !control {
					c.Nontrivial(fmt.Sprintf("%d/%d", s, slack))
				}
			})
		})
}
