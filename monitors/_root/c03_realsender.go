//go:build verif

package dht

// C03/realsender — bounded progress end to end: the operations of the standard client over the DHT's own message
// sender (internal/net: per-peer lock, framing, 10 s read timeout, one retry on a fresh stream) and simulated
// streams, with peers that swallow requests, answer late, reset the stream or cannot be dialled. The caller never
// cancels: every bound that ends the operation is one of the code's own. The other C03 units hand the simulation in
// as the message sender (they decide the operations' logic above the sender interface); this one decides that the
// pieces fit.

import (
	"context"
	"errors"
	"fmt"
	"testing"
	"testing/synctest"
	"time"

	"github.com/libp2p/go-libp2p-kad-dht/internal/verif/vh"
	"github.com/libp2p/go-libp2p-kad-dht/internal/verif/vsim"
	pb "github.com/libp2p/go-libp2p-kad-dht/pb"
)

func TestVerif_C03_realsender(t *testing.T) {
	vh.Run(t, vh.Spec{Prop: "C03", Unit: "realsender", Quick: 200, Thorough: 6000, CostMs: 25,
		Rule:    "standard client with its own message sender over simulated streams; 3-40 peers (K in {2,3,5,8}, alpha in {1,3}), 0-60 % of them misbehaving: swallowing every request (stream stays open, never answers), answering after 11-25 s (later than the read timeout, on every attempt), answering after 1-9 s, resetting the stream, refusing the dial; one operation per case (GetClosestPeers, FindPeer, GetValue, SearchValue, FindProviders, FindProvidersAsync, PutValue, Provide), context never cancelled; oracle: the operation returns (channel operations: the channel is closed) within 30 s x (number of peers / alpha + 3) of virtual time - two read timeouts per silent peer and query slot - and a later PING to a healthy peer is still answered (no per-peer lock left held); non-trivial = at least one peer swallowed a request or answered late; distinct by (operation, shape, behaviour mix)",
		Clauses: []string{"uncancelled-op-returns-in-bound", "healthy-peer-still-served"}},
		func(c *vh.Case) {
			r := c.R
			k := []int{2, 3, 5, 8}[r.Intn(4)]
			a := []int{1, 3}[r.Intn(2)]
			n := 3 + r.Intn(38)
			failFrac := []float64{0, 0.2, 0.4, 0.6}[r.Intn(4)]
			opName := []string{"gcp", "findpeer", "getvalue", "searchvalue", "findprovs", "findprovsasync", "putvalue", "provide"}[r.Intn(8)]
			sc := &vC03Sc{Cfg: vNetCfg{N: n, K: k, A: a, B: k, Knowledge: []string{"full", "kbucket"}[r.Intn(2)], Seeds: 1 + r.Intn(k+3), RealSender: true, Validator: vC03Validator{}},
				ValFrac: 0.4, ProvFrac: 0.4, Quorum: -1, ValidOnly: true}
			c.Set("op", opName)
			c.Set("N", n)
			c.Set("K_alpha", []int{k, a})
			c.Bubble(t, 12*time.Hour, "op-hang", func(t *testing.T) {
				net := vNewNet(t, c, sc.Cfg)
				defer net.Close()
				defer func() {
					net.S.CloseStreams()
					synctest.Wait()
				}()
				kinds := map[string]int{}
				var healthy []int
				for i, id := range net.IDs {
					sp := net.S.Peer(id)
					kind := "ok"
					if r.Float64() < failFrac {
						kind = []string{"swallow", "late", "slow", "reset", "nodial"}[r.Intn(5)]
					}
					kinds[kind]++
					if kind == "ok" {
						healthy = append(healthy, i)
					}
					base := time.Duration(1+r.Intn(200)) * time.Millisecond
					late := time.Duration(11+r.Intn(15)) * time.Second
					slow := time.Duration(1+r.Intn(9)) * time.Second
					sp.Script = func(cnt int, req *pb.Message) vsim.Reply {
						if req == nil {
							if kind == "nodial" {
								return vsim.Reply{DialFail: true, Delay: base}
							}
							return vsim.Reply{}
						}
						switch kind {
						case "swallow":
							return vsim.Reply{Silent: true}
						case "late":
							return vsim.Reply{Delay: late}
						case "slow":
							return vsim.Reply{Delay: slow}
						case "reset":
							return vsim.Reply{Delay: base, Err: errors.New("vsim: stream reset by peer")}
						}
						return vsim.Reply{Delay: base}
					}
				}
				c.Set("behaviours", fmt.Sprint(kinds))
				synctest.Wait()
				o := vC03MakeOp(c, net, sc, r, opName, 0)
				bound := 30 * time.Second * time.Duration(n/a+3)
				start := time.Now()
				go func() {
					defer close(o.done)
					o.fn(context.Background(), o)
				}()
				tm := time.NewTimer(bound)
				select {
				case <-o.done:
					tm.Stop()
					c.Clause("uncancelled-op-returns-in-bound")
				case <-tm.C:
					c.Check(false, "uncancelled-op-returns-in-bound", "%s has not returned %v after the call (context never cancelled; %d peers, alpha %d, behaviours %v)", opName, bound, n, a, kinds)
					<-o.done // the bubble's own budget (hang clause) takes over if it never does
				}
				c.Set("virtual_duration", time.Since(start).String())
				c.Set("err", fmt.Sprint(o.Err))
				// the sender is still usable: a healthy peer answers a PING
				if len(healthy) > 0 {
					p := net.IDs[healthy[r.Intn(len(healthy))]]
					pctx, cancel := context.WithTimeout(context.Background(), 30*time.Second)
					err := net.D.Ping(pctx, p)
					cancel()
					c.Check(err == nil, "healthy-peer-still-served", "PING to healthy peer %s after %s returned: %v", net.Name(p), opName, err)
				} else {
					c.Clause("healthy-peer-still-served")
				}
				time.Sleep(2 * time.Minute) // background work of the operation (corrective puts, optimistic stragglers) ends
				if kinds["swallow"]+kinds["late"] > 0 {
					c.Nontrivial(fmt.Sprintf("%s/%d/%d/%d/%v", opName, n, k, a, kinds))
				}
			})
		})
}
