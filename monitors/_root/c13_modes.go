//go:build verif

package dht

// C13 — client-mode nodes never serve; auto mode follows reachability.
//
// Units
//   modes  bubble: four Mode options x sequences of <= 8 local-reachability events; at rest after
//          every event the handler registration must equal the mode given by the last event; requests
//          on new and already-open inbound streams before, racing with, and after each event.
//   race   (-race build, real time) ~300 events racing four request loops.

import (
	"bytes"
	"fmt"
	"math/rand"
	"strings"
	"sync"
	"sync/atomic"
	"testing"
	"testing/synctest"
	"time"

	"github.com/libp2p/go-libp2p/core/event"
	"github.com/libp2p/go-libp2p/core/network"
	"github.com/libp2p/go-libp2p/core/peer"
	"github.com/libp2p/go-libp2p/core/peerstore"
	"github.com/libp2p/go-libp2p/core/protocol"
	ma "github.com/multiformats/go-multiaddr"
	"google.golang.org/protobuf/proto"

	"github.com/libp2p/go-libp2p-kad-dht/internal/verif/vh"
	"github.com/libp2p/go-libp2p-kad-dht/internal/verif/vsim"
	pb "github.com/libp2p/go-libp2p-kad-dht/pb"
)

var vC13ModeNames = map[ModeOpt]string{ModeAuto: "auto", ModeClient: "client", ModeServer: "server", ModeAutoServer: "autoserver"}
var vC13ReachNames = map[network.Reachability]string{network.ReachabilityPublic: "public", network.ReachabilityPrivate: "private", network.ReachabilityUnknown: "unknown"}

// vC13Initial is the mode a node starts in (property: fixed modes as configured; the automatic
// modes start as client / server until the first event).
func vC13Initial(opt ModeOpt) bool { return opt == ModeServer || opt == ModeAutoServer }

// vC13Next is the property's mode function: server mode after event r, given the option and the mode before.
func vC13Next(opt ModeOpt, server bool, r network.Reachability) bool {
	switch opt {
	case ModeClient:
		return false
	case ModeServer:
		return true
	}
	switch r {
	case network.ReachabilityPublic:
		return true
	case network.ReachabilityPrivate:
		return false
	default:
		return opt == ModeAutoServer
	}
}

type vC13Node struct {
	c     *vh.Case
	n     *vNet
	opt   ModeOpt
	peers []peer.ID
	open  []*vInStream // inbound streams opened while serving that the requester has not ended
	seq   int
}

func vC13NewNode(t *testing.T, c *vh.Case, opt ModeOpt, k int) *vC13Node {
	N := 2 + c.R.Intn(3*k)
	opts := []Option{Mode(opt)}
	if c.Idx%5 == 3 {
		// a legacy network: the served protocol id is given outright (it overrides prefix and extension)
		opts = append(opts, V1ProtocolOverride(protocol.ID(fmt.Sprintf("/legacy-%d/dht", c.Idx%7))))
		c.Set("v1_protocol_override", true)
	}
	n := vNewNet(t, c, vNetCfg{N: N, K: k, A: 3, B: 3, Seeds: N, Mode: ModeClient, Opts: opts})
	for i, id := range n.IDs {
		n.H.Peerstore().AddAddrs(id, []ma.Multiaddr{vPeerAddr(i, false)}, peerstore.PermanentAddrTTL)
	}
	nd := &vC13Node{c: c, n: n, opt: opt}
	nd.peers = append(nd.peers, n.IDs...)
	for i := 0; i < 4; i++ {
		nd.peers = append(nd.peers, vsim.PeerID(fmt.Sprintf("c13x%d", c.Idx), i))
	}
	return nd
}

func (nd *vC13Node) peer() peer.ID { return nd.peers[nd.c.R.Intn(len(nd.peers))] }

// request builds a request whose reply can be matched to it.
func (nd *vC13Node) request() *pb.Message {
	nd.seq++
	if nd.c.R.Intn(3) == 0 {
		return &pb.Message{Type: pb.Message_FIND_NODE, Key: []byte(nd.peer())}
	}
	return &pb.Message{Type: pb.Message_PING, Key: []byte(fmt.Sprintf("c13-%d", nd.seq))}
}

// outcome reads what came back for req at rest: "answered", "reset", "none" (nothing, stream open) or "bad".
func vC13Outcome(st *vInStream, req *pb.Message) (string, string) {
	data, reset, eof := st.Drain()
	frames, rest := vInSplitFrames(data)
	switch {
	case len(rest) > 0 || len(frames) > 1:
		return "bad", fmt.Sprintf("%d frames + %d stray bytes", len(frames), len(rest))
	case len(frames) == 1:
		var resp pb.Message
		if err := proto.Unmarshal(frames[0], &resp); err != nil || resp.GetType() != req.GetType() || (req.GetType() == pb.Message_PING && !bytes.Equal(resp.GetKey(), req.GetKey())) {
			return "bad", fmt.Sprintf("reply does not match the request (err=%v type=%v key=%q)", err, resp.GetType(), resp.GetKey())
		}
		if reset {
			return "answered+reset", ""
		}
		return "answered", ""
	case reset:
		return "reset", ""
	case eof:
		return "closed", ""
	}
	return "none", ""
}

// serveCheck sends a request on st at rest and requires an answer (server mode).
func (nd *vC13Node) serveCheck(st *vInStream, what string) {
	c := nd.c
	req := nd.request()
	err := st.E.WriteMsg(req)
	synctest.Wait()
	out, detail := vC13Outcome(st, req)
	c.Obs("requests", 1)
	c.Check(err == nil && out == "answered", "server-mode-answers", "%s: request in server mode on stream from %s: write err=%v, outcome %s %s", what, nd.n.Name(st.From), err, out, detail)
}

// refuseCheck hands a fresh inbound stream to the DHT's stream handler although the node is in client
// mode (a host dispatching a stream whose protocol negotiation finished before the switch), with
// a request already written or written afterwards: nothing may be answered, the stream must be reset.
func (nd *vC13Node) refuseCheck(what string) {
	c := nd.c
	st := vInOpen(nd.n, nd.peer(), nd.n.D.handleNewStream)
	req := nd.request()
	early := c.R.Intn(2) == 0
	if early {
		st.E.WriteMsg(req)
	}
	synctest.Wait()
	if !early {
		st.E.WriteMsg(req)
		synctest.Wait()
	}
	out, _ := vC13Outcome(st, req)
	c.Obs("requests", 1)
	c.Check(st.L.BytesToRemote() == 0 && out == "reset", "client-mode-answers-nothing", "%s: stream dispatched to the DHT handler in client mode: outcome %s, %d bytes written", what, out, st.L.BytesToRemote())
	c.Check(st.Ended(), "client-mode-stream-handler-returns", "%s: handler still running on a stream in client mode", what)
	if !st.Ended() {
		st.E.Reset()
		synctest.Wait()
	}
}

func (nd *vC13Node) closeAll() {
	for _, st := range nd.open {
		st.E.Reset()
	}
	nd.open = nil
	synctest.Wait()
}

func TestVerif_C13_modes(t *testing.T) {
	vh.Run(t, vh.Spec{Prop: "C13", Unit: "modes", Quick: 1500, Thorough: 50000, CostMs: 4,
		Rule:    "PRNG Mode option (auto, client, server, autoserver; a fifth of the nodes serve a protocol id given by V1ProtocolOverride) x sequence of 1-8 EvtLocalReachabilityChanged events (public/private/unknown) emitted on the host's event bus, synctest.Wait() between steps (one step in five is a burst of 2-4 events emitted back to back: the mode is that of the last one); before each event requests on 0-2 new and on already-open inbound streams (server: answered; client: the host has no handler and a stream dispatched to the DHT handler anyway is reset unanswered); at each event optionally a request racing with it (written just before / just after the emit, on an open stream, on a new stream, or on a stream whose protocol negotiation overlaps the event; no Wait in between); after each event at rest: handler registered <=> mode(last event, option), every inbound stream open at a switch to client has been reset and its handler returned, streams open across a non-switch still serve; non-trivial = at least one real mode switch with open streams or a raced request; distinct by (option, event sequence, race outcomes)",
		Clauses: []string{"handlers-iff-mode-of-last-event", "server-mode-answers", "client-mode-answers-nothing", "open-streams-reset-on-switch-to-client", "raced-request-answered-or-reset", "fixed-mode-never-changes", "client-mode-stream-handler-returns"}},
		func(c *vh.Case) {
			c.Bubble(t, time.Hour, "mode-switch-hang", func(t *testing.T) {
				r := c.R
				opt := []ModeOpt{ModeAuto, ModeAutoServer, ModeClient, ModeServer, ModeAuto, ModeAutoServer}[r.Intn(6)]
				nd := vC13NewNode(t, c, opt, []int{1, 3, 8, 20}[r.Intn(4)])
				n := nd.n
				defer n.Close()
				proto := vInProto(n.D)
				server := vC13Initial(opt)
				synctest.Wait()
				regAtStart := len(n.H.HandlerLg)
				c.Check((n.H.Handler(proto) != nil) == server, "handlers-iff-mode-of-last-event", "initial: option %s, handler registered=%v", vC13ModeNames[opt], n.H.Handler(proto) != nil)
				nev := 1 + r.Intn(8)
				var seq, races []string
				switches := 0
				for i := 0; i < nev; i++ {
					what := fmt.Sprintf("step%d", i)
					// ---- before the event, at rest ----
					if server {
						for j, k := 0, r.Intn(3); j < k; j++ {
							st := vInOpen(n, nd.peer(), nil)
							if !c.Check(st != nil, "handlers-iff-mode-of-last-event", "%s: server mode but no handler registered", what) {
								break
							}
							nd.serveCheck(st, what+" new stream")
							if r.Intn(3) == 0 {
								st.E.Close()
								synctest.Wait()
								c.Check(st.Ended(), "server-mode-answers", "%s: requester closed, handler did not return", what)
							} else {
								nd.open = append(nd.open, st)
							}
						}
						if len(nd.open) > 0 && r.Intn(2) == 0 {
							nd.serveCheck(nd.open[r.Intn(len(nd.open))], what+" open stream")
						}
					} else {
						if st := vInOpen(n, nd.peer(), nil); !c.Check(st == nil, "handlers-iff-mode-of-last-event", "%s: client mode but the host has a handler registered", what) {
							st.E.Reset()
							synctest.Wait()
						}
						if r.Intn(2) == 0 {
							nd.refuseCheck(what + " before event")
						}
					}
					time.Sleep(time.Duration(1+r.Intn(300)) * time.Millisecond)
					// ---- the event, optionally raced by a request ----
					reaches := []network.Reachability{network.ReachabilityPublic, network.ReachabilityPrivate, network.ReachabilityUnknown}
					// one step in five is a burst: 1-3 further events emitted back to back in front of the step's own event,
					// without a rest point in between; the mode is still that of the LAST event. viaClient / viaServer: the node
					// passes through client / server mode on the way (streams open before the burst are then legitimately reset; a
					// request racing with the burst may be answered).
					var burst []network.Reachability
					viaClient, viaServer := false, false
					if r.Intn(5) == 0 {
						for j, k := 0, 1+r.Intn(3); j < k; j++ {
							b := reaches[r.Intn(3)]
							burst = append(burst, b)
							seq = append(seq, vC13ReachNames[b]+"+")
							if vC13Next(opt, server, b) {
								viaServer = true
							} else {
								viaClient = true
							}
						}
						c.Obs("burst_events", len(burst))
					}
					reach := reaches[r.Intn(3)]
					next := vC13Next(opt, server, reach)
					seq = append(seq, vC13ReachNames[reach])
					emit := func() {
						for _, b := range burst {
							if err := n.H.Emit(event.EvtLocalReachabilityChanged{Reachability: b}); err != nil {
								panic(err)
							}
						}
						if err := n.H.Emit(event.EvtLocalReachabilityChanged{Reachability: reach}); err != nil {
							panic(err)
						}
					}
					var raced *vInStream
					var racedReq *pb.Message
					racedOnOpen := false
					switch race := r.Intn(7); race {
					case 0, 1: // request on an already-open stream, written just before / after the emit
						if len(nd.open) > 0 {
							raced, racedOnOpen = nd.open[r.Intn(len(nd.open))], true
							racedReq = nd.request()
							if race == 0 {
								raced.E.WriteMsg(racedReq)
								emit()
							} else {
								emit()
								raced.E.WriteMsg(racedReq)
							}
						} else {
							emit()
						}
					case 2, 3: // a new stream dispatched (handler looked up) just before / after the emit
						h := n.H.Handler(proto)
						if race == 3 {
							emit()
							h2 := n.H.Handler(proto)
							if h2 != nil {
								h = h2
							}
						}
						if h != nil {
							raced = vInOpen(n, nd.peer(), h)
							racedReq = nd.request()
							raced.E.WriteMsg(racedReq)
						}
						if race == 2 {
							emit()
						}
					case 4: // a stream whose protocol negotiation overlaps the event: accepted and handler looked up before, dispatched after
						if h := n.H.Handler(proto); h != nil {
							var dispatch func()
							raced, dispatch = vInOpenLate(n, nd.peer(), h)
							racedReq = nd.request()
							raced.E.WriteMsg(racedReq)
							emit()
							if r.Intn(2) == 0 {
								synctest.Wait() // the switch (if any) is complete before the host dispatches
							}
							dispatch()
						} else {
							emit()
						}
					default:
						emit()
					}
					synctest.Wait()
					// ---- after the event, at rest ----
					reg := n.H.Handler(proto) != nil
					c.Check(reg == next, "handlers-iff-mode-of-last-event", "%s: option %s, events %v: expected server=%v, handler registered=%v", what, vC13ModeNames[opt], seq, next, reg)
					if opt == ModeClient || opt == ModeServer {
						c.Check(len(n.H.HandlerLg) == regAtStart, "fixed-mode-never-changes", "%s: fixed mode %s changed its handler registrations (%d -> %d events)", what, vC13ModeNames[opt], regAtStart, len(n.H.HandlerLg))
					}
					if raced != nil {
						out, detail := vC13Outcome(raced, racedReq)
						races = append(races, out)
						c.Obs("raced_requests", 1)
						c.Obs("raced_"+out, 1)
						ok := out == "answered" || out == "reset" || out == "answered+reset"
						if server && next && !viaClient { // no switch: plain server behaviour
							ok = out == "answered"
						}
						if !server && !next && !viaServer { // client all along (stale dispatch only)
							ok = out == "reset"
						}
						c.Check(ok, "raced-request-answered-or-reset", "%s: request racing with event %s (server %v -> %v): outcome %s %s", what, vC13ReachNames[reach], server, next, out, detail)
						if !racedOnOpen {
							if out == "reset" || out == "answered+reset" || raced.L.WasReset() {
								c.Check(raced.Ended(), "client-mode-stream-handler-returns", "%s: raced stream reset but its handler has not returned", what)
							} else {
								nd.open = append(nd.open, raced)
							}
						}
					}
					if !next {
						// client mode at rest: every inbound DHT stream that was open has been reset by the node
						for _, st := range nd.open {
							c.Check(st.L.Resets.Load() > 0 && st.Ended(), "open-streams-reset-on-switch-to-client", "%s: client mode after event %s, but the stream from %s opened while serving: resets=%d handler ended=%v", what, vC13ReachNames[reach], n.Name(st.From), st.L.Resets.Load(), st.Ended())
							req := nd.request()
							err := st.E.WriteMsg(req)
							synctest.Wait()
							out, _ := vC13Outcome(st, req)
							c.Obs("requests", 1)
							c.Check(out == "reset", "client-mode-answers-nothing", "%s: request on a stream opened before the switch to client mode: write err=%v outcome %s", what, err, out)
							if !st.Ended() {
								st.E.Reset()
							}
						}
						if len(nd.open) > 0 && server {
							c.Obs("streams_reset_by_switch", len(nd.open))
						}
						nd.open = nil
						synctest.Wait()
						if r.Intn(2) == 0 {
							nd.refuseCheck(what + " after event")
						}
					} else {
						// server mode at rest: streams that were open (server -> server) still serve
						var keep []*vInStream
						for _, st := range nd.open {
							if st.L.WasReset() {
								c.Check(!server || viaClient, "server-mode-answers", "%s: stream from %s reset although the node stayed in server mode", what, n.Name(st.From))
								continue
							}
							keep = append(keep, st)
						}
						nd.open = keep
						if len(nd.open) > 0 && r.Intn(2) == 0 {
							nd.serveCheck(nd.open[r.Intn(len(nd.open))], what+" open stream after event")
						}
						if r.Intn(2) == 0 {
							if st := vInOpen(n, nd.peer(), nil); st != nil {
								nd.serveCheck(st, what+" new stream after event")
								nd.open = append(nd.open, st)
							}
						}
					}
					if next != server {
						switches++
						c.Obs("mode_switches", 1)
					}
					c.Obs("events", 1)
					server = next
					time.Sleep(time.Duration(1+r.Intn(300)) * time.Millisecond)
				}
				nd.closeAll()
				c.Set("option", vC13ModeNames[opt])
				c.Set("events", seq)
				c.Set("races", races)
				c.Logf("option=%s events=%s races=%s handler log=%d entries", vC13ModeNames[opt], strings.Join(seq, ","), strings.Join(races, ","), len(n.H.HandlerLg))
				if switches > 0 || len(races) > 0 {
					c.Nontrivial(fmt.Sprintf("%s/%s/%s", vC13ModeNames[opt], strings.Join(seq, ","), strings.Join(races, ",")))
				}
			})
		})
}

// ---- race (real time, -race build) -----------------------------------------------------------------

// vC13Barrier makes sure the DHT's event loop has processed everything emitted so far: a
// connectedness event for a unique peer id travels through the same subscription and ends in
// the simulated sender's OnDisconnect log.
func vC13Barrier(n *vNet, tag *atomic.Int64) {
	id := vsim.PeerID("c13barrier", int(tag.Add(1)))
	n.H.Emit(event.EvtPeerConnectednessChanged{Peer: id, Connectedness: network.NotConnected})
	for {
		for _, e := range n.S.Log() {
			if e.Kind == vsim.EvDisconn && e.Peer == id {
				return
			}
		}
		time.Sleep(200 * time.Microsecond)
	}
}

func TestVerifRace_C13_race(t *testing.T) {
	vh.Run(t, vh.Spec{Prop: "C13", Unit: "race", Quick: 12, Thorough: 400, CostMs: 600, WallS: 240,
		Rule:    "real time, no bubble, -race build: Mode(auto|autoserver), ~300 PRNG reachability events emitted by one goroutine while four goroutines issue PING requests, two on fresh inbound streams (handler looked up at the host, as the multistream dispatcher does) and two on long-lived streams re-opened whenever they die; every completed request is answered with its own echo or fails with a stream reset; then, at rest (barrier event through the same subscription): handler registered <=> mode(last event), open streams still serve if server; finally a private event: no inbound stream is left open and every handler goroutine has returned; race-detector reports in /repo code are violations; non-trivial = both outcomes (answered, reset) observed and >= 20 mode switches; distinct by outcome counts",
		Clauses: []string{"race-request-answered-or-reset", "race-final-mode-is-mode-of-last-event", "race-no-stream-left-open", "race-handlers-all-returned"}},
		func(c *vh.Case) {
			r := c.R
			opt := []ModeOpt{ModeAuto, ModeAutoServer}[r.Intn(2)]
			nd := vC13NewNode(t, c, opt, 8)
			n := nd.n
			defer n.Close()
			proto := vInProto(n.D)
			var tag atomic.Int64
			tag.Store(int64(c.Idx) * 1000)
			nev := 250 + r.Intn(100)
			evs := make([]network.Reachability, nev)
			for i := range evs {
				evs[i] = []network.Reachability{network.ReachabilityPublic, network.ReachabilityPrivate, network.ReachabilityUnknown}[r.Intn(3)]
			}
			seeds := []int64{r.Int63(), r.Int63(), r.Int63(), r.Int63()}
			var mu sync.Mutex
			var all []*vInStream
			var answered, resets, refused, bad atomic.Int64
			var badDetail atomic.Value
			stop := make(chan struct{})
			var wg sync.WaitGroup
			track := func(st *vInStream) {
				mu.Lock()
				all = append(all, st)
				mu.Unlock()
			}
			// one request on st; returns false when the stream is dead
			var reqSeq atomic.Int64
			do := func(st *vInStream) bool {
				key := []byte(fmt.Sprintf("race-%d", reqSeq.Add(1)))
				if err := st.E.WriteMsg(&pb.Message{Type: pb.Message_PING, Key: key}); err != nil {
					resets.Add(1)
					return false
				}
				var resp pb.Message
				err := st.E.ReadMsg(&resp) // blocks until answered or reset (the harness wall-clock watchdog covers a hang: inconclusive)
				if err != nil {
					resets.Add(1)
					return false
				}
				if resp.GetType() != pb.Message_PING || !bytes.Equal(resp.GetKey(), key) {
					bad.Add(1)
					badDetail.Store(fmt.Sprintf("request %q answered with type %v key %q", key, resp.GetType(), resp.GetKey()))
					return false
				}
				answered.Add(1)
				return true
			}
			for w := 0; w < 4; w++ {
				wg.Add(1)
				go func(w int) {
					defer wg.Done()
					rr := rand.New(rand.NewSource(seeds[w]))
					from := nd.peers[w%len(nd.peers)]
					var cur *vInStream
					for {
						select {
						case <-stop:
							return
						default:
						}
						if w < 2 || cur == nil {
							h := n.H.Handler(proto)
							if h == nil {
								refused.Add(1)
								time.Sleep(time.Duration(rr.Intn(200)) * time.Microsecond)
								continue
							}
							if rr.Intn(2) == 0 {
								time.Sleep(time.Duration(rr.Intn(100)) * time.Microsecond) // widen the lookup/dispatch window
							}
							st := vInOpen(n, from, h)
							track(st)
							if w < 2 {
								if do(st) && rr.Intn(2) == 0 {
									do(st)
								}
								st.E.Close()
								<-st.Done // the requester closed (or the stream is reset): the handler must return
								continue
							}
							cur = st
						}
						if !do(cur) {
							cur = nil
						}
						if rr.Intn(4) == 0 {
							time.Sleep(time.Duration(rr.Intn(300)) * time.Microsecond)
						}
					}
				}(w)
			}
			server := vC13Initial(opt)
			switches := 0
			er := rand.New(rand.NewSource(r.Int63()))
			for _, e := range evs {
				n.H.Emit(event.EvtLocalReachabilityChanged{Reachability: e})
				nx := vC13Next(opt, server, e)
				if nx != server {
					switches++
				}
				server = nx
				time.Sleep(time.Duration(er.Intn(400)) * time.Microsecond)
			}
			vC13Barrier(n, &tag)
			close(stop)
			// at rest the mode is that of the last event; requests in flight complete (answered if server, reset if client)
			reg := n.H.Handler(proto) != nil
			c.Check(reg == server && (n.D.getMode() == modeServer) == server, "race-final-mode-is-mode-of-last-event", "option %s, last event %s: expected server=%v, handler registered=%v, mode=%v", vC13ModeNames[opt], vC13ReachNames[evs[len(evs)-1]], server, reg, n.D.getMode())
			if !server {
				// loops blocked on open streams are released by the reset of the switch; nothing else to do
			}
			wg.Wait()
			// the final demotion: nothing may stay open
			n.H.Emit(event.EvtLocalReachabilityChanged{Reachability: network.ReachabilityPrivate})
			vC13Barrier(n, &tag)
			c.Check(n.H.Handler(proto) == nil, "race-final-mode-is-mode-of-last-event", "after the final private event a handler is still registered")
			mu.Lock()
			streams := append([]*vInStream(nil), all...)
			mu.Unlock()
			leftOpen := 0
			for _, st := range streams {
				if !st.L.Dead() {
					leftOpen++
				}
			}
			c.Check(leftOpen == 0, "race-no-stream-left-open", "%d of %d inbound streams neither reset nor closed after the final switch to client mode", leftOpen, len(streams))
			for _, st := range streams {
				if !st.L.Dead() {
					st.E.Reset() // already reported above; unblock its handler
				}
				<-st.Done // a stuck handler ends in the wall-clock watchdog (inconclusive), never in a verdict
				vInPanicCheck(c, st, "no-panic")
			}
			c.Check(true, "race-handlers-all-returned", "")
			c.Check(bad.Load() == 0, "race-request-answered-or-reset", "%d requests got a reply that is not their own echo, e.g. %v", bad.Load(), badDetail.Load())
			c.Obs("events", nev)
			c.Obs("mode_switches", switches)
			c.Obs("streams", len(streams))
			c.Obs("requests_answered", int(answered.Load()))
			c.Obs("requests_reset", int(resets.Load()))
			c.Obs("dispatch_refused_no_handler", int(refused.Load()))
			c.Set("option", vC13ModeNames[opt])
			c.Set("events", nev)
			if answered.Load() > 0 && resets.Load() > 0 && switches >= 20 {
				c.Nontrivial(fmt.Sprintf("%s/%d/%d/%d", vC13ModeNames[opt], switches, answered.Load(), resets.Load()))
			}
		})
}
