//go:build verif

package dht

// C07 (handler half) — providers added locally (Provide) or through an accepted ADD_PROVIDER frame
// are served by every later GET_PROVIDERS answer (and local query) for that key until the validity
// period has elapsed since their most recent addition, and never afterwards; answers list nobody
// twice and nobody that was never added for the key — whether or not the node still knows an
// address of the provider. (The store itself — cache, sweeps, restarts, durability, Close fence —
// is monitored in package records.)

import (
	"context"
	"fmt"
	"sort"
	"strings"
	"testing"
	"testing/synctest"
	"time"

	lru "github.com/hashicorp/golang-lru/simplelru"
	"github.com/ipfs/go-cid"
	"github.com/libp2p/go-libp2p/core/network"
	"github.com/libp2p/go-libp2p/core/peer"
	ma "github.com/multiformats/go-multiaddr"
	manet "github.com/multiformats/go-multiaddr/net"
	mh "github.com/multiformats/go-multihash"
	"google.golang.org/protobuf/proto"

	"github.com/libp2p/go-libp2p-kad-dht/internal/verif/vh"
	"github.com/libp2p/go-libp2p-kad-dht/internal/verif/vsim"
	pb "github.com/libp2p/go-libp2p-kad-dht/pb"
	"github.com/libp2p/go-libp2p-kad-dht/records"
)

type vC07Add struct{ t0, t1 int64 } // virtual-time window in which the addition was stamped

type vC07S struct {
	c        *vh.Case
	n        *vNet
	validity int64
	last     map[string]map[peer.ID]vC07Add
	addrs    map[peer.ID][]ma.Multiaddr
	answers  []string
	withheld int // answers that withheld an expired provider
	served   int // providers served in remote answers
	bare     int // providers served in remote answers without any address
}

func (s *vC07S) name(p peer.ID) string {
	if p == s.n.Self {
		return "self"
	}
	return s.n.Name(p)
}

// judge compares one answer (remote or local) with the model at virtual time t.
func (s *vC07S) judge(what string, k []byte, got []peer.ID, t int64) (expired int) {
	c := s.c
	seen := map[peer.ID]int{}
	for _, p := range got {
		seen[p]++
	}
	var dups []string
	for p, n := range seen {
		if n > 1 {
			dups = append(dups, s.name(p))
		}
	}
	sort.Strings(dups)
	c.Check(len(dups) == 0, "no-duplicates", "%s key %x: providers listed more than once: %v", what, k[:6], dups)
	for p, a := range s.last[string(k)] {
		switch {
		case t-a.t1 < s.validity:
			c.Check(seen[p] > 0, "valid-served", "%s key %x at vt=%d: provider %s, added at vt=%d (age %v < validity %v), is missing from the answer (%d providers listed; addresses known for it now: %d)",
				what, k[:6], t, s.name(p), a.t1, time.Duration(t-a.t1), time.Duration(s.validity), len(got), len(s.n.H.Peerstore().Addrs(p)))
		case t-a.t0 > s.validity:
			expired++
		}
	}
	for p := range seen {
		a, known := s.last[string(k)][p]
		if !c.Check(known, "no-stranger", "%s key %x: listed provider %s was never added for this key", what, k[:6], s.name(p)) {
			continue
		}
		c.Check(t-a.t0 <= s.validity, "expired-not-served", "%s key %x at vt=%d: provider %s, last added at vt=%d, is served after its validity %v elapsed", what, k[:6], t, s.name(p), a.t0, time.Duration(s.validity))
	}
	return expired
}

func (s *vC07S) end(st *vInStream) {
	st.E.Close()
	synctest.Wait()
	if !st.Ended() {
		st.E.Reset()
		synctest.Wait()
	}
}

// addRemote sends one ADD_PROVIDER frame from `from` naming itself (with its addresses) and,
// optionally, a ghost that must be ignored.
func (s *vC07S) addRemote(k []byte, from, ghost peer.ID) {
	c := s.c
	infos := []peer.AddrInfo{{ID: from, Addrs: s.addrs[from]}}
	if ghost != "" {
		infos = append([]peer.AddrInfo{{ID: ghost, Addrs: s.addrs[from]}}, infos...)
	}
	st := vInOpen(s.n, from, nil)
	if !c.Check(st != nil, "harness", "server-mode node without stream handler") {
		return
	}
	t0 := time.Now().UnixNano()
	st.E.WriteMsg(&pb.Message{Type: pb.Message_ADD_PROVIDER, Key: k, ProviderPeers: pb.RawPeerInfosToPBPeers(infos)})
	synctest.Wait()
	t1 := time.Now().UnixNano()
	data, reset, _ := st.Drain()
	vInPanicCheck(c, st, "no-panic")
	c.Obs("add_provider_frames", 1)
	if !c.Check(!reset && len(data) == 0, "add-accepted", "ADD_PROVIDER from %s naming itself with %d addresses: reset=%v, %d reply bytes (expected: accepted silently)", s.name(from), len(s.addrs[from]), reset, len(data)) {
		s.end(st)
		return
	}
	if s.last[string(k)] == nil {
		s.last[string(k)] = map[peer.ID]vC07Add{}
	}
	s.last[string(k)][from] = vC07Add{t0, t1}
	c.Logf("vt=%d ADD_PROVIDER key %x from %s (ghost entry: %v)", t1, k[:6], s.name(from), ghost != "")
	s.end(st)
}

func (s *vC07S) addLocal(k []byte) {
	c := s.c
	m, err := mh.Cast(k)
	if err != nil {
		panic(err)
	}
	t0 := time.Now().UnixNano()
	err = s.n.D.Provide(context.Background(), cid.NewCidV1(cid.Raw, m), false)
	t1 := time.Now().UnixNano()
	c.Obs("local_provides", 1)
	if !c.Check(err == nil, "add-accepted", "Provide(announce=false): %v", err) {
		return
	}
	if s.last[string(k)] == nil {
		s.last[string(k)] = map[peer.ID]vC07Add{}
	}
	s.last[string(k)][s.n.Self] = vC07Add{t0, t1}
	c.Logf("vt=%d Provide(announce=false) key %x", t1, k[:6])
}

func (s *vC07S) queryRemote(k []byte, from peer.ID) {
	c := s.c
	st := vInOpen(s.n, from, nil)
	if st == nil {
		return
	}
	defer s.end(st)
	st.E.WriteMsg(&pb.Message{Type: pb.Message_GET_PROVIDERS, Key: k})
	synctest.Wait()
	t := time.Now().UnixNano()
	data, reset, _ := st.Drain()
	frames, rest := vInSplitFrames(data)
	vInPanicCheck(c, st, "no-panic")
	c.Obs("get_providers_frames", 1)
	var resp pb.Message
	if !c.Check(!reset && len(frames) == 1 && len(rest) == 0 && proto.Unmarshal(frames[0], &resp) == nil, "query-answered", "GET_PROVIDERS for %x from %s: %d frames, reset=%v", k[:6], s.name(from), len(frames), reset) {
		return
	}
	if len(frames[0]) > network.MessageSizeMax/2 {
		return // (never in this workload) a reply near the size limit may be truncated: C09
	}
	ids := vInPeerIDs(resp.GetProviderPeers())
	exp := s.judge("GET_PROVIDERS answer to "+s.name(from)+":", k, ids, t)
	if exp > 0 {
		s.withheld++
	}
	var names []string
	for _, pp := range resp.GetProviderPeers() {
		s.served++
		if len(pp.GetAddrs()) == 0 {
			s.bare++
			c.Obs("providers_served_without_address", 1)
		}
		names = append(names, s.name(peer.ID(pp.GetId())))
	}
	sort.Strings(names)
	s.answers = append(s.answers, fmt.Sprintf("%x=%s", k[:2], strings.Join(names, ",")))
	c.Obs("providers_served", len(ids))
	c.Logf("vt=%d GET_PROVIDERS key %x from %s -> %v (model: %d expired)", t, k[:6], s.name(from), names, exp)
}

func (s *vC07S) queryLocal(k []byte) {
	c := s.c
	got, err := s.n.D.providerStore.GetProviders(context.Background(), k)
	t := time.Now().UnixNano()
	c.Obs("local_queries", 1)
	if !c.Check(err == nil, "query-answered", "GetProviders(%x): %v", k[:6], err) {
		return
	}
	ids := make([]peer.ID, len(got))
	for i, ai := range got {
		ids[i] = ai.ID
	}
	s.judge("local query:", k, ids, t)
}

func TestVerif_C07_served(t *testing.T) {
	vh.Run(t, vh.Spec{Prop: "C07", Unit: "served", Quick: 400, Thorough: 15000, CostMs: 12,
		Rule:    "server-mode DHT over a small simulated network, provider manager with validity in {30 m, 2 h, 48 h}, provider address TTL in {10 m, validity/2, 2x validity} (so that providers outlive the addresses the node knows for them), cleanup interval validity/3 .. 1.3x or off, read cache of 1-2 entries or default; sequential histories of 20-45 operations over 2-4 keys in virtual time: ADD_PROVIDER frames over fresh inbound streams from 3-8 senders naming themselves with 1-2 addresses (a third of them private addresses only; a third of the nodes run with a public-addresses-only address filter, as the WAN side of the dual DHT does; 1 in 5 frames also name a ghost, which must be ignored), Provide(announce=false), GET_PROVIDERS frames from any peer, local queries, clock advances aimed at validity / address TTL +-1 s of some addition; lock-step model key -> provider -> vt of the last accepted addition; every answer (frame or local) must list exactly the providers whose validity has not elapsed (either at equality), nobody twice, nobody never added; non-trivial = a remote answer withheld an expired provider and a remote answer served a provider without any address; distinct by answer sequence",
		Clauses: []string{"valid-served", "expired-not-served", "no-duplicates", "no-stranger", "add-accepted", "query-answered"}},
		func(c *vh.Case) {
			c.Bubble(t, 24*365*time.Hour, "served-hang", func(t *testing.T) {
				r := c.R
				validity := []time.Duration{30 * time.Minute, 2 * time.Hour, 48 * time.Hour}[r.Intn(3)]
				addrTTL := []time.Duration{10 * time.Minute, validity / 2, 2 * validity}[r.Intn(3)]
				gc := []time.Duration{0, validity / 3, validity / 2, validity * 13 / 10}[r.Intn(4)]
				pmOpts := []records.Option{records.ProvideValidity(validity), records.ProviderAddrTTL(addrTTL), records.CleanupInterval(gc)}
				cacheN := []int{0, 1, 2}[r.Intn(3)]
				if cacheN > 0 {
					lc, err := lru.NewLRU(cacheN, nil)
					if err != nil {
						panic(err)
					}
					pmOpts = append(pmOpts, records.Cache(lc))
				}
				N := 3 + r.Intn(6)
				dhtOpts := []Option{ProviderManagerOpts(pmOpts...)}
				publicOnly := r.Intn(3) == 0
				if publicOnly {
					// as on the WAN side of the dual DHT: only public addresses are recorded; a provider behind a NAT that
					// announces private addresses only is still accepted (it carries an address) and served without addresses
					dhtOpts = append(dhtOpts, AddressFilter(func(as []ma.Multiaddr) []ma.Multiaddr { return ma.FilterAddrs(as, manet.IsPublicAddr) }))
				}
				c.Set("address_filter_public_only", publicOnly)
				n := vNewNet(t, c, vNetCfg{N: N, K: 3, A: 3, B: 3, Seeds: N, Mode: ModeServer, Opts: dhtOpts})
				defer n.Close()
				s := &vC07S{c: c, n: n, validity: int64(validity), last: map[string]map[peer.ID]vC07Add{}, addrs: map[peer.ID][]ma.Multiaddr{}}
				c.Set("validity", validity.String())
				c.Set("provider_addr_ttl", addrTTL.String())
				c.Set("cleanup_interval", gc.String())
				c.Set("cache_entries", cacheN)
				// senders: some simulated peers of the network and some strangers
				var senders []peer.ID
				for i := 0; i < 3+r.Intn(6); i++ {
					var id peer.ID
					if r.Intn(3) == 0 {
						id = n.IDs[r.Intn(len(n.IDs))]
					} else {
						id = vsim.PeerID(fmt.Sprintf("c07s%d", c.Idx), i)
					}
					if _, dup := s.addrs[id]; dup {
						continue
					}
					s.addrs[id] = []ma.Multiaddr{ma.StringCast(fmt.Sprintf("/ip4/%d.%d.7.7/tcp/%d", 30+i, 1+r.Intn(200), 4000+i))}
					if r.Intn(3) == 0 {
						s.addrs[id] = append(s.addrs[id], ma.StringCast(fmt.Sprintf("/ip4/%d.%d.8.8/udp/%d/quic-v1", 30+i, 1+r.Intn(200), 4000+i)))
					}
					if r.Intn(3) == 0 {
						// announces private addresses only
						s.addrs[id] = []ma.Multiaddr{ma.StringCast(fmt.Sprintf("/ip4/192.168.%d.%d/tcp/%d", 1+r.Intn(200), 2+i, 4000+i))}
						if r.Intn(2) == 0 {
							s.addrs[id] = append(s.addrs[id], ma.StringCast(fmt.Sprintf("/ip4/10.%d.0.%d/udp/%d/quic-v1", r.Intn(200), 2+i, 4000+i)))
						}
						c.Obs("senders_announcing_private_addresses_only", 1)
					}
					senders = append(senders, id)
				}
				var keys [][]byte
				for i, nk := 0, 2+r.Intn(3); i < nk; i++ {
					var seed [16]byte
					r.Read(seed[:])
					m, err := mh.Sum(seed[:], mh.SHA2_256, -1)
					if err != nil {
						panic(err)
					}
					keys = append(keys, []byte(m))
				}
				c.Set("keys", len(keys))
				c.Set("senders", len(senders))
				nops := 20 + r.Intn(26)
				for i := 0; i < nops && !c.Failed(); i++ {
					k := keys[r.Intn(len(keys))]
					switch x := r.Intn(100); {
					case x < 30:
						var ghost peer.ID
						if r.Intn(5) == 0 {
							ghost = vsim.PeerID(fmt.Sprintf("c07ghost%d", c.Idx), r.Intn(4))
						}
						s.addRemote(k, senders[r.Intn(len(senders))], ghost)
					case x < 36:
						s.addLocal(k)
					case x < 62:
						from := senders[r.Intn(len(senders))]
						if r.Intn(2) == 0 {
							from = n.IDs[r.Intn(len(n.IDs))]
						}
						s.queryRemote(k, from)
					case x < 70:
						s.queryLocal(k)
					default:
						var d time.Duration
						if ls := s.last[string(k)]; len(ls) > 0 && r.Intn(4) != 0 {
							ids := make([]string, 0, len(ls))
							for p := range ls {
								ids = append(ids, string(p))
							}
							sort.Strings(ids)
							a := ls[peer.ID(ids[r.Intn(len(ids))])]
							span := validity
							if r.Intn(3) == 0 {
								span = addrTTL
							}
							deltas := []time.Duration{-time.Second, time.Second, -time.Minute, time.Minute, -span / 3}
							d = time.Duration(a.t1 + int64(span) + int64(deltas[r.Intn(len(deltas))]) - time.Now().UnixNano())
						}
						if d <= 0 {
							d = time.Duration(r.Int63n(int64(validity)*6/5)) + time.Second
						}
						time.Sleep(d)
						synctest.Wait()
						c.Obs("advances", 1)
						c.Logf("advance %v -> vt=%d", d, time.Now().UnixNano())
						if r.Intn(2) == 0 {
							s.queryRemote(k, n.IDs[r.Intn(len(n.IDs))])
						}
					}
				}
				if !c.Failed() {
					for _, k := range keys {
						s.queryRemote(k, n.IDs[r.Intn(len(n.IDs))])
					}
				}
				c.Obs("answers_withholding_expired", s.withheld)
				if s.withheld > 0 && s.bare > 0 {
					c.Nontrivial(vInHash(strings.Join(s.answers, ";")))
				}
			})
		})
}
