//go:build verif

package dht

// C04 — value lookups only ever yield validator-approved, best-known values (standard client).
//
// Shared by C06 (corrective puts after a completed value search): the generated value model,
// the validator, the scenario generator and the runner live here.
//
// Value model: a value is the byte string "vv|<id>|<rank>|<expiry unix nanos or 0>|<invalid flag>|<key>".
// The generated validator accepts a value for key k iff it parses, embeds k, is not flagged
// invalid and (expiry == 0 or now < expiry) — `now` is the bubble's virtual clock. Select
// returns the highest rank, the first among equals (stable). Every value has a unique id, so a
// yielded byte string identifies the supplies (local record / GET_VALUE answers) it can come from.

import (
	"context"
	"crypto/ecdsa"
	"crypto/elliptic"
	"crypto/sha256"
	"errors"
	"fmt"
	"github.com/multiformats/go-base32"
	"math/big"
	"math/rand"
	"strconv"
	"strings"
	"sync"
	"testing"
	"testing/synctest"
	"time"

	ds "github.com/ipfs/go-datastore"
	record "github.com/libp2p/go-libp2p-record"
	recpb "github.com/libp2p/go-libp2p-record/pb"
	ci "github.com/libp2p/go-libp2p/core/crypto"
	"github.com/libp2p/go-libp2p/core/peer"
	"github.com/libp2p/go-libp2p/core/routing"
	ma "github.com/multiformats/go-multiaddr"
	"google.golang.org/protobuf/proto"

	"github.com/libp2p/go-libp2p-kad-dht/internal"
	"github.com/libp2p/go-libp2p-kad-dht/internal/verif/vh"
	"github.com/libp2p/go-libp2p-kad-dht/internal/verif/vsim"
	pb "github.com/libp2p/go-libp2p-kad-dht/pb"
)

// ---- generated values and validator -------------------------------------------------------------

type vC04Val struct {
	ID      int
	Rank    int
	Expiry  int64 // unix nanos; 0 = never
	Invalid bool
	Key     string
}

func (v vC04Val) Bytes() []byte {
	f := 0
	if v.Invalid {
		f = 1
	}
	return []byte(fmt.Sprintf("vv|%d|%d|%d|%d|%s", v.ID, v.Rank, v.Expiry, f, v.Key))
}

func vC04Parse(b []byte) (vC04Val, bool) {
	p := strings.SplitN(string(b), "|", 6)
	if len(p) != 6 || p[0] != "vv" {
		return vC04Val{}, false
	}
	id, e1 := strconv.Atoi(p[1])
	rk, e2 := strconv.Atoi(p[2])
	ex, e3 := strconv.ParseInt(p[3], 10, 64)
	fl, e4 := strconv.Atoi(p[4])
	if e1 != nil || e2 != nil || e3 != nil || e4 != nil {
		return vC04Val{}, false
	}
	return vC04Val{ID: id, Rank: rk, Expiry: ex, Invalid: fl != 0, Key: p[5]}, true
}

// vC04Valid is the validity predicate of the generated validator at instant `at`.
func vC04Valid(key string, value []byte, at time.Time) error {
	v, ok := vC04Parse(value)
	if !ok {
		return errors.New("vC04: unparsable value")
	}
	if v.Key != key {
		return errors.New("vC04: value belongs to another key")
	}
	if v.Invalid {
		return errors.New("vC04: value flagged invalid")
	}
	if v.Expiry != 0 && at.UnixNano() >= v.Expiry {
		return errors.New("vC04: value expired")
	}
	return nil
}

func vC04Rank(b []byte) int {
	if v, ok := vC04Parse(b); ok {
		return v.Rank
	}
	return -1
}

// vC04Validator is the record.Validator handed to the DHT (namespace "v").
type vC04Validator struct {
	mu                sync.Mutex
	validates, reject int
	selects           int
	// OnValidate, if set, runs (outside the validator's lock) at the start of every Validate call: a monitor can
	// place another operation at exactly that point of the caller (e.g. between PutValue's pre-check and the value
	// store's locked read-select-write, which validates before it locks).
	OnValidate func(key string, value []byte)
}

func (vv *vC04Validator) Validate(key string, value []byte) error {
	if h := vv.OnValidate; h != nil {
		h(key, value)
	}
	err := vC04Valid(key, value, time.Now())
	vv.mu.Lock()
	vv.validates++
	if err != nil {
		vv.reject++
	}
	vv.mu.Unlock()
	return err
}

func (vv *vC04Validator) Select(key string, vals [][]byte) (int, error) {
	vv.mu.Lock()
	vv.selects++
	vv.mu.Unlock()
	if len(vals) == 0 {
		return 0, errors.New("vC04: nothing to select from")
	}
	best, bestRank := 0, vC04Rank(vals[0])
	for i := 1; i < len(vals); i++ {
		if r := vC04Rank(vals[i]); r > bestRank {
			best, bestRank = i, r
		}
	}
	return best, nil
}

func (vv *vC04Validator) counts() (int, int, int) {
	vv.mu.Lock()
	defer vv.mu.Unlock()
	return vv.validates, vv.reject, vv.selects
}

// vC04DsKey mirrors records.valueDsKey ("/" + namespace + "/" + base32(full key)); the runner
// self-checks it by reading a valid record back through the DHT's own getLocal.
func vC04DsKey(key string) ds.Key {
	ns, _, _ := record.SplitKey(key)
	return ds.NewKey("/" + ns + "/" + base32.RawStdEncoding.EncodeToString([]byte(key)))
}

// ---- scenario -------------------------------------------------------------------------------------

type vC04Sc struct {
	Cfg        vNetCfg
	Key, Other string
	Op         string // search | get
	Quorum     int    // -1: option not given
	Offline    bool   // routing.Offline given: the quorum is ignored (the network is still searched)
	MaxDelay   int
	CancelAt   time.Duration
	FailFrac   float64
	HolderFrac float64
	Local      string
	Events     bool          // record lookup events (C06)
	Settle     time.Duration // virtual time to wait after the search ended (corrective puts)
	StoreFail  float64       // fraction of peers failing PUT_VALUE
	NoCancel   bool
	WalkAway   bool // C06: the caller cancels the call's context as soon as the search has returned ("defer cancel()"), before Settle
}

var vC04RemoteKinds = []struct {
	kind string
	w    int
}{
	{"valid", 50}, {"invalid", 8}, {"expired", 7}, {"miskeyedA", 7}, {"miskeyedB", 4}, {"wrongvalkey", 4},
	{"empty", 5}, {"nilvalue", 4}, {"nilrecord", 4}, {"garbage", 4}, {"midexpiry", 3}, {"miskeyedCase", 4},
}

func vC04PickKind(r *rand.Rand) string {
	tot := 0
	for _, k := range vC04RemoteKinds {
		tot += k.w
	}
	x := r.Intn(tot)
	for _, k := range vC04RemoteKinds {
		if x < k.w {
			return k.kind
		}
		x -= k.w
	}
	return "valid"
}

func vC04GenSc(c *vh.Case, op string) vC04Sc {
	r := c.R
	ks := []int{1, 2, 3, 5, 8, 20}
	as := []int{1, 2, 3, 10}
	k := ks[r.Intn(len(ks))]
	a := as[r.Intn(len(as))]
	b := []int{1, 2, 3, k}[r.Intn(4)]
	var n int
	switch x := r.Intn(10); {
	case x < 2:
		n = 1 + r.Intn(8)
	case x < 8:
		n = 8 + r.Intn(60)
	default:
		n = 60 + r.Intn(140)
	}
	if c.Tier == "thorough" && r.Intn(10) == 0 {
		n = 200 + r.Intn(500)
	}
	sc := vC04Sc{Op: op}
	sc.Cfg = vNetCfg{N: n, K: k, A: a, B: b, Knowledge: []string{"full", "kbucket", "kbucket", "sparse"}[r.Intn(4)], Seeds: 1 + r.Intn(k+5)}
	sc.Key = fmt.Sprintf("/v/key-%d-%d", c.Idx, r.Int63())
	sc.Other = fmt.Sprintf("/v/other-%d-%d", c.Idx, r.Int63())
	sc.Quorum = []int{-1, 0, 1, 2, k}[r.Intn(5)]
	sc.Offline = r.Intn(12) == 0
	sc.MaxDelay = []int{5, 50, 400}[r.Intn(3)]
	sc.FailFrac = []float64{0, 0, 0.15, 0.35}[r.Intn(4)]
	sc.HolderFrac = []float64{0, 0.1, 0.4, 0.9}[r.Intn(4)]
	sc.Local = []string{"missing", "missing", "missing", "valid", "valid", "stale", "invalid", "expired", "miskeyed", "empty", "garbage", "wrongvalkey", "midexpiry"}[r.Intn(13)]
	if r.Intn(6) == 0 {
		sc.CancelAt = time.Duration(1+r.Intn(3*sc.MaxDelay+20)) * time.Millisecond
	}
	return sc
}

// ---- runner -----------------------------------------------------------------------------------------

type vC04Emission struct {
	VT  time.Time
	Val []byte
}

// vC04Supply is one place a value could legitimately come from: the local record at call time
// or the record of a GET_VALUE answer that was returned to the node without error.
type vC04Supply struct {
	Local  bool
	Peer   peer.ID
	VT     time.Time
	HasRec bool
	RecKey string
	Val    []byte
	Valid  bool // filed under the requested key and accepted by the validator at VT
	Kind   string
}

type vC04Res struct {
	n         *vNet
	sc        vC04Sc
	val       *vC04Validator
	Start     time.Time
	Close     time.Time // instant the channel was closed / GetValue returned
	Emis      []vC04Emission
	Err       error
	Cancelled bool
	Log       []vsim.Event
	Events    []vLookupEv
	Supplies  []vC04Supply
	kinds     map[peer.ID]string
	recs      map[peer.ID]*recpb.Record
	pool      []vC04Val
	tableSize int
}

func vC04Clone(r *recpb.Record) *recpb.Record {
	if r == nil {
		return nil
	}
	return proto.Clone(r).(*recpb.Record)
}

// vC04RecordFor builds the record a holder of the given kind serves (nil, false = no record field).
func vC04RecordFor(kind string, sc vC04Sc, pool []vC04Val, id *int, r *rand.Rand, now time.Time) (*recpb.Record, bool) {
	next := func() int { *id++; return *id }
	switch kind {
	case "valid":
		v := pool[r.Intn(len(pool))]
		return &recpb.Record{Key: []byte(sc.Key), Value: v.Bytes()}, true
	case "stale":
		return &recpb.Record{Key: []byte(sc.Key), Value: vC04Val{ID: next(), Rank: 0, Key: sc.Key}.Bytes()}, true
	case "invalid":
		return &recpb.Record{Key: []byte(sc.Key), Value: vC04Val{ID: next(), Rank: 90 + r.Intn(9), Invalid: true, Key: sc.Key}.Bytes()}, true
	case "expired":
		return &recpb.Record{Key: []byte(sc.Key), Value: vC04Val{ID: next(), Rank: 80 + r.Intn(9), Expiry: now.Add(-time.Duration(1+r.Intn(5000)) * time.Millisecond).UnixNano(), Key: sc.Key}.Bytes()}, true
	case "midexpiry":
		// expires at a PRNG instant during the search: valid or not depending on when it is seen
		return &recpb.Record{Key: []byte(sc.Key), Value: vC04Val{ID: next(), Rank: 70 + r.Intn(9), Expiry: now.Add(time.Duration(1+r.Intn(3*sc.MaxDelay+5)) * time.Millisecond).UnixNano(), Key: sc.Key}.Bytes()}, true
	case "miskeyedA":
		// filed under another key, but the value itself would validate for the requested key
		return &recpb.Record{Key: []byte(sc.Other), Value: vC04Val{ID: next(), Rank: 100 + r.Intn(9), Key: sc.Key}.Bytes()}, true
	case "miskeyedCase":
		// filed under a key that differs from the requested one only in letter case; the value would validate
		ck := []byte(sc.Key)
		if r.Intn(2) == 0 {
			ck[1] -= 'a' - 'A' // "/V/key-..."
		} else {
			ck[3] -= 'a' - 'A' // "/v/Key-..."
		}
		return &recpb.Record{Key: ck, Value: vC04Val{ID: next(), Rank: 100 + r.Intn(9), Key: sc.Key}.Bytes()}, true
	case "miskeyedB":
		return &recpb.Record{Key: []byte(sc.Other), Value: vC04Val{ID: next(), Rank: 100 + r.Intn(9), Key: sc.Other}.Bytes()}, true
	case "wrongvalkey":
		return &recpb.Record{Key: []byte(sc.Key), Value: vC04Val{ID: next(), Rank: 100 + r.Intn(9), Key: sc.Other}.Bytes()}, true
	case "empty":
		return &recpb.Record{Key: []byte(sc.Key), Value: []byte{}}, true
	case "nilvalue":
		return &recpb.Record{Key: []byte(sc.Key)}, true
	case "garbage":
		g := make([]byte, 1+r.Intn(40))
		r.Read(g)
		return &recpb.Record{Key: []byte(sc.Key), Value: g}, true
	}
	return nil, false // nilrecord, missing
}

// vC04Run builds the network, assigns records, runs one SearchValue / GetValue with an
// immediate consumer and records everything.
func vC04Run(t *testing.T, c *vh.Case, sc vC04Sc) *vC04Res {
	r := c.R
	res := &vC04Res{sc: sc, val: &vC04Validator{}, kinds: map[peer.ID]string{}, recs: map[peer.ID]*recpb.Record{}}
	cfg := sc.Cfg
	cfg.Validator = record.NamespacedValidator{"v": res.val, "pk": record.PublicKeyValidator{}}
	n := vNewNet(t, c, cfg)
	res.n = n
	defer n.Close()
	now := time.Now()
	// pool of valid values: few distinct values, ranks may tie, several peers hold the same bytes
	nid := 0
	m := 1 + r.Intn(4)
	for i := 0; i < m; i++ {
		nid++
		v := vC04Val{ID: nid, Rank: 1 + r.Intn(5), Key: sc.Key}
		if r.Intn(8) == 0 {
			v.Expiry = now.Add(time.Hour).UnixNano()
		}
		res.pool = append(res.pool, v)
	}
	for i, id := range n.IDs {
		sp := n.S.Peer(id)
		base := time.Duration(1+r.Intn(sc.MaxDelay)) * time.Millisecond
		beh := "ok"
		if r.Float64() < sc.FailFrac {
			beh = []string{"dead", "reqerr", "silent"}[r.Intn(3)]
		}
		kind := "missing"
		if r.Float64() < sc.HolderFrac {
			kind = vC04PickKind(r)
		}
		rec, has := vC04RecordFor(kind, sc, res.pool, &nid, r, now)
		store := "ok"
		if r.Float64() < sc.StoreFail {
			store = []string{"err", "silent", "slow"}[r.Intn(3)]
		}
		res.kinds[id] = beh + "/" + kind + "/" + store
		if has {
			res.recs[id] = rec
		}
		if beh == "dead" {
			sp.Dead = true
			continue
		}
		idx, kk, pid := i, kind, id
		sp.Script = func(cnt int, req *pb.Message) vsim.Reply {
			if req == nil {
				return vsim.Reply{}
			}
			rep := vsim.Reply{Delay: base + time.Duration((cnt*37+idx)%7)*time.Millisecond}
			if req.GetType() == pb.Message_PUT_VALUE {
				switch store {
				case "err":
					rep.Err = errors.New("vsim: stream reset by peer")
				case "silent":
					rep.Silent = true
				case "slow":
					rep.Delay = 35 * time.Second // longer than the 30 s per-peer put timeout
				}
				return rep
			}
			switch beh {
			case "reqerr":
				rep.Err = errors.New("vsim: stream reset by peer")
			case "silent":
				rep.Silent = true
			}
			if req.GetType() == pb.Message_GET_VALUE && string(req.GetKey()) == sc.Key {
				rep.Mutate = func(_, resp *pb.Message) {
					switch {
					case res.recs[pid] != nil: // read at reply time: a holder may have been given the bytes of the local record below
						resp.Record = vC04Clone(res.recs[pid])
					case kk == "nilrecord":
						resp.Record = (*recpb.Record)(nil)
					}
				}
			}
			return rep
		}
	}
	// local record, written below the value store (the store validates on Put, so invalid
	// content can only get there the way a changed validator / clock / corruption puts it there)
	ctx0 := context.Background()
	dsk := vC04DsKey(sc.Key)
	var localRec *recpb.Record
	localKind := sc.Local
	switch localKind {
	case "missing":
	case "garbage":
		g := make([]byte, 5+r.Intn(30))
		r.Read(g)
		n.J.Put(ctx0, dsk, g)
	case "miskeyed":
		localRec = &recpb.Record{Key: []byte(sc.Other), Value: vC04Val{ID: nid + 1, Rank: 100, Key: sc.Key}.Bytes()}
		nid++
	default:
		localRec, _ = vC04RecordFor(localKind, sc, res.pool, &nid, r, now)
	}
	if localRec != nil {
		localRec.TimeReceived = internal.FormatRFC3339(now)
		buf, err := proto.Marshal(localRec)
		if err != nil {
			panic(err)
		}
		n.J.Put(ctx0, dsk, buf)
		if localKind == "valid" {
			// harness self-check of the datastore key layout
			got, err := n.D.getLocal(ctx0, sc.Key)
			if err != nil || got == nil || string(got.GetValue()) != string(localRec.GetValue()) {
				c.Fail("harness-dskey-selfcheck", "a valid record written at %s is not returned by getLocal (%v, %v)", dsk, got, err)
			}
		}
	}
	// we usually hold a record because we are one of its holders: a quarter of the answering peers serve the very
	// bytes of the local record (also when the validator rejects it by now)
	if localRec != nil && string(localRec.GetKey()) == sc.Key && len(localRec.GetValue()) > 0 {
		for _, id := range n.IDs {
			if k := strings.Split(res.kinds[id], "/"); len(k) == 3 && k[0] != "dead" && r.Intn(4) == 0 {
				res.kinds[id] = k[0] + "/" + localKind + "/" + k[2]
				res.recs[id] = &recpb.Record{Key: []byte(sc.Key), Value: append([]byte(nil), localRec.GetValue()...)}
				c.Obs("holders_of_the_local_bytes", 1)
			}
		}
	}
	synctest.Wait()
	res.tableSize = n.D.routingTable.Size()

	ctx, cancel := context.WithCancel(context.Background())
	defer cancel()
	lctx := ctx
	events, wait := func() []vLookupEv { return nil }, func() {}
	if sc.Events {
		lctx, events, wait = n.WithEvents(ctx)
	}
	if sc.CancelAt > 0 {
		tm := time.AfterFunc(sc.CancelAt, cancel)
		defer tm.Stop()
	}
	var opts []routing.Option
	if sc.Quorum >= 0 {
		opts = append(opts, Quorum(sc.Quorum))
	}
	if sc.Offline {
		opts = append(opts, routing.Offline)
	}
	res.Start = time.Now()
	if localRec != nil {
		s := vC04Supply{Local: true, VT: res.Start, HasRec: true, RecKey: string(localRec.GetKey()), Val: localRec.GetValue(), Kind: localKind}
		s.Valid = s.RecKey == sc.Key && vC04Valid(sc.Key, s.Val, res.Start) == nil
		res.Supplies = append(res.Supplies, s)
	}
	switch sc.Op {
	case "get":
		v, err := n.D.GetValue(lctx, sc.Key, opts...)
		res.Close = time.Now()
		res.Err = err
		if v != nil {
			res.Emis = append(res.Emis, vC04Emission{VT: res.Close, Val: v})
		}
	default:
		ch, err := n.D.SearchValue(lctx, sc.Key, opts...)
		res.Err = err
		if err == nil {
			synctest.Wait() // the consumer is not there yet when the search offers its first value (no virtual time passes)
			for v := range ch { // immediate consumer: no virtual time passes between offer and receipt
				res.Emis = append(res.Emis, vC04Emission{VT: time.Now(), Val: v})
				// ... but it is not receiving at every moment: let everything else run until it blocks (still no
				// virtual time), so a value offered at this very instant finds the consumer busy
				synctest.Wait()
			}
		}
		res.Close = time.Now()
	}
	res.Cancelled = ctx.Err() != nil
	if sc.WalkAway {
		cancel() // the search is over and the caller is done with its context; what the node still owes (corrective puts) must not depend on it
	}
	if sc.Settle > 0 && !res.Cancelled {
		time.Sleep(sc.Settle)
	}
	cancel()
	wait()
	synctest.Wait()
	res.Events = events()
	res.Log = n.S.Log()
	for _, e := range res.Log {
		if e.Kind != vsim.EvReply || e.Type != pb.Message_GET_VALUE || string(e.Key) != sc.Key || e.Err != "" || e.Msg == nil {
			continue
		}
		rec := e.Msg.GetRecord()
		s := vC04Supply{Peer: e.Peer, VT: e.VT, HasRec: rec != nil, RecKey: string(rec.GetKey()), Val: rec.GetValue()}
		s.Valid = s.HasRec && s.RecKey == sc.Key && s.Val != nil && vC04Valid(sc.Key, s.Val, e.VT) == nil
		if k := strings.Split(res.kinds[e.Peer], "/"); len(k) == 3 {
			s.Kind = k[1]
		}
		res.Supplies = append(res.Supplies, s)
	}
	return res
}

// ---- oracle -------------------------------------------------------------------------------------------

func vC04Short(b []byte) string {
	if v, ok := vC04Parse(b); ok {
		return fmt.Sprintf("#%d(rank %d%s%s%s)", v.ID, v.Rank, map[bool]string{true: " INVALID"}[v.Invalid], map[bool]string{true: " exp"}[v.Expiry != 0], map[bool]string{true: " otherkey"}[!strings.Contains(v.Key, "/key-")])
	}
	return fmt.Sprintf("raw:%x", b[:min(len(b), 8)])
}

func vC04Judge(c *vh.Case, res *vC04Res) {
	n, sc := res.n, res.sc
	if res.Err != nil && sc.Op == "search" {
		c.Fail("search-returns-channel", "SearchValue returned error %v", res.Err)
		return
	}
	validSup, rejSup, misSup := 0, 0, 0
	for _, s := range res.Supplies {
		switch {
		case s.Valid:
			validSup++
		case s.HasRec && s.RecKey != sc.Key:
			misSup++
		case s.HasRec:
			rejSup++
		}
	}
	// (1)+(3)+(5b) every yielded value validates and was supplied under the requested key, no later than its emission
	for i, e := range res.Emis {
		var match *vC04Supply
		why := "no local record or processed answer carries these bytes"
		for j := range res.Supplies {
			s := &res.Supplies[j]
			if !s.HasRec || string(s.Val) != string(e.Val) {
				continue
			}
			switch {
			case s.RecKey != sc.Key:
				why = "the only supplies of these bytes are records filed under another key (" + n.Name(s.Peer) + ")"
			case !s.Valid:
				why = "the validator rejects this value at the instant it was supplied"
			case s.VT.After(e.VT):
				why = "yielded before any answer carrying it had been returned"
			default:
				match = s
			}
			if match != nil {
				break
			}
		}
		if sc.Op == "search" {
			err := vC04Valid(sc.Key, e.Val, e.VT)
			c.Check(err == nil, "yielded-validates", "emission %d %s at +%v is rejected by the validator for the requested key: %v", i, vC04Short(e.Val), e.VT.Sub(res.Start), err)
		}
		c.Check(match != nil, "yielded-valid-and-supplied", "emission %d %s at +%v: %s", i, vC04Short(e.Val), e.VT.Sub(res.Start), why)
		// (2) strictly improving
		if i > 0 {
			prev := res.Emis[i-1].Val
			c.Check(vC04Rank(e.Val) > vC04Rank(prev), "strictly-improving", "emission %d %s does not rank above the previous one %s", i, vC04Short(e.Val), vC04Short(prev))
		}
	}
	if sc.Op == "get" {
		if !res.Cancelled {
			c.Check((res.Err == nil) == (len(res.Emis) == 1), "get-value-xor-error", "GetValue returned value=%v err=%v", len(res.Emis) == 1, res.Err)
		}
	}
	// (4) the final value ranks at least as good as every valid value supplied locally or by an answer
	// returned strictly before the search ended (strictness keeps this sound under quorum abort / cancel)
	bestRank, bestDesc, any := -1, "", false
	anyAtAll := false
	for _, s := range res.Supplies {
		if !s.Valid {
			continue
		}
		if s.Local || !s.VT.After(res.Close) {
			anyAtAll = true
		}
		if s.Local || s.VT.Before(res.Close) {
			any = true
			if rk := vC04Rank(s.Val); rk > bestRank {
				bestRank = rk
				bestDesc = fmt.Sprintf("%s from %s at +%v", vC04Short(s.Val), map[bool]string{true: "local store", false: n.Name(s.Peer)}[s.Local], s.VT.Sub(res.Start))
			}
		}
	}
	if any {
		var final []byte
		if len(res.Emis) > 0 {
			final = res.Emis[len(res.Emis)-1].Val
		}
		c.Check(final != nil && vC04Rank(final) >= bestRank, "final-ranks-best", "final value %s (closed at +%v, err=%v) ranks below %s", map[bool]string{true: "<none>", false: vC04Short(final)}[final == nil], res.Close.Sub(res.Start), res.Err, bestDesc)
	}
	// (4b) quorum-ended searches: processValues must count quorum+1 values before it may abort, so when at most
	// quorum+1 valid values had been supplied by the time the channel closed, every one of them was processed
	// (also the one that completed the quorum, which arrives at the very instant the search ends) and the final
	// value must rank at least as good as all of them.
	if q := sc.Quorum; q > 0 && !sc.Offline && !res.Cancelled {
		nv, top, topDesc := 0, -1, ""
		for _, s := range res.Supplies {
			if s.Valid && (s.Local || !s.VT.After(res.Close)) {
				nv++
				if rk := vC04Rank(s.Val); rk > top {
					top = rk
					topDesc = fmt.Sprintf("%s at +%v", vC04Short(s.Val), s.VT.Sub(res.Start))
				}
			}
		}
		if nv > 0 && nv <= q+1 {
			var final []byte
			if len(res.Emis) > 0 {
				final = res.Emis[len(res.Emis)-1].Val
			}
			c.Check(final != nil && vC04Rank(final) >= top, "quorum-completing-value-counts", "quorum %d, %d valid values supplied by the close at +%v (all necessarily processed): final %s ranks below %s", q, nv, res.Close.Sub(res.Start), map[bool]string{true: "<none>", false: vC04Short(final)}[final == nil], topDesc)
		}
	}
	// (5) nothing valid supplied => not found
	if !anyAtAll {
		ok := len(res.Emis) == 0
		if sc.Op == "get" && !res.Cancelled {
			ok = ok && errors.Is(res.Err, routing.ErrNotFound)
		}
		c.Check(ok, "nothing-valid-not-found", "no valid value was supplied (%d rejected, %d mis-keyed records seen) but the search yielded %d value(s), err=%v", rejSup, misSup, len(res.Emis), res.Err)
	}
	if misSup > 0 {
		c.Clause("other-key-record-seen")
	}
	if rejSup > 0 {
		c.Clause("rejected-record-seen")
	}
	va, rj, se := res.val.counts()
	c.Obs("values_yielded", len(res.Emis))
	c.Obs("answers_with_record", validSup+rejSup+misSup)
	c.Obs("valid_supplies", validSup)
	c.Obs("rejected_supplies", rejSup)
	c.Obs("miskeyed_supplies", misSup)
	c.Obs("validator_validate_calls", va)
	c.Obs("validator_rejections", rj)
	c.Obs("validator_select_calls", se)
	c.Obs("rpcs", len(res.Log)/2)
	if res.Cancelled {
		c.Obs("cancelled_searches", 1)
	}
}

// vC04Aborted tells whether the search was ended by its quorum: processValues counts every value
// that reaches it (local + one per valid answer) and aborts on the (quorum+1)-th; before the abort
// every valid answer reaches it, so the abort happened iff more than `quorum` valid supplies exist.
func vC04Aborted(res *vC04Res) bool {
	q := res.sc.Quorum
	if q <= 0 || res.sc.Offline {
		return false
	}
	nv := 0
	for _, s := range res.Supplies {
		if s.Valid {
			nv++
		}
	}
	return nv > q
}

func vC04Describe(c *vh.Case, res *vC04Res) string {
	sc, n := res.sc, res.n
	c.Set("op", sc.Op)
	c.Set("N", sc.Cfg.N)
	c.Set("K_alpha_beta", []int{sc.Cfg.K, sc.Cfg.A, sc.Cfg.B})
	c.Set("knowledge", sc.Cfg.Knowledge)
	c.Set("table_size", res.tableSize)
	c.Set("quorum", sc.Quorum)
	c.Set("offline_option", sc.Offline)
	c.Set("local", sc.Local)
	c.Set("holder_frac", sc.HolderFrac)
	c.Set("fail_frac", sc.FailFrac)
	c.Set("max_delay_ms", sc.MaxDelay)
	c.Set("cancel_at_ms", sc.CancelAt.Milliseconds())
	c.Set("virtual_duration_ms", res.Close.Sub(res.Start).Milliseconds())
	c.Set("aborted_by_quorum", vC04Aborted(res))
	c.Set("err", fmt.Sprint(res.Err))
	var order []string
	for _, s := range res.Supplies {
		who := "local"
		if !s.Local {
			who = n.Name(s.Peer)
		}
		d := "-"
		if s.HasRec {
			d = vC04Short(s.Val)
		}
		order = append(order, fmt.Sprintf("%s:%s:%s:%v", who, s.Kind, d, s.Valid))
	}
	logged, norec := 0, 0
	for i, o := range order {
		if !res.Supplies[i].HasRec {
			norec++
			continue
		}
		if logged < 40 {
			logged++
			c.Logf("supply +%v %s", res.Supplies[i].VT.Sub(res.Start), o)
		}
	}
	c.Logf("%d answers without a record", norec)
	for i, e := range res.Emis {
		c.Logf("yield %d +%v %s", i, e.VT.Sub(res.Start), vC04Short(e.Val))
	}
	c.Logf("closed +%v err=%v cancelled=%v", res.Close.Sub(res.Start), res.Err, res.Cancelled)
	h := sha256.Sum256([]byte(fmt.Sprintf("%s/%d/%d/%d/%s/%s", sc.Op, sc.Cfg.N, sc.Cfg.K, sc.Quorum, sc.Local, strings.Join(order, ","))))
	return fmt.Sprintf("%x", h[:8])
}

// vC04Nontrivial: the oracle had a real decision to make — at least one valid supply and at least
// one other supply that is either rejected/mis-keyed or of a different rank.
func vC04Nontrivial(res *vC04Res) bool {
	ranks := map[int]bool{}
	bad := 0
	for _, s := range res.Supplies {
		if s.Valid {
			ranks[vC04Rank(s.Val)] = true
		} else if s.HasRec {
			bad++
		}
	}
	return len(ranks) >= 1 && (len(ranks) >= 2 || bad >= 1)
}

const vC04Rule = "PRNG networks (N 1-200, thorough up to 700; K in {1,2,3,5,8,20}, alpha in {1,2,3,10}, beta in {1,2,3,K}; knowledge full/kbucket/sparse; 0-35% responders dead/erroring/silent); each responder and the local store hold one of {valid value from a pool of 1-4 values with ranks 1-5 (ties, shared bytes), stale, flagged invalid, expired, expiring during the search, record filed under another key (value valid for the requested key / for the other key) or under a key that differs in letter case only, value embedding another key, empty, nil value, nil record, garbage, missing}; quorum in {unset,0,1,2,K}, 1/12 with routing.Offline; latencies 1-400 ms decide arrival order; 1/6 cancelled at a PRNG instant; immediate consumer; oracle over the GET_VALUE answers in the simulated wire log + local record + generated validator evaluated on the virtual clock; non-trivial = at least one valid supply and (two ranks or a rejected/mis-keyed record); distinct by (shape, quorum, local kind, arrival order of supplies)"

func TestVerif_C04_search(t *testing.T) {
	vh.Run(t, vh.Spec{Prop: "C04", Unit: "search", Quick: 1200, Thorough: 40000, CostMs: 6, Rule: "SearchValue; " + vC04Rule,
		Clauses: []string{"yielded-validates", "yielded-valid-and-supplied", "strictly-improving", "final-ranks-best", "quorum-completing-value-counts", "nothing-valid-not-found", "other-key-record-seen", "rejected-record-seen"}},
		func(c *vh.Case) {
			sc := vC04GenSc(c, "search")
			c.Bubble(t, 30*time.Minute, "value-search-hang", func(t *testing.T) {
				res := vC04Run(t, c, sc)
				vC04Judge(c, res)
				sig := vC04Describe(c, res)
				if vC04Nontrivial(res) {
					c.Nontrivial(sig)
				}
			})
		})
}

func TestVerif_C04_getvalue(t *testing.T) {
	vh.Run(t, vh.Spec{Prop: "C04", Unit: "getvalue", Quick: 800, Thorough: 30000, CostMs: 6, Rule: "GetValue; " + vC04Rule,
		Clauses: []string{"yielded-valid-and-supplied", "final-ranks-best", "nothing-valid-not-found", "get-value-xor-error", "other-key-record-seen", "rejected-record-seen"}},
		func(c *vh.Case) {
			sc := vC04GenSc(c, "get")
			c.Bubble(t, 30*time.Minute, "value-search-hang", func(t *testing.T) {
				res := vC04Run(t, c, sc)
				vC04Judge(c, res)
				sig := vC04Describe(c, res)
				if vC04Nontrivial(res) {
					c.Nontrivial(sig)
				}
			})
		})
}

// ---- GetPublicKey -----------------------------------------------------------------------------------------

// vC04ECDSA derives an ECDSA P-256 key pair deterministically from the case PRNG (peer IDs of
// such keys are sha256 multihashes: the key is not inlined and has to be fetched).
func vC04ECDSA(r *rand.Rand) (ci.PubKey, peer.ID, []byte) {
	curve := elliptic.P256()
	var b [32]byte
	r.Read(b[:])
	d := new(big.Int).SetBytes(b[:])
	nm1 := new(big.Int).Sub(curve.Params().N, big.NewInt(1))
	d.Mod(d, nm1).Add(d, big.NewInt(1))
	x, y := curve.ScalarBaseMult(d.Bytes())
	pub, err := ci.ECDSAPublicKeyFromPubKey(ecdsa.PublicKey{Curve: curve, X: x, Y: y})
	if err != nil {
		panic(err)
	}
	id, err := peer.IDFromPublicKey(pub)
	if err != nil {
		panic(err)
	}
	raw, err := ci.MarshalPublicKey(pub)
	if err != nil {
		panic(err)
	}
	return pub, id, raw
}

type vC04PkSc struct {
	Cfg        vNetCfg
	Inline     bool
	Node       string // behaviour of the target node itself
	HolderFrac float64
	Local      string // missing | right | wrong
	Peerstore  bool   // key already in the peerstore
	MaxDelay   int
	CancelAt   time.Duration
}

func TestVerif_C04_pubkey(t *testing.T) {
	vh.Run(t, vh.Spec{Prop: "C04", Unit: "pubkey", Quick: 500, Thorough: 15000, CostMs: 5,
		Rule:    "GetPublicKey for a peer whose ID does not inline its key (deterministic ECDSA P-256 keys; 8% Ed25519 inlined IDs as control) on PRNG networks (N 3-80); the target node itself is absent / serves the right key / another peer's key / garbage / no record / a record filed under another /pk key / is dead / silent; each DHT responder holds for /pk/<id> the right key, another peer's key, garbage, a mis-keyed record or nothing; local store missing / right / wrong (raw write); optional key already in the peerstore; 10% cancelled; oracle: a returned key hashes to the requested ID, and an error is returned only if no answer returned strictly earlier (nor local storage) supplied the right key under the right record key; non-trivial = at least one wrong/garbage/mis-keyed record was served and judged; distinct by (shape, node behaviour, arrival order of supplies)",
		Clauses: []string{"pubkey-hashes-to-id", "pubkey-found-if-supplied", "wrong-key-served"}},
		func(c *vh.Case) {
			r := c.R
			k := []int{1, 2, 3, 5, 8, 20}[r.Intn(6)]
			sc := vC04PkSc{Cfg: vNetCfg{N: 3 + r.Intn(78), K: k, A: []int{1, 2, 3, 10}[r.Intn(4)], B: []int{1, 2, 3, k}[r.Intn(4)], Knowledge: []string{"full", "kbucket", "sparse"}[r.Intn(3)], Seeds: 1 + r.Intn(k+5)}}
			sc.Inline = r.Intn(12) == 0
			sc.Node = []string{"absent", "absent", "absent", "right", "right", "wrongkey", "wrongkey", "garbage", "norecord", "miskeyed", "dead", "silent"}[r.Intn(12)]
			sc.HolderFrac = []float64{0, 0.1, 0.4, 0.9}[r.Intn(4)]
			sc.Local = []string{"missing", "missing", "missing", "missing", "missing", "missing", "right", "wrong"}[r.Intn(8)]
			sc.Peerstore = r.Intn(20) == 0
			sc.MaxDelay = []int{5, 50, 400}[r.Intn(3)]
			if r.Intn(10) == 0 {
				sc.CancelAt = time.Duration(1+r.Intn(3*sc.MaxDelay+20)) * time.Millisecond
			}
			c.Bubble(t, 30*time.Minute, "getpublickey-hang", func(t *testing.T) {
				cfg := sc.Cfg
				cfg.Validator = record.NamespacedValidator{"v": &vC04Validator{}, "pk": record.PublicKeyValidator{}}
				n := vNewNet(t, c, cfg)
				defer n.Close()
				var pub ci.PubKey
				var target peer.ID
				var right []byte
				if sc.Inline {
					var seed [64]byte
					r.Read(seed[:])
					_, p, err := ci.GenerateEd25519Key(strings.NewReader(string(seed[:])))
					if err != nil {
						panic(err)
					}
					pub = p
					target, _ = peer.IDFromPublicKey(p)
					right, _ = ci.MarshalPublicKey(p)
				} else {
					pub, target, right = vC04ECDSA(r)
					if _, err := target.ExtractPublicKey(); err == nil {
						c.Fail("harness-key-not-inlined", "ECDSA peer id unexpectedly inlines its key")
					}
				}
				_, otherID, otherKey := vC04ECDSA(r)
				key := routing.KeyForPublicKey(target)
				otherRecKey := routing.KeyForPublicKey(otherID)
				mk := func(kind string) (*recpb.Record, bool) {
					switch kind {
					case "right":
						return &recpb.Record{Key: []byte(key), Value: right}, true
					case "wrongkey":
						return &recpb.Record{Key: []byte(key), Value: otherKey}, true
					case "garbage":
						g := make([]byte, 1+r.Intn(60))
						r.Read(g)
						return &recpb.Record{Key: []byte(key), Value: g}, true
					case "miskeyed": // a consistent record of another peer, served for our key
						return &recpb.Record{Key: []byte(otherRecKey), Value: otherKey}, true
					case "miskeyedright": // the right key filed under another record key
						return &recpb.Record{Key: []byte(otherRecKey), Value: right}, true
					}
					return nil, false
				}
				kinds := map[peer.ID]string{}
				install := func(sp *vsim.SimPeer, idx int, kind, beh string) {
					rec, has := mk(kind)
					base := time.Duration(1+r.Intn(sc.MaxDelay)) * time.Millisecond
					kinds[sp.ID] = beh + "/" + kind
					if beh == "dead" {
						sp.Dead = true
						return
					}
					sp.Script = func(cnt int, req *pb.Message) vsim.Reply {
						if req == nil {
							return vsim.Reply{}
						}
						rep := vsim.Reply{Delay: base + time.Duration((cnt*37+idx)%7)*time.Millisecond}
						if beh == "silent" && req.GetType() != pb.Message_PUT_VALUE {
							rep.Silent = true
						}
						if req.GetType() == pb.Message_GET_VALUE && string(req.GetKey()) == key && has {
							rep.Mutate = func(_, resp *pb.Message) { resp.Record = vC04Clone(rec) }
						}
						return rep
					}
				}
				for i, id := range n.IDs {
					kind := "missing"
					if r.Float64() < sc.HolderFrac {
						kind = []string{"right", "right", "wrongkey", "garbage", "miskeyed", "miskeyedright"}[r.Intn(6)]
					}
					beh := "ok"
					if r.Intn(12) == 0 {
						beh = []string{"dead", "silent"}[r.Intn(2)]
					}
					install(n.S.Peer(id), i, kind, beh)
				}
				if sc.Node != "absent" {
					sp := n.S.Add(&vsim.SimPeer{ID: target, Addrs: []ma.Multiaddr{vPeerAddr(sc.Cfg.N+1, false)}, Known: n.IDs})
					kind, beh := sc.Node, "ok"
					switch sc.Node {
					case "norecord":
						kind = "missing"
					case "dead", "silent":
						kind, beh = "right", sc.Node
					}
					install(sp, sc.Cfg.N+1, kind, beh)
				}
				ctx0 := context.Background()
				localRight := false
				switch sc.Local {
				case "right":
					buf, _ := proto.Marshal(&recpb.Record{Key: []byte(key), Value: right, TimeReceived: internal.FormatRFC3339(time.Now())})
					n.J.Put(ctx0, vC04DsKey(key), buf)
					if got, err := n.D.getLocal(ctx0, key); err != nil || got == nil {
						c.Fail("harness-dskey-selfcheck", "a valid /pk record written at %s is not returned by getLocal (%v)", vC04DsKey(key), err)
					}
					localRight = true
				case "wrong":
					buf, _ := proto.Marshal(&recpb.Record{Key: []byte(key), Value: otherKey, TimeReceived: internal.FormatRFC3339(time.Now())})
					n.J.Put(ctx0, vC04DsKey(key), buf)
				}
				if sc.Peerstore && !sc.Inline {
					if err := n.H.Peerstore().AddPubKey(target, pub); err != nil {
						panic(err)
					}
				}
				synctest.Wait()
				ctx, cancel := context.WithCancel(context.Background())
				defer cancel()
				if sc.CancelAt > 0 {
					tm := time.AfterFunc(sc.CancelAt, cancel)
					defer tm.Stop()
				}
				start := time.Now()
				got, err := n.D.GetPublicKey(ctx, target)
				ret := time.Now()
				cancelled := ctx.Err() != nil
				cancel()
				synctest.Wait()
				log := n.S.Log()
				// supplies
				rightBefore, wrongSeen := 0, 0
				var order []string
				for _, e := range log {
					if e.Kind != vsim.EvReply || e.Type != pb.Message_GET_VALUE || string(e.Key) != key || e.Err != "" || e.Msg == nil {
						continue
					}
					rec := e.Msg.GetRecord()
					if rec == nil {
						continue
					}
					isRight := string(rec.GetKey()) == key && string(rec.GetValue()) == string(right)
					if isRight && e.VT.Before(ret) {
						rightBefore++
					}
					if !isRight && !e.VT.After(ret) {
						wrongSeen++
					}
					order = append(order, fmt.Sprintf("%s:%s", n.Name(e.Peer), strings.TrimPrefix(kinds[e.Peer], "ok/")))
					if len(order) <= 30 {
						c.Logf("answer +%v %s right=%v", e.VT.Sub(start), order[len(order)-1], isRight)
					}
				}
				if sc.Local == "wrong" {
					wrongSeen++
				}
				if err == nil {
					var id peer.ID
					var ierr error
					if got != nil {
						id, ierr = peer.IDFromPublicKey(got)
					}
					c.Check(got != nil && ierr == nil && id == target, "pubkey-hashes-to-id", "GetPublicKey(%s) returned a key hashing to %s (err %v); node=%s", vsim.Short(target), vsim.Short(id), ierr, sc.Node)
				} else if !cancelled {
					c.Check(rightBefore == 0 && !localRight && !sc.Inline && !sc.Peerstore, "pubkey-found-if-supplied", "GetPublicKey failed with %v although the right key had been supplied (answers before return: %d, local: %v, inlined: %v, peerstore: %v)", err, rightBefore, localRight, sc.Inline, sc.Peerstore)
				}
				if wrongSeen > 0 {
					c.Clause("wrong-key-served")
				}
				c.Obs("rpcs", len(log)/2)
				c.Obs("answers_with_record", len(order))
				c.Obs("wrong_records_served", wrongSeen)
				if err == nil {
					c.Obs("keys_found", 1)
				}
				c.Set("N", sc.Cfg.N)
				c.Set("K_alpha_beta", []int{sc.Cfg.K, sc.Cfg.A, sc.Cfg.B})
				c.Set("inline", sc.Inline)
				c.Set("node", sc.Node)
				c.Set("holder_frac", sc.HolderFrac)
				c.Set("local", sc.Local)
				c.Set("peerstore", sc.Peerstore)
				c.Set("cancel_at_ms", sc.CancelAt.Milliseconds())
				c.Set("err", fmt.Sprint(err))
				c.Set("virtual_duration_ms", ret.Sub(start).Milliseconds())
				c.Logf("returned +%v err=%v cancelled=%v", ret.Sub(start), err, cancelled)
				if wrongSeen > 0 {
					h := sha256.Sum256([]byte(fmt.Sprintf("%d/%d/%s/%s/%s", sc.Cfg.N, sc.Cfg.K, sc.Node, sc.Local, strings.Join(order, ","))))
					c.Nontrivial(fmt.Sprintf("%x", h[:8]))
				}
			})
		})
}
