//go:build verif

package dht

// C01 — lookups return exactly the K nearest non-failed peers they learned, and their events
// agree with the wire.  C02 — convergence and contact.
//
// One scenario runner, two sets of oracle clauses.

import (
	"context"
	"crypto/sha256"
	"errors"
	"fmt"
	"sort"
	"strings"
	"testing"
	"testing/synctest"
	"time"

	kb "github.com/libp2p/go-libp2p-kbucket"
	"github.com/libp2p/go-libp2p/core/network"
	"github.com/libp2p/go-libp2p/core/peer"
	ma "github.com/multiformats/go-multiaddr"

	"github.com/libp2p/go-libp2p-kad-dht/internal/verif/vh"
	"github.com/libp2p/go-libp2p-kad-dht/internal/verif/vsim"
	pb "github.com/libp2p/go-libp2p-kad-dht/pb"
)

type vLkScenario struct {
	Cfg       vNetCfg
	FailFrac  float64 // fraction of peers that fail (dial / request / silent)
	LiarFrac  float64
	Filter    bool // install a pure query filter
	CancelAt  time.Duration
	Key       string
	MaxDelay  int // ms
	AllAnswer bool
	KeyPeer   int // > 0: the key is the id of simulated peer (KeyPeer-1) mod N
	Diversity int // > 0: routing-table IP-diversity filter with this per-group table limit; peers clustered in /16 groups
	Groups    int // number of /16 groups the peers are spread over (Diversity > 0)
}

// vGroupAddr puts peer i into /16 group i%groups (public range, no legacy class-A block).
func vGroupAddr(i, groups int) ma.Multiaddr {
	g := i % groups
	return ma.StringCast(fmt.Sprintf("/ip4/%d.%d.%d.%d/tcp/4001", 130+(g/250)%39, g%250, (i/groups)/250, 1+(i/groups)%250))
}

// vGroupOf is the monitor's own /16 group of a simulated peer's address ("" for peers without address).
func vGroupOf(addrs []ma.Multiaddr) string {
	for _, a := range addrs {
		parts := strings.Split(a.String(), "/")
		if len(parts) > 2 && parts[1] == "ip4" {
			o := strings.Split(parts[2], ".")
			return o[0] + "." + o[1]
		}
	}
	return ""
}

// vLkResult is everything observed in one lookup.
type vLkResult struct {
	n         *vNet
	sc        vLkScenario
	R         []peer.ID
	Err       error
	S         []peer.ID // K nearest routing-table peers at rest before the call (monitor's own arithmetic)
	Events    []vLookupEv
	Log       []vsim.Event
	Dials     []vsim.DialEvent
	Cancelled bool
	Start     time.Time
	End       time.Time
	RefreshBefore, RefreshAfter []time.Time
	behaviour map[peer.ID]string
}

func vFilterFn(n *vNet) QueryFilterFunc {
	return func(_ any, ai peer.AddrInfo) bool {
		i := n.Index(ai.ID)
		return i < 0 || i%7 != 3 // strangers pass (they fail the dial later), every 7th simulated peer is filtered
	}
}

func vGenLkScenario(c *vh.Case, converge bool) vLkScenario {
	r := c.R
	ks := []int{1, 2, 3, 5, 8, 20}
	as := []int{1, 2, 3, 10}
	sc := vLkScenario{}
	k := ks[r.Intn(len(ks))]
	a := as[r.Intn(len(as))]
	bs := []int{1, 2, 3, k}
	b := bs[r.Intn(len(bs))]
	var n int
	switch x := r.Intn(10); {
	case x < 2:
		n = 1 + r.Intn(12)
	case x < 7:
		n = 10 + r.Intn(150)
	default:
		n = 100 + r.Intn(400)
	}
	if c.Tier == "thorough" && r.Intn(8) == 0 {
		n = 500 + r.Intn(1500)
	}
	kn := []string{"full", "kbucket", "kbucket", "sparse"}[r.Intn(4)]
	sc.Cfg = vNetCfg{N: n, K: k, A: a, B: b, Knowledge: kn, Seeds: 1 + r.Intn(k+5)}
	sc.MaxDelay = []int{5, 50, 400}[r.Intn(3)]
	sc.Key = fmt.Sprintf("/verif/key-%d-%d", c.Idx, r.Int63())
	if converge {
		sc.AllAnswer = true
		if sc.Cfg.Knowledge == "sparse" {
			sc.Cfg.Knowledge = "kbucket"
		}
		return sc
	}
	sc.FailFrac = []float64{0, 0.1, 0.3, 0.6}[r.Intn(4)]
	sc.LiarFrac = []float64{0, 0, 0.15, 0.4}[r.Intn(4)]
	sc.Filter = r.Intn(3) == 0
	if r.Intn(5) == 0 {
		sc.CancelAt = time.Duration(1+r.Intn(3*sc.MaxDelay+20)) * time.Millisecond
	}
	if r.Intn(5) == 0 {
		// a FindPeer-style lookup: the key is the id of one of the simulated peers (which answers, fails or lies like
		// any other peer)
		sc.KeyPeer = 1 + r.Intn(1<<20)
	}
	return sc
}

// vRunLookup runs one GetClosestPeers in the bubble and records everything.
func vRunLookup(t *testing.T, c *vh.Case, sc vLkScenario) *vLkResult {
	cfg := sc.Cfg
	res := &vLkResult{sc: sc, behaviour: map[peer.ID]string{}}
	var n *vNet
	if sc.Diversity > 0 {
		groups, lim, want := sc.Groups, sc.Diversity, cfg.Seeds
		cfg.Seeds = 0
		cfg.AddrFn = func(i int) ma.Multiaddr { return vGroupAddr(i, groups) }
		cfg.OptsFn = func(n *vNet) []Option {
			return []Option{RoutingTablePeerDiversityFilter(NewRTPeerDiversityFilter(n.H, 1000, lim))}
		}
		n = vNewNet(t, c, cfg)
		// the table's diversity filter reads a peer's addresses from its connections: connect the seeds first
		// a third of the peers also advertise a name, listed before their IP address (legal, and common for dnsaddr
		// bootstrappers): the group rule counts a peer by its IP addresses wherever they stand in the list
		for i, id := range n.IDs {
			if c.R.Intn(3) == 0 {
				sp := n.S.Peer(id)
				sp.Addrs = append([]ma.Multiaddr{ma.StringCast(fmt.Sprintf("/dns4/h%d.example.org/tcp/4001", i))}, sp.Addrs...)
			}
		}
		n.H.RemoteAddrFn = func(p peer.ID) ma.Multiaddr {
			if sp := n.S.Peer(p); sp != nil && len(sp.Addrs) > 0 {
				return sp.Addrs[len(sp.Addrs)-1] // the IP address
			}
			return nil
		}
		added := 0
		for _, i := range c.R.Perm(cfg.N) {
			if added >= want {
				break
			}
			n.H.Net.AddConn(n.IDs[i], network.DirOutbound, nil, false)
			if ok, _ := n.D.routingTable.TryAddPeer(n.IDs[i], true, false); ok {
				added++
			} else {
				n.H.Net.Disconnect(n.IDs[i], false)
			}
		}
	} else if sc.Filter {
		// the filter needs the vNet to map ids to indices: install through a late-bound closure
		var late *vNet
		cfg.Opts = append(cfg.Opts, QueryFilter(func(d any, ai peer.AddrInfo) bool { return vFilterFn(late)(d, ai) }))
		n = vNewNet(t, c, cfg)
		late = n
	} else {
		n = vNewNet(t, c, cfg)
	}
	res.n = n
	defer n.Close()
	if sc.KeyPeer > 0 && len(n.IDs) > 0 {
		sc.Key = string(n.IDs[(sc.KeyPeer-1)%len(n.IDs)])
		if sc.KeyPeer%4 == 0 {
			// a lookup for the node's own id (what a bootstrap / self-refresh does): the node itself is at distance 0 and
			// must still never be returned
			sc.Key = string(n.Self)
		}
		res.sc = sc
		c.Set("key_is_peer", n.Name(peer.ID(sc.Key)))
	}
	r := c.R
	strangers := 0
	for i, id := range n.IDs {
		sp := n.S.Peer(id)
		base := time.Duration(1+r.Intn(sc.MaxDelay)) * time.Millisecond
		kind := "ok"
		if !sc.AllAnswer && r.Float64() < sc.FailFrac {
			kind = []string{"dead", "reqerr", "silent", "dialslow"}[r.Intn(4)]
		}
		liar := ""
		if !sc.AllAnswer && kind == "ok" && r.Float64() < sc.LiarFrac {
			liar = []string{"self", "dup", "stranger", "huge", "selfonly", "hugeself"}[r.Intn(6)]
		}
		res.behaviour[id] = kind + "/" + liar
		idx := i
		switch kind {
		case "dead":
			sp.Dead = true
			continue
		}
		lk, kk, sid := liar, kind, strangers
		strangers += 3
		// successful dials take time too for half of the peers: a lookup can then terminate while a dial is pending
		var dialLat time.Duration
		if r.Intn(2) == 0 {
			dialLat = time.Duration(1+r.Intn(sc.MaxDelay)) * time.Millisecond
		}
		sp.Script = func(cnt int, req *pb.Message) vsim.Reply {
			if req == nil { // dial
				if kk == "dialslow" {
					return vsim.Reply{DialFail: true, Delay: base}
				}
				return vsim.Reply{Delay: dialLat}
			}
			rep := vsim.Reply{Delay: base + time.Duration((cnt*37+idx)%7)*time.Millisecond}
			switch kk {
			case "reqerr":
				rep.Err = errors.New("vsim: stream reset by peer")
			case "silent":
				rep.Silent = true
			}
			if lk != "" && req.GetType() == pb.Message_FIND_NODE {
				rep.Mutate = func(req, resp *pb.Message) {
					self := peer.AddrInfo{ID: n.Self}
					switch lk {
					case "self":
						resp.CloserPeers = append(pb.RawPeerInfosToPBPeers([]peer.AddrInfo{self}), resp.CloserPeers...)
					case "selfonly":
						resp.CloserPeers = pb.RawPeerInfosToPBPeers([]peer.AddrInfo{self, self})
					case "dup":
						resp.CloserPeers = append(resp.CloserPeers, resp.CloserPeers...)
					case "stranger":
						var xs []peer.AddrInfo
						for j := 0; j < 3; j++ {
							xs = append(xs, peer.AddrInfo{ID: vsim.PeerID(fmt.Sprintf("stranger%d", c.Idx), sid+j)})
						}
						resp.CloserPeers = append(pb.RawPeerInfosToPBPeers(xs), resp.CloserPeers...)
					case "huge":
						var xs []peer.AddrInfo
						for j := 0; j < 200; j++ {
							xs = append(xs, n.S.AddrInfoOf(n.IDs[(idx+j)%len(n.IDs)]))
						}
						resp.CloserPeers = pb.RawPeerInfosToPBPeers(xs)
					case "hugeself":
						// more than 2K entries, and the requester itself listed many times behind them
						var xs []peer.AddrInfo
						for j := 0; j < 200; j++ {
							xs = append(xs, n.S.AddrInfoOf(n.IDs[(idx+j)%len(n.IDs)]))
						}
						for j := 0; j < 1+idx%40; j++ {
							xs = append(xs, self)
						}
						resp.CloserPeers = pb.RawPeerInfosToPBPeers(xs)
					}
				}
			}
			return rep
		}
	}
	synctest.Wait()
	// S: K nearest routing-table members at rest, by the monitor's own arithmetic
	res.S = vsim.Nearest([]byte(sc.Key), n.D.routingTable.ListPeers(), cfg.K)
	res.RefreshBefore = n.D.routingTable.GetTrackedCplsForRefresh()

	ctx, cancel := context.WithCancel(context.Background())
	lctx, events, wait := n.WithEvents(ctx)
	if sc.CancelAt > 0 {
		tm := time.AfterFunc(sc.CancelAt, cancel)
		defer tm.Stop()
	}
	res.Start = time.Now()
	res.R, res.Err = n.D.GetClosestPeers(lctx, sc.Key)
	res.End = time.Now()
	res.Cancelled = ctx.Err() != nil
	res.RefreshAfter = n.D.routingTable.GetTrackedCplsForRefresh()
	cancel()
	wait()
	synctest.Wait()
	res.Events = events()
	res.Log = n.S.Log()
	res.Dials = n.H.DialLog()
	return res
}

// vLkDerived holds what the oracles derive from the event stream.
type vLkDerived struct {
	first       []peer.ID            // heard of the first update
	L           map[peer.ID]bool     // S ∪ heard of processed responses
	F           map[peer.ID]bool     // reported unreachable before the terminate event
	Q           map[peer.ID]bool     // reported queried
	W           map[peer.ID]int      // waiting events per peer
	respHeard   map[peer.ID][]peer.ID // heard list of the response event whose cause is p
	respKind    map[peer.ID]string   // queried | unreachable
	order       []string             // arrival order of responses (names)
	reason      string               // terminate reason ("" if none seen)
	nTerminate  int
	afterTerm   int // update events after a terminate event
	hops        int
	divDrops    int // entries dropped by the diversity rule (monitor's computation)
	waitSrc     map[peer.ID]peer.ID          // Source field of the (last) waiting event per peer
	heardFrom   map[peer.ID]map[peer.ID]bool // cause of a response event (local node for the seeding update) -> peers it listed as heard
}

func vDerive(res *vLkResult) *vLkDerived {
	d := &vLkDerived{L: map[peer.ID]bool{}, F: map[peer.ID]bool{}, Q: map[peer.ID]bool{}, W: map[peer.ID]int{},
		respHeard: map[peer.ID][]peer.ID{}, respKind: map[peer.ID]string{},
		waitSrc: map[peer.ID]peer.ID{}, heardFrom: map[peer.ID]map[peer.ID]bool{}}
	n := res.n
	noteHeard := func(cause peer.ID, heard []peer.ID) {
		if d.heardFrom[cause] == nil {
			d.heardFrom[cause] = map[peer.ID]bool{}
		}
		for _, p := range heard {
			d.heardFrom[cause][p] = true
		}
	}
	seenFirst := false
	for _, e := range res.Events {
		ev := e.Ev
		if ev.Terminate != nil {
			d.nTerminate++
			d.reason = ev.Terminate.Reason.String()
			continue
		}
		if d.nTerminate > 0 {
			d.afterTerm++
		}
		if ev.Request != nil {
			for _, p := range vEvPeers(ev.Request.Waiting) {
				d.W[p]++
				if ev.Request.Source != nil {
					d.waitSrc[p] = ev.Request.Source.Peer
				} else {
					d.waitSrc[p] = ""
				}
			}
		}
		if ev.Response != nil {
			heard := vEvPeers(ev.Response.Heard)
			if !seenFirst {
				seenFirst = true
				d.first = heard
				for _, p := range heard {
					d.L[p] = true
				}
				noteHeard(n.Self, heard)
				continue
			}
			cause := peer.ID("")
			if ev.Response.Cause != nil {
				cause = ev.Response.Cause.Peer
			}
			for _, p := range heard {
				if p != n.Self {
					d.L[p] = true
				}
			}
			noteHeard(cause, heard)
			for _, p := range vEvPeers(ev.Response.Queried) {
				d.Q[p] = true
				d.respKind[p] = "queried"
				d.respHeard[p] = heard
			}
			for _, p := range vEvPeers(ev.Response.Unreachable) {
				d.F[p] = true
				d.respKind[p] = "unreachable"
			}
			d.order = append(d.order, n.Name(cause))
		}
	}
	seeds := map[peer.ID]bool{}
	for _, p := range d.first {
		seeds[p] = true
	}
	for p := range d.Q {
		if !seeds[p] {
			d.hops = 2
		}
	}
	return d
}

func vAscending(key string, ps []peer.ID) bool {
	t := vsim.KadID([]byte(key))
	for i := 1; i < len(ps); i++ {
		if vsim.CmpDist(t, vsim.KadID([]byte(ps[i-1])), vsim.KadID([]byte(ps[i]))) >= 0 {
			return false
		}
	}
	return true
}

func vSelfCheckDistance(c *vh.Case) {
	// monitor arithmetic vs go-libp2p-kbucket on a random input; disagreement = harness error
	var ps []peer.ID
	for i := 0; i < 12; i++ {
		ps = append(ps, vsim.PeerID("chk", c.R.Intn(1<<20)))
	}
	key := fmt.Sprintf("chk-%d", c.R.Int63())
	mine := vsim.SortByDist([]byte(key), ps)
	theirs := kb.SortClosestPeers(ps, kb.ConvertKey(key))
	if !vEqualIDs(mine, theirs) {
		c.Fail("harness-distance-selfcheck", "monitor XOR arithmetic disagrees with kbucket.SortClosestPeers")
	}
}

// vOracleC01 judges one lookup against C01.
func vOracleC01(c *vh.Case, res *vLkResult) *vLkDerived {
	n, sc, K := res.n, res.sc, res.sc.Cfg.K
	d := vDerive(res)
	R := res.R
	if errors.Is(res.Err, kb.ErrLookupFailure) {
		c.Check(len(res.S) == 0, "empty-table-error", "ErrLookupFailure although the routing table held %d peers", len(res.S))
		return d
	}
	// (1) shape
	seen := map[peer.ID]bool{}
	dup, self := false, false
	for _, p := range R {
		if seen[p] {
			dup = true
		}
		seen[p] = true
		if p == n.Self {
			self = true
		}
	}
	c.Check(len(R) <= K, "at-most-k", "returned %d peers, K=%d", len(R), K)
	c.Check(!dup, "distinct", "result contains duplicates: %v", n.Names(R))
	c.Check(!self, "never-self", "result contains the local node")
	c.Check(vAscending(sc.Key, R), "ascending", "result not in strictly ascending XOR distance: %v", n.Names(R))
	// (4) first update = S
	c.Check(vEqualIDs(vsim.SortByDist([]byte(sc.Key), d.first), res.S), "seeds-are-k-nearest-of-table", "first update heard %v, K nearest table peers %v", n.Names(d.first), n.Names(res.S))
	c.Check(d.nTerminate <= 1 && d.afterTerm == 0, "no-update-after-terminate", "%d terminate events, %d updates after termination", d.nTerminate, d.afterTerm)

	// everything any reply named (upper bound on what the lookup can have learned)
	named := map[peer.ID]bool{}
	for _, e := range res.Log {
		if e.Kind == vsim.EvReply && e.Type == pb.Message_FIND_NODE && string(e.Key) == sc.Key {
			for _, p := range e.Closer {
				named[p] = true
			}
		}
	}
	if res.Cancelled {
		// events published after the cancellation may be dropped: only soundness against the wire
		ok := true
		for _, p := range R {
			if !d.L[p] && !named[p] {
				ok = false
			}
		}
		c.Check(ok, "cancelled-result-learned", "cancelled lookup returned a peer that was neither a seed nor named in any reply: %v", n.Names(R))
		// an unreachable event that WAS received proves the failure had been processed (the state never leaves
		// "unreachable"), so such a peer must not be returned, cancelled or not
		var bad []string
		for _, p := range R {
			if d.F[p] {
				bad = append(bad, n.Name(p))
			}
		}
		if len(d.F) > 0 {
			c.Check(len(bad) == 0, "cancelled-result-not-failed", "cancelled lookup returned peers already reported unreachable: %v", bad)
		}
		// no omission, cancelled or not: an update event that WAS received proves its heard peers entered the
		// lookup's peer set (publication precedes insertion in the same goroutine), and a peer is only ever marked
		// unreachable after a dial or a request to it returned an error (context errors included), all of which are
		// in the dial / wire logs. So a received-heard peer without any failed dial or request is a learned,
		// non-failed peer: it is returned, or K nearer peers are.
		wireFailed := map[peer.ID]bool{}
		for _, de := range res.Dials {
			if de.Err != "" {
				wireFailed[de.Peer] = true
			}
		}
		for _, e := range res.Log {
			if e.Kind == vsim.EvReply && e.Err != "" {
				wireFailed[e.Peer] = true
			}
		}
		inRes := map[peer.ID]bool{}
		for _, p := range R {
			inRes[p] = true
		}
		var omitted []string
		tk := vsim.KadID([]byte(sc.Key))
		for p := range d.L {
			if p == n.Self || inRes[p] || wireFailed[p] || d.F[p] {
				continue
			}
			if len(R) >= K && vsim.CmpDist(tk, vsim.KadID([]byte(R[len(R)-1])), vsim.KadID([]byte(p))) < 0 {
				continue
			}
			omitted = append(omitted, n.Name(p))
		}
		sort.Strings(omitted)
		c.Check(len(omitted) == 0, "cancelled-result-no-omission", "cancelled lookup returned %v (K=%d) but omitted learned peers with no failed dial or request that are nearer than its farthest result (or it returned fewer than K): %v", n.Names(R), K, omitted)
		return d
	}
	// (2) R = the min(K,|L\F|) nearest of L\F
	cand := map[peer.ID]bool{}
	for p := range d.L {
		if !d.F[p] {
			cand[p] = true
		}
	}
	want := vNearest(sc.Key, cand, K)
	sub, nofail := true, true
	for _, p := range R {
		if !d.L[p] {
			sub = false
		}
		if d.F[p] {
			nofail = false
		}
	}
	c.Check(sub, "result-learned", "result contains a peer that was neither a seed nor heard in a processed response: %v", n.Names(R))
	c.Check(nofail, "result-not-failed", "result contains a peer reported unreachable before the search ended: R=%v F=%v", n.Names(R), vSortedNames(n, d.F))
	c.Check(vEqualIDs(R, want), "result-is-k-nearest-of-learned", "result %v != K nearest of learned non-failed %v (|L|=%d |F|=%d)", n.Names(R), n.Names(want), len(d.L), len(d.F))

	// (3) event / wire agreement (order-free formulation, see DESIGN C01 and vnet.go)
	reqs := map[peer.ID][]vsim.Event{}
	reps := map[peer.ID][]vsim.Event{}
	for _, e := range res.Log {
		if e.Type != pb.Message_FIND_NODE || string(e.Key) != sc.Key {
			continue
		}
		switch e.Kind {
		case vsim.EvRequest:
			reqs[e.Peer] = append(reqs[e.Peer], e)
		case vsim.EvReply:
			reps[e.Peer] = append(reps[e.Peer], e)
		}
	}
	dials := map[peer.ID][]vsim.DialEvent{}
	for _, de := range res.Dials {
		dials[de.Peer] = append(dials[de.Peer], de)
	}
	inR := map[peer.ID]bool{}
	for _, p := range R {
		inR[p] = true
	}
	for p, w := range d.W {
		// the Source of a waiting event is "the peer who informed us about" p: the local node for a seed, else a peer
		// whose processed response listed p (the event stream is complete for an uncancelled lookup)
		src := d.waitSrc[p]
		c.Check(d.heardFrom[src][p], "waiting-source-named-peer", "waiting event for %s names source %s, but no update caused by that source listed %s as heard", n.Name(p), n.Name(src), n.Name(p))
		c.Check(w == 1, "waiting-once", "%d waiting events for %s", w, n.Name(p))
		c.Check(len(reqs[p])+len(dials[p]) >= 1, "waiting-then-contact", "waiting event for %s but neither dial nor request was made", n.Name(p))
	}
	for p, rq := range reqs {
		_, waited := d.W[p]
		// a peer is asked once by the lookup, and possibly once more by the follow-up if it is returned
		okCount := len(rq) == 1 || (len(rq) == 2 && inR[p] && d.respKind[p] == "")
		c.Check(okCount, "asked-at-most-once", "%d requests to %s (returned=%v, response event=%q)", len(rq), n.Name(p), inR[p], d.respKind[p])
		c.Check(waited || inR[p], "contact-announced", "request to %s without a waiting event (and it is not a follow-up target)", n.Name(p))
	}
	filter := func(p peer.ID) bool { return true }
	if sc.Filter {
		f := vFilterFn(n)
		filter = func(p peer.ID) bool { return f(nil, peer.AddrInfo{ID: p}) }
	}
	for p, kind := range d.respKind {
		dialFailed := false
		for _, de := range dials[p] {
			if de.Err != "" {
				dialFailed = true
			}
		}
		var rep *vsim.Event
		if len(reps[p]) > 0 {
			rep = &reps[p][0]
		}
		switch kind {
		case "queried":
			if !c.Check(rep != nil && rep.Err == "" && !dialFailed, "queried-iff-answered", "%s reported queried but the wire shows dialFailed=%v reply=%+v", n.Name(p), dialFailed, rep) {
				continue
			}
			sent := rep.Closer
			if len(sent) > 2*K {
				sent = sent[:2*K]
			}
			if sc.Diversity > 0 {
				// peers of an IP group holding more than the limit of distinct peers in this answer are dropped
				members := map[string]map[peer.ID]bool{}
				grp := map[peer.ID]string{}
				for _, pi := range rep.Msg.GetCloserPeers()[:len(sent)] {
					g := vGroupOf(pi.Addresses())
					id := peer.ID(pi.GetId())
					if g == "" {
						continue
					}
					grp[id] = g
					if members[g] == nil {
						members[g] = map[peer.ID]bool{}
					}
					members[g][id] = true
				}
				var kept []peer.ID
				for _, x := range sent {
					if g, ok := grp[x]; ok && len(members[g]) > sc.Diversity {
						c.Clause("diversity-drop")
						d.divDrops++
						continue
					}
					kept = append(kept, x)
				}
				sent = kept
			}
			var exp []peer.ID
			for _, x := range sent {
				if x == n.Self {
					continue
				}
				if string(x) == sc.Key || filter(x) {
					exp = append(exp, x)
				}
			}
			c.Check(vEqualIDs(exp, d.respHeard[p]), "heard-is-filtered-answer", "response event of %s heard %v, expected filter(first 2K of the answer sent, minus self) = %v (answer had %d entries)", n.Name(p), n.Names(d.respHeard[p]), n.Names(exp), len(rep.Closer))
			c.Check(len(d.respHeard[p]) <= 2*K, "heard-at-most-2k", "%d peers heard from one response, 2K=%d", len(d.respHeard[p]), 2*K)
		case "unreachable":
			c.Check(dialFailed || (rep != nil && rep.Err != ""), "unreachable-iff-failed", "%s reported unreachable but no dial or request failed (dials=%d reply=%+v)", n.Name(p), len(dials[p]), rep)
		}
	}
	c.Obs("lookup_events", len(res.Events))
	c.Obs("rpcs", len(res.Log)/2)
	c.Obs("dials", len(res.Dials))
	c.Obs("response_events", len(d.order))
	return d
}

func vLkSig(res *vLkResult, d *vLkDerived) string {
	sc := res.sc
	h := sha256.Sum256([]byte(fmt.Sprintf("%d/%d/%d/%d/%s/%v/%v/%s", sc.Cfg.N, sc.Cfg.K, sc.Cfg.A, sc.Cfg.B, sc.Cfg.Knowledge, sc.FailFrac, sc.LiarFrac, strings.Join(d.order, ","))))
	return fmt.Sprintf("%x", h[:8])
}

func vLkDescribe(c *vh.Case, res *vLkResult, d *vLkDerived) {
	sc := res.sc
	c.Set("N", sc.Cfg.N)
	c.Set("K_alpha_beta", []int{sc.Cfg.K, sc.Cfg.A, sc.Cfg.B})
	c.Set("knowledge", sc.Cfg.Knowledge)
	c.Set("seeds", len(res.S))
	c.Set("fail_frac", sc.FailFrac)
	c.Set("liar_frac", sc.LiarFrac)
	c.Set("filter", sc.Filter)
	c.Set("diversity_limit", sc.Diversity)
	c.Set("ip_groups", sc.Groups)
	c.Set("cancel_at_ms", sc.CancelAt.Milliseconds())
	c.Set("max_delay_ms", sc.MaxDelay)
	c.Set("reason", d.reason)
	c.Set("result", res.n.Names(res.R))
	c.Set("learned", len(d.L))
	c.Set("failed", len(d.F))
	c.Set("virtual_duration_ms", res.End.Sub(res.Start).Milliseconds())
	if len(d.order) > 0 {
		c.Logf("arrival order: %s", strings.Join(d.order, " "))
	}
	var beh []string
	for p, b := range res.behaviour {
		if b != "ok/" {
			beh = append(beh, res.n.Name(p)+"="+b)
		}
	}
	sort.Strings(beh)
	if len(beh) > 30 {
		beh = beh[:30]
	}
	c.Logf("misbehaving: %s", strings.Join(beh, " "))
}

func TestVerif_C01_lookup(t *testing.T) {
	vh.Run(t, vh.Spec{Prop: "C01", Unit: "lookup", Quick: 3000, Thorough: 60000, CostMs: 25,
		Rule: "PRNG networks (N 1-500, thorough up to 2000; K in {1,2,3,5,8,20}, alpha in {1,2,3,10}, beta in {1,2,3,K}; knowledge full/kbucket/sparse; 0-60% peers failing by dial/request/silence; the key is a fresh string or, in a fifth of the cases, the id of one of the simulated peers (FindPeer-style lookup); liars adding self, duplicates, strangers, 200-entry lists; optional pure query filter; 20% cancelled at a PRNG instant), one GetClosestPeers each in virtual time; oracle over lookup events + simulated wire log; non-trivial = uncancelled, >= 2 hops and (>= 1 failure or more than K learned); distinct by (shape, behaviour mix, response arrival order)",
		Clauses: []string{"at-most-k", "ascending", "seeds-are-k-nearest-of-table", "result-is-k-nearest-of-learned", "result-not-failed", "heard-is-filtered-answer", "unreachable-iff-failed", "waiting-then-contact", "asked-at-most-once", "cancelled-result-learned", "cancelled-result-not-failed", "cancelled-result-no-omission", "waiting-source-named-peer"}},
		func(c *vh.Case) {
			sc := vGenLkScenario(c, false)
			vSelfCheckDistance(c)
			c.Bubble(t, 30*time.Minute, "lookup-hang", func(t *testing.T) {
				res := vRunLookup(t, c, sc)
				d := vOracleC01(c, res)
				vLkDescribe(c, res, d)
				if !res.Cancelled && d.hops >= 2 && (len(d.F) > 0 || len(d.L) > sc.Cfg.K) {
					c.Nontrivial(vLkSig(res, d))
				}
			})
		})
}

func TestVerif_C01_diversity(t *testing.T) {
	vh.Run(t, vh.Spec{Prop: "C01", Unit: "diversity", Quick: 1000, Thorough: 20000, CostMs: 30,
		Rule: "as unit lookup, with the routing-table IP-diversity filter configured (per-group table limit 1-3, reused by lookups to drop over-represented groups from each response) and simulated peers clustered into 2-12 /16 groups, a third of them listing a /dns4 address ahead of their IP address; the oracle additionally recomputes, per response, which entries of the first 2K belong to a group with more than `limit` distinct peers in that answer (monitor's own /16 arithmetic) and requires heard = the rest, filtered; non-trivial = uncancelled, >= 2 hops and at least one response lost entries to the diversity rule; distinct by (shape, arrival order)",
		Clauses: []string{"heard-is-filtered-answer", "diversity-drop", "result-is-k-nearest-of-learned"}},
		func(c *vh.Case) {
			sc := vGenLkScenario(c, false)
			sc.Filter = false
			sc.Diversity = 1 + c.R.Intn(3)
			sc.Groups = 2 + c.R.Intn(11)
			if sc.Cfg.N < 6 {
				sc.Cfg.N = 6 + c.R.Intn(60)
			}
			c.Bubble(t, 30*time.Minute, "lookup-hang", func(t *testing.T) {
				res := vRunLookup(t, c, sc)
				d := vOracleC01(c, res)
				vLkDescribe(c, res, d)
				c.Obs("diversity_drops", d.divDrops)
				if !res.Cancelled && d.hops >= 2 && d.divDrops > 0 {
					c.Nontrivial(vLkSig(res, d))
				}
			})
		})
}

// ---- C02 ---------------------------------------------------------------------------------------

func vOracleC02(c *vh.Case, res *vLkResult, d *vLkDerived) { vOracleC02x(c, res, d, true) }

// vOracleC02x: hyp tells whether the scenario satisfies the property's hypothesis (every peer answers, k-bucket
// complete knowledge); the termination and contact clauses (c), (d) hold for every uncancelled lookup.
func vOracleC02x(c *vh.Case, res *vLkResult, d *vLkDerived, hyp bool) {
	n, sc, K, B := res.n, res.sc, res.sc.Cfg.K, res.sc.Cfg.B
	R := res.R
	if res.Err != nil {
		c.Check(errors.Is(res.Err, kb.ErrLookupFailure) && len(res.S) == 0, "uncancelled-no-error", "uncancelled lookup returned error %v", res.Err)
		return
	}
	all := map[peer.ID]bool{}
	for _, p := range n.IDs {
		all[p] = true
	}
	global := vNearest(sc.Key, all, K)
	// (a) globally nearest peer first
	if hyp && len(global) > 0 {
		c.Check(len(R) > 0 && R[0] == global[0], "global-nearest-first", "R[0]=%v, globally nearest simulated peer is %s (N=%d, knowledge=%s, K/a/b=%d/%d/%d)", n.Names(R[:min(1, len(R))]), n.Name(global[0]), sc.Cfg.N, sc.Cfg.Knowledge, K, sc.Cfg.A, B)
	}
	// (b) full knowledge: exactly the K globally nearest
	if hyp && sc.Cfg.Knowledge == "full" {
		c.Check(vEqualIDs(R, global), "full-knowledge-exact", "R=%v, K globally nearest=%v", n.Names(R), n.Names(global))
	}
	// (c) at the terminate event the beta nearest of L\F have answered, or nothing is left to ask
	cand := map[peer.ID]bool{}
	for p := range d.L {
		if !d.F[p] {
			cand[p] = true
		}
	}
	switch d.reason {
	case "completed":
		ok := true
		for _, p := range vNearest(sc.Key, cand, B) {
			if !d.Q[p] {
				ok = false
			}
		}
		// "completed" is also legal when nothing is heard or waiting any more (starvation is checked first in the code,
		// but both conditions can hold); the clause is the Kademlia end condition itself
		c.Check(ok, "beta-nearest-answered", "terminated as completed but a peer among the beta=%d nearest learned non-failed peers has not answered", B)
	case "starvation":
		ok := true
		for p := range cand {
			if !d.Q[p] {
				ok = false
			}
		}
		c.Check(ok, "starvation-means-all-asked", "terminated by starvation but some learned non-failed peer was never answered/asked")
	default:
		c.Check(false, "uncancelled-terminates-normally", "uncancelled lookup terminated with reason %q", d.reason)
	}
	// (d) every returned peer has been sent the request at least once (lookup or follow-up)
	asked := map[peer.ID]bool{}
	for _, e := range res.Log {
		if e.Kind == vsim.EvRequest && e.Type == pb.Message_FIND_NODE && string(e.Key) == sc.Key {
			asked[e.Peer] = true
		}
	}
	ok := true
	var missing []string
	for _, p := range R {
		if !asked[p] {
			ok = false
			missing = append(missing, n.Name(p))
		}
	}
	c.Check(ok, "every-returned-peer-asked", "returned peers never sent the request: %v", missing)
	if !hyp {
		return
	}
	// (e) side effect of a completed lookup: the key's bucket refresh stamp advanced
	cpl := vsim.CPL(vsim.KadID([]byte(n.Self)), vsim.KadID([]byte(sc.Key)))
	if cpl < len(res.RefreshAfter) {
		before := time.Time{}
		if cpl < len(res.RefreshBefore) {
			before = res.RefreshBefore[cpl]
		}
		c.Check(!res.RefreshAfter[cpl].Before(res.Start) || res.RefreshAfter[cpl].After(before), "completed-stamps-bucket", "completed lookup did not stamp bucket %d as refreshed", cpl)
	}
}

func TestVerif_C02_converge(t *testing.T) {
	vh.Run(t, vh.Spec{Prop: "C02", Unit: "converge", Quick: 2000, Thorough: 40000, CostMs: 30,
		Rule: "PRNG networks in which every peer answers with the K nearest peers it knows and knowledge satisfies the k-bucket completeness hypothesis (kbucket(K)) or is full; any non-empty seed table, (K,alpha,beta) as C01, latencies 1-400 ms deciding arrival order; uncancelled GetClosestPeers; oracle vs the global simulated peer set + event stream + wire log; non-trivial = >= 2 hops and N > K; distinct by (shape, arrival order)",
		Clauses: []string{"global-nearest-first", "full-knowledge-exact", "beta-nearest-answered", "every-returned-peer-asked"}},
		func(c *vh.Case) {
			sc := vGenLkScenario(c, true)
			c.Bubble(t, 30*time.Minute, "lookup-hang", func(t *testing.T) {
				res := vRunLookup(t, c, sc)
				d := vOracleC01(c, res) // the C01 clauses hold a fortiori; also fills the observation counters
				vOracleC02(c, res, d)
				vLkDescribe(c, res, d)
				if d.hops >= 2 && sc.Cfg.N > sc.Cfg.K {
					c.Nontrivial(vLkSig(res, d))
				}
			})
		})
}

// C02 (c)/(d) under failures: the end condition and the contact obligation do not depend on the hypothesis.
func TestVerif_C02_terminate(t *testing.T) {
	vh.Run(t, vh.Spec{Prop: "C02", Unit: "terminate", Quick: 2000, Thorough: 40000, CostMs: 25,
		Rule: "the C01 networks with failing (dial / request / silent), lying and filtered peers, never cancelled; oracle = clauses (c) and (d) only: at the terminate event the beta nearest learned non-failed peers have answered (or, on starvation, every learned non-failed peer has), and every returned peer was sent the request; non-trivial = >= 2 hops and at least one peer had failed before the lookup terminated; distinct by (shape, behaviour mix, arrival order)",
		Clauses: []string{"beta-nearest-answered", "starvation-means-all-asked", "every-returned-peer-asked"}},
		func(c *vh.Case) {
			sc := vGenLkScenario(c, false)
			sc.CancelAt = 0
			if sc.FailFrac == 0 {
				sc.FailFrac = 0.3
			}
			c.Bubble(t, 30*time.Minute, "lookup-hang", func(t *testing.T) {
				res := vRunLookup(t, c, sc)
				d := vOracleC01(c, res)
				if !errors.Is(res.Err, kb.ErrLookupFailure) {
					vOracleC02x(c, res, d, false)
				}
				vLkDescribe(c, res, d)
				if d.hops >= 2 && len(d.F) > 0 {
					c.Nontrivial(vLkSig(res, d))
				}
			})
		})
}

// C02(e), second half: cancelled lookups leave the refresh stamps alone.
func TestVerif_C02_sideeffects(t *testing.T) {
	vh.Run(t, vh.Spec{Prop: "C02", Unit: "sideeffects", Quick: 600, Thorough: 10000, CostMs: 25,
		Rule: "C01-style networks with all peers answering slowly (50-400 ms) and the lookup cancelled at a PRNG instant (half the cases) or left alone; oracle: the bucket-refresh stamps (non-zero entries of GetTrackedCplsForRefresh) change only when the lookup completed; non-trivial = the lookup had made at least one request when it was cancelled; distinct by (shape, cancel instant)",
		Clauses: []string{"cancelled-leaves-stamps", "completed-stamps-bucket"}},
		func(c *vh.Case) {
			sc := vGenLkScenario(c, true)
			sc.MaxDelay = 400
			if sc.Cfg.N < 8 {
				sc.Cfg.N = 8 + c.R.Intn(50)
			}
			cancelled := c.R.Intn(2) == 0
			if cancelled {
				sc.CancelAt = time.Duration(1+c.R.Intn(600)) * time.Millisecond
			}
			c.Bubble(t, 30*time.Minute, "lookup-hang", func(t *testing.T) {
				res := vRunLookup(t, c, sc)
				d := vDerive(res)
				// A lookup that ended by itself at the very instant of the cancellation is not a cancelled lookup: its
				// terminate event names a normal reason AND nothing of it was cut short (every request has its reply, no
				// reply and no dial saw the context end - a cancellation during the follow-up phase leaves such traces).
				// Both orders of the two simultaneous events are legal; its stamps are not judged.
				cutShort := false
				asked, answered := 0, 0
				for _, e := range res.Log {
					switch e.Kind {
					case vsim.EvRequest:
						asked++
					case vsim.EvReply:
						answered++
						if e.CtxErr != "" {
							cutShort = true
						}
					}
				}
				for _, dl := range res.Dials {
					if dl.CtxErr != "" {
						cutShort = true
					}
				}
				if res.Cancelled && (d.reason == "completed" || d.reason == "starvation") && !cutShort && asked == answered {
					c.Obs("lookups_completed_at_the_cancel_instant", 1)
				} else if res.Cancelled {
					same := true
					for i, tm := range res.RefreshBefore {
						if tm.IsZero() {
							continue
						}
						if i >= len(res.RefreshAfter) || !res.RefreshAfter[i].Equal(tm) {
							same = false
						}
					}
					// entries that were zero before must not have been stamped with the lookup's time either
					for i, tm := range res.RefreshAfter {
						if i < len(res.RefreshBefore) && res.RefreshBefore[i].IsZero() && !tm.IsZero() && !tm.Before(res.Start) && tm.After(res.Start) {
							same = false
						}
					}
					c.Check(same, "cancelled-leaves-stamps", "cancelled lookup changed the bucket refresh stamps: before %v after %v", res.RefreshBefore, res.RefreshAfter)
				} else if res.Err == nil {
					vOracleC02(c, res, d)
				}
				c.Set("cancel_at_ms", sc.CancelAt.Milliseconds())
				c.Set("reason", d.reason)
				c.Obs("lookup_events", len(res.Events))
				if len(res.Log) > 0 {
					c.Nontrivial(fmt.Sprintf("%d/%d/%d/%v/%d", sc.Cfg.N, sc.Cfg.K, sc.Cfg.A, res.Cancelled, sc.CancelAt.Milliseconds()))
				}
			})
		})
}
