//go:build verif

package dht

// C12, concurrent variant (-race build): bus events, health flips, lookups (plain / cancelled),
// refresh requests and finally Close overlap freely in one bubble. Only the order-free admission
// invariants are judged (never self; admitted only after a correct answer; admission by probes only
// requires that the peer advertised the protocol at some time before the probe and passes the
// generated filter), plus: the callback stream replays to ListPeers at the final rest point and
// every refresh request is answered exactly once. The race detector watches the code under test.

import (
	"fmt"
	"math/rand"
	"runtime"
	"strings"
	"sync"
	"testing"
	"time"

	"github.com/libp2p/go-libp2p/core/network"

	"github.com/libp2p/go-libp2p-kad-dht/internal/verif/vh"
)

func (m *vC12Mon) runConcurrent(t *testing.T) {
	c, n, cfg := m.c, m.n, m.cfg
	bound := m.refreshBound()
	workers := 3 + c.R.Intn(4)
	ops := 6 + c.R.Intn(12)
	var chMu sync.Mutex
	var chs []<-chan error
	var opMu sync.Mutex
	opCount := map[string]int{}
	awaitFirst := func(ch <-chan error, what string) {
		tm := time.NewTimer(bound)
		defer tm.Stop()
		select {
		case v, ok := <-ch:
			c.Check(ok, "refresh-answered", "refresh channel (%s) was closed without yielding a value", what)
			c.Obs("refresh_answers", 1)
			if v != nil {
				c.Obs("refresh_errors", 1)
			}
		case <-tm.C:
			c.Check(false, "refresh-answered", "refresh request (%s) got no answer within %v of virtual time", what, bound)
		}
		chMu.Lock()
		chs = append(chs, ch)
		chMu.Unlock()
	}
	var closeMu sync.RWMutex
	refresh := func(force bool) <-chan error {
		closeMu.RLock()
		defer closeMu.RUnlock()
		if force {
			return n.D.ForceRefresh()
		}
		return n.D.RefreshRoutingTable()
	}
	var wg sync.WaitGroup
	for w := 0; w < workers; w++ {
		r := rand.New(rand.NewSource(c.R.Int63()))
		wg.Add(1)
		go func(w int) {
			defer wg.Done()
			for i := 0; i < ops && !c.Failed(); i++ {
				p := n.IDs[r.Intn(len(n.IDs))]
				var op string
				switch x := r.Intn(100); {
				case x < 25:
					op = "identify"
					m.identify(p, r.Intn(10) < 7)
				case x < 31:
					op = "proto-remove"
					m.protoUpdate(p, false)
				case x < 35:
					op = "proto-add"
					m.connect(p)
					m.protoUpdate(p, true)
				case x < 50:
					op = "flip"
					nk := vC12OkKinds[r.Intn(len(vC12OkKinds))]
					if r.Intn(2) == 0 {
						nk = vC12FailKinds[r.Intn(len(vC12FailKinds))]
					}
					m.flip(p, nk)
				case x < 57:
					op = "disconnect"
					if n.H.Net.Connectedness(p) == network.Connected {
						n.H.Net.Disconnect(p, true)
					}
				case x < 80:
					mode := []string{"plain", "plain", "cancel", "cancel", "precancel"}[r.Intn(5)]
					op = "lookup-" + mode
					after := time.Duration(r.Int63n(int64(3*40*time.Duration(cfg.Scale)*time.Millisecond) + 1))
					lk, _, _ := m.lookup(mode, after, r.Intn(2) == 0)
					m.mu.Lock()
					lk.EndSeq = n.H.Seq.Add(1)
					m.mu.Unlock()
				case x < 92:
					if r.Intn(2) == 0 {
						op = "refresh"
						awaitFirst(refresh(false), op)
					} else {
						op = "force-refresh"
						awaitFirst(refresh(true), op)
					}
				case x < 94:
					op = "identify-self"
					m.identify(n.Self, true)
				default:
					op = "long-idle"
					time.Sleep(time.Duration(float64(cfg.Grace)*(0.5+r.Float64())) + 41*time.Microsecond)
				}
				opMu.Lock()
				opCount[op]++
				opMu.Unlock()
				time.Sleep(time.Duration(r.Int63n(int64(200*time.Duration(cfg.Scale)*time.Millisecond))) + 3*time.Microsecond)
			}
		}(w)
	}
	// shutdown overlaps the tail of the workload in a third of the cases. The *calls* of
	// RefreshRoutingTable/ForceRefresh are ordered before or after Close() by closeMu (their
	// goroutines and answers still overlap the shutdown): calling them truly concurrently with
	// Close is the subject of the unit C12/closerace.
	early := c.R.Intn(3) == 0
	var closeWg sync.WaitGroup
	doClose := func() {
		defer closeWg.Done()
		pre := []<-chan error{refresh(false), refresh(true), refresh(false)}
		closeMu.Lock()
		m.startClose()
		n.D.Close()
		closeMu.Unlock()
		for _, ch := range pre {
			awaitFirst(ch, "issued just before Close")
		}
		awaitFirst(refresh(false), "after Close")
		awaitFirst(refresh(true), "after Close")
	}
	closeWg.Add(1)
	if early {
		closeAt := time.Duration(c.R.Int63n(int64(time.Duration(ops) * 100 * time.Duration(cfg.Scale) * time.Millisecond)))
		go func() {
			time.Sleep(closeAt)
			doClose()
		}()
		wg.Wait()
	} else {
		wg.Wait()
		doClose()
	}
	closeWg.Wait()
	if !m.settle() {
		c.Fail("settle", "requests still in flight 300 s of virtual time after Close")
		return
	}
	for i, ch := range chs {
		select {
		case v, ok := <-ch:
			c.Check(!ok, "refresh-one-value", "refresh channel %d yielded a second value %v", i, v)
		default:
			c.Clause("refresh-one-value")
		}
	}
	var parts []string
	total := 0
	for k, v := range opCount {
		parts = append(parts, fmt.Sprintf("%s=%d", k, v))
		c.Obs("op_"+k, v)
		total += v
	}
	m.logf("%d workers x %d ops, early close=%v: %s", workers, ops, early, strings.Join(parts, " "))
	m.rest("concurrent workload + Close")
	n.H.Close()
	adds := 0
	m.mu.Lock()
	for _, cb := range m.cbs {
		if cb.Add {
			adds++
		}
	}
	ncb := len(m.cbs)
	m.mu.Unlock()
	c.Obs("requests", len(n.S.Log())/2)
	c.Obs("dials", len(n.H.DialLog()))
	c.Set("N", cfg.N)
	c.Set("K_alpha_beta", []int{cfg.K, cfg.A, cfg.B})
	c.Set("workers", workers)
	c.Set("ops_per_worker", ops)
	c.Set("early_close", early)
	c.Set("filter_rejects", len(m.rejected))
	if adds > 0 && total >= 2*workers {
		c.Nontrivial(fmt.Sprintf("%d/%d/%d/%d/%d/%d/%v", cfg.N, cfg.A, cfg.B, workers, ops, ncb, early))
	}
}

func TestVerifRace_C12_concurrent(t *testing.T) {
	vh.Run(t, vh.Spec{Prop: "C12", Unit: "concurrent", Quick: 80, Thorough: 3000, CostMs: 120,
		Rule:    "same simulated networks as C12/histories, but 3-6 worker goroutines run 6-17 PRNG operations each (identify with/without the protocol, protocol removed/added, health flips, disconnects, plain/cancelled/pre-cancelled GetClosestPeers, RefreshRoutingTable/ForceRefresh, identify event for the local node, idle beyond the ping grace) with overlapping virtual-time sleeps; Close (three refresh requests issued just before it, two after it; the calls themselves are ordered against Close, see C12/closerace) runs after the workers or, in a third of the cases, in the middle of them; -race build; only order-free admission invariants, callback/table agreement at the final rest point and refresh answers are judged; non-trivial = at least one admission and >= 2 ops per worker; distinct by (shape, #callbacks)",
		Clauses: []string{"never-self", "admit-after-reply", "probe-admission-valid", "callbacks-match-table", "refresh-answered", "refresh-one-value"}},
		func(c *vh.Case) {
			cfg := vC12Gen(c)
			c.Bubble(t, 200*time.Hour, "c12-hang", func(t *testing.T) {
				m := vC12New(t, c, cfg, true)
				m.runConcurrent(t)
			})
		})
}

// C12/closerace — RefreshRoutingTable / ForceRefresh called truly concurrently with Close (real
// time, -race build). On the pinned tree this unit re-detects finding #17 of DESIGN.md §6
// (RtRefreshManager.Refresh: refcount.Go unordered against Close's refcount.Wait) under three
// signatures: closerace/panic@rtrefresh… (crash inside Close), closerace/refresh-call-survives-close/panic
// (panic in the caller) and closerace/race:…Close|…Refresh; it is silent with
// notes/candidate-fixes/17-rtrefresh-close-race.diff overlaid. "Every refresh request receives an answer, also during shutdown" presupposes
// that issuing the request while the node shuts down is safe: no panic (sync.WaitGroup misuse) and
// no data race. Answers are awaited without a deadline; a missing answer is convicted logically (Close returned and no
// goroutine of the instance is left that could send it).
func TestVerifRace_C12_closerace(t *testing.T) {
	vh.Run(t, vh.Spec{Prop: "C12", Unit: "closerace", Quick: 40, Thorough: 1500, CostMs: 60, WallS: 120,
		Rule:    "real-time: per case 12 fresh DHTs over the simulated host (0-6 identified honest peers, no latency); 2-5 goroutines call RefreshRoutingTable/ForceRefresh 1-4 times each, started together with Close() after a PRNG number of scheduler yields; every channel obtained is read to completion; a panic in a caller is caught (clause), a panic elsewhere crashes the child (driver: crash), the race detector watches; non-trivial = in at least one of the 12 DHTs some requests were issued before Close() began and some after it had begun; distinct by (peers, goroutines, yields)",
		Clauses: []string{"refresh-call-survives-close", "refresh-answered-shutdown"}},
		func(c *vh.Case) {
			r := c.R
			okAns, errAns, mixed := 0, 0, 0
			var sigs []string
			for it := 0; it < 12 && !c.Failed(); it++ {
				peers := r.Intn(7)
				gor := 2 + r.Intn(4)
				yields := r.Intn(40)
				sigs = append(sigs, fmt.Sprintf("%d.%d.%d", peers, gor, yields))
				cfg := vC12Cfg{N: 7, K: 24, A: 3, B: 24, Period: time.Minute, QTimeout: 10 * time.Second, ReadTimeout: 10 * time.Second, CheckConc: 256, Scale: 0, Steps: 0, RealTime: true}
				m := vC12New(t, c, cfg, true)
				n := m.n
				for _, id := range n.IDs {
					m.flip(id, "ok")
					m.delay[id] = 0
				}
				for i := 0; i < peers; i++ {
					m.identify(n.IDs[i], true)
				}
				var mu sync.Mutex
				var chs []<-chan error
				var wg sync.WaitGroup
				start := make(chan struct{})
				for g := 0; g < gor; g++ {
					calls, force, y := 1+r.Intn(4), r.Intn(2) == 0, r.Intn(40)
					wg.Add(1)
					go func() {
						defer wg.Done()
						defer func() {
							if p := recover(); p != nil {
								c.FailSig("refresh-call-survives-close", "refresh-call-survives-close/panic", "refresh request issued while Close() was running panicked: %v", p)
							}
						}()
						<-start
						for i := 0; i < y; i++ {
							runtime.Gosched()
						}
						for i := 0; i < calls; i++ {
							m.mu.Lock()
							closing := m.closed
							m.mu.Unlock()
							m.noteIssued(closing)
							var ch <-chan error
							if force {
								ch = n.D.ForceRefresh()
							} else {
								ch = n.D.RefreshRoutingTable()
							}
							mu.Lock()
							chs = append(chs, ch)
							mu.Unlock()
							runtime.Gosched()
						}
					}()
				}
				// let the admission probes run so that the refresh has members to work on
				for i := 0; i < 50; i++ {
					runtime.Gosched()
				}
				close(start)
				for i := 0; i < yields; i++ {
					runtime.Gosched()
				}
				m.startClose()
				n.D.Close()
				wg.Wait()
				c.Clause("refresh-call-survives-close")
				for _, ch := range chs {
					// No deadline. A missing answer is convicted LOGICALLY: Close has returned and, over 200 consecutive
					// polls, no goroutine started by the instance is alive any more - nobody is left who could answer.
					var v error
					var ok, got bool
					for quiet := 0; !got; {
						select {
						case v, ok = <-ch:
							got = true
							continue
						default:
						}
						if len(vh.Census()) == 0 {
							quiet++
						} else {
							quiet = 0
						}
						if quiet >= 200 {
							break
						}
						time.Sleep(time.Millisecond)
					}
					if !got {
						c.Check(false, "refresh-answered-shutdown", "refresh request issued around Close never received an answer: Close has returned and no goroutine of the instance is left that could send one")
						continue
					}
					c.Check(ok, "refresh-answered-shutdown", "refresh channel closed without a value")
					if v != nil {
						errAns++
					} else {
						okAns++
					}
				}
				n.H.Close()
				if before, after := m.issued(); before > 0 && after > 0 {
					mixed++
				}
				c.Obs("dhts", 1)
				c.Obs("refresh_requests", len(chs))
			}
			c.Obs("answered_ok", okAns)
			c.Obs("answered_error", errAns)
			c.Set("iterations", sigs)
			c.Obs("dhts_with_requests_on_both_sides_of_close_start", mixed)
			if mixed > 0 {
				c.Nontrivial(strings.Join(sigs, ","))
			}
		})
}

func (m *vC12Mon) noteIssued(closing bool) {
	m.mu.Lock()
	if closing {
		m.issuedAfter++
	} else {
		m.issuedBefore++
	}
	m.mu.Unlock()
	if closing {
		m.c.Obs("issued_after_close_began", 1)
	} else {
		m.c.Obs("issued_before_close_began", 1)
	}
}

func (m *vC12Mon) issued() (before, after int) {
	m.mu.Lock()
	defer m.mu.Unlock()
	return m.issuedBefore, m.issuedAfter
}
