//go:build verif

package dht

// C03 — every routing operation of the standard client terminates, honours cancellation, closes
// its result channels, never panics and leaves no background work behind.
//
// One scenario runner (vC03RunOnce: network × operation(s) × cancel mode, everything inside a
// synctest bubble) shared by three units:
//
//	ops        PRNG network × one operation × cancel mode
//	cancelenum small scenarios, cancel instant enumerated over the boundary events of the un-cancelled run
//	optprov    optimistic provide with a warmed-up network-size estimator (known finding §6 #1)
//
// Oracle, all in VIRTUAL time (see vC03Judge):
//
//	op-hang            the operation is still running although no RPC / dial has been in flight
//	                   and nothing concluded for 3 virtual minutes (or it is still busy after 30);
//	                   signature op-hang@<operation>:<function it is blocked in>, except
//	                   op-hang/optimistic-provide-no-rpc = DESIGN.md §6 #1 (waitForRPCs with no
//	                   ADD_PROVIDER scheduled for the key). Terminal for the child process.
//	return-bounded     if nothing is in flight when the operation returns, the last RPC / dial /
//	                   consumer hand-over concluded at most 1 s earlier
//	cancel-prompt      an operation that returns after its context ended returns <= t_c + 1 s
//	chan-closed        result channels are closed (their close instant is the "return" above)
//	quiet-after-return 2 virtual minutes after the return no RPC is in flight any more
//	no-leak            ... and every instance-owned goroutine beyond the baseline census is gone
//	                   (signature leak/searchvalue-quorum-abort: finding #22, value lookup left blocked
//	                   on valCh after a quorum abort until the CALLER's context ends; otherwise
//	                   no-leak@<innermost function of a survivor>)
//	closed-empty       after Close no goroutine started by the module is left in the bubble
//	panic              recovered in the operation's goroutine (others kill the child: driver reports)

import (
	"bytes"
	"context"
	"crypto/sha256"
	"errors"
	"fmt"
	"math/rand"
	"runtime"
	"runtime/debug"
	"sort"
	"strings"
	"sync"
	"sync/atomic"
	"testing"
	"testing/synctest"
	"time"

	"github.com/ipfs/go-cid"
	record "github.com/libp2p/go-libp2p-record"
	"github.com/libp2p/go-libp2p/core/network"
	"github.com/libp2p/go-libp2p/core/peer"
	"github.com/libp2p/go-libp2p/core/routing"
	mh "github.com/multiformats/go-multihash"

	"github.com/libp2p/go-libp2p-kad-dht/internal/verif/vh"
	"github.com/libp2p/go-libp2p-kad-dht/internal/verif/vsim"
	pb "github.com/libp2p/go-libp2p-kad-dht/pb"
)

const (
	vC03Eps        = time.Second
	vC03Quiescence = 3 * time.Minute  // > every timer of the operations (60 s put ctx, 30 s put timeout, 10 s read timeout)
	vC03Absolute   = 30 * time.Minute // absolute bound on one operation
	vC03Settle     = 2 * time.Minute  // background work must be over by then
	vC03Budget     = 3 * time.Hour    // bubble budget (warm-up + operation + settle phases)
)

var vC03AllOps = []string{"gcp", "findpeer", "getvalue", "searchvalue", "findprovs", "findprovsasync", "putvalue", "provide", "getpubkey"}

// vC03Sc is a scenario; everything else is derived from Seed inside the bubble, so that the
// same scenario can be re-run with another cancel instant.
type vC03Sc struct {
	Seed          int64
	Cfg           vNetCfg
	MaxDelay      int // ms
	FailFrac      float64
	LiarFrac      float64
	AllFail       bool
	PutSlow       bool     // every peer answers lookups but takes 2-9.5 s to accept a store RPC
	Ops           []string // operations started concurrently (ops / cancelenum: exactly one)
	Optim         bool     // EnableOptimisticProvide
	Pool          int      // OptimisticProvideJobsPoolSize (-1: default)
	Warm          string   // "" | real | synthetic
	WarmM         int      // synthetic warm-up: claimed network size
	Disconnect    float64  // fraction of connections dropped after the warm-up
	NoAddrs       bool     // the host advertises no address
	Events        string   // none | query | lookup | both
	ConsumerDelay time.Duration
	ValFrac       float64
	ProvFrac      float64
	Local         bool // a local record / provider exists
	Quorum        int  // GetValue / SearchValue quorum option (-1: PRNG among 0, 1, 2, K)
	ValidOnly     bool // planted value records are all valid and correctly keyed
}

type vC03Cancel struct {
	Mode string // none | pre | at | deadline | expired | walkaway (the channel consumer cancels on its first item and stops reading)
	At   time.Duration
}

// vC03Validator: any key; a value is valid unless empty or starting with '!'; greatest wins.
type vC03Validator struct{}

func (vC03Validator) Validate(_ string, val []byte) error {
	if len(val) == 0 || val[0] == '!' {
		return errors.New("vC03: invalid record")
	}
	return nil
}

func (vC03Validator) Select(_ string, vals [][]byte) (int, error) {
	best := 0
	for i, v := range vals {
		if bytes.Compare(v, vals[best]) > 0 {
			best = i
		}
	}
	return best, nil
}

var _ record.Validator = vC03Validator{}

// vC03OpRun is one operation in flight and what was observed of it.
type vC03OpRun struct {
	Name     string
	Key      []byte
	ChanOp   bool
	TCall    time.Time
	TCallRet time.Time // channel operations: when the call handed the channel back
	TRet     time.Time // return instant (channel operations: close observed)
	Err      error
	Items    int
	Quorum   int // GetValue / SearchValue: explicit quorum option
	Panicked bool
	// walkAway, if set (cancel mode "walkaway"), is what the channel consumer does on its first item: it cancels the
	// operation's context and stops reading (a caller that got what it wanted). Abandoned tells that it did.
	walkAway  func()
	Abandoned bool
	fn        func(ctx context.Context, o *vC03OpRun)
	done     chan struct{}
	mu       sync.Mutex
	ready    []time.Time // instants at which the channel consumer was ready to receive again
}

func (o *vC03OpRun) noteReady() {
	o.mu.Lock()
	o.ready = append(o.ready, time.Now())
	o.mu.Unlock()
}

// vC03OpGoroutine runs one operation; its name marks the goroutine in dumps.
func vC03OpGoroutine(c *vh.Case, ctx context.Context, o *vC03OpRun) {
	defer close(o.done)
	defer func() {
		if r := recover(); r != nil {
			st := debug.Stack()
			o.Panicked = true
			o.TRet = time.Now()
			c.FailSig("panic", "panic@"+vC03TopFrame(string(st)), "operation %s panicked: %v\n%s", o.Name, r, st)
		}
	}()
	o.TCall = time.Now()
	o.fn(ctx, o)
	o.TRet = time.Now()
}

func vC03Cid(seed string) (cid.Cid, []byte) {
	h, err := mh.Sum([]byte(seed), mh.SHA2_256, -1)
	if err != nil {
		panic(err)
	}
	return cid.NewCidV1(cid.Raw, h), []byte(h)
}

// vC03MakeOp derives operation j of the scenario (arguments from r) and plants the records it may find.
func vC03MakeOp(c *vh.Case, n *vNet, sc *vC03Sc, r *rand.Rand, name string, j int) *vC03OpRun {
	o := &vC03OpRun{Name: name, done: make(chan struct{})}
	K := sc.Cfg.K
	tag := fmt.Sprintf("%d-%d-%d", c.Idx, j, r.Int63())
	delay := sc.ConsumerDelay
	plantValues := func(key string) {
		vals := []string{"a1", "b2", "c3", "!bad", ""}
		if sc.ValidOnly {
			vals = vals[:3]
		}
		for _, id := range n.IDs {
			if r.Float64() < sc.ValFrac {
				rec := record.MakePutRecord(key, []byte(vals[r.Intn(len(vals))]))
				if !sc.ValidOnly && r.Intn(12) == 0 {
					rec.Key = []byte(key + "-other") // mis-keyed record
				}
				n.S.Peer(id).Values[key] = rec
			}
		}
		if sc.Local {
			_ = n.D.putLocal(context.Background(), key, record.MakePutRecord(key, []byte(vals[r.Intn(3)])))
		}
	}
	plantProviders := func(key []byte) {
		for _, id := range n.IDs {
			if r.Float64() < sc.ProvFrac {
				var ps []peer.AddrInfo
				for x := 1 + r.Intn(3); x > 0; x-- {
					switch r.Intn(4) {
					case 0:
						ps = append(ps, peer.AddrInfo{ID: vsim.PeerID("prov"+tag, r.Intn(6))}) // stranger without address
					case 1:
						ps = append(ps, peer.AddrInfo{ID: n.Self})
					default:
						ps = append(ps, n.S.AddrInfoOf(n.IDs[r.Intn(len(n.IDs))]))
					}
				}
				n.S.Peer(id).Providers[string(key)] = ps
			}
		}
		if sc.Local && len(n.IDs) > 0 {
			for x := 1 + r.Intn(3); x > 0; x-- {
				_ = n.D.providerStore.AddProvider(context.Background(), key, n.S.AddrInfoOf(n.IDs[r.Intn(len(n.IDs))]))
			}
		}
	}
	quorum := []int{0, 0, 1, 2, K}[r.Intn(5)]
	if sc.Quorum >= 0 {
		quorum = sc.Quorum
	}
	o.Quorum = quorum
	switch name {
	case "gcp":
		key := "/v/gcp-" + tag
		o.Key = []byte(key)
		o.fn = func(ctx context.Context, o *vC03OpRun) {
			ps, err := n.D.GetClosestPeers(ctx, key)
			o.Items, o.Err = len(ps), err
		}
	case "findpeer":
		var id peer.ID
		switch x := r.Intn(10); {
		case x < 6 && len(n.IDs) > 0:
			id = n.IDs[r.Intn(len(n.IDs))]
		case x < 7 && len(n.IDs) > 0: // already connected: answered locally
			id = n.IDs[r.Intn(len(n.IDs))]
			n.H.Net.AddConn(id, network.DirOutbound, nil, false)
		default:
			id = vsim.PeerID("nobody"+tag, 0)
		}
		o.Key = []byte(id)
		o.fn = func(ctx context.Context, o *vC03OpRun) {
			pi, err := n.D.FindPeer(ctx, id)
			if pi.ID != "" {
				o.Items = 1
			}
			o.Err = err
		}
	case "getvalue":
		key := "/v/val-" + tag
		o.Key = []byte(key)
		plantValues(key)
		o.fn = func(ctx context.Context, o *vC03OpRun) {
			v, err := n.D.GetValue(ctx, key, Quorum(quorum))
			if v != nil {
				o.Items = 1
			}
			o.Err = err
		}
	case "searchvalue":
		key := "/v/val-" + tag
		o.Key = []byte(key)
		o.ChanOp = true
		plantValues(key)
		o.fn = func(ctx context.Context, o *vC03OpRun) {
			ch, err := n.D.SearchValue(ctx, key, Quorum(quorum))
			o.TCallRet = time.Now()
			o.Err = err
			if err != nil || ch == nil {
				return
			}
			o.noteReady()
			for range ch {
				o.Items++
				if o.walkAway != nil {
					o.walkAway()
					o.Abandoned = true
					return
				}
				if delay > 0 {
					time.Sleep(delay)
				}
				o.noteReady()
			}
		}
	case "findprovs":
		cd, key := vC03Cid("findprovs-" + tag)
		o.Key = key
		plantProviders(key)
		o.fn = func(ctx context.Context, o *vC03OpRun) {
			ps, err := n.D.FindProviders(ctx, cd)
			o.Items, o.Err = len(ps), err
		}
	case "findprovsasync":
		cd, key := vC03Cid("findprovsasync-" + tag)
		o.Key = key
		o.ChanOp = true
		plantProviders(key)
		count := []int{0, 1, 3, K, 100}[r.Intn(5)]
		if c.Idx%16 == 5 {
			cd = cid.Undef // invalid argument: the call must still hand back a channel that gets closed
			c.Set("undefined_cid", true)
		}
		o.fn = func(ctx context.Context, o *vC03OpRun) {
			ch := n.D.FindProvidersAsync(ctx, cd, count)
			o.TCallRet = time.Now()
			o.noteReady()
			for range ch {
				o.Items++
				if o.walkAway != nil {
					o.walkAway()
					o.Abandoned = true
					return
				}
				if delay > 0 {
					time.Sleep(delay)
				}
				o.noteReady()
			}
		}
	case "getpubkey":
		// the ids of simulated peers are sha256 multihashes: the key is not inlined and not in the peerstore, so the
		// node asks the peer itself and the DHT in parallel; the answers carry no record, a record with garbage, or
		// never come
		var id peer.ID
		if r.Intn(4) != 0 && len(n.IDs) > 0 {
			id = n.IDs[r.Intn(len(n.IDs))]
		} else {
			id = vsim.PeerID("nokey"+tag, 0)
		}
		key := "/pk/" + string(id)
		o.Key = []byte(key)
		for _, pid := range n.IDs {
			if r.Float64() < sc.ValFrac/2 {
				n.S.Peer(pid).Values[key] = record.MakePutRecord(key, []byte("not a public key"))
			}
		}
		o.fn = func(ctx context.Context, o *vC03OpRun) {
			pk, err := n.D.GetPublicKey(ctx, id)
			if pk != nil {
				o.Items = 1
			}
			o.Err = err
		}
	case "putvalue":
		key := "/v/val-" + tag
		o.Key = []byte(key)
		if sc.Local {
			_ = n.D.putLocal(context.Background(), key, record.MakePutRecord(key, []byte("a0")))
		}
		val := []byte([]string{"a1", "b2", "c3"}[r.Intn(3)])
		o.fn = func(ctx context.Context, o *vC03OpRun) {
			o.Err = n.D.PutValue(ctx, key, val)
		}
	case "provide":
		cd, key := vC03Cid("provide-" + tag)
		o.Key = key
		o.fn = func(ctx context.Context, o *vC03OpRun) {
			o.Err = n.D.Provide(ctx, cd, true)
		}
	default:
		panic("vC03: unknown operation " + name)
	}
	return o
}

// vC03TopFrame names the innermost function of the module under test (not a monitor file) in
// a goroutine's stack. (vh.TopRepoFrame cuts pointer-receiver methods at the first parenthesis.)
func vC03TopFrame(stack string) string {
	const mod = "github.com/libp2p/go-libp2p-kad-dht"
	lines := strings.Split(stack, "\n")
	for i := 0; i+1 < len(lines); i++ {
		l := lines[i]
		l = strings.TrimPrefix(l, "created by ")
		if !strings.HasPrefix(l, mod) || !strings.HasPrefix(lines[i+1], "\t") {
			continue
		}
		if strings.HasPrefix(lines[i], "created by ") {
			continue
		}
		file := lines[i+1]
		if strings.Contains(file, "zz_verif_") || strings.Contains(file, "/internal/verif/") {
			continue
		}
		if j := strings.LastIndex(l, "("); j > 0 {
			l = l[:j]
		}
		l = strings.TrimPrefix(l, mod)
		return strings.TrimLeft(l, "./")
	}
	return "unknown"
}

// vC03Census counts the goroutines of the current bubble that were started by the module under
// test, by creation site.
func vC03Census() (map[string]int, []vh.Goro) {
	m := map[string]int{}
	var gs []vh.Goro
	for _, g := range vh.Census() {
		if !strings.Contains(g.Header, "synctest") {
			continue
		}
		m[g.CreatedBy+"@"+g.CreatedAt]++
		gs = append(gs, g)
	}
	return m, gs
}

func vC03Extra(base, now map[string]int) []string {
	var out []string
	for k, v := range now {
		if v > base[k] {
			out = append(out, fmt.Sprintf("%s x%d", k, v-base[k]))
		}
	}
	sort.Strings(out)
	return out
}

// vC03Activity returns the virtual instant of the last thing that happened on the wire since
// seq0 and the number of requests still in flight.
func vC03Activity(n *vNet, seq0 int64, t0 time.Time) (last time.Time, inflight int) {
	last = t0
	for _, e := range n.S.Log() {
		if e.Seq <= seq0 {
			continue
		}
		switch e.Kind {
		case vsim.EvRequest, vsim.EvMessage:
			inflight++
		case vsim.EvReply:
			inflight--
		}
		if e.VT.After(last) {
			last = e.VT
		}
	}
	for _, d := range n.H.DialLog() {
		if d.Seq > seq0 && d.End.After(last) {
			last = d.End
		}
	}
	return last, inflight
}

// vC03Hang reports an operation that will never return and ends the process (a blocked
// goroutine cannot be unwound).
func vC03Hang(c *vh.Case, n *vNet, sc *vC03Sc, o *vC03OpRun, base map[string]int, seq0 int64, why string) {
	buf := make([]byte, 1<<22)
	buf = buf[:runtime.Stack(buf, true)]
	frame := "unknown"
	var extras []string
	for _, g := range vh.Goroutines(buf) {
		first, _, _ := strings.Cut(g, "\n")
		if !strings.Contains(first, "synctest") {
			continue
		}
		if strings.Contains(g, "vC03OpGoroutine") {
			// several operations may be running: take the one blocked in the code under test
			if f := vC03TopFrame(g); f != "unknown" && (frame == "unknown" || f < frame) {
				frame = f
			}
		}
	}
	if frame == "unknown" {
		// the operation's goroutine waits in monitor code (channel consumer): name the innermost
		// function of an instance-owned goroutine that did not exist at rest
		_, gs := vC03Census()
		for _, g := range gs {
			if base[g.CreatedBy+"@"+g.CreatedAt] > 0 {
				continue
			}
			f := vC03TopFrame(g.Text)
			extras = append(extras, f)
			if f != "unknown" && (frame == "unknown" || f < frame) {
				frame = f
			}
		}
	}
	addProv := 0
	for _, e := range n.S.Log() {
		if e.Seq > seq0 && e.Kind == vsim.EvMessage && e.Type == pb.Message_ADD_PROVIDER && bytes.Equal(e.Key, o.Key) {
			addProv++
		}
	}
	opname := vC03OpName(sc, o)
	if frame == "unknown" && o.ChanOp && !o.TCallRet.IsZero() {
		frame = "result-channel-never-closed" // nothing of the operation is left running, yet the consumer still waits
	}
	sig := "op-hang@" + opname + ":" + frame
	if why != "idle" {
		sig = "op-hang@" + opname + ":" + why + ":" + frame
	}
	if sc.Optim && o.Name == "provide" && why == "idle" && strings.Contains(frame, "waitForRPCs") && addProv == 0 {
		// DESIGN.md §6 #1: waitForRPCs ranges over doneChan although no ADD_PROVIDER was scheduled
		sig = "op-hang/optimistic-provide-no-rpc"
	}
	c.Clause("op-hang")
	c.Set("hung_op", opname)
	nreq := 0
	for _, e := range n.S.Log() {
		if e.Seq > seq0 && e.Kind != vsim.EvReply && e.Kind != vsim.EvDisconn {
			nreq++
			c.Logf("+%v %s %s to %s", e.VT.Sub(vC03Epoch), e.Kind, e.Type, n.Name(e.Peer))
		}
	}
	if ns, err := n.D.nsEstimator.NetworkSize(); sc.Optim {
		c.Logf("network size estimate %d (err %v), routing table %d peers, %d requests since the call", ns, err, n.D.routingTable.Size(), nreq)
	}
	c.FailSig("op-hang", sig, "%s (called at +%v) has not returned: %s; ADD_PROVIDER messages sent: %d; blocked in %s %v; goroutines:\n%s",
		opname, o.TCall.Sub(vC03Epoch), vC03Why(why), addProv, frame, extras, vh.FilterBubble(buf))
	c.ExitNow()
}

func vC03OpName(sc *vC03Sc, o *vC03OpRun) string {
	if sc.Optim && o.Name == "provide" {
		return "provide-optimistic"
	}
	return o.Name
}

func vC03Why(why string) string {
	if why == "idle" {
		return fmt.Sprintf("no RPC or dial in flight and nothing concluded for %v of virtual time", vC03Quiescence)
	}
	return fmt.Sprintf("still running %v of virtual time after the call", vC03Absolute)
}

var vC03Epoch = time.Date(2000, 1, 1, 0, 0, 0, 0, time.UTC) // synctest bubbles start here

// vC03Out is what one run observed (boundary instants feed the cancel enumeration).
type vC03Out struct {
	Runs             []*vC03OpRun
	Boundaries       []time.Duration // distinct offsets from the call of every wire / dial event up to the return
	Rpcs             int
	Dials            int
	FailHit          int // contacted peers that failed / stayed silent / answered late
	CancelHit        bool
	InflightAtCancel int
	Sig              string
	WarmOK           bool
}

// vC03RunOnce builds the network, runs the scenario's operation(s) under the cancel mode and
// judges the run. Must be called inside a bubble.
func vC03RunOnce(t *testing.T, c *vh.Case, sc *vC03Sc, cm vC03Cancel) *vC03Out {
	c.R = rand.New(rand.NewSource(sc.Seed)) // reproducible per scenario (vNewNet draws from c.R)
	r := c.R
	out := &vC03Out{}
	cfg := sc.Cfg
	cfg.Validator = vC03Validator{}
	if sc.Optim {
		cfg.Opts = append(cfg.Opts, EnableOptimisticProvide())
		if sc.Pool >= 0 {
			cfg.Opts = append(cfg.Opts, OptimisticProvideJobsPoolSize(sc.Pool))
		}
	}
	n := vNewNet(t, c, cfg)
	closed := false
	defer func() {
		if !closed {
			n.Close()
		}
	}()
	if sc.NoAddrs {
		n.H.SetAddrs(nil)
	}
	var dialsInflight atomic.Int32
	origDial := n.H.DialFn
	n.H.DialFn = func(ctx context.Context, p peer.ID) error {
		dialsInflight.Add(1)
		defer dialsInflight.Add(-1)
		return origDial(ctx, p)
	}

	// ---- behaviours (active after the warm-up only)
	var phase atomic.Int32
	kinds := map[peer.ID]string{}
	kindCount := map[string]int{}
	failKinds := []string{"dead", "dialslow", "dialstall", "reqerr", "silent", "late", "flaky", "putfail", "half"}
	if sc.AllFail {
		failKinds = []string{"dead", "dialslow", "reqerr", "silent", "dead", "reqerr"}
	}
	liarKinds := []string{"self", "dup", "stranger", "huge", "echo", "wrongkey", "provself"}
	strangers := 0
	for i, id := range n.IDs {
		sp := n.S.Peer(id)
		base := time.Duration(1+r.Intn(sc.MaxDelay)) * time.Millisecond
		late := time.Duration(2000+r.Intn(7500)) * time.Millisecond
		kind := "ok"
		if sc.AllFail || r.Float64() < sc.FailFrac {
			kind = failKinds[r.Intn(len(failKinds))]
		}
		if sc.PutSlow {
			kind = "putlate"
		}
		liar := ""
		if kind == "ok" && r.Float64() < sc.LiarFrac {
			liar = liarKinds[r.Intn(len(liarKinds))]
		}
		kinds[id] = kind
		kindCount[kind]++
		if liar != "" {
			kindCount["liar-"+liar]++
		}
		idx, kk, lk, sid := i, kind, liar, strangers
		strangers += 3
		salt := r.Intn(1000)
		// successful dials take time too for half of the peers (a lookup can end while a dial is pending)
		var dialLat time.Duration
		if r.Intn(2) == 0 {
			dialLat = time.Duration(1+r.Intn(sc.MaxDelay)) * time.Millisecond
		}
		sp.Script = func(cnt int, req *pb.Message) vsim.Reply {
			if phase.Load() == 0 {
				if req == nil {
					return vsim.Reply{}
				}
				return vsim.Reply{Delay: time.Millisecond}
			}
			if req == nil { // dial
				switch kk {
				case "dead":
					return vsim.Reply{DialFail: true}
				case "dialslow":
					return vsim.Reply{DialFail: true, Delay: base}
				case "dialstall": // connects in the end, after a long time
					return vsim.Reply{Delay: late}
				}
				return vsim.Reply{Delay: dialLat}
			}
			rep := vsim.Reply{Delay: base + time.Duration((cnt*37+idx)%7)*time.Millisecond}
			store := req.GetType() == pb.Message_PUT_VALUE || req.GetType() == pb.Message_ADD_PROVIDER
			fail := func(x int) {
				switch x {
				case 1:
					rep.Err = errors.New("vsim: stream reset by peer")
				case 2:
					rep.Silent = true
				case 3:
					rep.Delay = late
				}
			}
			switch kk {
			case "dead", "dialslow": // still connected from the warm-up
				rep.Err = errors.New("vsim: stream reset (dead peer)")
			case "reqerr":
				fail(1)
			case "silent":
				fail(2)
			case "late":
				fail(3)
			case "flaky":
				fail((cnt*31 + idx*17 + salt) % 4)
			case "putfail":
				if store {
					fail(1 + (idx+salt)%3)
				}
			case "putlate":
				if store {
					fail(3)
				}
			case "half":
				if cnt >= 1 {
					fail(2)
				}
			}
			if lk != "" && !store {
				rep.Mutate = func(req, resp *pb.Message) {
					self := peer.AddrInfo{ID: n.Self}
					switch lk {
					case "self":
						resp.CloserPeers = append(pb.RawPeerInfosToPBPeers([]peer.AddrInfo{self}), resp.CloserPeers...)
					case "dup":
						resp.CloserPeers = append(resp.CloserPeers, resp.CloserPeers...)
						resp.ProviderPeers = append(resp.ProviderPeers, resp.ProviderPeers...)
					case "stranger":
						var xs []peer.AddrInfo
						for j := 0; j < 3; j++ {
							xs = append(xs, peer.AddrInfo{ID: vsim.PeerID(fmt.Sprintf("stranger%d", c.Idx), sid+j)})
						}
						resp.CloserPeers = append(pb.RawPeerInfosToPBPeers(xs), resp.CloserPeers...)
					case "huge":
						var xs []peer.AddrInfo
						for j := 0; j < 200; j++ {
							xs = append(xs, n.S.AddrInfoOf(n.IDs[(idx+j)%len(n.IDs)]))
						}
						resp.CloserPeers = pb.RawPeerInfosToPBPeers(xs)
						if req.GetType() == pb.Message_GET_PROVIDERS {
							resp.ProviderPeers = pb.RawPeerInfosToPBPeers(xs)
						}
					case "echo": // names itself and the key's owner
						resp.CloserPeers = append(pb.RawPeerInfosToPBPeers([]peer.AddrInfo{{ID: n.IDs[idx]}, {ID: peer.ID(req.GetKey())}}), resp.CloserPeers...)
					case "wrongkey":
						if req.GetType() == pb.Message_GET_VALUE {
							resp.Record = record.MakePutRecord(string(req.GetKey())+"-x", []byte("zz"))
						}
					case "provself":
						resp.ProviderPeers = append(pb.RawPeerInfosToPBPeers([]peer.AddrInfo{self, self}), resp.ProviderPeers...)
					}
				}
			}
			return rep
		}
	}

	var ks []string
	for k, v := range kindCount {
		ks = append(ks, fmt.Sprintf("%s=%d", k, v))
	}
	sort.Strings(ks)
	c.Logf("run with cancel=%s/%v; peer behaviours after the warm-up: %s", cm.Mode, cm.At, strings.Join(ks, " "))

	// ---- warm-up of the network-size estimator
	switch sc.Warm {
	case "real":
		for i := 0; i < 14; i++ {
			if _, err := n.D.nsEstimator.NetworkSize(); err == nil {
				break
			}
			_, _ = n.D.GetClosestPeers(context.Background(), fmt.Sprintf("/v/warm-%d-%d", c.Idx, r.Int63()))
		}
	case "synthetic":
		M := sc.WarmM
		if M < sc.Cfg.K {
			M = sc.Cfg.K
		}
		for i := 0; i < 6; i++ {
			key := fmt.Sprintf("/v/synth-%d-%d", c.Idx, r.Int63())
			ids := make([]peer.ID, M)
			for j := range ids {
				ids[j] = vsim.PeerID("synth", r.Intn(1<<30))
			}
			_ = n.D.nsEstimator.Track(key, vsim.Nearest([]byte(key), ids, sc.Cfg.K))
		}
	}
	if sc.Warm != "" {
		_, err := n.D.nsEstimator.NetworkSize()
		out.WarmOK = err == nil
	}
	for _, p := range n.H.Net.Peers() {
		if r.Float64() < sc.Disconnect {
			n.H.Net.Disconnect(p, false)
		}
	}
	phase.Store(1)

	// ---- operations
	var runs []*vC03OpRun
	for j, name := range sc.Ops {
		runs = append(runs, vC03MakeOp(c, n, sc, r, name, j))
	}
	out.Runs = runs
	synctest.Wait()
	seq0 := n.H.Seq.Load()
	t0 := time.Now()

	root, cancelRoot := context.WithCancel(context.Background())
	defer cancelRoot()
	ctx := root
	var tCancel time.Time // instant at which the context ended (zero: it did not)
	var tcMu sync.Mutex
	var cancelTimer *time.Timer
	switch cm.Mode {
	case "pre":
		cancelRoot()
		tCancel = t0
	case "expired":
		var cf context.CancelFunc
		ctx, cf = context.WithDeadline(root, t0.Add(-time.Second))
		defer cf()
		tCancel = t0
	case "deadline":
		var cf context.CancelFunc
		ctx, cf = context.WithDeadline(root, t0.Add(cm.At))
		defer cf()
	case "at":
		cancelTimer = time.AfterFunc(cm.At, func() {
			tcMu.Lock()
			tCancel = time.Now()
			_, out.InflightAtCancel = vC03Activity(n, seq0, t0)
			tcMu.Unlock()
			cancelRoot()
		})
	case "closed":
		// the instance is closed before the operation starts; the caller's context stays live
		_ = n.D.Close()
	case "closeat":
		// the instance is closed under the running operation; the caller's context stays live
		cancelTimer = time.AfterFunc(cm.At, func() {
			_, out.InflightAtCancel = vC03Activity(n, seq0, t0)
			_ = n.D.Close()
		})
	}
	var waits []func()
	if sc.Events == "query" || sc.Events == "both" {
		var qch <-chan *routing.QueryEvent
		ctx, qch = routing.RegisterForQueryEvents(ctx)
		qdone := make(chan struct{})
		go func() {
			defer close(qdone)
			for range qch {
				c.Obs("query_events", 1)
			}
		}()
		waits = append(waits, func() { <-qdone })
	}
	if sc.Events == "lookup" || sc.Events == "both" {
		lctx, events, wait := n.WithEvents(ctx)
		ctx = lctx
		waits = append(waits, func() { wait(); c.Obs("lookup_events", len(events())) })
	}
	// at-rest census: the DHT's long-lived loops (and the event registrations made just above)
	synctest.Wait()
	base, _ := vC03Census()
	if cm.Mode == "walkaway" {
		for _, o := range runs {
			if o.ChanOp {
				o.walkAway = func() {
					tcMu.Lock()
					if tCancel.IsZero() {
						tCancel = time.Now()
					}
					tcMu.Unlock()
					cancelRoot()
				}
			}
		}
	}
	for _, o := range runs {
		go vC03OpGoroutine(c, ctx, o)
	}

	// ---- wait for the return(s) under the virtual-time watchdog
	tick := time.NewTicker(time.Minute)
	for _, o := range runs {
	waitOne:
		for {
			select {
			case <-o.done:
				break waitOne
			case <-tick.C:
				last, inflight := vC03Activity(n, seq0, t0)
				o.mu.Lock()
				if k := len(o.ready); k > 0 && o.ready[k-1].After(last) {
					last = o.ready[k-1]
				}
				o.mu.Unlock()
				if inflight == 0 && dialsInflight.Load() == 0 && time.Since(last) >= vC03Quiescence {
					vC03Hang(c, n, sc, o, base, seq0, "idle")
				}
				if time.Since(t0) >= vC03Absolute {
					vC03Hang(c, n, sc, o, base, seq0, "busy-after-30m")
				}
			}
		}
	}
	tick.Stop()
	if cancelTimer != nil {
		cancelTimer.Stop()
	}
	if cm.Mode == "closed" || cm.Mode == "closeat" {
		// Only "returns" is judged here (op-hang above, panics in the operation's goroutine): what an operation on a
		// closed instance returns, and how fast its background work ends, is C14's subject (unit ipfsdht).
		c.Clause("returns-on-closed-instance")
		for _, o := range runs {
			c.Obs("op_"+o.Name+"_on_closed_instance", 1)
		}
		cancelRoot()
		for _, w := range waits {
			w()
		}
		n.Close()
		closed = true
		synctest.Wait()
		out.Sig = fmt.Sprintf("%v/%s", sc.Ops, cm.Mode)
		return out
	}
	tcMu.Lock()
	tc := tCancel
	tcMu.Unlock()
	if cm.Mode == "deadline" {
		tc = t0.Add(cm.At)
	}

	// ---- background work must end by itself
	time.Sleep(vC03Settle)
	synctest.Wait()
	log, dials := n.S.Log(), n.H.DialLog()
	_, inflight := vC03Activity(n, seq0, t0)
	c.Check(inflight == 0 && dialsInflight.Load() == 0, "quiet-after-return", "%d RPCs and %d dials still in flight %v after the operation returned", inflight, dialsInflight.Load(), vC03Settle)
	now, gs := vC03Census()
	extra := vC03Extra(base, now)
	c.Clause("no-leak")
	if len(extra) > 0 {
		frame := "unknown"
		onlyLookup := true // every survivor is the value lookup itself or one of its query workers stuck handing a record over
		for _, g := range gs {
			if base[g.CreatedBy+"@"+g.CreatedAt] == 0 {
				c.Logf("leaked goroutine:\n%s", g.Text)
				f := vC03TopFrame(g.Text)
				if f != "unknown" && (frame == "unknown" || f < frame) {
					frame = f
				}
				if !(strings.HasPrefix(f, "(*IpfsDHT).getValues.") || (f == "(*query).run" && strings.Contains(g.Text, "(*IpfsDHT).getValues."))) {
					onlyLookup = false
				}
			}
		}
		var rets []string
		for _, o := range runs {
			rets = append(rets, fmt.Sprintf("%s returned at +%v (items %d, error %v, quorum option %d)", o.Name, o.TRet.Sub(t0), o.Items, o.Err, o.Quorum))
		}
		ctxState := "still live"
		if ctx.Err() != nil {
			ctxState = "ended: " + ctx.Err().Error()
		}
		sig := "no-leak@" + frame
		if len(runs) == 1 && (runs[0].Name == "getvalue" || runs[0].Name == "searchvalue") && runs[0].Quorum > 0 && ctx.Err() == nil && onlyLookup {
			// finding #22: after a quorum abort nobody reads valCh any more; in-flight queries holding a valid record
			// block on it, and the lookup in waitGroup.Wait, until the CALLER's context ends
			sig = "leak/searchvalue-quorum-abort"
		}
		c.FailSig("no-leak", sig, "instance-owned goroutines beyond the at-rest census are still alive %v after the return (%s; cancel mode %s; the operation's context is %s): %v", vC03Settle, strings.Join(rets, "; "), cm.Mode, ctxState, extra)
	}
	c.ObsMax("census_at_rest", len(base))

	vC03Judge(c, n, sc, cm, out, log, dials, seq0, t0, tc, kinds)

	// ---- shutdown
	cancelRoot()
	for _, w := range waits {
		w()
	}
	n.Close()
	closed = true
	synctest.Wait()
	time.Sleep(time.Minute)
	synctest.Wait()
	after, gs2 := vC03Census()
	if len(after) > 0 {
		var left []string
		for k, v := range after {
			left = append(left, fmt.Sprintf("%s x%d", k, v))
		}
		sort.Strings(left)
		c.Clause("closed-empty")
		sig := "closed-empty@" + strings.TrimLeft(strings.SplitN(left[0], "@", 2)[0], "./") // creating function, no line number
		txt := ""
		for _, g := range gs2 {
			txt += g.Text + "\n\n"
		}
		c.FailSig("closed-empty", sig, "goroutines started by the module survive Close + 1 virtual minute: %v\n%s", left, txt)
		c.ExitNow() // the bubble cannot be left with blocked goroutines
	}
	c.Clause("closed-empty")

	return out
}

// vC03Judge applies the timeline clauses to every operation of the run.
func vC03Judge(c *vh.Case, n *vNet, sc *vC03Sc, cm vC03Cancel, out *vC03Out, log []vsim.Event, dials []vsim.DialEvent, seq0 int64, t0, tc time.Time, kinds map[peer.ID]string) {
	// wire timeline since the call
	type span struct{ from, to time.Time }
	var spans []span
	var concl []time.Time
	reqAt := map[int64]vsim.Event{}
	replied := map[int64]bool{}
	bset := map[time.Duration]bool{0: true}
	failHit := map[peer.ID]bool{}
	for _, e := range log {
		if e.Seq <= seq0 {
			continue
		}
		switch e.Kind {
		case vsim.EvRequest, vsim.EvMessage:
			reqAt[e.Seq] = e
			out.Rpcs++
			c.Obs("rpc_"+e.Type.String(), 1)
		case vsim.EvReply:
			rq, ok := reqAt[e.ReqSeq]
			if !ok {
				continue
			}
			replied[e.ReqSeq] = true
			spans = append(spans, span{rq.VT, e.VT})
			concl = append(concl, e.VT)
			if e.Err != "" || e.VT.Sub(rq.VT) >= 2*time.Second {
				failHit[e.Peer] = true
			}
		}
		bset[e.VT.Sub(t0)] = true
	}
	for _, d := range dials {
		if d.Seq <= seq0 {
			continue
		}
		out.Dials++
		spans = append(spans, span{d.Start, d.End})
		concl = append(concl, d.End)
		bset[d.Start.Sub(t0)], bset[d.End.Sub(t0)] = true, true
		if d.Err != "" {
			failHit[d.Peer] = true
		}
	}
	for seq, rq := range reqAt {
		if !replied[seq] {
			spans = append(spans, span{rq.VT, time.Time{}}) // never concluded (reported by quiet-after-return)
		}
	}
	out.FailHit = len(failHit)
	c.Obs("rpcs", out.Rpcs)
	c.Obs("dials", out.Dials)
	c.Obs("failing_peers_contacted", out.FailHit)

	var lastRet time.Time
	for _, o := range out.Runs {
		if o.TRet.After(lastRet) {
			lastRet = o.TRet
		}
		c.Obs("op_"+o.Name, 1)
		if o.Panicked {
			continue
		}
		c.Obs("items_returned", o.Items)
		d := o.TRet.Sub(o.TCall)
		c.ObsMax("op_virtual_ms", int(d.Milliseconds()))
		if o.ChanOp && o.Abandoned {
			c.Obs("consumer_walked_away", 1) // cancelled its context on the first item and stopped reading: leak clauses only
		} else if o.ChanOp {
			c.Clause("chan-closed") // the consumer's range loop ended; otherwise op-hang fires
			c.Obs("channels_closed", 1)
			if !o.TCallRet.IsZero() {
				c.Check(o.TCallRet.Sub(o.TCall) <= vC03Eps, "chan-call-prompt", "%s took %v to hand its channel back", o.Name, o.TCallRet.Sub(o.TCall))
			}
		}
		// conclusions that can explain the return instant
		last := o.TCall
		for _, x := range concl {
			if !x.After(o.TRet) && x.After(last) {
				last = x
			}
		}
		lastReady := time.Time{}
		for _, x := range o.ready {
			if !x.After(o.TRet) && x.After(lastReady) {
				lastReady = x
			}
		}
		if lastReady.After(last) {
			last = lastReady
		}
		inflight := 0
		for _, s := range spans {
			if !s.from.After(o.TRet) && (s.to.IsZero() || s.to.After(o.TRet)) {
				inflight++
			}
		}
		ended := !tc.IsZero() && !o.TRet.Before(tc) && (cm.Mode != "none")
		if ended {
			// the context ended no later than the return: cancellation clause
			out.CancelHit = true
			lim := tc
			if o.TCall.After(lim) {
				lim = o.TCall
			}
			if lastReady.After(lim) {
				lim = lastReady // a sleeping consumer observes the close when it comes back
			}
			c.Clause("cancel-prompt")
			if o.TRet.After(lim.Add(vC03Eps)) {
				class := "during" // input class: context over at the call, or ended while the operation ran
				if !tc.After(o.TCall) {
					class = "before-call"
				}
				c.FailSig("cancel-prompt", "cancel-prompt@"+vC03OpName(sc, o)+":"+class, "%s returned %v after its context ended (cancel mode %s at +%v, return at +%v, error %v)", vC03OpName(sc, o), o.TRet.Sub(lim), cm.Mode, tc.Sub(t0), o.TRet.Sub(t0), o.Err)
			}
			if o.TRet.After(tc) || inflight > 0 {
				continue
			}
		}
		if inflight == 0 {
			c.Clause("return-bounded")
			if o.TRet.Sub(last) > vC03Eps {
				c.FailSig("return-bounded", "return-bounded@"+vC03OpName(sc, o), "%s returned at +%v, %v after the last RPC / dial / hand-over it could wait for concluded (+%v) with nothing in flight (error %v)", vC03OpName(sc, o), o.TRet.Sub(t0), o.TRet.Sub(last), last.Sub(t0), o.Err)
			}
		} else {
			c.Obs("returned_with_rpcs_in_flight", 1)
		}
	}
	for b := range bset {
		if b >= 0 && b <= lastRet.Sub(t0) {
			out.Boundaries = append(out.Boundaries, b)
		}
	}
	out.Boundaries = append(out.Boundaries, lastRet.Sub(t0))
	sort.Slice(out.Boundaries, func(i, j int) bool { return out.Boundaries[i] < out.Boundaries[j] })
	if out.CancelHit {
		c.Obs("cancel_took_effect", 1)
		if out.InflightAtCancel > 0 {
			c.Obs("cancelled_with_rpcs_in_flight", 1)
		}
	}
	var errs []string
	for _, o := range out.Runs {
		nm := o.Name
		if o.Name == "getvalue" || o.Name == "searchvalue" {
			nm = fmt.Sprintf("%s(quorum=%d)", o.Name, o.Quorum)
		}
		errs = append(errs, fmt.Sprintf("%s:+%dms:%d:%v", nm, o.TRet.Sub(t0).Milliseconds(), o.Items, o.Err))
	}
	c.Logf("cancel=%s/%v outcome %s rpcs=%d dials=%d failing-contacted=%d", cm.Mode, cm.At, strings.Join(errs, " "), out.Rpcs, out.Dials, out.FailHit)
	h := sha256.Sum256([]byte(fmt.Sprintf("%v/%s/%d/%d/%d/%d/%s/%d/%d/%s", sc.Ops, cm.Mode, sc.Cfg.N, sc.Cfg.K, sc.Cfg.A, sc.Cfg.B, sc.Cfg.Knowledge, out.Rpcs, out.FailHit, strings.Join(errs, ","))))
	out.Sig = fmt.Sprintf("%x", h[:8])
}

// ---- scenario generation ----------------------------------------------------------------------------

func vC03GenNet(r *rand.Rand, maxN int) vNetCfg {
	ks := []int{1, 2, 3, 5, 8, 20}
	as := []int{1, 2, 3, 10}
	k := ks[r.Intn(len(ks))]
	a := as[r.Intn(len(as))]
	bs := []int{1, 2, 3, k}
	b := bs[r.Intn(len(bs))]
	var n int
	switch x := r.Intn(10); {
	case x < 2:
		n = 1 + r.Intn(12)
	case x < 3:
		n = 0
	default:
		n = 5 + r.Intn(maxN-4)
	}
	if n > maxN {
		n = maxN
	}
	kn := []string{"full", "kbucket", "kbucket", "sparse"}[r.Intn(4)]
	return vNetCfg{N: n, K: k, A: a, B: b, Knowledge: kn, Seeds: 1 + r.Intn(k+5)}
}

func vC03GenSc(r *rand.Rand, maxN int) *vC03Sc {
	sc := &vC03Sc{Seed: r.Int63(), Cfg: vC03GenNet(r, maxN), Pool: -1, Quorum: -1}
	sc.MaxDelay = []int{5, 50, 400}[r.Intn(3)]
	sc.FailFrac = []float64{0, 0.1, 0.3, 0.6, 0.9}[r.Intn(5)]
	sc.LiarFrac = []float64{0, 0, 0.15, 0.4}[r.Intn(4)]
	sc.AllFail = r.Intn(25) == 0
	sc.Ops = []string{vC03AllOps[r.Intn(len(vC03AllOps))]}
	sc.Events = []string{"none", "none", "query", "lookup", "both"}[r.Intn(5)]
	sc.ConsumerDelay = []time.Duration{0, 0, 100 * time.Millisecond, 3 * time.Second}[r.Intn(4)]
	sc.ValFrac = []float64{0, 0.1, 0.5, 1}[r.Intn(4)]
	sc.ProvFrac = []float64{0, 0.1, 0.5, 1}[r.Intn(4)]
	sc.Local = r.Intn(4) == 0
	sc.NoAddrs = r.Intn(20) == 0
	if r.Intn(3) == 0 { // routing table filled by earlier lookups, some connections kept
		sc.Warm = "real"
		sc.Disconnect = []float64{0, 0.5, 1, 1}[r.Intn(4)]
	}
	return sc
}

func vC03GenCancel(r *rand.Rand) vC03Cancel {
	switch x := r.Intn(20); {
	case x < 6:
		return vC03Cancel{Mode: "none"}
	case x < 8:
		return vC03Cancel{Mode: "pre"}
	case x < 9:
		return vC03Cancel{Mode: "expired"}
	case x < 15:
		// log-uniform instant between 1 ms and ~40 s
		ms := 1.0
		for i := r.Intn(16); i > 0; i-- {
			ms *= 2
		}
		return vC03Cancel{Mode: "at", At: time.Duration(ms*(1+r.Float64())) * time.Millisecond}
	case x == 19:
		// the instance itself is closed, before the operation or under it (1 ms .. ~2 s after its start)
		if r.Intn(2) == 0 {
			return vC03Cancel{Mode: "closed"}
		}
		ms := 1.0
		for i := r.Intn(12); i > 0; i-- {
			ms *= 2
		}
		return vC03Cancel{Mode: "closeat", At: time.Duration(ms*(1+r.Float64())) * time.Millisecond}
	default:
		// deadlines on both sides of classicProvide's 10 s budgeting rule
		ds := []time.Duration{5 * time.Millisecond, 300 * time.Millisecond, 2 * time.Second, 9 * time.Second, 11 * time.Second, 25 * time.Second, 60 * time.Second}
		return vC03Cancel{Mode: "deadline", At: ds[r.Intn(len(ds))] + time.Duration(r.Intn(1000))*time.Millisecond}
	}
}

func vC03Describe(c *vh.Case, sc *vC03Sc, cm vC03Cancel) {
	c.Set("ops", sc.Ops)
	c.Set("N", sc.Cfg.N)
	c.Set("K_alpha_beta", []int{sc.Cfg.K, sc.Cfg.A, sc.Cfg.B})
	c.Set("knowledge", sc.Cfg.Knowledge)
	c.Set("seeds", sc.Cfg.Seeds)
	c.Set("max_delay_ms", sc.MaxDelay)
	c.Set("fail_frac", sc.FailFrac)
	c.Set("liar_frac", sc.LiarFrac)
	c.Set("all_fail", sc.AllFail)
	c.Set("slow_store_rpcs", sc.PutSlow)
	c.Set("cancel_mode", cm.Mode)
	c.Set("cancel_at", cm.At.String())
	c.Set("events", sc.Events)
	c.Set("consumer_delay", sc.ConsumerDelay.String())
	c.Set("warmup", sc.Warm)
	c.Set("disconnect_after_warmup", sc.Disconnect)
	c.Set("local_record", sc.Local)
	c.Set("quorum_option", sc.Quorum)
	c.Set("scenario_seed", sc.Seed)
	if sc.Optim {
		c.Set("optimistic_provide", true)
		c.Set("jobs_pool", sc.Pool)
		c.Set("warmup_claimed_size", sc.WarmM)
	}
}

// ---- units --------------------------------------------------------------------------------------------

func TestVerif_C03_ops(t *testing.T) {
	vh.Run(t, vh.Spec{Prop: "C03", Unit: "ops", Quick: 1600, Thorough: 80000, CostMs: 18,
		Rule:    "PRNG case = simulated network (N 0-150; K in {1,2,3,5,8,20}, alpha in {1,2,3,10}, beta in {1,2,3,K}; knowledge full/kbucket/sparse; 0-90% (or all) peers failing by dial error, slow dial error, dials that take 2-9.5 s, request error, silence (10 s simulated read timeout), late answers (2-9.5 s), per-request flakiness, failing only the store RPC, answering once then silent; liars adding self / duplicates / strangers / 200 entries / themselves / mis-keyed records; value and provider records on some peers and locally; optional earlier lookups that filled the table; optional query/lookup event consumers; slow channel consumer) x one of GetClosestPeers, FindPeer, GetValue, SearchValue, FindProviders, FindProvidersAsync (every 16th case index with an undefined CID), PutValue, Provide(classic) x cancel mode {none, cancelled before the call, expired deadline, cancel at a log-uniform virtual instant 1 ms-60 s, ctx deadline 5 ms-61 s}; every second SearchValue / FindProvidersAsync case is run once more with a consumer that cancels its context on the first item and stops reading; every 40th case is forced to a GetValue/SearchValue with Quorum 1-2, alpha 3 or 10, >= 25 peers all holding valid records, latencies 1-400 ms, un-cancelled context; oracle in virtual time over the simulated wire/dial log + goroutine census; non-trivial = >= 1 RPC and (a contacted peer failed / was silent / late, or the cancellation hit the operation); distinct by (operation, cancel mode, shape, RPC count, outcome and return instant)",
		Clauses: []string{"return-bounded", "cancel-prompt", "chan-closed", "chan-call-prompt", "quiet-after-return", "no-leak", "closed-empty", "returns-on-closed-instance"}},
		func(c *vh.Case) {
			sc := vC03GenSc(c.R, 150)
			cm := vC03GenCancel(c.R)
			if c.Idx%40 == 17 {
				// forced class: quorum-limited value search among many holders of valid records answering at
				// spread latencies, caller's context never cancelled (the search ends by quorum abort)
				r := c.R
				sc.Ops = []string{[]string{"getvalue", "searchvalue"}[r.Intn(2)]}
				sc.Quorum, sc.ValFrac, sc.ValidOnly, sc.Local = 1+r.Intn(2), 1, true, false
				sc.Cfg.A = []int{3, 10}[r.Intn(2)]
				sc.Cfg.K = []int{5, 8, 20}[r.Intn(3)]
				sc.Cfg.B = []int{1, 2, 3}[r.Intn(3)]
				sc.Cfg.Seeds = sc.Cfg.K
				if sc.Cfg.N < 25 {
					sc.Cfg.N = 25 + r.Intn(100)
				}
				sc.MaxDelay, sc.FailFrac, sc.LiarFrac, sc.AllFail, sc.ConsumerDelay = 400, []float64{0, 0.1}[r.Intn(2)], 0, false, 0
				cm = vC03Cancel{Mode: "none"}
			}
			vC03Describe(c, sc, cm)
			c.Bubble(t, vC03Budget, "op-hang", func(t *testing.T) {
				out := vC03RunOnce(t, c, sc, cm)
				if out.Rpcs >= 1 && (out.FailHit > 0 || out.CancelHit) {
					c.Nontrivial(out.Sig)
				}
			})
			// channel operations, every second case: the same scenario once more with a consumer that cancels its
			// context on the first item and stops reading; whatever the search still wants to hand over must be
			// dropped, nothing may stay blocked (judged by quiet-after-return / no-leak / closed-empty)
			if !c.Failed() && c.Idx%2 == 0 && (sc.Ops[0] == "searchvalue" || sc.Ops[0] == "findprovsasync") {
				c.Bubble(t, vC03Budget, "op-hang", func(t *testing.T) {
					vC03RunOnce(t, c, sc, vC03Cancel{Mode: "walkaway"})
					c.Obs("walkaway_runs", 1)
				})
			}
		})
}

func TestVerif_C03_cancelenum(t *testing.T) {
	vh.Run(t, vh.Spec{Prop: "C03", Unit: "cancelenum", Quick: 160, Thorough: 4000, CostMs: 130,
		Rule:    "small PRNG scenarios (N 3-40, otherwise as unit ops, one operation each); the scenario is first run un-cancelled recording the distinct virtual instants of all wire/dial log entries up to the return (boundary events, incl. the call and the return themselves), then re-run from the same seed with cancel() at (boundary instant, offset in {-1 ns, 0, +1 ns}): quick 8 PRNG-chosen pairs per case, thorough all pairs (at most 300); same oracle as ops on every run; non-trivial = >= 3 distinct boundaries and at least one cancellation hit the operation with an RPC in flight; distinct by (operation, shape, number of boundaries, outcomes)",
		Clauses: []string{"return-bounded", "cancel-prompt", "chan-closed", "quiet-after-return", "no-leak", "closed-empty"}},
		func(c *vh.Case) {
			sc := vC03GenSc(c.R, 40)
			sc.Warm, sc.Disconnect = "", 0
			if sc.Cfg.N < 3 {
				sc.Cfg.N = 3 + c.R.Intn(38)
			}
			meta := rand.New(rand.NewSource(c.R.Int63()))
			vC03Describe(c, sc, vC03Cancel{Mode: "enumerated"})
			var bounds []time.Duration
			var sig0 string
			c.Bubble(t, vC03Budget, "op-hang", func(t *testing.T) {
				out := vC03RunOnce(t, c, sc, vC03Cancel{Mode: "none"})
				bounds, sig0 = out.Boundaries, out.Sig
			})
			if c.Failed() {
				return
			}
			type cand struct {
				i int
				d time.Duration
			}
			var pick []cand
			for i := range bounds {
				for d := -1; d <= 1; d++ {
					pick = append(pick, cand{i, time.Duration(d)})
				}
			}
			meta.Shuffle(len(pick), func(i, j int) { pick[i], pick[j] = pick[j], pick[i] })
			limit := 8
			if c.Tier == "thorough" {
				limit = 300
			}
			if len(pick) > limit {
				// the tail of the run (follow-up phase, last replies, hand-over of the result) is where a return races with
				// the operation's own workers: three of the instants are exact boundaries of the last third of the run
				tail := len(bounds) - (len(bounds)+2)/3
				var front []cand
				for _, p := range pick {
					if len(front) < 3 && p.d == 0 && p.i >= tail {
						front = append(front, p)
					}
				}
				for _, p := range pick {
					if len(front) >= limit {
						break
					}
					if !(p.d == 0 && p.i >= tail && len(front) > 0 && (p == front[0] || (len(front) > 1 && p == front[1]) || (len(front) > 2 && p == front[2]))) {
						front = append(front, p)
					}
				}
				pick = front
			}
			c.Set("boundaries", len(bounds))
			hits, hot := 0, 0
			for _, p := range pick {
				at := bounds[p.i] + p.d
				var out *vC03Out
				c.Bubble(t, vC03Budget, "op-hang", func(t *testing.T) {
					out = vC03RunOnce(t, c, sc, vC03Cancel{Mode: "at", At: at})
				})
				c.Obs("cancel_instants_tried", 1)
				if out != nil && out.CancelHit {
					hits++
					if out.InflightAtCancel > 0 {
						hot++
					}
				}
				if c.Failed() {
					c.Set("failing_cancel_at", at.String())
					return
				}
			}
			c.Set("cancellations_that_hit", hits)
			if len(bounds) >= 3 && hot > 0 {
				c.Nontrivial(fmt.Sprintf("%s/%d/%d/%d", sig0, len(bounds), hits, hot))
			}
		})
}

func TestVerif_C03_optprov(t *testing.T) {
	vh.Run(t, vh.Spec{Prop: "C03", Unit: "optprov", Quick: 128, Thorough: 6000, CostMs: 30,
		Rule:    "Provide with EnableOptimisticProvide on PRNG networks (N 1-150, K in {1,2,3,5,8,20}, jobs pool 0/1/3/default) whose network-size estimator was warmed up by >= 5 completed GetClosestPeers (or, when N < K, by 6 synthetic Track calls claiming a network of K..2000 peers); afterwards the peers start failing as in unit ops; 1-3 concurrent provides; cancel modes as ops plus cancel at a boundary instant of the un-cancelled run; forced classes by case index modulo 32: all peers fail (1 of 32), K <= 2 (2), context cancelled / expired before the call while every peer takes 2-9.5 s to accept an ADD_PROVIDER (4); non-trivial = estimator ready (optimistic path taken) and >= 1 RPC issued; distinct by (shape, cancel mode, RPC count, outcomes)",
		Clauses: []string{"return-bounded", "cancel-prompt", "quiet-after-return", "no-leak", "closed-empty"}},
		func(c *vh.Case) {
			r := c.R
			sc := vC03GenSc(r, 150)
			sc.Optim = true
			sc.Ops = []string{"provide"}
			for x := []int{0, 0, 1, 2}[r.Intn(4)]; x > 0; x-- {
				sc.Ops = append(sc.Ops, "provide")
			}
			sc.Pool = []int{-1, -1, 0, 1, 3}[r.Intn(5)]
			if sc.Cfg.N == 0 {
				sc.Cfg.N = 1 + r.Intn(30)
			}
			sc.Disconnect = []float64{0, 0.5, 1, 1}[r.Intn(4)]
			cm := vC03GenCancel(r)
			for cm.Mode == "pre" || cm.Mode == "expired" { // covered by the forced classes below (each hang costs a process)
				cm = vC03GenCancel(r)
			}
			sc.AllFail = false
			boundary := r.Intn(5) == 0
			switch c.Idx % 32 {
			case 3:
				sc.AllFail, cm, boundary = true, vC03Cancel{Mode: "none"}, false
				sc.Ops = sc.Ops[:1]
			case 11, 27:
				sc.Cfg.K = 1 + r.Intn(2)
				sc.Cfg.B = 1
			case 7, 13, 19, 29:
				// context already over at the call while every ADD_PROVIDER would take seconds
				sc.PutSlow, sc.AllFail, boundary = true, false, false
				sc.Ops = sc.Ops[:1]
				cm = vC03Cancel{Mode: []string{"pre", "pre", "expired"}[r.Intn(3)]}
			}
			sc.Warm, sc.WarmM = "real", 0
			if sc.Cfg.N < sc.Cfg.K || r.Intn(3) == 0 {
				sc.Warm = "synthetic"
				sc.WarmM = []int{sc.Cfg.K, 10 * sc.Cfg.K, 200, 2000}[r.Intn(4)]
			}
			if r.Intn(12) == 0 {
				sc.Warm = "" // estimator not ready: documented fallback to the classic provide
			}
			meta := rand.New(rand.NewSource(r.Int63()))
			vC03Describe(c, sc, cm)
			if boundary {
				c.Set("cancel_mode", "boundary")
				var bounds []time.Duration
				c.Bubble(t, vC03Budget, "op-hang", func(t *testing.T) {
					bounds = vC03RunOnce(t, c, sc, vC03Cancel{Mode: "none"}).Boundaries
				})
				if c.Failed() || len(bounds) == 0 {
					return
				}
				cm = vC03Cancel{Mode: "at", At: bounds[meta.Intn(len(bounds))] + time.Duration(meta.Intn(3)-1)}
				c.Set("cancel_at", cm.At.String())
			}
			c.Bubble(t, vC03Budget, "op-hang", func(t *testing.T) {
				out := vC03RunOnce(t, c, sc, cm)
				c.Set("estimator_ready", out.WarmOK)
				if out.WarmOK && (out.FailHit > 0 || out.Rpcs > 0) {
					c.Nontrivial(out.Sig)
				}
			})
		})
}
