//go:build verif

package dht

// C14 — Close stops everything; failed constructors leave nothing (IpfsDHT).
//
// A scenario = one IpfsDHT (mode × subsystems × auto-refresh × fix-low-peers loop) over a
// simulated network with slow / silent / failing peers, k public operations started at PRNG
// instants, inbound streams played by the harness, event-bus events, and both record stores
// garbage-collecting on short intervals over journaling datastores.
//
// The scenario is run once without an early Close, counting its boundary events (simulated
// wire log entries, dial starts/ends, datastore accesses, bus emissions, inbound requests);
// that reference run closes the DHT after everything finished. The identically seeded
// scenario is then re-run with Close at boundary event #i for enumerated i (quick: immediately
// after construction, 1-2 events that happened on a background loop's stack, 1-2 PRNG indices;
// thorough: all indices on small scenarios).
//
// Environment behaviours that make the oracle deterministic (all legal for a libp2p host /
// datastore): a dial or request whose context is cancelled takes a few virtual milliseconds to
// abort; OnDisconnect takes a few virtual milliseconds; datastore accesses made by the GC
// loops outside any lock take a few virtual milliseconds. A loop that is busy when Close
// starts therefore survives a Close that does not wait for it.

import (
	"context"
	"crypto/sha256"
	"errors"
	"fmt"
	"math/rand"
	"runtime"
	"sort"
	"strings"
	"sync"
	"sync/atomic"
	"testing"
	"testing/synctest"
	"time"

	"github.com/ipfs/go-cid"
	record "github.com/libp2p/go-libp2p-record"
	"github.com/libp2p/go-libp2p/core/event"
	"github.com/libp2p/go-libp2p/core/host"
	"github.com/libp2p/go-libp2p/core/network"
	"github.com/libp2p/go-libp2p/core/peer"
	"github.com/libp2p/go-libp2p/core/protocol"
	ma "github.com/multiformats/go-multiaddr"
	mh "github.com/multiformats/go-multihash"

	dhtcfg "github.com/libp2p/go-libp2p-kad-dht/internal/config"
	"github.com/libp2p/go-libp2p-kad-dht/internal/verif/vc14"
	"github.com/libp2p/go-libp2p-kad-dht/internal/verif/vh"
	"github.com/libp2p/go-libp2p-kad-dht/internal/verif/vjds"
	"github.com/libp2p/go-libp2p-kad-dht/internal/verif/vsim"
	pb "github.com/libp2p/go-libp2p-kad-dht/pb"
	"github.com/libp2p/go-libp2p-kad-dht/records"
)

const (
	vC14Proto       = protocol.ID("/verif/kad/1.0.0")
	vC14CloseBound  = 2 * time.Second  // Close must return within this much virtual time
	vC14CloseHang   = 5 * time.Minute  // … and is declared hung after this much
	vC14OpSlack     = time.Second      // C03-style ε
	vC14OpWaitMax   = 4 * time.Minute  // every operation has a ≤ 90 s timeout or ends with its last RPC
	vC14SettleAfter = 20 * time.Second // reference run: Close this long after the last operation returned
)

// functions whose presence on a goroutine's stack marks a long-lived loop of the instance
var vC14LoopFrags = []string{
	"(*IpfsDHT).persistRTPeersInPeerStore", "(*IpfsDHT).rtPeerLoop", "(*IpfsDHT).runFixLowPeersLoop", "(*IpfsDHT).startNetworkSubscriber",
	"(*RtRefreshManager).loop", "(*ProviderManager).gcLoop", "(*ValueStore).gcLoop",
}

type vC14Scn struct {
	Seed        int64
	Mode        ModeOpt
	NoProv      bool
	NoVal       bool
	AutoRefresh bool
	FixLow      bool
	N, K, A, B  int
	NOps        int
	Inbound     int
	Emits       int
}

func (s vC14Scn) String() string {
	return fmt.Sprintf("mode=%d noprov=%v noval=%v autorefresh=%v fixlow=%v N=%d K/a/b=%d/%d/%d ops=%d inbound=%d emits=%d", s.Mode, s.NoProv, s.NoVal,
		s.AutoRefresh, s.FixLow, s.N, s.K, s.A, s.B, s.NOps, s.Inbound, s.Emits)
}

func vC14GenScn(c *vh.Case) vC14Scn {
	r := c.R
	sc := vC14Scn{Seed: r.Int63()}
	sc.Mode = []ModeOpt{ModeClient, ModeServer, ModeAuto, ModeAutoServer}[r.Intn(4)]
	switch r.Intn(6) {
	case 0:
		sc.NoProv = true
	case 1:
		sc.NoVal = true
	case 2:
		sc.NoProv, sc.NoVal = true, true
	}
	sc.AutoRefresh = r.Intn(2) == 0
	sc.FixLow = r.Intn(2) == 0
	sc.K = []int{2, 3, 5, 8}[r.Intn(4)]
	sc.A = 1 + r.Intn(3)
	sc.B = 1 + r.Intn(sc.K)
	sc.N = 6 + r.Intn(30)
	sc.NOps = 1 + r.Intn(5)
	sc.Inbound = r.Intn(3)
	sc.Emits = r.Intn(8)
	if c.Tier == "thorough" && r.Intn(3) == 0 { // small scenarios, all indices
		sc.N = 4 + r.Intn(8)
		sc.NOps = 1 + r.Intn(2)
		sc.Emits = r.Intn(3)
	}
	return sc
}

// vC14Val accepts everything and prefers the lexicographically greatest value.
type vC14Val struct{}

func (vC14Val) Validate(string, []byte) error { return nil }
func (vC14Val) Select(_ string, vals [][]byte) (int, error) {
	best := 0
	for i, v := range vals {
		if string(v) > string(vals[best]) {
			best = i
		}
	}
	return best, nil
}

// vC14Sender wraps the simulated sender: OnDisconnect takes a little virtual time and a
// request whose context was cancelled takes a little virtual time to abort.
type vC14Sender struct {
	*vsim.Sim
	bd        *vc14.Boundary
	discDelay time.Duration
	grace     time.Duration
}

func (s *vC14Sender) OnDisconnect(ctx context.Context, p peer.ID) {
	s.bd.Tick("disc", vsim.Short(p))
	time.Sleep(s.discDelay)
	s.Sim.OnDisconnect(ctx, p)
}

func (s *vC14Sender) SendRequest(ctx context.Context, p peer.ID, m *pb.Message) (*pb.Message, error) {
	resp, err := s.Sim.SendRequest(ctx, p, m)
	if err != nil && ctx.Err() != nil {
		time.Sleep(s.grace)
	}
	return resp, err
}

func (s *vC14Sender) SendMessage(ctx context.Context, p peer.ID, m *pb.Message) error {
	err := s.Sim.SendMessage(ctx, p, m)
	if err != nil && ctx.Err() != nil {
		time.Sleep(s.grace)
	}
	return err
}

type vC14Op struct {
	Kind      string
	Offset    time.Duration
	Timeout   time.Duration // 0: none
	Start     time.Duration
	Ret       time.Duration
	Returned  bool
	Late      bool // started after Close had begun
	Err       string
	ctx       context.Context
	cancel    context.CancelFunc
	hasDl     bool
	dl        time.Duration
	chanClose bool
}

type vC14Res struct {
	Events      []vc14.Ev
	CloseIdx    int
	CloseAt     time.Duration
	CloseTook   time.Duration
	CloseErr    string
	CloseLabel  string
	InFlight    int // operations in flight when Close started
	BusyLoop    string
	Ops         []*vC14Op
	LoopsAtOpen []string
}

func vC14SleepAbortable(ctx context.Context, d, grace time.Duration) error {
	if d <= 0 {
		return ctx.Err()
	}
	tm := time.NewTimer(d)
	defer tm.Stop()
	select {
	case <-tm.C:
		return nil
	case <-ctx.Done():
		time.Sleep(grace)
		return ctx.Err()
	}
}

// vC14Run runs the scenario in its own bubble; target = 1-based boundary-event index at which
// Close is started (0: only after everything finished; -1: immediately after construction).
func vC14Run(t *testing.T, c *vh.Case, sc vC14Scn, target int) *vC14Res {
	var res *vC14Res
	c.Bubble(t, 45*time.Minute, "close-hang", func(t *testing.T) {
		res = vC14RunInBubble(t, c, sc, target)
	})
	return res
}

func vC14RunInBubble(t *testing.T, c *vh.Case, sc vC14Scn, target int) *vC14Res {
	r := rand.New(rand.NewSource(sc.Seed))
	res := &vC14Res{}
	tag := fmt.Sprintf("[close@%d] ", target)

	// (1) baseline
	base := vc14.Owned()
	c.Check(len(base) == 0, "baseline-clean", "%sinstance-owned goroutines before construction: %v", tag, vc14.Summary(base))

	cnt := target
	if target < 0 {
		cnt = 0
	}
	bd := vc14.NewBoundary(cnt, vC14LoopFrags...)
	self := vsim.PeerID("c14self", int(sc.Seed%1000003))
	h := vsim.NewHost(self, ma.StringCast("/ip4/9.9.9.9/tcp/4001"))
	bus := vc14.NewBus(h.EventBus())
	h.BusOverride = bus
	sim := vsim.NewSim(h, sc.K)
	var ids []peer.ID
	name := map[peer.ID]string{self: "self"}
	dialLat := map[peer.ID]time.Duration{}
	for i := 0; i < sc.N; i++ {
		id := vsim.PeerID(fmt.Sprintf("c14n%d", sc.Seed%1000003), i)
		ids = append(ids, id)
		name[id] = fmt.Sprintf("p%d", i)
		sp := sim.Add(&vsim.SimPeer{ID: id, Addrs: []ma.Multiaddr{vPeerAddr(i, false)}})
		h.Peerstore().AddProtocols(id, vC14Proto)
		lat := time.Duration(3+r.Intn(300)) * time.Millisecond
		dialLat[id] = time.Duration(1+r.Intn(120)) * time.Millisecond
		kind := "ok"
		if x := r.Intn(10); x < 4 {
			kind = []string{"silent", "reqerr", "dead", "dialfail"}[r.Intn(4)]
		}
		switch kind {
		case "dead":
			sp.Dead = true
		default:
			k := kind
			sp.Script = func(n int, req *pb.Message) vsim.Reply {
				if req == nil {
					if k == "dialfail" {
						return vsim.Reply{DialFail: true, Delay: lat}
					}
					return vsim.Reply{}
				}
				rep := vsim.Reply{Delay: lat + time.Duration(n%5)*time.Millisecond}
				switch k {
				case "silent":
					rep.Silent = true
				case "reqerr":
					rep.Err = errors.New("vsim: stream reset by peer")
				}
				return rep
			}
		}
	}
	sim.KnowFull()
	sim.OnEvent = func(e vsim.Event) { bd.Tick(e.Kind, e.Type.String()+" "+name[e.Peer]) }
	grace := time.Duration(1+r.Intn(30)) * time.Millisecond
	inner := h.DialFn
	h.DialFn = func(ctx context.Context, p peer.ID) error {
		bd.Tick("dial", name[p])
		err := vC14SleepAbortable(ctx, dialLat[p], grace)
		if err == nil {
			err = inner(ctx, p)
		}
		bd.Tick("dialend", name[p])
		return err
	}
	sender := &vC14Sender{Sim: sim, bd: bd, discDelay: time.Duration(1+r.Intn(40)) * time.Millisecond, grace: grace}

	// journaling stores; GC accesses outside any lock take virtual time, everything else yields
	j := vjds.NewJournal()
	provDS, valDS, sharedDS := vjds.NewNamed(j, "prov"), vjds.NewNamed(j, "val"), vjds.NewNamed(j, "shared")
	gcDelay := time.Duration(1+r.Intn(8)) * time.Millisecond
	var closeReturned atomic.Bool
	var lateMu sync.Mutex
	var late []string
	j.Hook = func(e *vjds.Entry) error {
		owner := vc14.OnStack("gcLoop")
		underLock := owner != "" && vc14.OnStack("discardIfUnchanged") != ""
		bd.Tick("ds", e.Store+" "+e.Op+" "+e.Key)
		if closeReturned.Load() && (e.Store == "prov" || owner != "") {
			lateMu.Lock()
			late = append(late, fmt.Sprintf("+%v %s %s %s gc=%v", bd.Since(), e.Store, e.Op, e.Key, owner != ""))
			lateMu.Unlock()
		}
		if owner != "" && !underLock {
			time.Sleep(gcDelay)
		} else {
			runtime.Gosched()
		}
		return nil
	}

	opts := []Option{
		ProtocolPrefix("/verif"), BucketSize(sc.K), Concurrency(sc.A), Resiliency(sc.B),
		Datastore(sharedDS), ProviderDatastore(provDS), ValueDatastore(valDS),
		WithCustomMessageSender(func(_ host.Host, protos []protocol.ID) pb.MessageSenderWithDisconnect {
			sim.Protocols = protos
			return sender
		}),
		Mode(sc.Mode), Validator(record.NamespacedValidator{"v": vC14Val{}}),
		MaxRecordAge(time.Duration(800+r.Intn(2000)) * time.Millisecond), ValueGCInterval(time.Duration(200+r.Intn(900)) * time.Millisecond),
		ProviderManagerOpts(records.CleanupInterval(time.Duration(200+r.Intn(900))*time.Millisecond), records.ProvideValidity(time.Duration(800+r.Intn(2000))*time.Millisecond)),
		RoutingTableRefreshPeriod(time.Duration(5+r.Intn(30)) * time.Second),
	}
	if !sc.AutoRefresh {
		opts = append(opts, DisableAutoRefresh())
	}
	if sc.FixLow {
		nb := 1 + r.Intn(3)
		var bs []peer.AddrInfo
		for _, i := range r.Perm(sc.N)[:min(nb, sc.N)] {
			bs = append(bs, sim.AddrInfoOf(ids[i]))
		}
		opts = append(opts, BootstrapPeersFunc(func() []peer.AddrInfo { return bs }))
	} else {
		opts = append(opts, disableFixLowPeersRoutine(t))
	}
	if sc.NoProv {
		opts = append(opts, DisableProviders())
	}
	if sc.NoVal {
		opts = append(opts, DisableValues())
	}

	// (2) construct
	d, err := New(h, opts...)
	if err != nil {
		panic(fmt.Sprintf("vC14: dht.New failed: %v", err))
	}
	if target >= 0 { // target -1 = Close before anything else happens (empty table, loops just started)
		seeds := 1 + r.Intn(sc.K+3)
		for _, i := range r.Perm(sc.N) {
			if seeds == 0 {
				break
			}
			if ok, _ := d.routingTable.TryAddPeer(ids[i], true, false); ok {
				seeds--
			}
		}
	}
	res.LoopsAtOpen = vc14.Summary(vc14.WithFrame(vc14.Owned(), vC14LoopFrags...))

	// ---- actors
	actx, acancel := context.WithCancel(context.Background())
	var opsWG, actorsWG sync.WaitGroup
	var closing atomic.Bool
	var mu sync.Mutex // guards op fields written by op goroutines

	kinds := []string{"gcp", "findpeer", "refresh", "forcerefresh", "bootstrap", "getpubkey"}
	if !sc.NoVal {
		kinds = append(kinds, "putvalue", "putvalue", "getvalue", "searchvalue")
	}
	if !sc.NoProv {
		kinds = append(kinds, "provide", "provide", "findprovs", "findprovsync")
	}
	keyOf := func(i int) string { return fmt.Sprintf("/v/c14-%d-%d", sc.Seed%9973, i%3) }
	cidOf := func(i int) cid.Cid {
		hh, _ := mh.Sum([]byte(fmt.Sprintf("c14-cid-%d-%d", sc.Seed%9973, i%3)), mh.SHA2_256, -1)
		return cid.NewCidV1(cid.Raw, hh)
	}
	for i := 0; i < sc.NOps; i++ {
		op := &vC14Op{Kind: kinds[r.Intn(len(kinds))]}
		if i > 0 {
			op.Offset = time.Duration(r.Intn(2500)) * time.Millisecond
		}
		op.Timeout = []time.Duration{0, 15 * time.Second, 40 * time.Second, 90 * time.Second}[r.Intn(4)]
		tgtPeer := ids[r.Intn(len(ids))]
		res.Ops = append(res.Ops, op)
		idx := i
		valSalt, provCount := r.Int63(), r.Intn(3)
		opsWG.Add(1)
		go func() {
			defer opsWG.Done()
			time.Sleep(op.Offset)
			ctx, cancel := context.WithCancel(context.Background())
			if op.Timeout > 0 {
				ctx, cancel = context.WithTimeout(context.Background(), op.Timeout)
			}
			defer cancel()
			mu.Lock()
			op.ctx, op.cancel = ctx, cancel
			op.Start = bd.Since()
			op.Late = closing.Load()
			if op.Timeout > 0 {
				op.hasDl, op.dl = true, op.Start+op.Timeout
			}
			mu.Unlock()
			var err error
			chClosed := true
			switch op.Kind {
			case "gcp":
				_, err = d.GetClosestPeers(ctx, keyOf(idx))
			case "findpeer":
				_, err = d.FindPeer(ctx, tgtPeer)
			case "getpubkey":
				_, err = d.GetPublicKey(ctx, tgtPeer)
			case "refresh", "forcerefresh":
				ch := d.RefreshRoutingTable()
				if op.Kind == "forcerefresh" {
					ch = d.ForceRefresh()
				}
				select {
				case e, ok := <-ch:
					if ok {
						err = e
						// the channel must also be closed after the answer
						select {
						case _, ok2 := <-ch:
							chClosed = !ok2
						case <-time.After(vC14OpSlack):
							chClosed = false
						}
					}
				case <-ctx.Done():
					err = ctx.Err()
				}
			case "bootstrap":
				err = d.Bootstrap(ctx)
			case "putvalue":
				err = d.PutValue(ctx, keyOf(idx), []byte(fmt.Sprintf("val-%d-%d", idx, valSalt)))
			case "getvalue":
				_, err = d.GetValue(ctx, keyOf(idx))
			case "searchvalue":
				var ch <-chan []byte
				ch, err = d.SearchValue(ctx, keyOf(idx))
				if err == nil {
					for range ch {
					}
				}
			case "provide":
				err = d.Provide(ctx, cidOf(idx), true)
			case "findprovs":
				for range d.FindProvidersAsync(ctx, cidOf(idx), provCount) {
				}
			case "findprovsync":
				_, err = d.FindProviders(ctx, cidOf(idx))
			}
			mu.Lock()
			op.Ret, op.Returned, op.chanClose = bd.Since(), true, chClosed
			if err != nil {
				op.Err = err.Error()
			}
			mu.Unlock()
		}()
	}

	// bus events
	for i := 0; i < sc.Emits; i++ {
		off := time.Duration(r.Intn(3000)) * time.Millisecond
		p := ids[r.Intn(len(ids))]
		kind := []string{"disc", "conn", "ident", "ident", "reach", "addrs", "protos"}[r.Intn(7)]
		reach := []network.Reachability{network.ReachabilityPublic, network.ReachabilityPrivate, network.ReachabilityUnknown}[r.Intn(3)]
		actorsWG.Add(1)
		go func() {
			defer actorsWG.Done()
			if vC14SleepAbortable(actx, off, 0) != nil {
				return
			}
			bd.Tick("emit", kind+" "+name[p])
			switch kind {
			case "disc":
				h.Net.EmitConnectedness(p, network.NotConnected)
			case "conn":
				h.Net.AddConn(p, network.DirInbound, nil, true)
			case "ident":
				h.Emit(event.EvtPeerIdentificationCompleted{Peer: p})
			case "protos":
				h.Emit(event.EvtPeerProtocolsUpdated{Peer: p})
			case "reach":
				h.Emit(event.EvtLocalReachabilityChanged{Reachability: reach})
			case "addrs":
				h.Emit(event.EvtLocalAddressesUpdated{})
			}
		}()
	}

	// inbound streams (the harness plays the host: handler goroutines are not instance-owned)
	var endsMu sync.Mutex
	var ends []*vsim.End
	for i := 0; i < sc.Inbound; i++ {
		off := time.Duration(r.Intn(2000)) * time.Millisecond
		rp := vsim.PeerID(fmt.Sprintf("c14remote%d", sc.Seed%1000003), i)
		nreq := 1 + r.Intn(4)
		var reqs []*pb.Message
		var gaps []time.Duration
		for q := 0; q < nreq; q++ {
			gaps = append(gaps, time.Duration(r.Intn(1500))*time.Millisecond)
			var m *pb.Message
			switch r.Intn(6) {
			case 0:
				m = pb.NewMessage(pb.Message_FIND_NODE, []byte(ids[r.Intn(len(ids))]), 0)
			case 1:
				m = pb.NewMessage(pb.Message_PING, nil, 0)
			case 2:
				m = pb.NewMessage(pb.Message_GET_VALUE, []byte(keyOf(q)), 0)
			case 3:
				m = pb.NewMessage(pb.Message_PUT_VALUE, []byte(keyOf(q)), 0)
				m.Record = record.MakePutRecord(keyOf(q), []byte(fmt.Sprintf("in-%d-%d", i, q)))
			case 4:
				m = pb.NewMessage(pb.Message_GET_PROVIDERS, cidOf(q).Hash(), 0)
			default:
				m = pb.NewMessage(pb.Message_ADD_PROVIDER, cidOf(q).Hash(), 0)
				m.ProviderPeers = pb.RawPeerInfosToPBPeers([]peer.AddrInfo{{ID: rp, Addrs: []ma.Multiaddr{vPeerAddr(500+i, false)}}})
			}
			reqs = append(reqs, m)
		}
		actorsWG.Add(1)
		go func() {
			defer actorsWG.Done()
			if vC14SleepAbortable(actx, off, 0) != nil {
				return
			}
			hd := h.Handler(vC14Proto)
			if hd == nil {
				return // client mode: the host would refuse the protocol
			}
			local, remote := h.NewInboundStream(rp, vC14Proto)
			endsMu.Lock()
			ends = append(ends, remote)
			endsMu.Unlock()
			bd.Tick("in-open", vsim.Short(rp))
			actorsWG.Add(2)
			go func() { defer actorsWG.Done(); hd(local) }()
			go func() { // drain replies until the stream ends
				defer actorsWG.Done()
				for {
					if _, err := remote.ReadFrame(); err != nil {
						return
					}
				}
			}()
			for q, m := range reqs {
				if vC14SleepAbortable(actx, gaps[q], 0) != nil {
					return
				}
				bd.Tick("in-req", m.GetType().String())
				if remote.WriteMsg(m) != nil {
					return
				}
			}
		}()
	}

	// ---- (3) Close at the enumerated instant
	opsDone := make(chan struct{})
	go func() { opsWG.Wait(); close(opsDone) }()
	settled := make(chan struct{})
	go func() {
		<-opsDone
		time.Sleep(vC14SettleAfter)
		close(settled)
	}()
	if target < 0 {
		bd.FireNow()
	}
	select {
	case <-bd.Fire:
	case <-settled:
		bd.FireNow()
	}
	closing.Store(true)
	evs := bd.Events()
	res.CloseIdx = len(evs)
	if len(evs) > 0 {
		last := evs[len(evs)-1]
		res.CloseLabel = last.Kind + " " + last.Label
		res.BusyLoop = last.Owner
	}
	mu.Lock()
	for _, op := range res.Ops {
		if op.ctx != nil && !op.Returned {
			res.InFlight++
		}
	}
	mu.Unlock()
	hang := func(what string) {
		buf := make([]byte, 1<<22)
		buf = buf[:runtime.Stack(buf, true)]
		c.FailSig("close-hang", "close-hang@"+vh.BlockedRepoFrame(buf), "%s%s did not return within %v of virtual time (%s; closed at event #%d %q); goroutines:\n%s", tag, what, vC14CloseHang, sc, res.CloseIdx, res.CloseLabel, vh.FilterBubble(buf))
		c.ExitNow()
	}
	doClose := func(what string) (time.Duration, error) {
		t0 := bd.Since()
		ret := make(chan error, 1)
		go func() { ret <- d.Close() }()
		tm := time.NewTimer(vC14CloseHang)
		defer tm.Stop()
		select {
		case err := <-ret:
			return bd.Since() - t0, err
		case <-tm.C:
			hang(what)
			return 0, nil
		}
	}
	res.CloseAt = bd.Since()
	took, cerr := doClose("Close")
	closeReturned.Store(true)
	res.CloseTook = took
	if cerr != nil {
		res.CloseErr = cerr.Error()
	}
	closeRet := bd.Since()
	c.Check(took <= vC14CloseBound, "close-returns-in-bound", "%sClose took %v of virtual time (bound %v; %s; closed at event #%d %q)", tag, took, vC14CloseBound, sc, res.CloseIdx, res.CloseLabel)
	c.Check(cerr == nil, "close-no-error", "%sClose returned %v", tag, cerr)

	// (4a) right after Close: no long-lived loop of the instance is left
	synctest.Wait()
	cA := vc14.Owned()
	loops := vc14.WithFrame(cA, vC14LoopFrags...)
	c.Check(len(loops) == 0, "no-loop-after-close", "%slong-lived loops still running after Close returned (%s; closed at event #%d %q, busy loop %q): %v\n%s", tag, sc, res.CloseIdx, res.CloseLabel, res.BusyLoop, vc14.Summary(loops), vc14.Dump(loops, 4))
	c.Check(bus.Live() == 0, "subscription-closed-at-close", "%s%d event-bus subscriptions still open after Close returned", tag, bus.Live())
	c.ObsMax("transient_goroutines_right_after_close", len(cA))

	// (4b) Close again, twice
	for k := 2; k <= 3; k++ {
		tk, e := doClose(fmt.Sprintf("Close #%d", k))
		c.Check(tk <= vC14CloseBound && e == nil, "close-again-returns", "%sClose #%d took %v, returned %v", tag, k, tk, e)
	}

	// (4c) interrupted operations finish or fail
	tm := time.NewTimer(vC14OpWaitMax)
	select {
	case <-opsDone:
	case <-tm.C:
		mu.Lock()
		var stuck []string
		for _, op := range res.Ops {
			if !op.Returned {
				stuck = append(stuck, fmt.Sprintf("%s(start +%v timeout %v late=%v)", op.Kind, op.Start, op.Timeout, op.Late))
				if op.cancel != nil {
					op.cancel()
				}
			}
		}
		mu.Unlock()
		buf := make([]byte, 1<<22)
		buf = buf[:runtime.Stack(buf, true)]
		c.FailSig("op-returns", "op-returns/stuck@"+vh.BlockedRepoFrame(buf), "%soperations still running %v after Close returned (%s; closed at event #%d %q): %v\n%s", tag, vC14OpWaitMax, sc, res.CloseIdx, res.CloseLabel, stuck, vh.FilterBubble(buf))
		t2 := time.NewTimer(time.Minute)
		select {
		case <-opsDone:
		case <-t2.C:
			c.ExitNow() // not even cancellation unwinds them
		}
	}
	tm.Stop()
	evs = bd.Events()
	lastBefore := func(t time.Duration) time.Duration {
		i := sort.Search(len(evs), func(i int) bool { return evs[i].VT > t })
		if i == 0 {
			return 0
		}
		return evs[i-1].VT
	}
	slack := vC14OpSlack + grace
	for _, op := range res.Ops {
		idle := op.Ret - max(lastBefore(op.Ret), closeRetIf(op.Ret, closeRet), op.Start)
		ok := idle <= slack || (op.hasDl && op.Ret >= op.dl && op.Ret-op.dl <= slack)
		clause := "op-returns"
		if op.Late {
			clause = "late-op-returns"
		}
		c.Check(ok, clause, "%s%s started +%v (timeout %v) returned +%v: %v after the last boundary event / Close return (+%v) / its deadline — bound %v (%s)", tag, op.Kind, op.Start, op.Timeout, op.Ret, idle, closeRet, slack, sc)
		c.Check(op.chanClose, "op-channel-closed", "%s%s: result channel not closed within %v of the answer", tag, op.Kind, vC14OpSlack)
	}

	// stop the harness actors
	acancel()
	synctest.Wait()
	endsMu.Lock()
	for _, e := range ends {
		e.Reset()
	}
	endsMu.Unlock()
	actorsWG.Wait()

	// (4d) + 2 virtual minutes: nothing instance-owned at all; fences
	time.Sleep(2 * time.Minute)
	synctest.Wait()
	cB := vc14.Owned()
	if !c.Check(len(cB) == 0, "no-goroutine-after-2min", "%sinstance-owned goroutines 2 virtual minutes after Close and the last operation (%s; closed at event #%d %q): %v\n%s", tag, sc, res.CloseIdx, res.CloseLabel, vc14.Summary(cB), vc14.Dump(cB, 4)) {
		c.ExitNow() // leaked goroutines cannot be unwound: the bubble could not end and later cases would start dirty
	}
	c.Check(bus.Live() == 0, "no-subscription-left", "%s%d event-bus subscriptions still open", tag, bus.Live())
	lateMu.Lock()
	var lateProv, lateGC []string
	for _, l := range late {
		if strings.Contains(l, " prov ") {
			lateProv = append(lateProv, l)
		}
		if strings.HasSuffix(l, "gc=true") {
			lateGC = append(lateGC, l)
		}
	}
	lateMu.Unlock()
	if !sc.NoProv {
		c.Check(len(lateProv) == 0, "provider-store-fenced", "%sprovider datastore accessed after Close returned (+%v): %v", tag, closeRet, lateProv)
	}
	c.Check(len(lateGC) == 0, "gc-stopped", "%sGC loop accessed a datastore after Close returned (+%v): %v", tag, closeRet, lateGC)
	h.Close()

	res.Events = evs
	c.Obs("runs", 1)
	c.Obs("boundary_events", len(evs))
	c.Obs("journal_entries", j.Len())
	c.Obs("ops_in_flight_at_close", res.InFlight)
	c.Obs("subscriptions_opened", bus.Total())
	nLate, nErr := 0, 0
	for _, op := range res.Ops {
		if op.Late {
			nLate++
		}
		if op.Err != "" {
			nErr++
		}
	}
	c.Obs("ops", len(res.Ops))
	c.Obs("ops_started_after_close", nLate)
	c.Obs("ops_failed", nErr)
	if res.BusyLoop != "" {
		c.Obs("closes_on_busy_loop", 1)
	}
	return res
}

// closeRetIf returns the Close-return instant if it is not after t (else 0).
func closeRetIf(t, closeRet time.Duration) time.Duration {
	if closeRet <= t {
		return closeRet
	}
	return 0
}

func TestVerif_C14_ipfsdht(t *testing.T) {
	vh.Run(t, vh.Spec{Prop: "C14", Unit: "ipfsdht", Quick: 60, Thorough: 2500, CostMs: 90,
		Rule:    "PRNG IpfsDHT scenarios (mode client/server/auto/auto-server x providers/values disabled x auto-refresh x fix-low-peers loop; 6-35 simulated peers, 40% silent/failing/dead; 1-5 public operations, 0-2 inbound streams with 1-4 requests, 0-7 bus events; both stores GC-ing every 0.2-1.1 vs over journaling datastores); reference run counts the boundary events (wire log, dials, datastore accesses, emissions, inbound requests) and closes after everything finished; identically seeded re-runs Close immediately after construction, at 2 events on a background loop's stack and at 2 PRNG indices (thorough: every index on small scenarios, <= 48); non-trivial = Close started while an operation was in flight or on a background loop's boundary event; distinct by (configuration, event kind at Close)",
		Clauses: []string{"baseline-clean", "close-returns-in-bound", "no-loop-after-close", "close-again-returns", "op-returns", "late-op-returns", "op-channel-closed", "no-goroutine-after-2min", "no-subscription-left", "provider-store-fenced", "gc-stopped"}},
		func(c *vh.Case) {
			sc := vC14GenScn(c)
			c.Set("scenario", sc.String())
			c.Set("seed", sc.Seed)
			ref := vC14Run(t, c, sc, 0)
			c.Logf("reference run: %d boundary events, closed after everything at +%v (took %v), loops at open %v", len(ref.Events), ref.CloseAt, ref.CloseTook, ref.LoopsAtOpen)
			idxs := vc14.PickIndices(c.R, ref.Events, 2, 2, c.Tier == "thorough" && sc.N <= 12, 48)
			c.Set("close_indices", idxs)
			var sigs []string
			for _, i := range idxs {
				if i > len(ref.Events) {
					continue // the reference run is that instant
				}
				tg := i
				if i == 0 {
					tg = -1
				}
				res := vC14Run(t, c, sc, tg)
				c.Logf("close@%d: event #%d %q busy=%q in-flight=%d took %v err=%q", tg, res.CloseIdx, res.CloseLabel, res.BusyLoop, res.InFlight, res.CloseTook, res.CloseErr)
				if res.InFlight > 0 || res.BusyLoop != "" {
					k, _, _ := strings.Cut(res.CloseLabel, " ")
					sigs = append(sigs, fmt.Sprintf("%s/%s/%d", k, res.BusyLoop, min(res.InFlight, 2)))
				}
			}
			if len(sigs) > 0 {
				sort.Strings(sigs)
				hs := sha256.Sum256([]byte(fmt.Sprintf("%d/%v/%v/%v/%v/%s", sc.Mode, sc.NoProv, sc.NoVal, sc.AutoRefresh, sc.FixLow, strings.Join(sigs, ","))))
				c.Nontrivial(fmt.Sprintf("%x", hs[:8]))
			}
		})
}

// ---- constructor failures ------------------------------------------------------------------------

func TestVerif_C14_ipfsdht_ctor(t *testing.T) {
	vh.Run(t, vh.Spec{Prop: "C14", Unit: "ipfsdht_ctor", Quick: 120, Thorough: 3000, CostMs: 12,
		Rule:    "dht.New failing at an enumerated point (option error, Validate rejection, failing provider-manager option, invalid mode after both stores started their GC, failing EventBus Subscribe after the stream handlers were set) x mode x subsystems x auto-refresh x fix-low; oracle: error returned, instance-owned census and live bus subscriptions equal the (empty) baseline after the error; every case non-trivial when the failure point lies after the first goroutine start; distinct by (failure point, mode, subsystems)",
		Clauses: []string{"ctor-returns-error", "ctor-fail-no-goroutine", "ctor-fail-no-subscription"}},
		func(c *vh.Case) {
			r := c.R
			points := []string{"option-error", "validate", "pm-option", "invalid-mode", "subscribe"}
			pt := points[c.Idx%len(points)]
			mode := []ModeOpt{ModeClient, ModeServer, ModeAuto, ModeAutoServer}[r.Intn(4)]
			noProv, noVal := r.Intn(4) == 0, r.Intn(4) == 0
			auto, fix := r.Intn(2) == 0, r.Intn(2) == 0
			c.Set("point", pt)
			c.Set("mode", int(mode))
			c.Set("noprov_noval_auto_fix", []bool{noProv, noVal, auto, fix})
			c.Bubble(t, 10*time.Minute, "ctor-hang", func(t *testing.T) {
				base := vc14.Owned()
				c.Check(len(base) == 0, "baseline-clean", "instance-owned goroutines before construction: %v", vc14.Summary(base))
				self := vsim.PeerID("c14ctor", c.Idx)
				h := vsim.NewHost(self, ma.StringCast("/ip4/9.9.9.9/tcp/4001"))
				bus := vc14.NewBus(h.EventBus())
				h.BusOverride = bus
				sim := vsim.NewSim(h, 5)
				j := vjds.NewJournal()
				injected := errors.New("vC14: injected option failure")
				opts := []Option{
					ProtocolPrefix("/verif"), BucketSize(5), Datastore(vjds.NewNamed(j, "shared")),
					WithCustomMessageSender(sim.Builder()), Mode(mode), Validator(record.NamespacedValidator{"v": vC14Val{}}),
				}
				if !auto {
					opts = append(opts, DisableAutoRefresh())
				}
				if !fix {
					opts = append(opts, disableFixLowPeersRoutine(t))
				}
				if noProv && pt != "pm-option" {
					opts = append(opts, DisableProviders())
				}
				if noVal {
					opts = append(opts, DisableValues())
				}
				switch pt {
				case "option-error":
					opts = append(opts, func(*dhtcfg.Config) error { return injected })
				case "validate":
					// the Amino prefix refuses a foreign bucket size / disabled subsystems
					opts = append(opts, ProtocolPrefix(DefaultPrefix))
				case "pm-option":
					opts = append(opts, ProviderManagerOpts(func(*records.ProviderManager) error { return injected }))
				case "invalid-mode":
					opts = append(opts, Mode(ModeOpt(40+r.Intn(50))))
				case "subscribe":
					bus.FailSubscribeAt(0)
				}
				d, err := New(h, opts...)
				if !c.Check(err != nil && d == nil, "ctor-returns-error", "dht.New succeeded although failure point %q was armed", pt) {
					if d != nil {
						d.Close()
					}
					h.Close()
					return
				}
				c.Logf("New failed as planned at %q: %v", pt, err)
				synctest.Wait()
				cs := vc14.Owned()
				c.Check(len(cs) == 0, "ctor-fail-no-goroutine", "failure point %q (mode %d, noprov=%v noval=%v): goroutines left after New returned %q: %v\n%s", pt, mode, noProv, noVal, err, vc14.Summary(cs), vc14.Dump(cs, 4))
				c.Check(bus.Live() == 0 && h.Net.NumNotifiees() == 0, "ctor-fail-no-subscription", "failure point %q: %d bus subscriptions and %d notifiees left", pt, bus.Live(), h.Net.NumNotifiees())
				if n := len(h.Protocols()); n > 0 {
					c.Obs("ctor_fail_stream_handlers_left_registered", n) // not a goroutine or subscription: observed, not judged
				}
				time.Sleep(2 * time.Minute)
				synctest.Wait()
				cs = vc14.Owned()
				if !c.Check(len(cs) == 0, "ctor-fail-no-goroutine", "failure point %q: goroutines 2 virtual minutes after the failed New: %v", pt, vc14.Summary(cs)) {
					c.ExitNow() // no handle to stop them: the bubble could not end
				}
				c.Obs("journal_entries", j.Len())
				h.Close()
				if pt == "invalid-mode" || pt == "subscribe" {
					c.Nontrivial(fmt.Sprintf("%s/%d/%v/%v", pt, mode, noProv, noVal))
				}
			})
		})
}
