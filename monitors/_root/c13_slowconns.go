//go:build verif

package dht

// C13/slowconns — "in server mode it handles them", when the node passes through client mode for an instant:
// two reachability events back to back (private, then public) on a busy host whose connection list takes time to
// enumerate. Whatever the node does while it is a client belongs to that switch; a stream opened once the node is
// a server again must be served for as long as it stays one - no late effect of the earlier switch may reach it.

import (
	"fmt"
	"testing"
	"testing/synctest"
	"time"

	"github.com/libp2p/go-libp2p/core/event"
	"github.com/libp2p/go-libp2p/core/network"

	"github.com/libp2p/go-libp2p-kad-dht/internal/verif/vh"
)

func TestVerif_C13_slowconns(t *testing.T) {
	vh.Run(t, vh.Spec{Prop: "C13", Unit: "slowconns", Quick: 200, Thorough: 6000, CostMs: 8,
		Rule:    "Mode(ModeAuto) / Mode(ModeAutoServer) node in server mode with 0-3 open inbound streams on a host whose Conns() takes 0 / 20 / 200 / 900 ms of virtual time; events private then public emitted back to back; as soon as the stream handler is registered again a new inbound stream is opened and 3-5 requests are sent on it over the following 2.5 x that latency (and 1 s); oracle: every one of them is answered (the node is a server from the moment the handler is back), the streams that were open before the pair are reset, at rest the handler is registered; non-trivial = Conns() latency > 0; distinct by (option, latency, open streams, request instants)",
		Clauses: []string{"handlers-iff-mode-of-last-event", "server-mode-answers", "open-streams-reset-on-switch-to-client"}},
		func(c *vh.Case) {
			c.Bubble(t, time.Hour, "mode-switch-hang", func(t *testing.T) {
				r := c.R
				opt := []ModeOpt{ModeAuto, ModeAutoServer}[r.Intn(2)]
				lat := []time.Duration{0, 20 * time.Millisecond, 200 * time.Millisecond, 900 * time.Millisecond}[c.Idx%4]
				nd := vC13NewNode(t, c, opt, []int{3, 8, 20}[r.Intn(3)])
				n := nd.n
				defer n.Close()
				pr := vInProto(n.D)
				c.Set("mode_option", vC13ModeNames[opt])
				c.Set("conns_latency", lat.String())
				n.H.Emit(event.EvtLocalReachabilityChanged{Reachability: network.ReachabilityPublic})
				time.Sleep(time.Millisecond)
				synctest.Wait()
				if !c.Check(n.H.Handler(pr) != nil, "handlers-iff-mode-of-last-event", "option %s after ReachabilityPublic: no stream handler registered", vC13ModeNames[opt]) {
					return
				}
				for i, k := 0, r.Intn(4); i < k; i++ {
					st := vInOpen(n, nd.peer(), nil)
					nd.serveCheck(st, "before")
					nd.open = append(nd.open, st)
				}
				nOpen := len(nd.open)
				n.H.Net.ConnsDelay.Store(int64(lat))
				pairs := 1
				lg0 := len(n.H.HandlerLg)
				n.H.Emit(event.EvtLocalReachabilityChanged{Reachability: network.ReachabilityPrivate})
				n.H.Emit(event.EvtLocalReachabilityChanged{Reachability: network.ReachabilityPublic})
				// the node is a server again, for good, once the handler has been removed (private) and set again (public):
				// the events are processed in order by one goroutine
				deadline := time.Now().Add(3*lat + time.Second)
				back := false
				for time.Now().Before(deadline) && !back {
					time.Sleep(time.Millisecond)
					removed := false
					for _, e := range n.H.HandlerLg[lg0:] {
						if e.Proto != pr {
							continue
						}
						if !e.Set {
							removed = true
						} else if removed {
							back = true
						}
					}
				}
				if !c.Check(back && n.H.Handler(pr) != nil, "handlers-iff-mode-of-last-event", "option %s, events private, public: the stream handler was not removed and set again within %v", vC13ModeNames[opt], 3*lat+time.Second) {
					return
				}
				st := vInOpen(n, nd.peer(), nil)
				var at []time.Duration
				for _, f := range []float64{0, 0.4, 1.05, 1.6, 2.5} {
					at = append(at, time.Duration(f*float64(lat)))
				}
				at = append(at, time.Duration(2.5*float64(lat))+time.Second)
				start := time.Now()
				for _, a := range at {
					if d := a - time.Since(start); d > 0 {
						time.Sleep(d)
					}
					req := nd.request()
					err := st.E.WriteMsg(req)
					time.Sleep(time.Millisecond)
					synctest.Wait()
					out, detail := vC13Outcome(st, req)
					c.Obs("requests", 1)
					if !c.Check(err == nil && out == "answered", "server-mode-answers", "stream opened after the node had become a server again (events private, public back to back x%d; Conns() takes %v): request at +%v: write err=%v, outcome %s %s", pairs, lat, a, err, out, detail) {
						break
					}
				}
				synctest.Wait()
				for _, o := range nd.open {
					c.Check(o.L.WasReset() && o.Ended(), "open-streams-reset-on-switch-to-client", "a stream that was open when the node switched to client mode was not reset (reset=%v, handler returned=%v)", o.L.WasReset(), o.Ended())
				}
				nd.open = nil
				c.Check(n.H.Handler(pr) != nil, "handlers-iff-mode-of-last-event", "at rest after the events (last: public): no stream handler registered")
				st.E.Reset()
				synctest.Wait()
				if lat > 0 {
					c.Nontrivial(fmt.Sprintf("%s/%v/%d/%d/%d", vC13ModeNames[opt], lat, nOpen, len(n.IDs), nd.seq))
				}
			})
		})
}

// TestVerif_C13_closeswitch: a switch to client mode that is overtaken by Close. The switch has begun (the stream
// handler is removed) and is collecting the host's connections when Close is called; the reachability event is
// handled to its end all the same (Close waits for the event loop), so every inbound DHT stream that was open is
// reset and a request written to it afterwards gets no answer: the node left server mode.
func TestVerif_C13_closeswitch(t *testing.T) {
	vh.Run(t, vh.Spec{Prop: "C13", Unit: "closeswitch", Quick: 120, Thorough: 3000, CostMs: 8,
		Rule:    "Mode(ModeAuto) / Mode(ModeAutoServer) node in server mode with 1-3 open inbound streams (each served once) on a host whose Conns() takes 20 / 200 / 900 ms of virtual time; event private; as soon as the stream handler is removed (the switch has begun) and after a PRNG 10-90 % of the Conns() latency, Close; when Close has returned: every stream that was open is reset and its handler has returned, no handler is registered; non-trivial = Close returned after the switch had begun and before Conns() would have returned; distinct by (option, latency, streams, Close offset)",
		Clauses: []string{"open-streams-reset-on-switch-to-client", "handlers-iff-mode-of-last-event"}},
		func(c *vh.Case) {
			c.Bubble(t, time.Hour, "mode-switch-hang", func(t *testing.T) {
				r := c.R
				opt := []ModeOpt{ModeAuto, ModeAutoServer}[r.Intn(2)]
				lat := []time.Duration{20 * time.Millisecond, 200 * time.Millisecond, 900 * time.Millisecond}[c.Idx%3]
				nd := vC13NewNode(t, c, opt, []int{3, 8, 20}[r.Intn(3)])
				n := nd.n
				defer n.Close()
				pr := vInProto(n.D)
				c.Set("mode_option", vC13ModeNames[opt])
				c.Set("conns_latency", lat.String())
				n.H.Emit(event.EvtLocalReachabilityChanged{Reachability: network.ReachabilityPublic})
				time.Sleep(time.Millisecond)
				synctest.Wait()
				if !c.Check(n.H.Handler(pr) != nil, "handlers-iff-mode-of-last-event", "option %s after ReachabilityPublic: no stream handler registered", vC13ModeNames[opt]) {
					return
				}
				for i, k := 0, 1+r.Intn(3); i < k; i++ {
					st := vInOpen(n, nd.peer(), nil)
					nd.serveCheck(st, "before")
					nd.open = append(nd.open, st)
				}
				nOpen := len(nd.open)
				n.H.Net.ConnsDelay.Store(int64(lat))
				lg0 := len(n.H.HandlerLg)
				n.H.Emit(event.EvtLocalReachabilityChanged{Reachability: network.ReachabilityPrivate})
				began := false
				for i := 0; i < 2000 && !began; i++ {
					synctest.Wait()
					for _, e := range n.H.HandlerLg[lg0:] {
						if e.Proto == pr && !e.Set {
							began = true
						}
					}
					if !began {
						time.Sleep(100 * time.Microsecond)
					}
				}
				if !c.Check(began, "handlers-iff-mode-of-last-event", "option %s, event private: the stream handler was not removed within 200 ms", vC13ModeNames[opt]) {
					return
				}
				tBegan := time.Now()
				off := time.Duration(float64(lat) * (0.1 + 0.8*r.Float64()))
				time.Sleep(off)
				if err := n.D.Close(); err != nil {
					c.Logf("Close returned %v", err)
				}
				closedAfter := time.Since(tBegan)
				synctest.Wait()
				c.Set("close_called_after_switch_began", off.String())
				c.Set("close_returned_after_switch_began", closedAfter.String())
				for _, o := range nd.open {
					if !c.Check(o.L.WasReset() && o.Ended(), "open-streams-reset-on-switch-to-client", "a stream that was open when the node switched to client mode was not reset although the switch had begun %v before Close was called and Close has returned (reset=%v, handler returned=%v; Conns() takes %v)", off, o.L.WasReset(), o.Ended(), lat) {
						// does the node still serve it?
						req := nd.request()
						_ = o.E.WriteMsg(req)
						time.Sleep(time.Millisecond)
						synctest.Wait()
						out, detail := vC13Outcome(o, req)
						c.Logf("witness: a request written to that stream afterwards: %s (%s)", out, detail)
						o.E.Reset()
					}
				}
				nd.open = nil
				c.Check(n.H.Handler(pr) == nil, "handlers-iff-mode-of-last-event", "after the event private and Close a stream handler is registered")
				synctest.Wait()
				if off < lat {
					c.Nontrivial(fmt.Sprintf("%s/%v/%d/%v", vC13ModeNames[opt], lat, nOpen, off))
				}
			})
		})
}
