//go:build verif

package dht

// Shared root-package harness: an IpfsDHT over a fake host and a simulated network
// (internal/verif/vsim), with lookup events stamped synchronously. Must be used inside a
// synctest bubble (vh.Case.Bubble): everything is created and closed in it.

import (
	"context"
	"fmt"
	"sort"
	"sync"
	"testing"
	"time"

	ds "github.com/ipfs/go-datastore"
	record "github.com/libp2p/go-libp2p-record"
	"github.com/libp2p/go-libp2p/core/peer"
	ma "github.com/multiformats/go-multiaddr"

	"github.com/libp2p/go-libp2p-kad-dht/internal/verif/vh"
	"github.com/libp2p/go-libp2p-kad-dht/internal/verif/vjds"
	"github.com/libp2p/go-libp2p-kad-dht/internal/verif/vsim"
)

// vNetCfg describes a simulated network and the DHT under test.
type vNetCfg struct {
	N           int    // simulated peers
	K, A, B     int    // bucket size, alpha, beta
	Knowledge   string // full | kbucket | sparse
	Seeds       int    // routing-table seeds requested (bucket capacity may admit fewer)
	Mode        ModeOpt
	Opts        []Option // extra options (appended last)
	Validator   record.Validator
	Store       ds.Batching // nil: fresh vjds store
	KeepFixLow  bool        // keep the fix-low-peers loop
	AutoRefresh bool
	PrivateAddr bool // give peers RFC1918 addresses instead of public ones
	// OptsFn, if set, supplies options that need the fake host (e.g. a diversity filter).
	OptsFn func(n *vNet) []Option
	// RealSender: use the DHT's own message sender (internal/net) over simulated streams instead of handing the
	// simulation in as the message sender.
	RealSender bool
	// AddrFn, if set, overrides the address of simulated peer i.
	AddrFn func(i int) ma.Multiaddr
}

// vNet is a DHT wired to a simulated network.
type vNet struct {
	C    *vh.Case
	Cfg  vNetCfg
	H    *vsim.Host
	S    *vsim.Sim
	D    *IpfsDHT
	J    *vjds.Store
	IDs  []peer.ID // simulated peers, index = creation order
	idx  map[peer.ID]int
	Self peer.ID

	evMu   sync.Mutex
	events []vLookupEv
}

// vLookupEv is a lookup event with the sequence stamp taken when the monitor received it.
type vLookupEv struct {
	Seq int64
	VT  time.Time
	Ev  *LookupEvent
}

// vPeerAddr returns a distinct public (or private) address per peer index: every peer sits
// in its own /16 so that IP-diversity filters never interfere unless a monitor wants them to.
func vPeerAddr(i int, private bool) ma.Multiaddr {
	if private {
		return ma.StringCast(fmt.Sprintf("/ip4/10.%d.%d.1/tcp/4001", (i/250)%250, i%250))
	}
	return ma.StringCast(fmt.Sprintf("/ip4/%d.%d.0.1/tcp/4001", 130+(i/250)%39, i%250)) // 130-168.x: public, no legacy class-A group
}

// vNewNet builds the simulation and the DHT. Call inside a bubble; call Close before leaving it.
func vNewNet(t *testing.T, c *vh.Case, cfg vNetCfg) *vNet {
	LookupEventBufferSize = 0 // events are handed over synchronously to the monitor's consumer
	n := &vNet{C: c, Cfg: cfg, idx: map[peer.ID]int{}}
	n.Self = vsim.PeerID("self", c.Idx)
	n.H = vsim.NewHost(n.Self, ma.StringCast("/ip4/9.9.9.9/tcp/4001"))
	n.S = vsim.NewSim(n.H, cfg.K)
	for i := 0; i < cfg.N; i++ {
		id := vsim.PeerID(fmt.Sprintf("n%d", c.Idx), i)
		n.IDs = append(n.IDs, id)
		n.idx[id] = i
		addr := vPeerAddr(i, cfg.PrivateAddr)
		if cfg.AddrFn != nil {
			addr = cfg.AddrFn(i)
		}
		n.S.Add(&vsim.SimPeer{ID: id, Addrs: []ma.Multiaddr{addr}})
	}
	switch cfg.Knowledge {
	case "kbucket":
		n.S.KnowKBucket(cfg.K, c.R)
	case "sparse":
		n.S.KnowSparse(cfg.K+c.R.Intn(2*cfg.K+1), c.R)
	default:
		n.S.KnowFull()
	}
	store := cfg.Store
	if store == nil {
		n.J = vjds.New()
		store = n.J
	}
	opts := []Option{
		ProtocolPrefix("/verif"), BucketSize(cfg.K), Concurrency(cfg.A), Resiliency(cfg.B),
		Datastore(store),
	}
	if cfg.RealSender {
		// the DHT's own message sender over simulated streams (the simulated peers serve their scripts per stream)
		n.H.StreamFn = n.S.StreamFn()
	} else {
		opts = append(opts, WithCustomMessageSender(n.S.Builder()))
	}
	if cfg.Mode != 0 {
		opts = append(opts, Mode(cfg.Mode))
	} else {
		opts = append(opts, Mode(ModeClient))
	}
	if !cfg.AutoRefresh {
		opts = append(opts, DisableAutoRefresh())
	}
	if !cfg.KeepFixLow {
		opts = append(opts, disableFixLowPeersRoutine(t))
	}
	if cfg.Validator != nil {
		opts = append(opts, Validator(cfg.Validator))
	}
	opts = append(opts, cfg.Opts...)
	if cfg.OptsFn != nil {
		opts = append(opts, cfg.OptsFn(n)...)
	}
	d, err := New(n.H, opts...)
	if err != nil {
		panic(fmt.Sprintf("vNewNet: dht.New: %v", err))
	}
	n.D = d
	// seeds
	if cfg.Seeds > 0 && cfg.N > 0 {
		perm := c.R.Perm(cfg.N)
		added := 0
		for _, i := range perm {
			if added >= cfg.Seeds {
				break
			}
			if ok, _ := d.routingTable.TryAddPeer(n.IDs[i], true, false); ok {
				added++
			}
		}
	}
	return n
}

// Close shuts the DHT and the fake host down (inside the bubble).
func (n *vNet) Close() {
	n.D.Close()
	n.H.Close()
}

// Index returns the creation index of a simulated peer (-1 for strangers).
func (n *vNet) Index(p peer.ID) int {
	if i, ok := n.idx[p]; ok {
		return i
	}
	return -1
}

// Name renders a peer as its index (or short id for strangers / self).
func (n *vNet) Name(p peer.ID) string {
	if p == n.Self {
		return "self"
	}
	if i, ok := n.idx[p]; ok {
		return fmt.Sprintf("p%d", i)
	}
	return "x" + vsim.Short(p)
}

// Names renders a peer list.
func (n *vNet) Names(ps []peer.ID) []string {
	out := make([]string, len(ps))
	for i, p := range ps {
		out[i] = n.Name(p)
	}
	return out
}

// WithEvents returns a context under which lookups publish their events to this vNet
// (stamped from the simulation's sequence counter), and a function returning the events
// received so far. The consumer ends when ctx is cancelled; call wait() after cancelling
// to be sure everything published was recorded.
func (n *vNet) WithEvents(ctx context.Context) (lctx context.Context, events func() []vLookupEv, wait func()) {
	lctx, ch := RegisterForLookupEvents(ctx)
	done := make(chan struct{})
	var mu sync.Mutex
	var evs []vLookupEv
	go func() {
		defer close(done)
		for ev := range ch {
			e := vLookupEv{Seq: n.H.Seq.Add(1), VT: time.Now(), Ev: ev}
			mu.Lock()
			evs = append(evs, e)
			mu.Unlock()
		}
	}()
	return lctx, func() []vLookupEv {
		mu.Lock()
		defer mu.Unlock()
		return append([]vLookupEv(nil), evs...)
	}, func() { <-done }
}

// vKadIDs converts event peer lists.
func vEvPeers(ps []*PeerKadID) []peer.ID {
	out := make([]peer.ID, 0, len(ps))
	for _, p := range ps {
		if p != nil {
			out = append(out, p.Peer)
		}
	}
	return out
}

// vSortedNames is a helper for deterministic logs.
func vSortedNames(n *vNet, set map[peer.ID]bool) []string {
	var out []string
	for p := range set {
		out = append(out, n.Name(p))
	}
	sort.Strings(out)
	return out
}

// vNearest returns the k nearest of set to key by the monitor's own XOR arithmetic.
func vNearest(key string, set map[peer.ID]bool, k int) []peer.ID {
	var ps []peer.ID
	for p := range set {
		ps = append(ps, p)
	}
	return vsim.Nearest([]byte(key), ps, k)
}

// vCrossCheckDistance compares the monitor's distance arithmetic with go-libp2p-kbucket on
// a few random inputs; a disagreement is a harness error (panic => reported, not a verdict
// about the code).
func vEqualIDs(a, b []peer.ID) bool {
	if len(a) != len(b) {
		return false
	}
	for i := range a {
		if a[i] != b[i] {
			return false
		}
	}
	return true
}
