//go:build verif

package dht

// C10 — no remote response can crash, wedge or over-feed a client (public-call level).
//
// C01-style simulated networks in which a PRNG share of the peers lies: huge closer lists
// (strangers, known peers, duplicates), self, garbage entries (empty / junk ids, undecodable
// and over-budget address lists), other-key records, huge provider lists. Every adversarial
// reply passes the wire (marshal + unmarshal) before the code sees it. One public operation
// per case: GetClosestPeers, FindPeer, GetValue, FindProvidersAsync.

import (
	"context"
	"crypto/sha256"
	"errors"
	"fmt"
	"sort"
	"strings"
	"testing"
	"testing/synctest"
	"time"

	"github.com/ipfs/go-cid"
	record "github.com/libp2p/go-libp2p-record"
	recpb "github.com/libp2p/go-libp2p-record/pb"
	"github.com/libp2p/go-libp2p/core/network"
	"github.com/libp2p/go-libp2p/core/peer"
	ma "github.com/multiformats/go-multiaddr"
	mh "github.com/multiformats/go-multihash"
	"google.golang.org/protobuf/proto"

	"github.com/libp2p/go-libp2p-kad-dht/internal/verif/vh"
	"github.com/libp2p/go-libp2p-kad-dht/internal/verif/vsim"
	pb "github.com/libp2p/go-libp2p-kad-dht/pb"
)

// vC10Validator accepts every value of the form "val:<anything>": it is deliberately
// key-agnostic, so that only the messenger's record-key check stands between an other-key
// record and the caller. Select prefers the lexicographically greatest value.
type vC10Validator struct{}

func (vC10Validator) Validate(key string, value []byte) error {
	if !strings.HasPrefix(string(value), "val:") {
		return errors.New("vC10Validator: malformed value")
	}
	return nil
}

func (vC10Validator) Select(key string, vals [][]byte) (int, error) {
	best := 0
	for i, v := range vals {
		if string(v) > string(vals[best]) {
			best = i
		}
	}
	return best, nil
}

var _ record.Validator = vC10Validator{}

// vC10Rewire passes resp through the wire in place: what the code sees is what a decoder produces.
func vC10Rewire(resp *pb.Message) {
	b, err := proto.Marshal(resp)
	if err != nil {
		panic(err)
	}
	out := new(pb.Message)
	if err := proto.Unmarshal(b, out); err != nil {
		panic(err)
	}
	proto.Reset(resp)
	proto.Merge(resp, out)
}

// vC10BigAddrs is the deterministic over-budget address list liars attach to peer index i:
// 40 distinct valid /dns4/<1000 bytes>/tcp/443 addresses (≈ 40 KB; 8 fit the 8 KiB budget; the
// peerstore's own cap of 64 addresses per peer is not reached).
func vC10BigAddrs(i int) [][]byte {
	out := make([][]byte, 0, 40)
	for j := 0; j < 40; j++ {
		name := fmt.Sprintf("%03d-%03d-", i, j) + strings.Repeat(string(rune('a'+i%26)), 992)
		b := []byte{54, byte(len(name)&0x7f) | 0x80, byte(len(name) >> 7)}
		b = append(b, name...)
		out = append(out, append(b, 6, 0x01, 0xbb))
	}
	return out
}

var vC10JunkAddrs = [][]byte{{0x04, 1, 2}, {0xff, 0xff, 0x03, 1}, {}, {0x06}, []byte("/ip4/1.2.3.4"), {0x35, 0xff, 0xff, 0xff, 0x0f}}

type vC10Scenario struct {
	Cfg       vNetCfg
	Op        string
	LiarFrac  float64
	Count     int // FindProvidersAsync count
	Deadline  time.Duration
	Diversity int // > 0: routing-table IP-diversity filter with this per-group limit (the lookup then also filters responses by IP group)
}

func TestVerif_C10_lookupcap(t *testing.T) {
	vh.Run(t, vh.Spec{Prop: "C10", Unit: "lookupcap", Quick: 800, Thorough: 30000, CostMs: 25,
		Rule:    "PRNG networks (N 6-150, K in {1,2,3,5,8,20}, alpha/beta as C01, knowledge full/kbucket) in which 20-90% of the peers lie on FIND_NODE / GET_VALUE / GET_PROVIDERS: closer lists of 300-4000 entries (strangers, known peers, one peer repeated), self only / self first, garbage entries (empty and junk ids, undecodable addresses, 40 x 1 KB address lists for known peers), other-key / keyless / valueless records, provider lists of 300-4000 entries incl. self and strangers; all replies pass marshal+unmarshal; one GetClosestPeers / FindPeer / GetValue / FindProvidersAsync per case in virtual time (10% with a deadline; 20% with the routing-table IP-diversity filter on, which makes the lookup filter responses by IP group as well); oracle: the call returns within the virtual budget, no panic, every response event heard <= 2K, a returned value was sent under the requested key, addresses stored for a peer named with a 40 KB address list stay within 8 KiB; non-trivial = at least one response event came from a reply carrying more than 2K closer peers (the cap had something to cut); distinct by (shape, op, liar behaviours, response order)",
		Clauses: []string{"operation-returns", "heard-at-most-2k", "value-from-own-key-record", "peerstore-record-bounded", "result-shape"}},
		func(c *vh.Case) {
			r := c.R
			ks := []int{1, 2, 3, 5, 8, 20}
			k := ks[r.Intn(len(ks))]
			a := []int{1, 2, 3, 10}[r.Intn(4)]
			b := []int{1, 2, 3, k}[r.Intn(4)]
			nPeers := 6 + r.Intn(40)
			if r.Intn(3) == 0 {
				nPeers = 40 + r.Intn(110)
			}
			sc := vC10Scenario{Op: []string{"gcp", "findpeer", "getvalue", "findprovs"}[r.Intn(4)],
				LiarFrac: []float64{0.2, 0.5, 0.9}[r.Intn(3)]}
			sc.Cfg = vNetCfg{N: nPeers, K: k, A: a, B: b, Knowledge: []string{"full", "kbucket"}[r.Intn(2)], Seeds: 1 + r.Intn(k+5), Validator: vC10Validator{}}
			if r.Intn(10) == 0 {
				sc.Deadline = time.Duration(50+r.Intn(3000)) * time.Millisecond
			}
			sc.Count = []int{0, 1, k, 3 * k}[r.Intn(4)]
			if r.Intn(5) == 0 {
				sc.Diversity = 2 + r.Intn(3) // every simulated peer and stranger sits in its own /16: the filter admits them all
			}
			c.Set("ip_diversity_limit", sc.Diversity)
			c.Set("N", nPeers)
			c.Set("K_alpha_beta", []int{k, a, b})
			c.Set("op", sc.Op)
			c.Set("liar_frac", sc.LiarFrac)
			c.Set("deadline_ms", sc.Deadline.Milliseconds())
			c.Bubble(t, 30*time.Minute, "operation-hang", func(t *testing.T) { vC10RunLookupCap(t, c, sc) })
		})
}

func vC10RunLookupCap(t *testing.T, c *vh.Case, sc vC10Scenario) {
	r := c.R
	var n *vNet
	if sc.Diversity > 0 {
		// as in C01: the table's diversity filter reads a peer's address from its connection, so the seeds are
		// connected first and added by hand
		cfg, want, lim := sc.Cfg, sc.Cfg.Seeds, sc.Diversity
		cfg.Seeds = 0
		cfg.OptsFn = func(n *vNet) []Option {
			return []Option{RoutingTablePeerDiversityFilter(NewRTPeerDiversityFilter(n.H, 1000, lim))}
		}
		n = vNewNet(t, c, cfg)
		n.H.RemoteAddrFn = func(p peer.ID) ma.Multiaddr {
			if sp := n.S.Peer(p); sp != nil && len(sp.Addrs) > 0 {
				return sp.Addrs[0]
			}
			return nil
		}
		added := 0
		for _, i := range r.Perm(cfg.N) {
			if added >= want {
				break
			}
			n.H.Net.AddConn(n.IDs[i], network.DirOutbound, nil, false)
			if ok, _ := n.D.routingTable.TryAddPeer(n.IDs[i], true, false); ok {
				added++
			} else {
				n.H.Net.Disconnect(n.IDs[i], false)
			}
		}
	} else {
		n = vNewNet(t, c, sc.Cfg)
	}
	defer n.Close()
	K := sc.Cfg.K
	key := fmt.Sprintf("/v/key-%d-%d", c.Idx, r.Int63())
	otherKey := key + "-other"
	keyMH, _ := mh.Sum([]byte(key), mh.SHA2_256, -1)
	target := peer.ID("")
	if sc.Op == "findpeer" {
		target = n.IDs[r.Intn(len(n.IDs))]
		if r.Intn(4) == 0 {
			target = vsim.PeerID(fmt.Sprintf("c10target%d", c.Idx), 0) // nobody is this peer
		}
	}
	// values: sent under the right key (legal results) vs sent under another key / no key
	legal := map[string]bool{}
	illegal := map[string]bool{}
	behaviours := map[peer.ID]string{}
	strangerNo := 0
	bigTargets := map[int]bool{}
	for i, id := range n.IDs {
		sp := n.S.Peer(id)
		idx := i
		base := time.Duration(1+r.Intn(60)) * time.Millisecond
		// honest content
		if sc.Op == "getvalue" && r.Intn(4) == 0 {
			v := fmt.Sprintf("val:%s:%03d", key, r.Intn(5))
			legal[v] = true
			sp.Values[key] = record.MakePutRecord(key, []byte(v))
		}
		if sc.Op == "findprovs" && r.Intn(4) == 0 {
			sp.Providers[string(keyMH)] = []peer.AddrInfo{n.S.AddrInfoOf(n.IDs[r.Intn(len(n.IDs))])}
		}
		kind := ""
		if r.Float64() < sc.LiarFrac {
			kind = []string{"huge-strangers", "huge-known", "huge-dup", "self", "garbage", "bigaddrs", "wrongrec", "huge-provs", "huge-strangers", "mixed"}[r.Intn(10)]
		}
		behaviours[id] = kind
		if kind == "" {
			sp.Script = func(cnt int, req *pb.Message) vsim.Reply { return vsim.Reply{Delay: base} }
			continue
		}
		sid := strangerNo
		strangerNo += 5000
		nBig := 300 + r.Intn(3700)
		bt := r.Intn(len(n.IDs))
		bigTargets[bt] = true
		liarVal := fmt.Sprintf("val:liar-%d-%d", idx, r.Int63())
		wrongMode := r.Intn(5)
		illegal[liarVal] = true // only ever sent under another key or without key
		kk := kind
		sp.Script = func(cnt int, req *pb.Message) vsim.Reply {
			if req == nil {
				return vsim.Reply{}
			}
			rep := vsim.Reply{Delay: base + time.Duration((cnt*31+idx)%5)*time.Millisecond}
			switch req.GetType() {
			case pb.Message_FIND_NODE, pb.Message_GET_VALUE, pb.Message_GET_PROVIDERS:
			default:
				return rep // store RPCs and pings are answered honestly (PUT_VALUE echo: defect #3 is judged in pb/messenger)
			}
			rep.Mutate = func(req, resp *pb.Message) {
				self := &pb.Message_Peer{Id: []byte(n.Self), Addrs: [][]byte{ma.StringCast("/ip4/9.9.9.9/tcp/4001").Bytes()}}
				strangers := func(m int) []*pb.Message_Peer {
					out := make([]*pb.Message_Peer, m)
					for j := range out {
						out[j] = &pb.Message_Peer{Id: []byte(vsim.PeerID(fmt.Sprintf("c10s%d", c.Idx), sid+j)), Addrs: [][]byte{vPeerAddr(sid+j, false).Bytes()}}
					}
					return out
				}
				known := func(m int) []*pb.Message_Peer {
					out := make([]*pb.Message_Peer, m)
					for j := range out {
						ai := n.S.AddrInfoOf(n.IDs[(idx+j)%len(n.IDs)])
						out[j] = pb.RawPeerInfosToPBPeers([]peer.AddrInfo{ai})[0]
					}
					return out
				}
				mode := kk
				if mode == "mixed" {
					mode = []string{"huge-strangers", "huge-known", "self", "garbage", "bigaddrs", "wrongrec", "huge-provs"}[(cnt+idx)%7]
				}
				switch mode {
				case "huge-strangers":
					resp.CloserPeers = append(strangers(nBig), resp.CloserPeers...)
				case "huge-known":
					resp.CloserPeers = known(nBig)
					if idx%3 == 0 {
						// ... with the requester itself listed many times behind the oversized list
						for j := 0; j < 1+idx%50; j++ {
							resp.CloserPeers = append(resp.CloserPeers, self)
						}
					}
				case "huge-dup":
					one := known(1)[0]
					resp.CloserPeers = nil
					for j := 0; j < nBig; j++ {
						resp.CloserPeers = append(resp.CloserPeers, one)
					}
				case "self":
					if idx%2 == 0 {
						resp.CloserPeers = []*pb.Message_Peer{self, self, self}
					} else {
						resp.CloserPeers = append([]*pb.Message_Peer{self}, resp.CloserPeers...)
					}
					resp.ProviderPeers = append(resp.ProviderPeers, self)
				case "garbage":
					resp.Type = pb.Message_MessageType(99)
					resp.Key = nil
					g := []*pb.Message_Peer{{}, {Id: []byte{}}, {Id: []byte{1, 2, 3}, Addrs: vC10JunkAddrs}, {Id: []byte(n.IDs[(idx+1)%len(n.IDs)]), Addrs: vC10JunkAddrs, Connection: pb.Message_ConnectionType(-1)},
						{Id: []byte(strings.Repeat("x", 300)), Addrs: [][]byte{vPeerAddr(idx, false).Bytes()}}}
					resp.CloserPeers = append(g, resp.CloserPeers...)
					resp.ProviderPeers = append(resp.ProviderPeers, g...)
					if target != "" {
						resp.CloserPeers = append(resp.CloserPeers, &pb.Message_Peer{Id: []byte(target), Addrs: vC10JunkAddrs})
					}
				case "bigaddrs":
					e := &pb.Message_Peer{Id: []byte(n.IDs[bt]), Addrs: vC10BigAddrs(bt), Connection: pb.Message_ConnectionType(7)}
					resp.CloserPeers = append([]*pb.Message_Peer{e}, resp.CloserPeers...)
					resp.ProviderPeers = append(resp.ProviderPeers, e)
				case "wrongrec":
					switch wrongMode {
					case 0:
						resp.Record = &recpb.Record{Key: []byte(otherKey), Value: []byte(liarVal)}
					case 1:
						resp.Record = &recpb.Record{Value: []byte(liarVal)}
					case 2:
						resp.Record = &recpb.Record{Key: []byte(key)} // no value
					case 3:
						resp.Record = &recpb.Record{Key: []byte(key[:len(key)-1]), Value: []byte(liarVal)}
					default:
						resp.Record = &recpb.Record{}
					}
				case "huge-provs":
					resp.ProviderPeers = append(strangers(nBig), self)
					resp.ProviderPeers = append(resp.ProviderPeers, known(min(nBig, 50))...)
				}
				vC10Rewire(resp)
			}
			return rep
		}
	}
	synctest.Wait()

	ctx, cancel := context.WithCancel(context.Background())
	defer cancel()
	opCtx := ctx
	if sc.Deadline > 0 {
		var c2 context.CancelFunc
		opCtx, c2 = context.WithTimeout(ctx, sc.Deadline)
		defer c2()
	}
	lctx, events, wait := n.WithEvents(opCtx)
	start := time.Now()
	var opErr error
	outcome := ""
	switch sc.Op {
	case "gcp":
		var ps []peer.ID
		ps, opErr = n.D.GetClosestPeers(lctx, key)
		seen := map[peer.ID]bool{}
		okShape := len(ps) <= K
		for _, p := range ps {
			if seen[p] || p == n.Self {
				okShape = false
			}
			seen[p] = true
		}
		c.Check(okShape, "result-shape", "GetClosestPeers returned %d peers (K=%d), duplicates or self: %v", len(ps), K, n.Names(ps))
		outcome = fmt.Sprintf("%d peers", len(ps))
	case "findpeer":
		var pi peer.AddrInfo
		pi, opErr = n.D.FindPeer(lctx, target)
		if opErr == nil {
			c.Check(pi.ID == target, "result-shape", "FindPeer(%s) returned info for %s", n.Name(target), n.Name(pi.ID))
		} else {
			c.Check(pi.ID == "" && len(pi.Addrs) == 0, "result-shape", "FindPeer returned both an error and a result")
		}
		outcome = fmt.Sprintf("addrs=%d", len(pi.Addrs))
	case "getvalue":
		var val []byte
		// every second value search runs with an explicit quorum of 1 or 2: sequences of well-formed, diverging
		// records (better, stale, equal) then reach the quorum / abort paths of the search as well
		if c.Idx%2 == 0 {
			val, opErr = n.D.GetValue(lctx, key, Quorum(1+(c.Idx/2)%2))
		} else {
			val, opErr = n.D.GetValue(lctx, key)
		}
		if opErr == nil {
			c.Check(legal[string(val)] && !illegal[string(val)], "value-from-own-key-record", "GetValue(%q) returned %q, which no reply carried in a record for that key (sent under another key or keyless: %v)", key, val, illegal[string(val)])
		} else {
			c.Clause("value-from-own-key-record")
		}
		outcome = fmt.Sprintf("value=%q", val)
	case "findprovs":
		ch := n.D.FindProvidersAsync(lctx, cid.NewCidV1(cid.Raw, keyMH), sc.Count)
		got := 0
		for range ch {
			got++
		}
		c.Obs("providers_delivered", got)
		outcome = fmt.Sprintf("%d providers (count=%d)", got, sc.Count)
	}
	c.Clause("operation-returns")
	dur := time.Since(start)
	cancel()
	wait()
	synctest.Wait()

	// ---- oracle over events, wire log, peerstore
	evs := events()
	log := n.S.Log()
	sentBy := map[peer.ID]int{} // longest closer list a peer sent
	for _, e := range log {
		if e.Kind == vsim.EvReply && e.Err == "" && len(e.Closer) > sentBy[e.Peer] {
			sentBy[e.Peer] = len(e.Closer)
		}
	}
	capped := 0
	var order []string
	first := true
	for _, e := range evs {
		rsp := e.Ev.Response
		if rsp == nil {
			continue
		}
		if first { // the seed event
			first = false
			continue
		}
		heard := vEvPeers(rsp.Heard)
		cause := peer.ID("")
		if rsp.Cause != nil {
			cause = rsp.Cause.Peer
		}
		if len(vEvPeers(rsp.Queried)) > 0 {
			c.Check(len(heard) <= 2*K, "heard-at-most-2k", "response event of %s (%s, sent %d closer peers): %d peers heard, 2K=%d", n.Name(cause), behaviours[cause], sentBy[cause], len(heard), 2*K)
			c.ObsMax("heard_per_response", len(heard))
			if sentBy[cause] > 2*K {
				capped++
			}
			order = append(order, n.Name(cause))
		}
	}
	// addresses stored for peers that liars named with the 40 KB address list
	for bt := range bigTargets {
		id := n.IDs[bt]
		size := 0
		cnt := 0
		for _, a := range n.H.Peerstore().Addrs(id) {
			if a.Equal(vPeerAddr(bt, sc.Cfg.PrivateAddr)) {
				continue
			}
			cnt++
			size += 1 + 2 + len(a.Bytes())
		}
		if cnt > 0 {
			c.Check(size <= pb.MaxPeerRecordSize, "peerstore-record-bounded", "peerstore holds %d addresses (%d bytes framed) for %s, every reply naming it carried the same 40 x 1 KB address list", cnt, size, n.Name(id))
			c.Obs("bounded_records_in_peerstore", 1)
		}
	}
	c.Obs("lookup_events", len(evs))
	c.Obs("rpcs", len(log)/2)
	c.Obs("dials", len(n.H.DialLog()))
	c.Obs("responses_capped", capped)
	c.Set("outcome", outcome)
	c.Set("error", fmt.Sprint(opErr))
	c.Set("virtual_duration_ms", dur.Milliseconds())
	var beh []string
	for p, b := range behaviours {
		if b != "" {
			beh = append(beh, n.Name(p)+"="+b)
		}
	}
	sort.Strings(beh)
	if len(beh) > 40 {
		beh = beh[:40]
	}
	c.Logf("liars: %s", strings.Join(beh, " "))
	c.Logf("response order: %s", strings.Join(order, " "))
	if capped > 0 {
		h := sha256.Sum256([]byte(fmt.Sprintf("%d/%d/%d/%d/%s/%s/%s/%s", sc.Cfg.N, K, sc.Cfg.A, sc.Cfg.B, sc.Cfg.Knowledge, sc.Op, strings.Join(beh, ","), strings.Join(order, ","))))
		c.Nontrivial(fmt.Sprintf("%x", h[:8]))
	}
}
