//go:build verif

package dht

// C08 — provider searches yield only reported providers, bounded by count (standard client).

import (
	"context"
	"crypto/sha256"
	"errors"
	"fmt"
	"math/rand"
	"sort"
	"strings"
	"sync"
	"sync/atomic"
	"testing"
	"testing/synctest"
	"time"

	"github.com/ipfs/go-cid"
	"github.com/libp2p/go-libp2p/core/peer"
	ma "github.com/multiformats/go-multiaddr"
	mh "github.com/multiformats/go-multihash"

	"github.com/libp2p/go-libp2p-kad-dht/internal/verif/vh"
	"github.com/libp2p/go-libp2p-kad-dht/internal/verif/vsim"
	pb "github.com/libp2p/go-libp2p-kad-dht/pb"
)

type vC08Sc struct {
	Cfg        vNetCfg
	Count      int
	MaxDelay   int
	FailFrac   float64
	HolderFrac float64
	NProv      int
	NLocal     int
	CancelAt   time.Duration
	SlowMs     int // consumer sleeps up to this many ms after each value (0: immediate)
}

type vC08Yield struct {
	VT time.Time
	AI peer.AddrInfo
}

func vC08Gen(c *vh.Case) vC08Sc {
	r := c.R
	k := []int{1, 2, 3, 5, 8, 20}[r.Intn(6)]
	a := []int{1, 2, 3, 10}[r.Intn(4)]
	b := []int{1, 2, 3, k}[r.Intn(4)]
	var n int
	switch x := r.Intn(10); {
	case x < 2:
		n = 1 + r.Intn(8)
	case x < 8:
		n = 8 + r.Intn(70)
	default:
		n = 80 + r.Intn(150)
	}
	if c.Tier == "thorough" && r.Intn(10) == 0 {
		n = 230 + r.Intn(500)
	}
	sc := vC08Sc{Cfg: vNetCfg{N: n, K: k, A: a, B: b, Knowledge: []string{"full", "kbucket", "kbucket", "sparse"}[r.Intn(4)], Seeds: 1 + r.Intn(k+5)}}
	sc.Count = []int{0, 0, 1, 2, 5, k, 100}[r.Intn(7)]
	sc.MaxDelay = []int{5, 50, 400}[r.Intn(3)]
	sc.FailFrac = []float64{0, 0, 0.15, 0.35}[r.Intn(4)]
	sc.HolderFrac = []float64{0.05, 0.2, 0.5, 0.9}[r.Intn(4)]
	sc.NProv = []int{0, 1, 3, 5, 8, 14}[r.Intn(6)]
	sc.NLocal = []int{0, 0, 0, 1, 2, 4}[r.Intn(6)]
	if r.Intn(7) == 0 {
		sc.CancelAt = time.Duration(1+r.Intn(3*sc.MaxDelay+20)) * time.Millisecond
	}
	if r.Intn(7) == 0 {
		sc.SlowMs = 1 + r.Intn(60)
	}
	if sc.CancelAt == 0 && r.Intn(25) == 0 {
		sc.CancelAt = -time.Duration(1 + r.Intn(2)) // -1: context cancelled before the call, -2: deadline already expired
	}
	return sc
}

func vC08AddrStrings(as []ma.Multiaddr) []string {
	out := make([]string, len(as))
	for i, a := range as {
		out[i] = a.String()
	}
	sort.Strings(out)
	return out
}

func TestVerif_C08_findprov(t *testing.T) {
	vh.Run(t, vh.Spec{Prop: "C08", Unit: "findprov", Quick: 2000, Thorough: 60000, CostMs: 5,
		Rule:    "PRNG networks as C01 (N 1-230, thorough up to 730; K/alpha/beta menus; knowledge full/kbucket/sparse; 0-35% responders dead/erroring/silent); a pool of 0-14 providers (simulated peers, strangers, occasionally the local node; with or without addresses); each responder holds a PRNG subset, advertising each provider with or without its addresses (so the same provider is first seen without and later with addresses), some answers list a provider twice; 0-4 providers stored locally (with/without addresses); count in {0,1,2,5,K,100}; latencies 1-400 ms decide arrival order; 1/7 cancelled at a PRNG instant, 1/25 called with a context that is already cancelled or past its deadline; 1/7 with a slow consumer; oracle over the values received (virtual receive time) and the GET_PROVIDERS requests/answers of the simulated wire log; non-trivial = at least two answers naming providers were processed and (count>0 was reached, or a provider was repeated, or count=0 with >= 2 distinct providers); distinct by (shape, count, arrival order of naming answers)",
		Clauses: []string{"yielded-was-named", "yielded-addresses-named", "at-most-count", "repeat-only-adds-addresses", "stops-asking-at-count", "count0-yields-all-named", "channel-closed-in-time", "channel-closed-after-cancel", "repeat-seen", "count-reached-seen"}},
		func(c *vh.Case) {
			sc := vC08Gen(c)
			c.Bubble(t, 30*time.Minute, "findproviders-hang", func(t *testing.T) { vC08Run(t, c, sc) })
		})
}

func vC08Run(t *testing.T, c *vh.Case, sc vC08Sc) {
	r := c.R
	n := vNewNet(t, c, sc.Cfg)
	defer n.Close()
	// deterministic provider shuffle (the code's default is the global math/rand source)
	var shMu sync.Mutex
	shR := rand.New(rand.NewSource(r.Int63()))
	n.D.shuffle = func(k int, swap func(i, j int)) {
		shMu.Lock()
		defer shMu.Unlock()
		shR.Shuffle(k, swap)
	}
	var seed [32]byte
	r.Read(seed[:])
	keyMH, err := mh.Sum(seed[:], mh.SHA2_256, -1)
	if err != nil {
		panic(err)
	}
	key := string(keyMH)
	cidKey := cid.NewCidV1(cid.Raw, keyMH)

	// provider pool
	type prov struct {
		id    peer.ID
		addrs []ma.Multiaddr
		name  string
	}
	var pool []prov
	for i := 0; i < sc.NProv; i++ {
		p := prov{}
		switch x := r.Intn(20); {
		case x < 6 && len(n.IDs) > 0:
			p.id = n.IDs[r.Intn(len(n.IDs))]
		case x == 6:
			p.id = n.Self
		default:
			p.id = vsim.PeerID(fmt.Sprintf("prov%d", c.Idx), i)
		}
		dup := false
		for _, q := range pool {
			if q.id == p.id {
				dup = true
			}
		}
		if dup {
			continue
		}
		if r.Intn(4) != 0 {
			p.addrs = append(p.addrs, ma.StringCast(fmt.Sprintf("/ip4/%d.%d.7.7/tcp/%d", 20+i, 1+r.Intn(200), 4000+i)))
			if r.Intn(3) == 0 {
				p.addrs = append(p.addrs, ma.StringCast(fmt.Sprintf("/ip4/%d.%d.8.8/udp/%d/quic-v1", 20+i, 1+r.Intn(200), 4000+i)))
			}
		}
		p.name = fmt.Sprintf("P%d", i)
		pool = append(pool, p)
	}
	pname := map[peer.ID]string{}
	for _, p := range pool {
		pname[p.id] = p.name
	}
	nm := func(p peer.ID) string {
		if s, ok := pname[p]; ok {
			return s + "(" + n.Name(p) + ")"
		}
		return n.Name(p)
	}
	// responders
	beh := map[peer.ID]string{}
	for i, id := range n.IDs {
		sp := n.S.Peer(id)
		base := time.Duration(1+r.Intn(sc.MaxDelay)) * time.Millisecond
		kind := "ok"
		if r.Float64() < sc.FailFrac {
			kind = []string{"dead", "reqerr", "silent", "dialslow"}[r.Intn(4)]
		}
		if len(pool) > 0 && r.Float64() < sc.HolderFrac {
			cnt := 1 + r.Intn(min(5, len(pool)))
			perm := r.Perm(len(pool))
			var infos []peer.AddrInfo
			for _, j := range perm[:cnt] {
				ai := peer.AddrInfo{ID: pool[j].id}
				if len(pool[j].addrs) > 0 && r.Intn(5) < 3 {
					ai.Addrs = pool[j].addrs[:1+r.Intn(len(pool[j].addrs))]
				}
				infos = append(infos, ai)
				if r.Intn(10) == 0 { // the same provider listed twice in one answer
					infos = append(infos, peer.AddrInfo{ID: pool[j].id, Addrs: pool[j].addrs})
				}
			}
			sp.Providers[key] = infos
			kind += "/holder"
		}
		beh[id] = kind
		if strings.HasPrefix(kind, "dead") {
			sp.Dead = true
			continue
		}
		idx, kk := i, strings.TrimSuffix(kind, "/holder")
		sp.Script = func(cnt int, req *pb.Message) vsim.Reply {
			if req == nil {
				if kk == "dialslow" {
					return vsim.Reply{DialFail: true, Delay: base}
				}
				return vsim.Reply{}
			}
			rep := vsim.Reply{Delay: base + time.Duration((cnt*37+idx)%7)*time.Millisecond}
			switch kk {
			case "reqerr":
				rep.Err = errors.New("vsim: stream reset by peer")
			case "silent":
				rep.Silent = true
			}
			return rep
		}
	}
	// local provider records
	ctx0 := context.Background()
	local := map[peer.ID][]string{}
	if len(pool) > 0 {
		perm := r.Perm(len(pool))
		for _, j := range perm[:min(sc.NLocal, len(pool))] {
			ai := peer.AddrInfo{ID: pool[j].id}
			if len(pool[j].addrs) > 0 && r.Intn(2) == 0 {
				ai.Addrs = pool[j].addrs
			}
			if err := n.D.providerStore.AddProvider(ctx0, keyMH, ai); err != nil {
				panic(err)
			}
			local[ai.ID] = vC08AddrStrings(ai.Addrs)
		}
	}
	synctest.Wait()
	tableSize := n.D.routingTable.Size()

	ctx, cancel := context.WithCancel(context.Background())
	defer cancel()
	var cancelNs atomic.Int64
	if sc.CancelAt > 0 {
		tm := time.AfterFunc(sc.CancelAt, func() { cancelNs.Store(time.Now().UnixNano()); cancel() })
		defer tm.Stop()
	}
	start := time.Now()
	switch sc.CancelAt {
	case -1:
		cancelNs.Store(start.UnixNano())
		cancel()
	case -2:
		var dc context.CancelFunc
		ctx, dc = context.WithDeadline(ctx, start.Add(-time.Second))
		defer dc()
		cancelNs.Store(start.UnixNano())
	}
	ch := n.D.FindProvidersAsync(ctx, cidKey, sc.Count)
	var ys []vC08Yield
	// Half of the cancelled searches have a consumer that stops reading at the cancellation (the
	// usual "cancel and walk away" caller): the channel must be closed all the same, no producer
	// may stay blocked sending on it.
	abandon, abandoned := sc.CancelAt > 0 && c.Idx%2 == 0, false
	var gone <-chan struct{}
	if abandon {
		gone = ctx.Done()
	}
consume:
	for {
		select {
		case ai, ok := <-ch:
			if !ok {
				break consume
			}
			ys = append(ys, vC08Yield{VT: time.Now(), AI: ai})
			if sc.SlowMs > 0 {
				time.Sleep(time.Duration(1+r.Intn(sc.SlowMs)) * time.Millisecond)
			}
			if abandon && ctx.Err() != nil { // cancelled while this value was being handled
				abandoned = true
				break consume
			}
		case <-gone:
			abandoned = true
			break consume
		}
	}
	if abandoned {
		time.Sleep(time.Second) // the bound of clause channel-closed-after-cancel
		synctest.Wait()
		select {
		case ai, ok := <-ch:
			c.Check(!ok, "channel-closed-after-cancel", "the consumer stopped reading when the search was cancelled; 1 s later the channel is not closed: a producer was still blocked sending %s on it", n.Name(ai.ID))
		default:
			c.Check(false, "channel-closed-after-cancel", "the consumer stopped reading when the search was cancelled; 1 s later the channel is still open")
		}
		for range ch { // let whatever is left conclude
		}
		c.Obs("abandoned_searches", 1)
	}
	c.Set("consumer_abandons_at_cancel", abandon)
	closeVT := time.Now()
	cancelled := ctx.Err() != nil
	cancel()
	synctest.Wait()
	log := n.S.Log()
	dials := n.H.DialLog()

	// what the wire says
	type naming struct {
		vt    time.Time
		from  peer.ID
		addrs []string
	}
	named := map[peer.ID][]naming{}
	var order []string
	answers, namingAnswers := 0, 0
	var reqs []vsim.Event
	lastWire := start
	for _, e := range log {
		if e.VT.After(lastWire) {
			lastWire = e.VT
		}
		if e.Type != pb.Message_GET_PROVIDERS || string(e.Key) != key {
			continue
		}
		if e.Kind == vsim.EvRequest {
			reqs = append(reqs, e)
			continue
		}
		if e.Kind != vsim.EvReply || e.Err != "" || e.Msg == nil {
			continue
		}
		answers++
		if len(e.Msg.GetProviderPeers()) > 0 {
			namingAnswers++
			order = append(order, n.Name(e.Peer))
		}
		for _, pp := range e.Msg.GetProviderPeers() {
			id := peer.ID(pp.GetId())
			named[id] = append(named[id], naming{vt: e.VT, from: e.Peer, addrs: vC08AddrStrings(pp.Addresses())})
		}
	}
	for _, de := range dials {
		if de.End.After(lastWire) {
			lastWire = de.End
		}
	}
	c.Obs("rpcs", len(log)/2)
	c.Obs("get_providers_requests", len(reqs))
	c.Obs("answers", answers)
	c.Obs("answers_naming_providers", namingAnswers)
	c.Obs("values_yielded", len(ys))
	c.Obs("local_providers", len(local))

	// (a) soundness, (c) repeats
	perPeer := map[peer.ID][]vC08Yield{}
	var distinctOrder []peer.ID
	var reachedAt time.Time
	reached := false
	for i, y := range ys {
		id := y.AI.ID
		_, isLocal := local[id]
		ok := isLocal
		for _, nmg := range named[id] {
			if !nmg.vt.After(y.VT) {
				ok = true
			}
		}
		c.Check(ok, "yielded-was-named", "value %d: %s yielded at +%v is neither stored locally nor named as provider in an answer returned by then (named later/never: %d answers)", i, nm(id), y.VT.Sub(start), len(named[id]))
		if len(y.AI.Addrs) > 0 {
			okA := true
			var bad string
			for _, a := range vC08AddrStrings(y.AI.Addrs) {
				found := false
				for _, la := range local[id] {
					if la == a {
						found = true
					}
				}
				for _, nmg := range named[id] {
					if nmg.vt.After(y.VT) {
						continue
					}
					for _, na := range nmg.addrs {
						if na == a {
							found = true
						}
					}
				}
				if !found {
					okA, bad = false, a
				}
			}
			c.Check(okA, "yielded-addresses-named", "value %d: %s yielded with address %s that neither the local store nor any answer returned by then gave for it", i, nm(id), bad)
		}
		if len(perPeer[id]) == 0 {
			distinctOrder = append(distinctOrder, id)
			if sc.Count > 0 && len(distinctOrder) == sc.Count && !reached {
				reached, reachedAt = true, y.VT
			}
		}
		perPeer[id] = append(perPeer[id], y)
		c.Logf("yield %d +%v %s addrs=%d", i, y.VT.Sub(start), nm(id), len(y.AI.Addrs))
	}
	repeats := 0
	for id, l := range perPeer {
		if len(l) == 1 {
			continue
		}
		repeats++
		ok := len(l) == 2 && len(l[0].AI.Addrs) == 0 && len(l[1].AI.Addrs) > 0
		c.Check(ok, "repeat-only-adds-addresses", "%s yielded %d times with %d, %d, … addresses: a repeat is only allowed once, to add addresses the first value lacked", nm(id), len(l), len(l[0].AI.Addrs), len(l[1].AI.Addrs))
	}
	if repeats > 0 {
		c.Clause("repeat-seen")
	}
	c.Obs("distinct_providers_yielded", len(distinctOrder))
	c.Obs("repeated_providers", repeats)
	// (b) cap, (d) stops asking
	if sc.Count > 0 {
		c.Check(len(distinctOrder) <= sc.Count, "at-most-count", "%d distinct providers yielded, count=%d", len(distinctOrder), sc.Count)
		if reached {
			c.Clause("count-reached-seen")
			var late []string
			for _, e := range reqs {
				if e.VT.After(reachedAt) {
					late = append(late, fmt.Sprintf("%s at +%v", n.Name(e.Peer), e.VT.Sub(start)))
				}
			}
			c.Check(len(late) == 0, "stops-asking-at-count", "count=%d was reached at +%v but GET_PROVIDERS requests were started later: %v", sc.Count, reachedAt.Sub(start), late)
		}
	}
	// (e) count 0: everything named in a processed answer (and everything local) is yielded
	if sc.Count == 0 && !cancelled {
		var missing []string
		for id := range named {
			if len(perPeer[id]) == 0 {
				missing = append(missing, nm(id))
			}
		}
		for id := range local {
			if len(perPeer[id]) == 0 {
				missing = append(missing, nm(id)+"(local)")
			}
		}
		sort.Strings(missing)
		c.Check(len(missing) == 0, "count0-yields-all-named", "count=0, search ran to completion, but these providers named in processed answers (or stored locally) were never yielded: %v", missing)
	}
	// (f) closed in time (the hang watchdog covers "never")
	cancelVT := time.Unix(0, cancelNs.Load())
	if sc.SlowMs == 0 && !abandoned { // (an abandoned search was judged above)
		c.Check(!closeVT.After(lastWire.Add(time.Second)), "channel-closed-in-time", "channel closed at +%v, more than 1 s after the last RPC/dial of the search concluded (+%v)", closeVT.Sub(start), lastWire.Sub(start))
		if cancelled && cancelNs.Load() != 0 {
			c.Check(!closeVT.After(cancelVT.Add(time.Second)), "channel-closed-after-cancel", "search cancelled at +%v, channel closed only at +%v", cancelVT.Sub(start), closeVT.Sub(start))
		}
	}
	c.Set("N", sc.Cfg.N)
	c.Set("K_alpha_beta", []int{sc.Cfg.K, sc.Cfg.A, sc.Cfg.B})
	c.Set("knowledge", sc.Cfg.Knowledge)
	c.Set("table_size", tableSize)
	c.Set("count", sc.Count)
	c.Set("pool", len(pool))
	c.Set("local", len(local))
	c.Set("holder_frac", sc.HolderFrac)
	c.Set("fail_frac", sc.FailFrac)
	c.Set("max_delay_ms", sc.MaxDelay)
	c.Set("cancel_at_ms", sc.CancelAt.Milliseconds())
	c.Set("slow_consumer_ms", sc.SlowMs)
	c.Set("virtual_duration_ms", closeVT.Sub(start).Milliseconds())
	c.Set("count_reached", reached)
	c.Logf("naming answers in arrival order: %s", strings.Join(order, " "))
	c.Logf("closed +%v cancelled=%v", closeVT.Sub(start), cancelled)
	if namingAnswers >= 2 && (reached || repeats > 0 || (sc.Count == 0 && len(distinctOrder) >= 2)) {
		if len(order) > 48 {
			order = order[:48]
		}
		h := sha256.Sum256([]byte(fmt.Sprintf("%d/%d/%d/%d/%d/%s", sc.Cfg.N, sc.Cfg.K, sc.Cfg.A, sc.Count, len(local), strings.Join(order, ","))))
		c.Nontrivial(fmt.Sprintf("%x", h[:8]))
	}
}
