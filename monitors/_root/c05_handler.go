//go:build verif

package dht

// C05 (handler / local-API half) — PUT_VALUE requires message key == record key; stored records
// always validate and are never downgraded; an acknowledged put is readable through GET_VALUE
// until it ages out and never after; a local PutValue is refused when a better value is stored.
// (The ValueStore itself — interleavings inside Put/Get, sweeps, restarts — is monitored in
// package records.)

import (
	"bytes"
	"context"
	"errors"
	"fmt"
	"strconv"
	"strings"
	"sync"
	"testing"
	"testing/synctest"
	"time"

	kb "github.com/libp2p/go-libp2p-kbucket"
	record "github.com/libp2p/go-libp2p-record"
	recpb "github.com/libp2p/go-libp2p-record/pb"
	"github.com/libp2p/go-libp2p/core/peer"
	"google.golang.org/protobuf/proto"

	"github.com/libp2p/go-libp2p-kad-dht/internal"
	"github.com/libp2p/go-libp2p-kad-dht/internal/verif/vh"
	"github.com/libp2p/go-libp2p-kad-dht/internal/verif/vjds"
	"github.com/libp2p/go-libp2p-kad-dht/internal/verif/vsim"
	pb "github.com/libp2p/go-libp2p-kad-dht/pb"
)

// vC05Stored is the monitor's view of one datastore key, rebuilt from the journal.
type vC05Stored struct {
	val vInVal
	raw []byte // record value bytes
	at  time.Time
}

type vC05H struct {
	c        *vh.Case
	n        *vNet
	maxAge   time.Duration
	keys     []string
	state    map[string]*vC05Stored // datastore key -> stored record (journal replay)
	dsOf     map[string]string      // record key -> datastore key
	lastRank map[string]int         // datastore key -> rank of the last put since the last delete
	jpos     int
	valID    int
	acked    map[string]vInVal // record key -> best acknowledged value still expected readable
	sig      []string
}

func (h *vC05H) newVal(key string, rank int) vInVal {
	h.valID++
	return vInVal{ID: h.valID, Rank: rank, Key: key}
}

// journal consumes the journal entries written since the last call and judges every write.
// It returns the number of puts / deletes seen.
func (h *vC05H) journal(what string) (puts, dels int) {
	c := h.c
	ents := h.n.J.J.Entries()
	for _, e := range ents[h.jpos:] {
		if !e.IsWrite() || e.Err != "" || strings.HasPrefix(e.Key, "/providers/") {
			continue
		}
		vt := time.Now()
		if ns, err := strconv.ParseInt(e.Role, 10, 64); err == nil {
			vt = time.Unix(0, ns)
		}
		switch e.Op {
		case vjds.OpPut:
			puts++
			c.Obs("journal_puts", 1)
			rec := new(recpb.Record)
			if !c.Check(proto.Unmarshal(e.Value, rec) == nil, "stored-record-valid-and-keyed", "%s: journal #%d: value written under %s is not a record", what, e.Seq, e.Key) {
				continue
			}
			key := string(rec.GetKey())
			c.Check(vInValueDsKey(key).String() == e.Key, "stored-record-valid-and-keyed", "%s: journal #%d: record with key %q written under %s (its own datastore key is %s)", what, e.Seq, key, e.Key, vInValueDsKey(key))
			v, ok := vInDec(rec.GetValue())
			valid := ok && !v.Bad && v.Key == key && (v.Exp == 0 || vt.UnixNano() <= v.Exp)
			c.Check(valid, "stored-record-valid-and-keyed", "%s: journal #%d: record written under %s does not validate for its key %q: %q", what, e.Seq, e.Key, key, vInTrim(rec.GetValue()))
			tr, err := internal.ParseRFC3339(rec.GetTimeReceived())
			c.Check(err == nil && tr.Sub(vt).Abs() < time.Second, "stored-record-stamped-with-receive-time", "%s: journal #%d: record written at %v carries receive time %q", what, e.Seq, vt.UTC(), rec.GetTimeReceived())
			if last, seen := h.lastRank[e.Key]; seen && ok {
				c.Check(v.Rank >= last, "never-downgraded", "%s: journal #%d: rank %d written over rank %d under %s with no delete in between", what, e.Seq, v.Rank, last, e.Key)
			}
			if ok {
				h.lastRank[e.Key] = v.Rank
				h.state[e.Key] = &vC05Stored{val: v, raw: rec.GetValue(), at: vt}
			}
		case vjds.OpDelete:
			dels++
			c.Obs("journal_deletes", 1)
			st := h.state[e.Key]
			if st != nil {
				c.Check(vt.Sub(st.at) >= h.maxAge, "delete-only-aged-out", "%s: journal #%d: record under %s deleted at age %v (max age %v)", what, e.Seq, e.Key, vt.Sub(st.at), h.maxAge)
			}
			delete(h.state, e.Key)
			delete(h.lastRank, e.Key)
		}
	}
	h.jpos = len(ents)
	return
}

func (h *vC05H) stored(key string) *vC05Stored { return h.state[vInValueDsKey(key).String()] }

// age classifies the age of what is stored under key: "none", "fresh", "boundary", "aged".
func (h *vC05H) age(key string) string {
	st := h.stored(key)
	if st == nil {
		return "none"
	}
	a := time.Since(st.at)
	switch {
	case (a - h.maxAge).Abs() <= time.Second:
		return "boundary"
	case a > h.maxAge:
		return "aged"
	}
	return "fresh"
}

func (h *vC05H) sender() peer.ID {
	if len(h.n.IDs) > 0 && h.c.R.Intn(2) == 0 {
		return h.n.IDs[h.c.R.Intn(len(h.n.IDs))]
	}
	return vsim.PeerID(fmt.Sprintf("c05x%d", h.c.Idx), h.c.R.Intn(4))
}

// remotePut sends one PUT_VALUE frame on a fresh stream and judges outcome and effects.
func (h *vC05H) remotePut(what string) {
	c, r := h.c, h.c.R
	key := h.keys[r.Intn(len(h.keys))]
	kind := []string{"ok", "ok", "ok", "ok", "invalid", "foreign", "validator-expired", "miskeyed", "miskeyed", "empty-message-key", "nil-record", "empty-record-key"}[r.Intn(12)]
	v := h.newVal(key, r.Intn(10))
	msgKey := []byte(key)
	switch kind {
	case "invalid":
		v.Bad = true
	case "foreign":
		v.Key = key + "-foreign"
	case "validator-expired":
		v.Exp = time.Now().Add(-time.Minute).UnixNano()
	}
	rec := record.MakePutRecord(key, vInEnc(v))
	switch kind {
	case "miskeyed":
		// message key and record key differ; the record is perfectly valid for its own key
		if r.Intn(2) == 0 {
			msgKey = []byte(h.keys[(vC05IndexOf(h.keys, key)+1)%len(h.keys)])
			if string(msgKey) == key {
				msgKey = []byte(key + "-x")
			}
		} else {
			msgKey = []byte(key + "-x")
		}
	case "empty-message-key":
		msgKey = nil
	case "nil-record":
		rec = nil
	case "empty-record-key":
		rec.Key = nil
	}
	if rec != nil {
		switch r.Intn(4) { // sender-chosen receive time: must be ignored
		case 0:
			rec.TimeReceived = internal.FormatRFC3339(time.Now().Add(1000 * time.Hour))
		case 1:
			rec.TimeReceived = internal.FormatRFC3339(time.Now().Add(-1000 * time.Hour))
		case 2:
			rec.TimeReceived = "garbage"
		}
	}
	req := &pb.Message{Type: pb.Message_PUT_VALUE, Key: msgKey, Record: rec}
	if r.Intn(4) == 0 {
		req.CloserPeers = pb.RawPeerInfosToPBPeers([]peer.AddrInfo{{ID: h.sender()}})
	}
	before := h.stored(key)
	st := vInOpen(h.n, h.sender(), nil)
	if !c.Check(st != nil, "harness", "server-mode node without handler") {
		return
	}
	defer h.end(st)
	st.E.WriteMsg(req)
	synctest.Wait()
	data, reset, _ := st.Drain()
	frames, rest := vInSplitFrames(data)
	vInPanicCheck(c, st, "no-panic")
	puts, _ := h.journal(what)
	acked := len(frames) == 1 && len(rest) == 0 && !reset
	c.Obs("put_value_frames", 1)
	c.Logf("%s PUT_VALUE key=%s kind=%s rank=%d stored=%s -> acked=%v reset=%v journal puts=%d", what, key, kind, v.Rank, h.describe(before), acked, reset, puts)
	c.Check(acked != reset && len(rest) == 0 && len(frames) <= 1, "put-acked-or-reset", "%s: PUT_VALUE ended with %d frames, %d stray bytes, reset=%v", what, len(frames), len(rest), reset)
	switch kind {
	case "miskeyed", "empty-message-key", "nil-record", "empty-record-key":
		c.Check(reset && !acked && puts == 0, "miskeyed-put-rejected-without-write", "%s: PUT_VALUE with message key %q and record key %q (%s): acked=%v reset=%v datastore writes=%d", what, msgKey, rec.GetKey(), kind, acked, reset, puts)
		h.sig = append(h.sig, "pm")
		return
	case "invalid", "foreign", "validator-expired":
		c.Check(reset && !acked && puts == 0, "invalid-put-rejected-without-write", "%s: PUT_VALUE with a record the validator rejects (%s): acked=%v reset=%v datastore writes=%d", what, kind, acked, reset, puts)
		h.sig = append(h.sig, "pi")
		return
	}
	// valid record: accepted iff it does not rank worse than what the datastore holds (ties: either)
	switch {
	case before == nil || v.Rank > before.val.Rank:
		c.Check(acked && puts == 1, "put-outcome-as-predicted", "%s: valid rank-%d record over %s: acked=%v reset=%v datastore writes=%d", what, v.Rank, h.describe(before), acked, reset, puts)
	case v.Rank < before.val.Rank:
		c.Check(!acked && puts == 0, "put-outcome-as-predicted", "%s: rank-%d record against stored %s: acked=%v datastore writes=%d", what, v.Rank, h.describe(before), acked, puts)
	default:
		c.Clause("put-tie-either")
	}
	c.Check(acked == (puts == 1) && puts <= 1, "put-ack-iff-written", "%s: acked=%v with %d datastore writes", what, acked, puts)
	if acked {
		var resp pb.Message
		ok := proto.Unmarshal(frames[0], &resp) == nil && resp.GetType() == pb.Message_PUT_VALUE && bytes.Equal(resp.GetKey(), msgKey) &&
			proto.Equal(resp.GetRecord(), rec) && len(resp.GetCloserPeers()) == 0 && len(resp.GetProviderPeers()) == 0
		c.Check(ok, "put-ack-echoes-request", "%s: acknowledgement is not the request's echo without peer records", what)
		now := h.stored(key)
		c.Check(now != nil && now.val.ID == v.ID, "put-ack-iff-written", "%s: acknowledged value #%d is not what the datastore holds (%s)", what, v.ID, h.describe(now))
		h.acked[key] = v
		h.sig = append(h.sig, "pa")
		// immediately readable
		if r.Intn(2) == 0 {
			h.remoteGet(what+"+get", key)
		}
	} else {
		h.sig = append(h.sig, "pr")
	}
	st.E.Close()
	synctest.Wait()
}

// end makes sure the stream's handler has returned before the monitor moves on.
func (h *vC05H) end(st *vInStream) {
	if !st.Ended() {
		st.E.Reset()
		synctest.Wait()
	}
}

func vC05IndexOf(a []string, s string) int {
	for i, x := range a {
		if x == s {
			return i
		}
	}
	return 0
}

func (h *vC05H) describe(st *vC05Stored) string {
	if st == nil {
		return "nothing"
	}
	return fmt.Sprintf("#%d rank %d age %v", st.val.ID, st.val.Rank, time.Since(st.at))
}

// judgeRead judges a record (or its absence) served for key against the journal-derived state.
func (h *vC05H) judgeRead(what, key string, rec *recpb.Record, ageClass string, before *vC05Stored) {
	c := h.c
	if rec != nil {
		c.Check(string(rec.GetKey()) == key, "served-record-has-requested-key", "%s: record with key %q served for %q", what, rec.GetKey(), key)
		v, ok := vInDec(rec.GetValue())
		c.Check(ok && before != nil && v.ID == before.val.ID, "served-record-is-stored-record", "%s: served value %q, datastore holds %s", what, vInTrim(rec.GetValue()), h.describe(before))
	}
	switch ageClass {
	case "fresh":
		c.Check(rec != nil, "acked-put-readable-until-aged-out", "%s: %s stored (%s, max age %v) but nothing was served", what, key, h.describe(before), h.maxAge)
		if a, ok := h.acked[key]; ok && rec != nil {
			v, _ := vInDec(rec.GetValue())
			c.Check(v.Rank >= a.Rank, "acked-put-readable-until-aged-out", "%s: acknowledged value #%d (rank %d) no longer readable: rank %d served", what, a.ID, a.Rank, v.Rank)
		}
	case "aged":
		c.Check(rec == nil, "aged-out-record-never-served", "%s: record stored %v ago served although the maximum record age is %v", what, time.Since(before.at), h.maxAge)
	case "none":
		c.Check(rec == nil, "served-record-is-stored-record", "%s: a record was served for %s although none is stored", what, key)
	default:
		c.Clause("age-boundary-either")
	}
}

// remoteGet sends GET_VALUE on a fresh stream.
func (h *vC05H) remoteGet(what, key string) {
	c := h.c
	before, ageClass := h.stored(key), h.age(key)
	st := vInOpen(h.n, h.sender(), nil)
	if st == nil {
		return
	}
	defer h.end(st)
	st.E.WriteMsg(&pb.Message{Type: pb.Message_GET_VALUE, Key: []byte(key)})
	synctest.Wait()
	data, reset, _ := st.Drain()
	frames, rest := vInSplitFrames(data)
	vInPanicCheck(c, st, "no-panic")
	c.Obs("get_value_frames", 1)
	var resp pb.Message
	if !c.Check(!reset && len(frames) == 1 && len(rest) == 0 && proto.Unmarshal(frames[0], &resp) == nil, "get-answered", "%s: GET_VALUE for %s: %d frames, reset=%v", what, key, len(frames), reset) {
		return
	}
	c.Logf("%s GET_VALUE key=%s stored=%s (%s) -> record=%v", what, key, h.describe(before), ageClass, resp.GetRecord() != nil)
	h.judgeRead(what, key, resp.GetRecord(), ageClass, before)
	h.sig = append(h.sig, "g"+ageClass[:1])
	h.journal(what)
	st.E.Close()
	synctest.Wait()
}

// localGet reads through the node's local read path (the local part of GetValue).
func (h *vC05H) localGet(what, key string) {
	before, ageClass := h.stored(key), h.age(key)
	rec, err := h.n.D.getLocal(context.Background(), key)
	h.c.Obs("local_gets", 1)
	if !h.c.Check(err == nil, "get-answered", "%s: getLocal(%s): %v", what, key, err) {
		return
	}
	h.c.Logf("%s getLocal key=%s stored=%s (%s) -> record=%v", what, key, h.describe(before), ageClass, rec != nil)
	h.judgeRead(what+" (local)", key, rec, ageClass, before)
	h.sig = append(h.sig, "l"+ageClass[:1])
	h.journal(what)
}

// localPut calls PutValue and judges refusal / acceptance.
func (h *vC05H) localPut(what string) {
	c, r := h.c, h.c.R
	key := h.keys[r.Intn(len(h.keys))]
	kind := []string{"ok", "ok", "ok", "ok", "ok", "invalid", "foreign", "same"}[r.Intn(8)]
	v := h.newVal(key, r.Intn(10))
	before, ageClass := h.stored(key), h.age(key)
	switch kind {
	case "invalid":
		v.Bad = true
	case "foreign":
		v.Key = key + "-foreign"
	case "same":
		if before != nil {
			v = before.val
		}
	}
	val := vInEnc(v)
	sentBefore := h.putRPCs()
	err := h.n.D.PutValue(context.Background(), key, val)
	synctest.Wait()
	puts, _ := h.journal(what)
	sent := h.putRPCs() - sentBefore
	c.Obs("local_puts", 1)
	c.Obs("put_value_rpcs_sent", sent)
	c.Logf("%s PutValue key=%s kind=%s rank=%d stored=%s (%s) -> err=%v journal puts=%d rpcs=%d", what, key, kind, v.Rank, h.describe(before), ageClass, err, puts, sent)
	if kind == "invalid" || kind == "foreign" {
		c.Check(err != nil && puts == 0 && sent == 0, "local-invalid-put-refused", "%s: PutValue of a value the validator rejects: err=%v datastore writes=%d rpcs=%d", what, err, puts, sent)
		h.sig = append(h.sig, "Li")
		return
	}
	if errors.Is(err, kb.ErrLookupFailure) && puts == 1 {
		err = nil // stored locally; only the publication found nobody to send to
	}
	c.Check((err == nil) == (puts == 1) && puts <= 1, "local-put-ok-iff-written", "%s: PutValue returned %v with %d datastore writes", what, err, puts)
	better := before != nil && ageClass == "fresh" && before.val.Rank > v.Rank && !bytes.Equal(before.raw, val)
	switch {
	case better:
		c.Check(err != nil && puts == 0 && sent == 0, "local-put-refused-when-better-stored", "%s: PutValue of rank %d although %s is stored: err=%v datastore writes=%d PUT_VALUE rpcs=%d", what, v.Rank, h.describe(before), err, puts, sent)
		h.sig = append(h.sig, "Lr")
	case before == nil || ageClass == "aged" || (ageClass == "fresh" && (before.val.Rank < v.Rank || bytes.Equal(before.raw, val))):
		c.Check(err == nil && puts == 1, "local-put-accepted-when-not-worse", "%s: PutValue of rank %d over %s (%s) refused: %v", what, v.Rank, h.describe(before), ageClass, err)
		h.sig = append(h.sig, "La")
	default:
		c.Clause("put-tie-either")
	}
	if err == nil {
		h.acked[key] = v
		if now := h.stored(key); now != nil {
			c.Check(now.val.ID == v.ID, "local-put-ok-iff-written", "%s: PutValue succeeded but the datastore holds %s", what, h.describe(now))
		}
	}
}

func (h *vC05H) putRPCs() int {
	nn := 0
	for _, e := range h.n.S.Log() {
		if e.Kind == vsim.EvRequest && e.Type == pb.Message_PUT_VALUE {
			nn++
		}
	}
	return nn
}

// burst: concurrent PUT_VALUE frames and a local PutValue on one key; only invariants are judged.
func (h *vC05H) burst(what string) {
	c, r := h.c, h.c.R
	key := h.keys[r.Intn(len(h.keys))]
	nw := 2 + r.Intn(4)
	type w struct {
		st *vInStream
		v  vInVal
	}
	var ws []w
	for i := 0; i < nw; i++ {
		st := vInOpen(h.n, h.sender(), nil)
		if st == nil {
			return
		}
		ws = append(ws, w{st, h.newVal(key, r.Intn(10))})
	}
	lv := h.newVal(key, r.Intn(10))
	var wg sync.WaitGroup
	var lerr error
	wg.Add(1)
	go func() {
		defer wg.Done()
		lerr = h.n.D.PutValue(context.Background(), key, vInEnc(lv))
	}()
	for _, x := range ws {
		x.st.E.WriteMsg(&pb.Message{Type: pb.Message_PUT_VALUE, Key: []byte(key), Record: record.MakePutRecord(key, vInEnc(x.v))})
	}
	wg.Wait()
	synctest.Wait()
	best := -1
	if lerr == nil {
		best = lv.Rank
	}
	for _, x := range ws {
		data, reset, _ := x.st.Drain()
		frames, _ := vInSplitFrames(data)
		if len(frames) == 1 && !reset && x.v.Rank > best {
			best = x.v.Rank
		}
		vInPanicCheck(c, x.st, "no-panic")
		x.st.E.Reset()
	}
	synctest.Wait()
	h.journal(what) // never-downgraded / validity of every write of the burst
	c.Obs("bursts", 1)
	now := h.stored(key)
	if best >= 0 {
		c.Check(now != nil && now.val.Rank >= best, "acked-put-readable-until-aged-out", "%s: after concurrent puts the best acknowledged rank is %d but the datastore holds %s", what, best, h.describe(now))
		h.acked[key] = vInVal{ID: -1, Rank: best, Key: key}
	}
	h.sig = append(h.sig, fmt.Sprintf("b%d", nw))
	c.Logf("%s burst key=%s writers=%d+local best acked rank=%d -> stored %s", what, key, nw, best, h.describe(now))
}

func TestVerif_C05_handler(t *testing.T) {
	vh.Run(t, vh.Spec{Prop: "C05", Unit: "handler", Quick: 600, Thorough: 20000, CostMs: 8,
		Rule:    "server-mode DHT over the journaling datastore with a generated validator (rank, invalid flag, validator expiry, key binding), MaxRecordAge 1 h, GC interval in {7 min, 25 min, 24 h}; sequential histories of 20-40 operations over 2-4 keys in virtual time: PUT_VALUE frames over fresh inbound streams (valid with PRNG rank, invalid, made for another key, validator-expired, message key != record key, empty message key, nil record, sender-chosen receive times), GET_VALUE frames, local PutValue (valid / invalid / same value) over a small simulated network, local reads, concurrent bursts of 2-5 PUT_VALUE + one PutValue on one key, clock advances around the maximum age; witness = datastore journal (virtual time stamped per access); non-trivial = at least one acknowledged put, one rejected worse or invalid put and one read after an advance beyond the maximum age; distinct by operation/outcome sequence",
		Clauses: []string{"stored-record-valid-and-keyed", "never-downgraded", "miskeyed-put-rejected-without-write", "invalid-put-rejected-without-write", "put-outcome-as-predicted", "put-ack-iff-written", "acked-put-readable-until-aged-out", "aged-out-record-never-served", "local-put-refused-when-better-stored", "local-put-accepted-when-not-worse", "local-invalid-put-refused", "served-record-has-requested-key", "stored-record-stamped-with-receive-time", "delete-only-aged-out"}},
		func(c *vh.Case) {
			c.Bubble(t, 1000*time.Hour, "handler-hang", func(t *testing.T) {
				r := c.R
				h := &vC05H{c: c, maxAge: time.Hour, state: map[string]*vC05Stored{}, lastRank: map[string]int{}, acked: map[string]vInVal{}}
				gc := []time.Duration{7 * time.Minute, 25 * time.Minute, 24 * time.Hour}[r.Intn(3)]
				N := 3 + r.Intn(6)
				h.n = vNewNet(t, c, vNetCfg{N: N, K: 3, A: 3, B: 3, Seeds: N, Mode: ModeServer, Validator: vInValidator{},
					Opts: []Option{MaxRecordAge(h.maxAge), ValueGCInterval(gc)}})
				defer h.n.Close()
				h.n.J.J.Hook = func(e *vjds.Entry) error { // stamp every access with its virtual time
					e.Role = strconv.FormatInt(time.Now().UnixNano(), 10)
					return nil
				}
				for i, nk := 0, 2+r.Intn(3); i < nk; i++ {
					h.keys = append(h.keys, fmt.Sprintf("/c05/%d-%c", c.Idx, 'a'+i))
				}
				if r.Intn(4) == 0 {
					h.keys = append(h.keys, fmt.Sprintf("plain-key-%d", c.Idx)) // no namespace: filed at the datastore root
				}
				c.Set("keys", h.keys)
				c.Set("gc_interval", gc.String())
				nops := 20 + r.Intn(21)
				agedRead := false
				for i := 0; i < nops; i++ {
					what := fmt.Sprintf("op%d", i)
					switch x := r.Intn(20); {
					case x < 7:
						h.remotePut(what)
					case x < 10:
						key := h.keys[r.Intn(len(h.keys))]
						if h.age(key) == "aged" {
							agedRead = true
						}
						h.remoteGet(what, key)
					case x < 13:
						h.localPut(what)
					case x < 15:
						key := h.keys[r.Intn(len(h.keys))]
						if h.age(key) == "aged" {
							agedRead = true
						}
						h.localGet(what, key)
					case x < 16:
						h.burst(what)
					default:
						d := []time.Duration{time.Second, 3 * time.Minute, 20 * time.Minute, 31 * time.Minute, 45 * time.Minute, 59*time.Minute + 59*time.Second + 500*time.Millisecond, time.Hour, time.Hour + 2*time.Second, 90 * time.Minute}[r.Intn(9)]
						time.Sleep(d)
						synctest.Wait()
						_, dels := h.journal(what + " advance")
						c.Logf("%s advance %v (sweeps deleted %d)", what, d, dels)
						c.Obs("sweep_deletes", dels)
						h.sig = append(h.sig, "t"+d.String())
						for k, a := range h.acked { // acknowledged puts that aged out are no longer expected
							if st := h.stored(k); st == nil || st.val.Rank < a.Rank {
								delete(h.acked, k)
							}
						}
					}
				}
				h.journal("end")
				seen := strings.Join(h.sig, " ")
				if strings.Contains(seen, "pa") && (strings.Contains(seen, "pr") || strings.Contains(seen, "pi") || strings.Contains(seen, "pm")) && agedRead {
					c.Nontrivial(vInHash(seen))
				}
			})
		})
}
