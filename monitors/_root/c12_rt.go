//go:build verif

package dht

// C12 — routing-table members have proven themselves; failed peers leave; every refresh request
// is answered (also during shutdown).
//
// Histories of steps (connect / identify / protocol update / health flip / disconnect / lookup
// (plain | cancelled | pre-cancelled) / refresh / idle / Close) over 3–15 simulated peers in
// virtual time. Every step ends at a rest point (no request or dial in flight, all goroutines
// durably blocked), where the oracle judges
//   * every PeerAdded / PeerRemoved callback of the routing table since the previous rest point
//     against the simulated wire log (vsim.Sim log + dial log + the monitor's own bus emissions),
//   * the membership (ListPeers) against the per-peer success / failure history,
//   * the refresh channels.
//
// Attribution of wire-log entries (see DESIGN C12):
//   FIND_NODE whose key is the recipient's own id  = probe (admission probe or refresh liveness probe)
//   FIND_NODE whose key is a monitor lookup key     = that lookup (keys are never peer ids)
//   any other FIND_NODE                             = lookup run by the refresh manager
//   dial not nested in a request                    = dht.dialPeer of a lookup / Connect of the refresh probe
// Cancellation classes (FA guard): a failure returned with ctx.Err() != nil is cancellation-class
// (must not evict in a lookup); a failure returned at/after the deadline of its ctx, or at the
// virtual instant at which the lookup was cancelled / terminated, is ambiguous (neither eviction
// nor retention is required).

import (
	"context"
	"crypto/sha256"
	"errors"
	"fmt"
	"math"
	"math/rand"
	"sort"
	"strings"
	"sync"
	"testing"
	"testing/synctest"
	"time"

	"github.com/libp2p/go-libp2p/core/event"
	"github.com/libp2p/go-libp2p/core/network"
	"github.com/libp2p/go-libp2p/core/peer"
	"github.com/libp2p/go-libp2p/core/protocol"

	"github.com/libp2p/go-libp2p-kad-dht/internal/verif/vh"
	"github.com/libp2p/go-libp2p-kad-dht/internal/verif/vsim"
	pb "github.com/libp2p/go-libp2p-kad-dht/pb"
)

// ---- configuration --------------------------------------------------------------------------

type vC12Cfg struct {
	N, K, A, B  int
	Filter      bool
	Period      time.Duration // routing-table refresh period
	QTimeout    time.Duration // refresh query timeout (= admission probe timeout)
	ReadTimeout time.Duration // read timeout of the simulated sender
	CheckConc   int           // LookupCheckConcurrency
	Scale       int           // latency scale (ms)
	Steps       int
	Grace       time.Duration // derived: age after which the refresh pings a member
	RealTime    bool          // not in a bubble (C12/closerace)
}

func vC12Grace(k, a int, period time.Duration) time.Duration {
	if a < k {
		l1 := math.Log(1 / float64(k))
		l2 := math.Log(1 - float64(a)/float64(k))
		return time.Duration(l1 / l2 * float64(period))
	}
	return period
}

func vC12Gen(c *vh.Case) vC12Cfg {
	r := c.R
	cfg := vC12Cfg{N: 3 + r.Intn(13)}
	cfg.K = []int{24, 40}[r.Intn(2)] // K large vs peer count: no bucket ever fills, no replacement evictions
	cfg.A = []int{1, 3, 10, cfg.K}[r.Intn(4)]
	cfg.B = cfg.K // no follow-up phase: every lookup request is a lookup-phase request
	if r.Intn(3) == 0 {
		cfg.B = []int{1, 3}[r.Intn(2)]
	}
	cfg.Filter = r.Intn(3) == 0
	cfg.Period = []time.Duration{20 * time.Second, time.Minute, 5 * time.Minute}[r.Intn(3)]
	for vC12Grace(cfg.K, cfg.A, cfg.Period) > 90*time.Minute {
		cfg.Period /= 2
	}
	cfg.Grace = vC12Grace(cfg.K, cfg.A, cfg.Period)
	cfg.QTimeout = []time.Duration{10 * time.Second, 10 * time.Second, 4 * time.Second}[r.Intn(3)]
	cfg.ReadTimeout = []time.Duration{10 * time.Second, 3 * time.Second}[r.Intn(2)]
	cfg.CheckConc = []int{256, 256, 1, 2}[r.Intn(4)]
	cfg.Scale = []int{1, 10, 50}[r.Intn(3)]
	cfg.Steps = 8 + r.Intn(9)
	return cfg
}

// ---- monitor state ----------------------------------------------------------------------------

type vC12CB struct {
	Seq  int64
	VT   time.Time
	Peer peer.ID
	Add  bool
}

type vC12ProtoEv struct {
	Seq      int64
	VT       time.Time
	Peer     peer.ID
	HasProto bool // peerstore held the DHT protocol when the event was emitted
	Pass     bool // generated routing-table filter admits the peer
	Kind     string
}

type vC12ProtoTL struct {
	Seq int64
	Has bool
}

type vC12Lookup struct {
	Key              string
	Mode             string
	StartSeq, EndSeq int64
	StartVT          time.Time
	Cancelled        bool
	CancelVT         time.Time
	Waiting          map[peer.ID]bool
	HasTerm          bool
	TermVT           time.Time
	Before           map[peer.ID]bool
}

type vC12Win struct {
	StartSeq, EndSeq int64
	Members          map[peer.ID]bool
}

// vC12Fact is one classified success / failure of a peer.
type vC12Fact struct {
	Seq, ReqSeq int64
	VT          time.Time
	Peer        peer.ID
	Ok          bool
	Src         string // probe | lookupM | followupM | lookupR | dialM | dialO
	Cancel      bool   // ctx error visible when the sender returned
	Ambig       bool   // at/after deadline, or at the instant of cancellation / termination
	Deadline    bool
	Demand      bool // the property requires the peer to be evicted
	Err         string
}

type vC12Mon struct {
	c     *vh.Case
	n     *vNet
	cfg   vC12Cfg
	proto protocol.ID
	conc  bool // concurrent variant: only admission invariants

	mu       sync.Mutex
	cbs      []vC12CB
	inflight int
	health   map[peer.ID]string
	delay    map[peer.ID]time.Duration
	hasProto map[peer.ID]bool
	protoTL  map[peer.ID][]vC12ProtoTL
	protoEvs []vC12ProtoEv
	lookups  []*vC12Lookup
	byKey    map[string]*vC12Lookup
	wins     []vC12Win
	closed   bool
	closeVT  time.Time
	closeSeq int64
	rejected map[peer.ID]bool

	t0     time.Time
	cbDone int

	issuedBefore, issuedAfter int // C12/closerace
	demandDone                int64
	members                   map[peer.ID]bool
	hist                      []string
	keyCnt                    int
}

const vC12Other = protocol.ID("/other/1.0.0")

var vC12FailKinds = []string{"reqerr", "dead", "dialslow", "silent", "flaky"}
var vC12OkKinds = []string{"ok", "ok", "ok", "ok", "ok", "slow", "empty", "liarself", "stranger", "slowdial"}

func vC12New(t *testing.T, c *vh.Case, cfg vC12Cfg, conc bool) *vC12Mon {
	m := &vC12Mon{c: c, cfg: cfg, conc: conc, health: map[peer.ID]string{}, delay: map[peer.ID]time.Duration{},
		hasProto: map[peer.ID]bool{}, protoTL: map[peer.ID][]vC12ProtoTL{}, byKey: map[string]*vC12Lookup{},
		rejected: map[peer.ID]bool{}, members: map[peer.ID]bool{}, t0: time.Now()}
	r := c.R
	// the generated routing-table filter is a pure function of the peer id (ids are deterministic)
	if cfg.Filter {
		for i := 0; i < cfg.N; i++ {
			if r.Intn(4) == 0 {
				m.rejected[vsim.PeerID(fmt.Sprintf("n%d", c.Idx), i)] = true
			}
		}
	}
	opts := []Option{
		RoutingTableRefreshPeriod(cfg.Period), RoutingTableRefreshQueryTimeout(cfg.QTimeout), LookupCheckConcurrency(cfg.CheckConc),
	}
	if cfg.Filter {
		rej := m.rejected
		opts = append(opts, RoutingTableFilter(func(_ any, p peer.ID) bool { return !rej[p] }))
	}
	n := vNewNet(t, c, vNetCfg{N: cfg.N, K: cfg.K, A: cfg.A, B: cfg.B, Knowledge: "full", Seeds: 0, KeepFixLow: true, Opts: opts})
	m.n = n
	m.proto = n.D.protocols[0]
	n.S.ReadTimeout = cfg.ReadTimeout
	if !cfg.RealTime {
		synctest.Wait()
	}
	// observation hooks (installed at rest: no peer is connected, nothing has been sent)
	n.S.OnEvent = func(e vsim.Event) {
		m.mu.Lock()
		switch e.Kind {
		case vsim.EvRequest, vsim.EvMessage:
			m.inflight++
		case vsim.EvReply:
			m.inflight--
		}
		m.mu.Unlock()
	}
	dial := n.H.DialFn
	n.H.DialFn = func(ctx context.Context, p peer.ID) error {
		m.mu.Lock()
		m.inflight++
		m.mu.Unlock()
		defer func() {
			m.mu.Lock()
			m.inflight--
			m.mu.Unlock()
		}()
		return dial(ctx, p)
	}
	rt := n.D.routingTable
	added, removed := rt.PeerAdded, rt.PeerRemoved
	// both callbacks run under the table's write lock: stamps are in the table's own order
	rt.PeerAdded = func(p peer.ID) {
		m.mu.Lock()
		m.cbs = append(m.cbs, vC12CB{Seq: n.H.Seq.Add(1), VT: time.Now(), Peer: p, Add: true})
		m.mu.Unlock()
		added(p)
	}
	rt.PeerRemoved = func(p peer.ID) {
		m.mu.Lock()
		m.cbs = append(m.cbs, vC12CB{Seq: n.H.Seq.Add(1), VT: time.Now(), Peer: p, Add: false})
		m.mu.Unlock()
		removed(p)
	}
	// peers: distinct latencies with distinct sub-millisecond parts (sums over distinct peers are never
	// a whole number of milliseconds, so a reply never coincides with a 4 s / 10 s deadline by accident)
	for i, id := range n.IDs {
		m.delay[id] = time.Duration(2+r.Intn(40))*time.Duration(cfg.Scale)*time.Millisecond + time.Duration(137*(i+1))*time.Microsecond
		if r.Intn(100) < 65 {
			m.health[id] = vC12OkKinds[r.Intn(len(vC12OkKinds))]
		} else {
			m.health[id] = vC12FailKinds[r.Intn(len(vC12FailKinds))]
		}
		m.installScript(i, id)
	}
	return m
}

func (m *vC12Mon) kind(p peer.ID) string {
	m.mu.Lock()
	defer m.mu.Unlock()
	return m.health[p]
}

func (m *vC12Mon) installScript(i int, id peer.ID) {
	n := m.n
	d := m.delay[id]
	sp := n.S.Peer(id)
	sp.Script = func(cnt int, req *pb.Message) vsim.Reply {
		kind := m.kind(id)
		if req == nil { // dial behaviour
			switch kind {
			case "dead":
				return vsim.Reply{DialFail: true}
			case "dialslow":
				return vsim.Reply{DialFail: true, Delay: d}
			case "slowdial":
				// healthy, but the connection takes 1-3 s to come up: such a dial can be in flight when a lookup
				// terminates or is cancelled (the dial then fails with the context's error: cancellation class)
				return vsim.Reply{Delay: d + time.Duration(1+i%3)*time.Second}
			}
			return vsim.Reply{}
		}
		rep := vsim.Reply{Delay: d}
		switch kind {
		case "slow":
			rep.Delay = d + time.Duration(2+i%4)*time.Second
		case "reqerr", "dead", "dialslow":
			rep.Err = errors.New("vsim: stream reset by peer")
		case "silent":
			rep.Silent = true
			rep.Delay = 0
		case "flaky":
			if cnt%2 == 0 {
				rep.Err = errors.New("vsim: stream reset by peer (flaky)")
			}
		case "probefail":
			// answers everything but a FIND_NODE for its own id (admission / liveness probe), which fails after 1.5-3 s
			if req.GetType() == pb.Message_FIND_NODE && string(req.GetKey()) == string(id) {
				rep.Delay = d + time.Duration(1500+(i%4)*500)*time.Millisecond
				rep.Err = errors.New("vsim: stream reset by peer (probe)")
			}
		case "empty":
			rep.Mutate = func(_, resp *pb.Message) { resp.CloserPeers = nil }
		case "liarself":
			rep.Mutate = func(_, resp *pb.Message) {
				self := peer.AddrInfo{ID: n.Self}
				resp.CloserPeers = append(pb.RawPeerInfosToPBPeers([]peer.AddrInfo{self}), resp.CloserPeers...)
			}
		case "stranger":
			rep.Mutate = func(_, resp *pb.Message) {
				xs := []peer.AddrInfo{{ID: vsim.PeerID(fmt.Sprintf("c12x%d", m.c.Idx), 2*i)}, {ID: vsim.PeerID(fmt.Sprintf("c12x%d", m.c.Idx), 2*i+1)}}
				resp.CloserPeers = append(pb.RawPeerInfosToPBPeers(xs), resp.CloserPeers...)
			}
		}
		return rep
	}
}

func (m *vC12Mon) inflightN() int {
	m.mu.Lock()
	defer m.mu.Unlock()
	return m.inflight
}

// settle advances virtual time until no request or dial is in flight and every goroutine is
// durably blocked.
func (m *vC12Mon) settle() bool {
	for i := 0; i < 600; i++ {
		synctest.Wait()
		if m.inflightN() == 0 {
			return true
		}
		time.Sleep(500*time.Millisecond + 13*time.Microsecond)
	}
	return false
}

func (m *vC12Mon) table() map[peer.ID]bool {
	out := map[peer.ID]bool{}
	for _, p := range m.n.D.routingTable.ListPeers() {
		out[p] = true
	}
	return out
}

func (m *vC12Mon) names(set map[peer.ID]bool) string {
	return strings.Join(vSortedNames(m.n, set), " ")
}

func (m *vC12Mon) logf(format string, args ...any) {
	s := fmt.Sprintf(format, args...)
	m.mu.Lock()
	m.hist = append(m.hist, s)
	m.mu.Unlock()
	m.c.Logf("%s", s)
}

// ---- actions ----------------------------------------------------------------------------------

func (m *vC12Mon) setProto(p peer.ID, has bool) {
	// stamp before the peerstore changes: whatever observes the new state has a later stamp
	m.mu.Lock()
	seq := m.n.H.Seq.Add(1)
	m.hasProto[p] = has
	m.protoTL[p] = append(m.protoTL[p], vC12ProtoTL{Seq: seq, Has: has})
	m.mu.Unlock()
	if has {
		m.n.H.Peerstore().AddProtocols(p, m.proto, vC12Other)
	} else {
		m.n.H.Peerstore().RemoveProtocols(p, m.proto)
	}
}

func (m *vC12Mon) noteProtoEv(p peer.ID, kind string) {
	m.mu.Lock()
	m.protoEvs = append(m.protoEvs, vC12ProtoEv{Seq: m.n.H.Seq.Add(1), VT: time.Now(), Peer: p, HasProto: m.hasProto[p], Pass: !m.rejected[p], Kind: kind})
	m.mu.Unlock()
}

func (m *vC12Mon) connect(p peer.ID) {
	if m.n.H.Net.Connectedness(p) == network.Connected {
		return
	}
	dir := network.DirOutbound
	if len(p)%2 == 0 {
		dir = network.DirInbound
	}
	m.n.H.Net.AddConn(p, dir, nil, false)
	m.n.H.Net.EmitConnectedness(p, network.Connected)
}

// identify: the peer's protocols enter the peerstore, then identification completes.
func (m *vC12Mon) identify(p peer.ID, withProto bool) {
	if p != m.n.Self {
		m.connect(p)
	}
	if withProto {
		m.setProto(p, true)
	} else {
		m.mu.Lock()
		has := m.hasProto[p]
		m.mu.Unlock()
		if !has {
			m.n.H.Peerstore().AddProtocols(p, vC12Other)
		}
	}
	m.noteProtoEv(p, "identify")
	m.n.H.Emit(event.EvtPeerIdentificationCompleted{Peer: p, Protocols: []protocol.ID{vC12Other}})
}

func (m *vC12Mon) protoUpdate(p peer.ID, add bool) {
	m.setProto(p, add)
	m.noteProtoEv(p, "protocols-updated")
	ev := event.EvtPeerProtocolsUpdated{Peer: p}
	if add {
		ev.Added = []protocol.ID{m.proto}
	} else {
		ev.Removed = []protocol.ID{m.proto}
	}
	m.n.H.Emit(ev)
}

func (m *vC12Mon) flip(p peer.ID, kind string) {
	m.mu.Lock()
	m.health[p] = kind
	m.mu.Unlock()
}

func (m *vC12Mon) newKey() string {
	m.mu.Lock()
	m.keyCnt++
	k := fmt.Sprintf("/verif/c12/%d/%d", m.c.Idx, m.keyCnt)
	m.mu.Unlock()
	return k
}

// lookup runs one GetClosestPeers; mode: plain | cancel | precancel.
func (m *vC12Mon) lookup(mode string, cancelAfter time.Duration, withEvents bool) (*vC12Lookup, []peer.ID, error) {
	n := m.n
	lk := &vC12Lookup{Key: m.newKey(), Mode: mode, Waiting: map[peer.ID]bool{}}
	if !m.conc {
		lk.Before = m.table()
	}
	ctx, cancel := context.WithCancel(context.Background())
	defer cancel()
	lctx := ctx
	var events func() []vLookupEv
	var wait func()
	if withEvents {
		lctx, events, wait = n.WithEvents(ctx)
	}
	m.mu.Lock()
	m.lookups = append(m.lookups, lk)
	m.byKey[lk.Key] = lk
	lk.StartSeq, lk.StartVT = n.H.Seq.Add(1), time.Now()
	m.mu.Unlock()
	doCancel := func() {
		m.mu.Lock()
		if !lk.Cancelled {
			lk.Cancelled, lk.CancelVT = true, time.Now()
		}
		m.mu.Unlock()
		cancel()
	}
	var tm *time.Timer
	switch mode {
	case "precancel":
		doCancel()
	case "cancel":
		tm = time.AfterFunc(cancelAfter, doCancel)
	}
	res, err := n.D.GetClosestPeers(lctx, lk.Key)
	if tm != nil {
		tm.Stop()
	}
	cancel()
	if withEvents {
		wait()
		for _, e := range events() {
			if e.Ev.Request != nil {
				for _, p := range vEvPeers(e.Ev.Request.Waiting) {
					lk.Waiting[p] = true
				}
			}
			if e.Ev.Terminate != nil {
				lk.HasTerm, lk.TermVT = true, e.VT
			}
		}
	}
	return lk, res, err
}

// refresh issues `reqs` refresh requests at once and awaits each answer within the bound.
func (m *vC12Mon) awaitRefresh(chs []<-chan error, bound time.Duration, clause string) {
	c := m.c
	tm := time.NewTimer(bound)
	defer tm.Stop()
	for i, ch := range chs {
		select {
		case v, ok := <-ch:
			c.Check(ok, clause, "refresh channel %d was closed without yielding a value", i)
			c.Obs("refresh_answers", 1)
			if v != nil {
				c.Obs("refresh_errors", 1)
			}
		case <-tm.C:
			c.Check(false, clause, "refresh request %d got no answer within %v of virtual time (history: %s)", i, bound, strings.Join(m.hist, " | "))
			return
		}
	}
	synctest.Wait()
	for i, ch := range chs {
		select {
		case v, ok := <-ch:
			c.Check(!ok, "refresh-one-value", "refresh channel %d yielded a second value %v", i, v)
			if !ok {
				c.Obs("refresh_closed", 1)
			}
		default:
			c.Clause("refresh-one-value") // one value, channel left open: still exactly one answer
		}
	}
}

func (m *vC12Mon) refreshBound() time.Duration {
	// one cycle: pings (<= 10 s) + (self + <= 16 buckets) queries of <= QTimeout each; a request may wait for one cycle
	return 2*(10*time.Second+17*m.cfg.QTimeout) + time.Minute
}

// ---- analysis -----------------------------------------------------------------------------------

func (m *vC12Mon) hasProtoAt(p peer.ID, seq int64) bool {
	has := false
	for _, e := range m.protoTL[p] {
		if e.Seq <= seq {
			has = e.Has
		}
	}
	return has
}

func (m *vC12Mon) hadProtoBefore(p peer.ID, seq int64) bool {
	for _, e := range m.protoTL[p] {
		if e.Seq <= seq && e.Has {
			return true
		}
	}
	return false
}

func (m *vC12Mon) beforeClose(vt time.Time) bool { return !m.closed || vt.Before(m.closeVT) }

// analyse classifies the wire log. Called at rest, with m.mu NOT held (state is stable at rest).
func (m *vC12Mon) analyse(cbs []vC12CB) map[peer.ID][]vC12Fact {
	log := m.n.S.Log()
	dials := m.n.H.DialLog()
	facts := map[peer.ID][]vC12Fact{}
	noFollowUp := m.cfg.B >= m.cfg.K
	type iv struct{ a, b int64 }
	ivs := map[peer.ID][]iv{}
	replied := map[int64]bool{}
	firstReq := map[string]int64{}     // key|peer -> seq of the first request
	probeReqs := map[peer.ID][]int64{} // request seqs of probes per peer
	for _, e := range log {
		switch e.Kind {
		case vsim.EvReply:
			ivs[e.Peer] = append(ivs[e.Peer], iv{e.ReqSeq, e.Seq})
			replied[e.ReqSeq] = true
		case vsim.EvRequest:
			k := string(e.Key) + "|" + string(e.Peer)
			if _, ok := firstReq[k]; !ok {
				firstReq[k] = e.Seq
			}
			if string(e.Key) == string(e.Peer) {
				probeReqs[e.Peer] = append(probeReqs[e.Peer], e.Seq)
			}
		}
	}
	for _, e := range log {
		if e.Kind == vsim.EvRequest && !replied[e.Seq] {
			ivs[e.Peer] = append(ivs[e.Peer], iv{e.Seq, math.MaxInt64})
		}
	}
	removedIn := func(p peer.ID, a, b int64) bool {
		for _, cb := range cbs {
			if !cb.Add && cb.Peer == p && cb.Seq > a && cb.Seq < b {
				return true
			}
		}
		return false
	}
	isRefreshProbe := func(e vsim.Event) bool {
		for _, w := range m.wins {
			if e.ReqSeq > w.StartSeq && e.ReqSeq < w.EndSeq && w.Members[e.Peer] {
				for _, s := range probeReqs[e.Peer] {
					if s > w.StartSeq && s < e.ReqSeq {
						return false // not the first probe of the window
					}
				}
				return !removedIn(e.Peer, w.StartSeq, e.ReqSeq)
			}
		}
		return false
	}
	// standalone (not nested in a request) failed dials: dht.dialPeer of a lookup's queryPeer or the
	// refresh probe's Connect. After one of them the lookup phase of that peer is over: a later
	// request with the lookup's key is the follow-up's.
	standalone := func(d vsim.DialEvent) bool {
		for _, x := range ivs[d.Peer] {
			if x.a < d.Seq && d.EndSeq < x.b {
				return false // the enclosing request's reply carries the failure
			}
		}
		return true
	}
	failedDials := map[peer.ID][]int64{}
	for _, d := range dials {
		if d.Err != "" && standalone(d) {
			failedDials[d.Peer] = append(failedDials[d.Peer], d.Seq)
		}
	}
	dialFailedBetween := func(p peer.ID, a, b int64) bool {
		for _, s := range failedDials[p] {
			if s > a && s < b {
				return true
			}
		}
		return false
	}
	for _, e := range log {
		if e.Kind != vsim.EvReply || e.Type != pb.Message_FIND_NODE {
			continue
		}
		key := string(e.Key)
		f := vC12Fact{Seq: e.Seq, ReqSeq: e.ReqSeq, VT: e.VT, Peer: e.Peer, Ok: e.Err == "", Err: e.Err}
		f.Cancel = e.CtxErr != ""
		f.Deadline = e.PastDl || strings.Contains(e.CtxErr, "deadline")
		f.Ambig = !f.Cancel && e.PastDl
		phase := false // certainly a lookup-phase request (query.go queryPeer)
		switch lk := m.byKey[key]; {
		case key == string(e.Peer):
			f.Src = "probe"
		case lk != nil:
			phase = noFollowUp || (lk.Waiting[e.Peer] && firstReq[key+"|"+string(e.Peer)] == e.ReqSeq && !dialFailedBetween(e.Peer, lk.StartSeq, e.ReqSeq))
			f.Src = "lookupM"
			if !phase {
				f.Src = "followupM"
			}
			if lk.Cancelled && !e.VT.Before(lk.CancelVT) && !f.Cancel {
				f.Ambig = true
			}
		default:
			f.Src = "lookupR"
			phase = noFollowUp
		}
		if !f.Ok && !f.Cancel && !f.Ambig && m.beforeClose(e.VT) {
			switch f.Src {
			case "lookupM", "lookupR":
				f.Demand = phase
			case "probe":
				f.Demand = isRefreshProbe(e)
			}
		}
		// The refresh liveness probe evicts on ANY probe failure (rt_refresh_manager.go pingAndEvictPeers): its context
		// is the manager's context plus the per-peer ping timeout, so a failure at that deadline ("deadline exceeded",
		// or a read timeout coinciding with it) is the probe's own verdict on a silent peer, not a cancellation; only
		// "context canceled" (the manager closing) is cancellation-class here.
		if !f.Ok && f.Src == "probe" && !f.Demand && isRefreshProbe(e) && m.beforeClose(e.VT) &&
			!strings.Contains(e.CtxErr, "canceled") && (e.PastDl || strings.Contains(e.CtxErr, "deadline")) {
			f.Demand, f.Cancel, f.Ambig = true, false, false
		}
		facts[e.Peer] = append(facts[e.Peer], f)
	}
	for _, d := range dials {
		if d.Err == "" {
			continue
		}
		if !standalone(d) {
			continue
		}
		f := vC12Fact{Seq: d.EndSeq, ReqSeq: d.Seq, VT: d.End, Peer: d.Peer, Err: d.Err}
		f.Cancel = d.CtxErr != ""
		f.Deadline = strings.Contains(d.CtxErr, "deadline")
		var lk *vC12Lookup
		for _, l := range m.lookups {
			if d.Seq > l.StartSeq && (l.EndSeq == 0 || d.Seq < l.EndSeq) {
				lk = l
			}
		}
		if lk != nil {
			f.Src = "dialM"
			if !f.Cancel && ((lk.Cancelled && !d.End.Before(lk.CancelVT)) || (lk.HasTerm && d.End.Equal(lk.TermVT))) {
				f.Ambig = true
			}
			f.Demand = !f.Cancel && !f.Ambig && (noFollowUp || lk.Waiting[d.Peer]) && m.beforeClose(d.End)
		} else {
			f.Src = "dialO"
			// refresh probe's Connect (evicts unconditionally) or dialPeer of a refresh lookup (no early
			// termination when beta >= K, deadlines never coincide by construction of the latencies)
			f.Demand = !f.Cancel && noFollowUp && m.beforeClose(d.End)
		}
		facts[d.Peer] = append(facts[d.Peer], f)
	}
	for p := range facts {
		fs := facts[p]
		sort.Slice(fs, func(i, j int) bool { return fs[i].Seq < fs[j].Seq })
	}
	return facts
}

func (m *vC12Mon) renderPeer(p peer.ID, facts []vC12Fact, cbs []vC12CB) string {
	type line struct {
		seq int64
		s   string
	}
	var ls []line
	rel := func(t time.Time) string { return t.Sub(m.t0).String() }
	for _, f := range facts {
		ls = append(ls, line{f.Seq, fmt.Sprintf("#%d +%s %s ok=%v cancel=%v ambig=%v demand=%v err=%q", f.Seq, rel(f.VT), f.Src, f.Ok, f.Cancel, f.Ambig, f.Demand, f.Err)})
	}
	for _, cb := range cbs {
		if cb.Peer == p {
			k := "REMOVED"
			if cb.Add {
				k = "ADDED"
			}
			ls = append(ls, line{cb.Seq, fmt.Sprintf("#%d +%s %s", cb.Seq, rel(cb.VT), k)})
		}
	}
	for _, e := range m.protoEvs {
		if e.Peer == p {
			ls = append(ls, line{e.Seq, fmt.Sprintf("#%d +%s bus:%s hasProto=%v filterPass=%v", e.Seq, rel(e.VT), e.Kind, e.HasProto, e.Pass)})
		}
	}
	sort.Slice(ls, func(i, j int) bool { return ls[i].seq < ls[j].seq })
	if len(ls) > 40 {
		ls = ls[len(ls)-40:]
	}
	out := make([]string, len(ls))
	for i, l := range ls {
		out[i] = l.s
	}
	return m.n.Name(p) + " (" + m.kind(p) + "): " + strings.Join(out, "; ")
}

// rest judges everything that happened since the previous rest point.
func (m *vC12Mon) rest(tag string) {
	c, n := m.c, m.n
	m.mu.Lock()
	cbs := append([]vC12CB(nil), m.cbs...)
	m.mu.Unlock()
	facts := m.analyse(cbs)
	table := m.table()
	ctx := func(p peer.ID) string {
		return fmt.Sprintf("at rest after %s; %s; history: %s", tag, m.renderPeer(p, facts[p], cbs), strings.Join(m.hist, " | "))
	}
	for i := m.cbDone; i < len(cbs); i++ {
		cb := cbs[i]
		p := cb.Peer
		if cb.Add {
			c.Obs("peer_added", 1)
			m.members[p] = true
			c.Check(p != n.Self, "never-self", "the local node was added to the routing table; %s", ctx(p))
			var lastRem time.Time
			for _, x := range cbs[:i] {
				if x.Peer == p && !x.Add {
					lastRem = x.VT
				}
			}
			anySucc, fresh, freshLookup, freshValidProbe := false, false, false, false
			for _, f := range facts[p] {
				if !f.Ok || f.Seq > cb.Seq {
					continue
				}
				anySucc = true
				if f.VT.Before(lastRem) {
					continue
				}
				fresh = true
				if f.Src != "probe" {
					freshLookup = true
				} else {
					var adv bool
					if m.conc {
						adv = m.hadProtoBefore(p, f.ReqSeq)
					} else {
						adv = m.hasProtoAt(p, f.ReqSeq)
					}
					if adv && !m.rejected[p] {
						freshValidProbe = true
					}
				}
			}
			if !c.Check(anySucc, "admit-after-reply", "%s was admitted without ever having answered a request of this node; %s", n.Name(p), ctx(p)) {
				continue
			}
			if m.conc {
				// concurrent variant: only the order-free admission invariants
				var lk, vp bool
				for _, f := range facts[p] {
					if f.Ok && f.Seq < cb.Seq {
						if f.Src != "probe" {
							lk = true
						} else if m.hadProtoBefore(p, f.ReqSeq) && !m.rejected[p] {
							vp = true
						}
					}
				}
				c.Check(lk || vp, "probe-admission-valid", "%s was admitted on admission probes only, but never advertised %s before the probe or is rejected by the routing-table filter (rejected=%v); %s", n.Name(p), m.proto, m.rejected[p], ctx(p))
				continue
			}
			if !c.Check(fresh, "admit-fresh-reply", "%s was re-admitted after its eviction without a new correct answer; %s", n.Name(p), ctx(p)) {
				continue
			}
			if !freshLookup {
				c.Check(freshValidProbe, "probe-admission-valid", "%s was admitted on admission probes only, but did not advertise %s when the probe started or is rejected by the routing-table filter (rejected=%v); %s", n.Name(p), m.proto, m.rejected[p], ctx(p))
			} else {
				c.Obs("admitted_by_lookup_or_mixed", 1)
			}
		} else {
			c.Obs("peer_removed", 1)
			delete(m.members, p)
			if m.conc {
				continue
			}
			var lastAdd time.Time
			for _, x := range cbs[:i] {
				if x.Peer == p && x.Add {
					lastAdd = x.VT
				}
			}
			why := ""
			for _, f := range facts[p] {
				if f.Ok || f.Seq > cb.Seq || f.VT.Before(lastAdd) {
					continue
				}
				ok := false
				switch f.Src {
				case "probe":
					ok = true
				case "lookupM", "lookupR", "dialM":
					ok = !f.Cancel
				case "dialO":
					ok = !f.Cancel || f.Deadline || !m.beforeClose(f.VT)
				}
				if ok {
					why = f.Src
				}
			}
			for _, e := range m.protoEvs {
				if e.Peer == p && e.Seq < cb.Seq && !e.VT.Before(lastAdd) && !(e.HasProto && e.Pass) {
					why = "bus"
				}
			}
			if c.Check(why != "", "removal-justified", "%s was evicted without a non-cancellation failure in a live lookup, a failed refresh probe or a protocol event; %s", n.Name(p), ctx(p)) {
				c.Obs("removed_by_"+why, 1)
			}
		}
	}
	m.cbDone = len(cbs)
	if !vC12SameSet(m.members, table) {
		c.Check(false, "callbacks-match-table", "at rest after %s: ListPeers = [%s] but the PeerAdded/PeerRemoved callbacks yield [%s]", tag, m.names(table), m.names(m.members))
	} else {
		c.Clause("callbacks-match-table")
	}
	c.Check(!table[n.Self], "never-self", "the local node is a routing-table member at rest after %s", tag)
	if m.conc {
		return
	}
	// a member that fails (demanding class) is removed: a PeerRemoved callback follows the failure
	memberAt := func(p peer.ID, seq int64) bool {
		in := false
		for _, cb := range cbs {
			if cb.Seq > seq {
				break
			}
			if cb.Peer == p {
				in = cb.Add
			}
		}
		return in
	}
	removedAfter := func(p peer.ID, seq int64) bool {
		for _, cb := range cbs {
			if cb.Peer == p && !cb.Add && cb.Seq > seq {
				return true
			}
		}
		return false
	}
	// nextContact: stamp of the first dial or request to p that starts after seq (MaxInt64: none)
	nextContact := func(p peer.ID, seq int64) int64 {
		nxt := int64(math.MaxInt64)
		for _, e := range n.S.Log() {
			if e.Kind == vsim.EvRequest && e.Peer == p && e.Seq > seq && e.Seq < nxt {
				nxt = e.Seq
			}
		}
		for _, d := range n.H.DialLog() {
			if d.Peer == p && d.Seq > seq && d.Seq < nxt {
				nxt = d.Seq
			}
		}
		return nxt
	}
	removedBetween := func(p peer.ID, a, b int64) bool {
		for _, cb := range cbs {
			if cb.Peer == p && !cb.Add && cb.Seq > a && cb.Seq < b {
				return true
			}
		}
		return false
	}
	water := m.demandDone
	for p, fs := range facts {
		for _, f := range fs {
			if !f.Demand || f.Seq <= m.demandDone {
				continue
			}
			if f.Seq > water {
				water = f.Seq
			}
			if !memberAt(p, f.Seq) {
				continue
			}
			c.Obs("member_failures_judged_"+f.Src, 1)
			if !c.Check(removedAfter(p, f.Seq), "failed-member-removed", "%s was a member when it failed (%s, #%d) and no PeerRemoved followed; %s", n.Name(p), f.Src, f.Seq, ctx(p)) {
				continue
			}
			// A failed liveness probe (its Connect or its request) and a failed dial of a refresh lookup evict in the
			// goroutine that saw the failure, before it does anything else (rt_refresh_manager.go pingAndEvictPeers,
			// query.go queryPeer), and nothing else contacts a member meanwhile (steps are sequential, one probe per
			// member, admission probes only go to non-members): the PeerRemoved callback precedes the next dial or
			// request to that peer. An eviction that only comes with a LATER failure of the peer (e.g. in the lookups
			// the refresh runs after the probes) is not the probe's.
			if f.Src == "dialO" || f.Src == "probe" {
				nxt := nextContact(p, f.Seq)
				c.Check(removedBetween(p, f.Seq, nxt), "failed-probe-evicts-at-once", "%s was a member when it failed (%s, #%d); it was contacted again at #%d and no PeerRemoved lies in between (it was evicted only by a later failure); %s", n.Name(p), f.Src, f.Seq, nxt, ctx(p))
			}
		}
	}
	for _, e := range m.protoEvs {
		if e.Seq <= m.demandDone || e.HasProto || !m.beforeClose(e.VT) {
			continue
		}
		if e.Seq > water {
			water = e.Seq
		}
		if !memberAt(e.Peer, e.Seq) {
			continue
		}
		c.Obs("member_failures_judged_bus", 1)
		c.Check(removedAfter(e.Peer, e.Seq), "failed-member-removed", "%s was a member when it was reported (%s, #%d) without the protocol and no PeerRemoved followed; %s", n.Name(e.Peer), e.Kind, e.Seq, ctx(e.Peer))
	}
	m.demandDone = water
	// members that failed after their last success are absent
	for p, fs := range facts {
		var last *vC12Fact
		for i := range fs {
			if fs[i].Demand && (last == nil || !fs[i].VT.Before(last.VT)) {
				last = &fs[i]
			}
		}
		var lastEv *vC12ProtoEv
		for i := range m.protoEvs {
			if e := &m.protoEvs[i]; e.Peer == p && !e.HasProto && m.beforeClose(e.VT) {
				lastEv = e
			}
		}
		var dvt time.Time
		src := ""
		if last != nil {
			dvt, src = last.VT, last.Src
		}
		if lastEv != nil && !lastEv.VT.Before(dvt) {
			dvt, src = lastEv.VT, "bus:"+lastEv.Kind
		}
		if src == "" {
			continue
		}
		redeemed := false
		for _, f := range fs {
			if f.Ok && !f.VT.Before(dvt) {
				redeemed = true
			}
		}
		if redeemed {
			continue
		}
		c.Obs("demanding_failures_judged", 1)
		c.Check(!table[p], "failed-member-absent", "%s is still a member although it failed (%s) after its last correct answer; %s", n.Name(p), src, ctx(p))
	}
	for p := range m.protoTL { // peers that never produced a wire fact but were reported without the protocol
		if _, ok := facts[p]; ok {
			continue
		}
		for _, e := range m.protoEvs {
			if e.Peer == p && !e.HasProto && table[p] {
				c.Check(false, "failed-member-absent", "%s is a member although it was reported without the protocol and never answered; %s", n.Name(p), ctx(p))
			}
		}
	}
}

// restLookup: members whose only failures in the lookup were cancellations are still present.
func (m *vC12Mon) restLookup(lk *vC12Lookup) {
	c, n := m.c, m.n
	m.mu.Lock()
	cbs := append([]vC12CB(nil), m.cbs...)
	m.mu.Unlock()
	facts := m.analyse(cbs)
	table := m.table()
	for p := range lk.Before {
		cancels, others := 0, 0
		for _, f := range facts[p] {
			if f.Ok || f.Seq < lk.StartSeq || f.Seq > lk.EndSeq {
				continue
			}
			if (f.Src == "lookupM" || f.Src == "dialM") && f.Cancel {
				cancels++
			} else {
				others++
			}
		}
		for _, e := range m.protoEvs {
			if e.Peer == p && e.Seq > lk.StartSeq && e.Seq < lk.EndSeq {
				others++
			}
		}
		if cancels > 0 && others == 0 {
			c.Obs("cancellation_only_members", 1)
			c.Check(table[p], "cancel-only-retained", "%s was a member, failed only because lookup %s was cancelled, and is no longer a member; %s | history: %s", n.Name(p), lk.Mode, m.renderPeer(p, facts[p], cbs), strings.Join(m.hist, " | "))
		}
	}
}

func vC12SameSet(a, b map[peer.ID]bool) bool {
	if len(a) != len(b) {
		return false
	}
	for p := range a {
		if !b[p] {
			return false
		}
	}
	return true
}

// ---- sequential histories -------------------------------------------------------------------------

func (m *vC12Mon) pick(r *rand.Rand, pred func(p peer.ID) bool) (peer.ID, bool) {
	var cand []peer.ID
	for _, p := range m.n.IDs {
		if pred == nil || pred(p) {
			cand = append(cand, p)
		}
	}
	if len(cand) == 0 {
		return "", false
	}
	return cand[r.Intn(len(cand))], true
}

func (m *vC12Mon) startClose() {
	m.mu.Lock()
	m.closed, m.closeVT, m.closeSeq = true, time.Now(), m.n.H.Seq.Add(1)
	m.mu.Unlock()
}

func (m *vC12Mon) runHistory(t *testing.T) {
	c, n, r, cfg := m.c, m.n, m.c.R, m.cfg
	bound := m.refreshBound()
	var kinds []string
	closedByStep := false
	isMember := func(p peer.ID) bool { return m.members[p] }
	connected := func(p peer.ID) bool { return n.H.Net.Connectedness(p) == network.Connected }
	selfDone := false
	for step := 0; step < cfg.Steps && !c.Failed() && !closedByStep; step++ {
		var kind string
		x := r.Intn(100)
		switch {
		case step == 0:
			kind = "burst"
		case step == cfg.Steps-1 && r.Intn(10) < 7:
			kind = "close"
		case x < 26:
			kind = "lookup"
		case x < 40:
			kind = "flip"
		case x < 53:
			kind = "refresh"
		case x < 64:
			kind = "idle"
		case x < 72:
			kind = "identify"
		case x < 78:
			kind = "proto-remove"
		case x < 82:
			kind = "proto-add"
		case x < 89:
			kind = "disconnect"
		case x < 92:
			kind = "burst"
		case x < 94:
			kind = "identify-self"
		case x < 97:
			kind = "stale-refresh"
		default:
			kind = "overlap-refresh"
		}
		tag := fmt.Sprintf("step %d %s", step, kind)
		switch kind {
		case "burst":
			cnt := 1 + r.Intn(cfg.N)
			var who []string
			for _, i := range r.Perm(cfg.N)[:cnt] {
				p := n.IDs[i]
				with := r.Intn(10) < 8
				if r.Intn(8) == 0 {
					m.connect(p) // connected, never identified
					who = append(who, n.Name(p)+":conn")
					continue
				}
				m.identify(p, with)
				who = append(who, fmt.Sprintf("%s:%v", n.Name(p), with))
			}
			tag += " " + strings.Join(who, ",")
		case "identify":
			p, _ := m.pick(r, nil)
			with := r.Intn(10) < 7
			m.identify(p, with)
			tag += fmt.Sprintf(" %s proto=%v", n.Name(p), with)
		case "identify-self":
			if selfDone {
				continue
			}
			selfDone = true
			m.identify(n.Self, true)
		case "proto-remove":
			p, ok := m.pick(r, func(p peer.ID) bool { return m.hasProto[p] && (isMember(p) || r.Intn(3) == 0) })
			if !ok {
				continue
			}
			m.protoUpdate(p, false)
			tag += " " + n.Name(p)
		case "proto-add":
			p, ok := m.pick(r, func(p peer.ID) bool { return !m.hasProto[p] })
			if !ok {
				continue
			}
			m.connect(p)
			m.protoUpdate(p, true)
			tag += " " + n.Name(p)
		case "disconnect":
			p, ok := m.pick(r, func(p peer.ID) bool { return connected(p) && (isMember(p) || r.Intn(3) == 0) })
			if !ok {
				continue
			}
			n.H.Net.Disconnect(p, true)
			tag += " " + n.Name(p)
		case "flip":
			cnt := 1 + r.Intn(3)
			var who []string
			for j := 0; j < cnt; j++ {
				p, _ := m.pick(r, func(p peer.ID) bool { return isMember(p) || r.Intn(3) == 0 })
				if p == "" {
					p, _ = m.pick(r, nil)
				}
				nk := vC12OkKinds[r.Intn(len(vC12OkKinds))]
				if r.Intn(2) == 0 {
					nk = vC12FailKinds[r.Intn(len(vC12FailKinds))]
				}
				m.flip(p, nk)
				who = append(who, n.Name(p)+"="+nk)
				if (nk == "dead" || nk == "dialslow") && connected(p) && r.Intn(10) < 7 {
					n.H.Net.Disconnect(p, true) // a dying peer usually takes its connection with it
					who[len(who)-1] += "(disc)"
				}
			}
			tag += " " + strings.Join(who, ",")
		case "idle":
			d := time.Duration(1+r.Intn(5)) * time.Minute
			if r.Intn(2) == 0 {
				d = time.Duration(float64(cfg.Grace) * (0.6 + r.Float64()))
			}
			d += 29 * time.Microsecond
			tag += " " + d.String()
			time.Sleep(d)
		case "overlap-refresh":
			// A member answers lookups but fails its liveness probe, slowly: a lookup started during the refresh gets
			// its answer (and refreshes the member's "last successful query" stamp) while the probe is in flight.
			// The probe still fails afterwards, and "a member that fails the liveness probe of a refresh is removed".
			time.Sleep(time.Duration(float64(cfg.Grace)*1.1) + 31*time.Microsecond)
			if !m.settle() {
				c.Fail("settle", "requests still in flight after 300 s of virtual time (%s)", tag)
				return
			}
			// every other peer is healthy during this step: the attribution of failures to the refresh's own lookups
			// versus the caller's lookup (demanding or not) relies on steps not overlapping
			for _, id := range n.IDs {
				switch m.kind(id) {
				case "ok", "slow", "empty":
				default:
					m.flip(id, "ok")
				}
			}
			if p, ok := m.pick(r, isMember); ok {
				m.flip(p, "probefail")
				tag += " " + n.Name(p) + "=probefail"
			}
			w := vC12Win{StartSeq: n.H.Seq.Add(1), Members: m.table()}
			chs := []<-chan error{n.D.ForceRefresh()}
			m.mu.Lock()
			m.wins = append(m.wins, w)
			wi := len(m.wins) - 1
			m.mu.Unlock()
			after := time.Duration(100+r.Intn(800)) * time.Millisecond
			lkDone := make(chan *vC12Lookup, 1)
			go func() {
				time.Sleep(after)
				lk, _, _ := m.lookup("plain", 0, false)
				lkDone <- lk
			}()
			m.awaitRefresh(chs, bound, "refresh-answered")
			lk := <-lkDone
			if !m.settle() {
				c.Fail("settle", "requests still in flight after 300 s of virtual time (%s)", tag)
				return
			}
			m.wins[wi].EndSeq = n.H.Seq.Add(1)
			lk.EndSeq = n.H.Seq.Add(1)
			tag += fmt.Sprintf(" F, lookup +%v", after)
			c.Obs("refreshes_overlapped_by_a_lookup", 1)
		case "stale-refresh", "refresh":
			if kind == "stale-refresh" {
				time.Sleep(time.Duration(float64(cfg.Grace)*1.1) + 31*time.Microsecond)
				if !m.settle() {
					c.Fail("settle", "requests still in flight after 300 s of virtual time (%s)", tag)
					return
				}
				if p, ok := m.pick(r, isMember); ok {
					nk := vC12FailKinds[r.Intn(len(vC12FailKinds))]
					m.flip(p, nk)
					tag += " " + n.Name(p) + "=" + nk
					if (nk == "dead" || nk == "dialslow") && connected(p) && r.Intn(10) < 7 {
						n.H.Net.Disconnect(p, true)
						tag += "(disc)"
					}
				}
			}
			w := vC12Win{StartSeq: n.H.Seq.Add(1), Members: m.table()}
			var chs []<-chan error
			for j := 0; j < 1+r.Intn(3); j++ {
				if r.Intn(2) == 0 {
					chs = append(chs, n.D.RefreshRoutingTable())
					tag += " R"
				} else {
					chs = append(chs, n.D.ForceRefresh())
					tag += " F"
				}
			}
			m.mu.Lock()
			m.wins = append(m.wins, w)
			wi := len(m.wins) - 1
			m.mu.Unlock()
			m.awaitRefresh(chs, bound, "refresh-answered")
			m.wins[wi].EndSeq = n.H.Seq.Add(1)
		case "lookup":
			mode := []string{"plain", "plain", "plain", "plain", "plain", "cancel", "cancel", "cancel", "precancel", "plain"}[r.Intn(10)]
			var after time.Duration
			if mode == "cancel" {
				switch r.Intn(3) {
				case 0:
					after = time.Duration(r.Intn(4*40*cfg.Scale+1)) * time.Millisecond
				case 1: // exactly when some peer's answer (or failure) is due
					p, _ := m.pick(r, nil)
					after = m.delay[p]
				default:
					after = time.Duration(r.Int63n(int64(3*40*time.Duration(cfg.Scale)*time.Millisecond) + 1))
				}
			}
			lk, res, err := m.lookup(mode, after, true)
			if !m.settle() {
				c.Fail("settle", "requests still in flight after 300 s of virtual time (%s)", tag)
				return
			}
			lk.EndSeq = n.H.Seq.Add(1)
			tag += fmt.Sprintf(" %s", mode)
			if mode == "cancel" {
				tag += "@" + after.String()
			}
			tag += fmt.Sprintf(" -> %d peers err=%v cancelled=%v", len(res), err, lk.Cancelled)
			m.logf("%s", tag)
			m.rest(tag)
			m.restLookup(lk)
			c.Obs("lookups_"+mode, 1)
			kinds = append(kinds, kind+":"+mode)
			m.logf("   table=[%s]", m.names(m.table()))
			continue
		case "close":
			closedByStep = true
			variant := r.Intn(4)
			var chs []<-chan error
			w := vC12Win{StartSeq: n.H.Seq.Add(1), Members: m.table()}
			m.mu.Lock()
			m.wins = append(m.wins, w)
			wi := len(m.wins) - 1
			m.mu.Unlock()
			switch variant {
			case 0: // request delivered, then Close
				chs = append(chs, n.D.RefreshRoutingTable())
				synctest.Wait()
				m.startClose()
				n.D.Close()
			case 1: // request racing with Close
				chs = append(chs, n.D.ForceRefresh())
				m.startClose()
				n.D.Close()
			case 2: // refresh in progress when Close arrives
				chs = append(chs, n.D.ForceRefresh(), n.D.RefreshRoutingTable())
				d := time.Duration(r.Int63n(int64(3*time.Second))) + 17*time.Microsecond
				time.Sleep(d)
				tag += " after " + d.String()
				m.startClose()
				n.D.Close()
			case 3: // Close concurrent with new requests
				m.startClose()
				done := make(chan struct{})
				go func() { defer close(done); n.D.Close() }()
				chs = append(chs, n.D.RefreshRoutingTable(), n.D.ForceRefresh())
				<-done
			}
			// and after Close has returned
			chs = append(chs, n.D.RefreshRoutingTable(), n.D.ForceRefresh())
			tag += fmt.Sprintf(" variant %d, %d requests", variant, len(chs))
			m.awaitRefresh(chs, bound, "refresh-answered-shutdown")
			m.wins[wi].EndSeq = n.H.Seq.Add(1)
		}
		if !m.settle() {
			c.Fail("settle", "requests still in flight after 300 s of virtual time (%s)", tag)
			return
		}
		m.logf("%s", tag)
		m.rest(tag)
		kinds = append(kinds, kind)
		m.logf("   table=[%s]", m.names(m.table()))
	}
	if !closedByStep {
		m.startClose()
		n.D.Close()
	}
	n.H.Close()
	synctest.Wait()
	// evidence
	log := n.S.Log()
	probes, lookupReqs := 0, 0
	for _, e := range log {
		if e.Kind == vsim.EvRequest {
			if string(e.Key) == string(e.Peer) {
				probes++
			} else {
				lookupReqs++
			}
		}
	}
	c.Obs("probe_requests", probes)
	c.Obs("lookup_requests", lookupReqs)
	c.Obs("dials", len(n.H.DialLog()))
	c.Obs("bus_events", len(m.protoEvs))
	for _, fs := range m.analyse(m.cbs) {
		for _, f := range fs {
			switch {
			case f.Demand:
				c.Obs("demanding_"+f.Src, 1)
			case f.Ambig:
				c.Obs("ambiguous_"+f.Src, 1)
			case !f.Ok && f.Cancel:
				c.Obs("cancellation_"+f.Src, 1)
			}
		}
	}
	c.Obs("steps", len(kinds))
	adds, rems := 0, 0
	for _, cb := range m.cbs {
		if cb.Add {
			adds++
		} else {
			rems++
		}
	}
	c.Set("N", cfg.N)
	c.Set("K_alpha_beta", []int{cfg.K, cfg.A, cfg.B})
	c.Set("filter_rejects", len(m.rejected))
	c.Set("refresh_period", cfg.Period.String())
	c.Set("ping_grace", cfg.Grace.String())
	c.Set("query_timeout", cfg.QTimeout.String())
	c.Set("read_timeout", cfg.ReadTimeout.String())
	c.Set("lookup_check_concurrency", cfg.CheckConc)
	c.Set("latency_scale_ms", cfg.Scale)
	c.Set("steps", kinds)
	if adds > 0 && rems > 0 {
		h := sha256.Sum256([]byte(fmt.Sprintf("%d/%d/%d/%d/%s/%d/%d", cfg.N, cfg.K, cfg.A, cfg.B, strings.Join(kinds, ","), adds, rems)))
		c.Nontrivial(fmt.Sprintf("%x", h[:8]))
	}
}

func TestVerif_C12_histories(t *testing.T) {
	vh.Run(t, vh.Spec{Prop: "C12", Unit: "histories", Quick: 400, Thorough: 16000, CostMs: 100,
		Rule:    "PRNG histories of 8-16 steps over 3-15 simulated peers (K in {24,40} so that no bucket fills; alpha in {1,3,10,K}; beta = K or, in a third of the cases, 1/3 with follow-up phase; optional generated routing-table filter; refresh period 20 s-5 min, query timeout 4/10 s, sender read timeout 3/10 s, lookup-check concurrency 256/1/2; fix-low-peers loop running): burst connect+identify, identify with/without the DHT protocol, protocol removed/added, health flips (ok, slow, slow successful dial, empty answer, liar naming self/strangers, request error, dead, slow dial failure, silent, flaky), disconnect, GetClosestPeers (plain / cancelled at a PRNG instant or exactly at a reply instant / pre-cancelled), RefreshRoutingTable/ForceRefresh (1-3 at once), a forced refresh overlapped by a lookup while a member that answers lookups fails its liveness probe after 1.5-3 s, idle beyond the ping grace period, identify event for the local node, Close in four variants with refresh requests before/during/after; every step ends at a rest point in virtual time where PeerAdded/PeerRemoved callbacks, ListPeers and the refresh channels are judged against the simulated wire log; non-trivial = at least one admission and one eviction; distinct by (shape, step kinds, #adds, #removals)",
		Clauses: []string{"never-self", "admit-after-reply", "admit-fresh-reply", "probe-admission-valid", "removal-justified", "failed-member-removed", "failed-probe-evicts-at-once", "failed-member-absent", "cancel-only-retained", "callbacks-match-table", "refresh-answered", "refresh-one-value", "refresh-answered-shutdown"}},
		func(c *vh.Case) {
			cfg := vC12Gen(c)
			c.Bubble(t, 200*time.Hour, "c12-hang", func(t *testing.T) {
				m := vC12New(t, c, cfg, false)
				m.runHistory(t)
			})
		})
}
