//go:build verif

package dht

// C06 — puts and provides reach every closest peer found, with correct content (standard client).
//
// Units: putvalue (PutValue), provide (classic Provide), optprovide (optimistic Provide with a
// warmed-up network-size estimator), corrective (corrective PUT_VALUEs after a completed value
// search; scenario runner and value model of c04_values.go).
//
// The set R "returned by the lookup" is never visible at the API (PutValue/Provide/SearchValue do
// not return it): it is recomputed from the embedded lookup's own event stream with the C01
// definition (R = the K nearest, by the monitor's XOR arithmetic, of the learned peers not
// reported unreachable before the terminate event), which C01 checks against GetClosestPeers.

import (
	"context"
	"crypto/sha256"
	"errors"
	"fmt"
	"github.com/multiformats/go-base32"
	"sort"
	"strings"
	"sync"
	"testing"
	"testing/synctest"
	"time"

	"github.com/ipfs/go-cid"
	record "github.com/libp2p/go-libp2p-record"
	recpb "github.com/libp2p/go-libp2p-record/pb"
	"github.com/libp2p/go-libp2p/core/peer"
	ma "github.com/multiformats/go-multiaddr"
	mh "github.com/multiformats/go-multihash"
	"google.golang.org/protobuf/proto"

	"github.com/libp2p/go-libp2p-kad-dht/internal/verif/vh"
	"github.com/libp2p/go-libp2p-kad-dht/internal/verif/vjds"
	"github.com/libp2p/go-libp2p-kad-dht/internal/verif/vsim"
	pb "github.com/libp2p/go-libp2p-kad-dht/pb"
)

// vC06Lookup is what the oracle derives from the event stream of one embedded lookup.
type vC06Lookup struct {
	Seeds      []peer.ID
	L, F       map[peer.ID]bool
	R          []peer.ID
	Reason     string
	Lookups    int // distinct lookup ids seen
	Terminated bool
	TermVT     time.Time
	Responses  int
	Order      []string
}

func vC06Derive(n *vNet, evs []vLookupEv, key string, k int) *vC06Lookup {
	d := &vC06Lookup{L: map[peer.ID]bool{}, F: map[peer.ID]bool{}}
	ids := map[string]bool{}
	first := true
	for _, e := range evs {
		ev := e.Ev
		ids[ev.ID.String()] = true
		if ev.Terminate != nil {
			d.Terminated = true
			d.TermVT = e.VT
			d.Reason = ev.Terminate.Reason.String()
			continue
		}
		if ev.Response == nil || d.Terminated {
			continue
		}
		heard := vEvPeers(ev.Response.Heard)
		if first {
			first = false
			d.Seeds = heard
		}
		for _, p := range heard {
			if p != n.Self {
				d.L[p] = true
			}
		}
		for _, p := range vEvPeers(ev.Response.Unreachable) {
			d.F[p] = true
		}
		if ev.Response.Cause != nil && len(d.Order) < 64 {
			d.Order = append(d.Order, n.Name(ev.Response.Cause.Peer))
		}
		d.Responses++
	}
	d.Lookups = len(ids)
	cand := map[peer.ID]bool{}
	for p := range d.L {
		if !d.F[p] {
			cand[p] = true
		}
	}
	d.R = vNearest(key, cand, k)
	return d
}

// ---- shared scenario pieces -------------------------------------------------------------------------

type vC06Sc struct {
	Cfg       vNetCfg
	MaxDelay  int
	FailFrac  float64 // lookup-phase failures
	StoreFail float64 // store-RPC failures
	CancelAt  time.Duration
}

func vC06GenSc(c *vh.Case) vC06Sc {
	r := c.R
	k := []int{1, 2, 3, 5, 8, 20}[r.Intn(6)]
	a := []int{1, 2, 3, 10}[r.Intn(4)]
	b := []int{1, 2, 3, k}[r.Intn(4)]
	var n int
	switch x := r.Intn(10); {
	case x < 2:
		n = 1 + r.Intn(8)
	case x < 8:
		n = 8 + r.Intn(80)
	default:
		n = 80 + r.Intn(170)
	}
	if c.Tier == "thorough" && r.Intn(10) == 0 {
		n = 250 + r.Intn(600)
	}
	sc := vC06Sc{Cfg: vNetCfg{N: n, K: k, A: a, B: b, Knowledge: []string{"full", "kbucket", "kbucket", "sparse"}[r.Intn(4)], Seeds: 1 + r.Intn(k+5)}}
	sc.MaxDelay = []int{5, 50, 400}[r.Intn(3)]
	sc.FailFrac = []float64{0, 0, 0.15, 0.4}[r.Intn(4)]
	sc.StoreFail = []float64{0, 0.2, 0.5, 0.7}[r.Intn(4)]
	return sc
}

// vC06Scripts installs per-peer behaviour: lookup-phase failures (dead / request error / silence
// / failing slow dial) and store-RPC failures (error / silence / slower than the 30 s per-peer
// timeout / connection lost before the store RPC). Returns the behaviour names.
func vC06Scripts(c *vh.Case, n *vNet, sc vC06Sc, storeTypes ...pb.Message_MessageType) map[peer.ID]string {
	r := c.R
	beh := map[peer.ID]string{}
	isStore := func(t pb.Message_MessageType) bool {
		for _, x := range storeTypes {
			if x == t {
				return true
			}
		}
		return false
	}
	for i, id := range n.IDs {
		sp := n.S.Peer(id)
		base := time.Duration(1+r.Intn(sc.MaxDelay)) * time.Millisecond
		kind := "ok"
		if r.Float64() < sc.FailFrac {
			kind = []string{"dead", "reqerr", "silent", "dialslow"}[r.Intn(4)]
		}
		store := "ok"
		if r.Float64() < sc.StoreFail {
			store = []string{"err", "silent", "slow", "err"}[r.Intn(4)]
		}
		beh[id] = kind + "/" + store
		if kind == "dead" {
			sp.Dead = true
			continue
		}
		idx := i
		sp.Script = func(cnt int, req *pb.Message) vsim.Reply {
			if req == nil {
				if kind == "dialslow" {
					return vsim.Reply{DialFail: true, Delay: base}
				}
				return vsim.Reply{}
			}
			rep := vsim.Reply{Delay: base + time.Duration((cnt*37+idx)%7)*time.Millisecond}
			if isStore(req.GetType()) {
				switch store {
				case "err":
					rep.Err = errors.New("vsim: stream reset by peer")
				case "silent":
					rep.Silent = true
				case "slow":
					rep.Delay = 35 * time.Second
				}
				return rep
			}
			switch kind {
			case "reqerr":
				rep.Err = errors.New("vsim: stream reset by peer")
			case "silent":
				rep.Silent = true
			}
			return rep
		}
	}
	return beh
}

// vC06Sends collects the store RPCs of one type and key from the wire log, per recipient.
func vC06Sends(log []vsim.Event, typ pb.Message_MessageType, key string) (map[peer.ID][]vsim.Event, int) {
	out := map[peer.ID][]vsim.Event{}
	tot := 0
	for _, e := range log {
		if (e.Kind == vsim.EvRequest || e.Kind == vsim.EvMessage) && e.Type == typ && string(e.Key) == key {
			out[e.Peer] = append(out[e.Peer], e)
			tot++
		}
	}
	return out, tot
}

// vC06CheckRecipients compares the recipients of a store RPC with the expected set.
func vC06CheckRecipients(c *vh.Case, n *vNet, sends map[peer.ID][]vsim.Event, want []peer.ID, what, clOne, clOnly string, beh map[peer.ID]string) {
	inWant := map[peer.ID]bool{}
	for _, p := range want {
		inWant[p] = true
		c.Check(len(sends[p]) == 1, clOne, "%d %s sent to %s (behaviour %s), which the lookup returned; expected exactly one (expected recipients %v, actual %v)", len(sends[p]), what, n.Name(p), beh[p], n.Names(want), vC06Names(n, sends))
	}
	var extra []string
	for p := range sends {
		if !inWant[p] {
			extra = append(extra, n.Name(p))
		}
	}
	sort.Strings(extra)
	c.Check(len(extra) == 0, clOnly, "%s sent to peers outside the expected set: %v (expected %v)", what, extra, n.Names(want))
}

func vC06Names(n *vNet, sends map[peer.ID][]vsim.Event) []string {
	var out []string
	for p, s := range sends {
		out = append(out, fmt.Sprintf("%s×%d", n.Name(p), len(s)))
	}
	sort.Strings(out)
	return out
}

func vC06DescribeNet(c *vh.Case, sc vC06Sc, d *vC06Lookup, n *vNet) {
	c.Set("N", sc.Cfg.N)
	c.Set("K_alpha_beta", []int{sc.Cfg.K, sc.Cfg.A, sc.Cfg.B})
	c.Set("knowledge", sc.Cfg.Knowledge)
	c.Set("fail_frac", sc.FailFrac)
	c.Set("store_fail_frac", sc.StoreFail)
	c.Set("max_delay_ms", sc.MaxDelay)
	c.Set("cancel_at_ms", sc.CancelAt.Milliseconds())
	if d != nil {
		c.Set("lookup_reason", d.Reason)
		c.Set("learned", len(d.L))
		c.Set("failed", len(d.F))
		c.Set("R", n.Names(d.R))
		c.Logf("arrival order: %s", strings.Join(d.Order, " "))
	}
}

// ---- PutValue ------------------------------------------------------------------------------------------

func TestVerif_C06_putvalue(t *testing.T) {
	vh.Run(t, vh.Spec{Prop: "C06", Unit: "putvalue", Quick: 700, Thorough: 25000, CostMs: 6,
		Rule:    "PRNG networks as C01 (N 1-250, thorough up to 850; K/alpha/beta menus; knowledge full/kbucket/sparse; 0-40% peers failing the lookup by dial/request/silence); 0-70% of the peers fail the PUT_VALUE (stream error / silent until the 10 s read timeout / slower than the 30 s per-peer timeout); local store empty or holding a worse, equal or better record; one PutValue under lookup-event registration; oracle: local datastore journal at the instant the first PUT_VALUE is handed to the sender, recipients and payloads of the PUT_VALUE log vs R recomputed from the embedded lookup's events; non-trivial = the lookup returned >= 2 peers and at least one recipient failed or more than K peers were learned; distinct by (shape, behaviour mix, response arrival order)",
		Clauses: []string{"put-one-per-closest", "put-only-to-closest", "put-same-record", "local-write-before-first-put", "local-record-stored", "healthy-recipient-got-record", "put-despite-failures", "refused-local-write-sends-nothing"}},
		func(c *vh.Case) {
			r := c.R
			sc := vC06GenSc(c)
			key := fmt.Sprintf("/v/key-%d-%d", c.Idx, r.Int63())
			local := []string{"none", "none", "worse", "same", "equalrank", "better"}[r.Intn(6)]
			if r.Intn(10) == 0 {
				sc.CancelAt = time.Duration(1+r.Intn(3*sc.MaxDelay+20)) * time.Millisecond
			}
			c.Bubble(t, 30*time.Minute, "putvalue-hang", func(t *testing.T) {
				val := &vC04Validator{}
				cfg := sc.Cfg
				cfg.Validator = record.NamespacedValidator{"v": val, "pk": record.PublicKeyValidator{}}
				n := vNewNet(t, c, cfg)
				defer n.Close()
				beh := vC06Scripts(c, n, sc, pb.Message_PUT_VALUE)
				value := vC04Val{ID: 1, Rank: 5, Key: key}.Bytes()
				dsk := vC04DsKey(key).String()
				ctx0 := context.Background()
				var old []byte
				switch local {
				case "worse":
					old = vC04Val{ID: 2, Rank: 3, Key: key}.Bytes()
				case "same":
					old = value
				case "equalrank":
					old = vC04Val{ID: 2, Rank: 5, Key: key}.Bytes()
				case "better":
					old = vC04Val{ID: 2, Rank: 7, Key: key}.Bytes()
				}
				if old != nil {
					if err := n.D.putLocal(ctx0, key, &recpb.Record{Key: []byte(key), Value: old}); err != nil {
						panic(err)
					}
				}
				preLen := n.J.J.Len()
				// has the journal recorded a successful write of (key, value) after the preparation?
				journaled := func() bool {
					for _, e := range n.J.J.Entries()[preLen:] {
						if e.Op != vjds.OpPut || e.Key != dsk || e.Err != "" {
							continue
						}
						rec := new(recpb.Record)
						if proto.Unmarshal(e.Value, rec) == nil && string(rec.GetKey()) == key && string(rec.GetValue()) == string(value) {
							return true
						}
					}
					return false
				}
				var hookMu sync.Mutex
				firstPut, firstRPC := 0, 0 // 0 unseen, 1 journaled before, 2 not journaled
				n.S.OnEvent = func(e vsim.Event) {
					if e.Kind != vsim.EvRequest {
						return
					}
					hookMu.Lock()
					defer hookMu.Unlock()
					if firstRPC == 0 {
						firstRPC = 2
						if journaled() {
							firstRPC = 1
						}
					}
					if e.Type == pb.Message_PUT_VALUE && firstPut == 0 {
						firstPut = 2
						if journaled() {
							firstPut = 1
						}
					}
				}
				// racer class: a better record for the same key (as an incoming PUT_VALUE would store it) lands exactly between
				// PutValue's own pre-check of the local record and the value store's locked read-select-write - the store
				// validates a record before it takes the key's lock, which is where the second Validate call of this value
				// happens. The local write is then refused: PutValue must fail and send nothing.
				racer := c.Idx%8 == 3 && (local == "none" || local == "worse") && sc.CancelAt == 0
				raced := false
				if racer {
					better := vC04Val{ID: 9, Rank: 8, Key: key}.Bytes()
					seen := 0
					val.OnValidate = func(k string, v []byte) {
						if k != key || string(v) != string(value) {
							return
						}
						seen++
						if seen == 2 && !raced {
							raced = true
							if err := n.D.valueStore.Put(ctx0, key, &recpb.Record{Key: []byte(key), Value: better}); err != nil {
								panic(fmt.Sprintf("racer: storing the better record failed: %v", err))
							}
						}
					}
				}
				c.Set("better_record_lands_between_precheck_and_store", racer)
				synctest.Wait()
				tableSize := n.D.routingTable.Size()
				ctx, cancel := context.WithCancel(context.Background())
				defer cancel()
				lctx, events, wait := n.WithEvents(ctx)
				if sc.CancelAt > 0 {
					tm := time.AfterFunc(sc.CancelAt, cancel)
					defer tm.Stop()
				}
				start := time.Now()
				err := n.D.PutValue(lctx, key, value)
				val.OnValidate = nil
				end := time.Now()
				cancelled := ctx.Err() != nil
				storedAtReturn := journaled()
				cancel()
				wait()
				synctest.Wait()
				log := n.S.Log()
				d := vC06Derive(n, events(), key, sc.Cfg.K)
				sends, tot := vC06Sends(log, pb.Message_PUT_VALUE, key)
				c.Obs("rpcs", len(log)/2)
				c.Obs("put_value_rpcs", tot)
				c.Obs("lookup_events", len(events()))
				c.Obs("journal_entries", n.J.J.Len())
				vC06DescribeNet(c, sc, d, n)
				c.Set("local", local)
				c.Set("table_size", tableSize)
				c.Set("err", fmt.Sprint(err))
				c.Set("virtual_duration_ms", end.Sub(start).Milliseconds())
				// payload: whatever was sent, to whomever, is this very record
				for p, ss := range sends {
					for _, e := range ss {
						rec := e.Msg.GetRecord()
						c.Check(rec != nil && string(rec.GetKey()) == key && string(rec.GetValue()) == string(value) && string(e.Msg.GetKey()) == key, "put-same-record", "PUT_VALUE to %s carries key %q value %s, expected key %q value %s", n.Name(p), rec.GetKey(), vC04Short(rec.GetValue()), key, vC04Short(value))
					}
				}
				hookMu.Lock()
				fp, fr := firstPut, firstRPC
				hookMu.Unlock()
				if fp != 0 {
					c.Check(fp == 1, "local-write-before-first-put", "the first PUT_VALUE was handed to the sender before the record had been written to the local datastore (journal: %d entries)", n.J.J.Len())
				}
				if fr == 1 {
					c.Obs("local_write_before_first_rpc", 1)
				}
				if raced {
					// the local write was refused (a better record is stored now): "has stored the record locally first and
					// sends that same record" cannot be met, so PutValue must fail and must not have sent anything
					c.Check(err != nil && tot == 0, "refused-local-write-sends-nothing", "a better record landed between PutValue's pre-check and the store's locked write: PutValue returned %v and handed %d PUT_VALUE to the sender, while the local store holds the other record (stored own record: %v)", err, tot, storedAtReturn)
					return
				}
				if local == "better" {
					c.Obs("refused_better_stored", 1)
					c.Logf("PutValue with a better record stored returned %v; %d PUT_VALUE sent", err, tot)
					return
				}
				if err != nil || cancelled {
					// the closest-peers lookup did not succeed (empty table / cancelled): nothing more is promised
					c.Obs("lookup_failed_or_cancelled", 1)
					if err != nil && !cancelled && d.Lookups == 1 && d.Terminated {
						// ... but an error although the lookup terminated un-cancelled: only when it returned nobody
						c.Check(len(d.R) == 0, "put-error-only-without-recipients", "PutValue returned %v although its closest-peers lookup succeeded and returned %v", err, n.Names(d.R))
					}
					return
				}
				c.Check(storedAtReturn, "local-record-stored", "PutValue returned nil but the record was never written to the local datastore")
				if d.Lookups != 1 || !d.Terminated {
					c.Fail("harness-lookup-events", "expected the events of exactly one terminated lookup, got %d lookups terminated=%v", d.Lookups, d.Terminated)
					return
				}
				vC06CheckRecipients(c, n, sends, d.R, "PUT_VALUE", "put-one-per-closest", "put-only-to-closest", beh)
				failing := 0
				for _, p := range d.R {
					if strings.HasSuffix(beh[p], "/ok") && strings.HasPrefix(beh[p], "ok/") {
						sp := n.S.Peer(p)
						ok := len(sp.GotPuts) == 1 && string(sp.GotPuts[0].GetValue()) == string(value) && string(sp.GotPuts[0].GetKey()) == key
						c.Check(ok, "healthy-recipient-got-record", "healthy returned peer %s received %d records", n.Name(p), len(sp.GotPuts))
					} else {
						failing++
					}
				}
				if failing > 0 && len(d.R) > failing {
					c.Clause("put-despite-failures")
				}
				c.Obs("recipients", len(d.R))
				c.Obs("failing_recipients", failing)
				if len(d.R) >= 2 && (failing > 0 || len(d.L) > sc.Cfg.K) {
					h := sha256.Sum256([]byte(fmt.Sprintf("%d/%d/%d/%d/%s/%v/%v/%s/%s", sc.Cfg.N, sc.Cfg.K, sc.Cfg.A, sc.Cfg.B, sc.Cfg.Knowledge, sc.FailFrac, sc.StoreFail, local, strings.Join(d.Order, ","))))
					c.Nontrivial(fmt.Sprintf("%x", h[:8]))
				}
			})
		})
}

// ---- Provide ----------------------------------------------------------------------------------------------

var vC06AddrPool = []string{
	"/ip4/9.9.9.9/tcp/4001", "/ip4/8.8.4.4/udp/4001/quic-v1", "/ip6/2a00:1450:4001::1/tcp/4001", "/dns4/node.example.org/tcp/443",
	"/ip4/192.168.1.5/tcp/4001", "/ip4/10.0.0.7/tcp/4001", "/ip4/127.0.0.1/tcp/4001", "/ip6/::1/tcp/4001",
}

func vC06IsLocalAddr(a ma.Multiaddr) bool {
	s := a.String()
	return strings.HasPrefix(s, "/ip4/192.168.") || strings.HasPrefix(s, "/ip4/10.") || strings.HasPrefix(s, "/ip4/127.") || strings.HasPrefix(s, "/ip6/::1/")
}

// vC06Filter returns a pure address filter by name (nil for "nil").
func vC06Filter(name string) func([]ma.Multiaddr) []ma.Multiaddr {
	switch name {
	case "public":
		return func(in []ma.Multiaddr) []ma.Multiaddr {
			var out []ma.Multiaddr
			for _, a := range in {
				if !vC06IsLocalAddr(a) {
					out = append(out, a)
				}
			}
			return out
		}
	case "none":
		// empty but non-nil, as multiaddr.FilterAddrs returns it (the other filters return nil when nothing passes)
		return func([]ma.Multiaddr) []ma.Multiaddr { return []ma.Multiaddr{} }
	case "first":
		return func(in []ma.Multiaddr) []ma.Multiaddr {
			if len(in) > 1 {
				return in[:1:1]
			}
			return in
		}
	case "tcponly":
		return func(in []ma.Multiaddr) []ma.Multiaddr {
			var out []ma.Multiaddr
			for _, a := range in {
				if strings.Contains(a.String(), "/tcp/") {
					out = append(out, a)
				}
			}
			return out
		}
	}
	return nil
}

type vC06ProvSc struct {
	vC06Sc
	Addrs     []string
	Filter    string
	Broadcast bool
	Optim     bool
	EstFactor float64 // optimistic: size of the phantom population used to warm up the estimator, relative to N
	// SilentNearest > 0: the that many simulated peers nearest to the key never answer FIND_NODE (10 s read
	// timeout each), so that with alpha = 1 the lookup lasts longer than a minute (unit optslow)
	SilentNearest int
	// Deadline > 0 (classic provide only): the caller's context carries this deadline, and the simulated peers time
	// their FIND_NODE answers so that the lookup succeeds AimDelta before the inner deadline Provide derives from
	// it (deadline minus the 10 % / 1 s it reserves for the final ADD_PROVIDER round); every healthy recipient then
	// takes AimDelta + half the reserve to accept its ADD_PROVIDER: inside the caller's deadline, past the inner one
	Deadline time.Duration
	AimDelta time.Duration
	// NewAddrs (classic provide only): the host's addresses change to this set when the lookup sends its first
	// FIND_NODE; the records advertise the filter-passing addresses the host has when they are sent
	NewAddrs    []string
	AddrsChange bool
}

func vC06GenProv(c *vh.Case, optim bool) vC06ProvSc {
	r := c.R
	sc := vC06ProvSc{vC06Sc: vC06GenSc(c), Optim: optim, Broadcast: true}
	na := r.Intn(6)
	perm := r.Perm(len(vC06AddrPool))
	for i := 0; i < na; i++ {
		sc.Addrs = append(sc.Addrs, vC06AddrPool[perm[i]])
	}
	sc.Filter = []string{"nil", "nil", "public", "public", "tcponly", "first", "none"}[r.Intn(7)]
	if !optim && r.Intn(12) == 0 {
		sc.Broadcast = false
	}
	if !optim && r.Intn(12) == 0 {
		sc.CancelAt = time.Duration(1+r.Intn(3*sc.MaxDelay+20)) * time.Millisecond
	}
	if !optim && sc.Broadcast && r.Intn(6) == 0 {
		sc.AddrsChange = true
		perm2 := r.Perm(len(vC06AddrPool))
		for i := 0; i < r.Intn(5); i++ {
			sc.NewAddrs = append(sc.NewAddrs, vC06AddrPool[perm2[i]])
		}
	}
	if !optim && sc.Broadcast && sc.CancelAt == 0 && r.Intn(5) == 0 {
		sc.Deadline = []time.Duration{4 * time.Second, 6 * time.Second, 9 * time.Second, 15 * time.Second, 30 * time.Second}[r.Intn(5)]
		sc.AimDelta = 100*time.Millisecond + time.Duration(r.Int63n(int64(vC06Reserve(sc.Deadline)/2-100*time.Millisecond)))
		sc.FailFrac = 0 // a silent peer in the lookup costs a 10 s read timeout: the lookup would not end where it is aimed
	}
	if optim {
		if sc.Cfg.N < sc.Cfg.K+2 {
			sc.Cfg.N = sc.Cfg.K + 2 + r.Intn(40)
		}
		sc.EstFactor = []float64{0.25, 1, 1, 4}[r.Intn(4)]
		if r.Intn(10) < 7 {
			// with fewer than K peers known the code's average-distance rule stops the walk at once: mostly seed >= K
			sc.Cfg.Seeds = sc.Cfg.K + 1 + r.Intn(5)
			if sc.Cfg.N < 3*sc.Cfg.K {
				sc.Cfg.N = 3*sc.Cfg.K + r.Intn(60)
			}
		}
	}
	return sc
}

// vC06Reserve is the part of the caller's deadline classicProvide keeps back for the final ADD_PROVIDER round.
func vC06Reserve(d time.Duration) time.Duration {
	if d < 10*time.Second {
		return d / 10
	}
	return time.Second
}

func vC06AddrSet(as []ma.Multiaddr) []string {
	out := make([]string, len(as))
	for i, a := range as {
		out[i] = a.String()
	}
	sort.Strings(out)
	return out
}

func vC06RunProvide(t *testing.T, c *vh.Case, sc vC06ProvSc) {
	r := c.R
	cfg := sc.Cfg
	if f := vC06Filter(sc.Filter); f != nil {
		cfg.Opts = append(cfg.Opts, AddressFilter(f))
	}
	if sc.Optim {
		cfg.Opts = append(cfg.Opts, EnableOptimisticProvide())
	}
	n := vNewNet(t, c, cfg)
	defer n.Close()
	var hostAddrs []ma.Multiaddr
	for _, s := range sc.Addrs {
		hostAddrs = append(hostAddrs, ma.StringCast(s))
	}
	n.H.SetAddrs(hostAddrs)
	want := hostAddrs
	if f := vC06Filter(sc.Filter); f != nil {
		want = f(hostAddrs)
	}
	wantSet := vC06AddrSet(want)
	var seed [32]byte
	r.Read(seed[:])
	keyMH, err := mh.Sum(seed[:], mh.SHA2_256, -1)
	if err != nil {
		panic(err)
	}
	key := string(keyMH)
	cidKey := cid.NewCidV1(cid.Raw, keyMH)
	beh := vC06Scripts(c, n, sc.vC06Sc, pb.Message_ADD_PROVIDER)
	if sc.Optim {
		// finding #1 (C03, optimistic provide hangs when no ADD_PROVIDER was scheduled) is out of scope
		// here: keep at least one routing-table peer healthy so that the lookup returns somebody
		// (the lookup is seeded with the K nearest table peers only)
		if tp := vsim.Nearest([]byte(key), n.D.routingTable.ListPeers(), sc.Cfg.K); len(tp) > 0 {
			p := tp[r.Intn(len(tp))]
			sp := n.S.Peer(p)
			sp.Dead = false
			base := time.Duration(1+r.Intn(sc.MaxDelay)) * time.Millisecond
			sp.Script = func(int, *pb.Message) vsim.Reply { return vsim.Reply{Delay: base} }
			beh[p] = "ok/ok"
		}
		if sc.SilentNearest > 0 {
			for _, p := range vsim.Nearest([]byte(key), n.IDs, sc.SilentNearest) {
				sp := n.S.Peer(p)
				sp.Dead = false
				sp.Script = func(_ int, req *pb.Message) vsim.Reply {
					if req != nil && req.GetType() == pb.Message_FIND_NODE {
						return vsim.Reply{Silent: true}
					}
					return vsim.Reply{}
				}
				beh[p] = "silent/ok"
			}
		}
		// warm the network-size estimator up with K-closest sets over a phantom population
		m := int(float64(sc.Cfg.N) * sc.EstFactor)
		if m < sc.Cfg.K+1 {
			m = sc.Cfg.K + 1
		}
		var pop []peer.ID
		for i := 0; i < m; i++ {
			pop = append(pop, vsim.PeerID(fmt.Sprintf("phantom%d", c.Idx), i))
		}
		for i := 0; i < 6+r.Intn(4); i++ {
			k := fmt.Sprintf("warm-%d-%d", c.Idx, i)
			if err := n.D.nsEstimator.Track(k, vsim.Nearest([]byte(k), pop, sc.Cfg.K)); err != nil {
				panic(err)
			}
		}
		if ns, err := n.D.nsEstimator.NetworkSize(); err != nil {
			c.Fail("harness-estimator-warm", "estimator not warmed up: %v", err)
		} else {
			c.Set("estimated_network_size", ns)
		}
	}
	provKey := "/providers/" + base32.RawStdEncoding.EncodeToString(keyMH) + "/" + base32.RawStdEncoding.EncodeToString([]byte(n.Self))
	journaled := func() bool {
		for _, e := range n.J.J.Entries() {
			if e.Op == vjds.OpPut && e.Key == provKey && e.Err == "" {
				return true
			}
		}
		return false
	}
	var hookMu sync.Mutex
	firstAdd := 0
	changed := false
	n.S.OnEvent = func(e vsim.Event) {
		if e.Kind != vsim.EvMessage && e.Kind != vsim.EvRequest {
			return
		}
		if sc.AddrsChange && e.Type == pb.Message_FIND_NODE {
			hookMu.Lock()
			first := !changed
			changed = true
			hookMu.Unlock()
			if first {
				var na []ma.Multiaddr
				for _, s := range sc.NewAddrs {
					na = append(na, ma.StringCast(s))
				}
				n.H.SetAddrs(na)
			}
		}
		if e.Type != pb.Message_ADD_PROVIDER {
			return
		}
		hookMu.Lock()
		defer hookMu.Unlock()
		if firstAdd == 0 {
			firstAdd = 2
			if journaled() {
				firstAdd = 1
			}
		}
	}
	synctest.Wait()
	tableSize := n.D.routingTable.Size()
	ctx, cancel := context.WithCancel(context.Background())
	defer cancel()
	lctx, events, wait := n.WithEvents(ctx)
	if sc.CancelAt > 0 {
		tm := time.AfterFunc(sc.CancelAt, cancel)
		defer tm.Stop()
	}
	start := time.Now()
	// the call's own context (child of the one carrying the event subscription): in half of the
	// optimistic cases the caller cancels it as soon as Provide has returned ("defer cancel()")
	pctx, pcancel := context.WithCancel(lctx)
	defer pcancel()
	if sc.Deadline > 0 {
		aim := start.Add(sc.Deadline - vC06Reserve(sc.Deadline) - sc.AimDelta)
		putLat := sc.AimDelta + vC06Reserve(sc.Deadline)/2
		for _, id := range n.IDs {
			sp := n.S.Peer(id)
			orig := sp.Script
			if orig == nil {
				continue
			}
			sp.Script = func(cnt int, req *pb.Message) vsim.Reply {
				rep := orig(cnt, req)
				if req == nil {
					return rep
				}
				switch req.GetType() {
				case pb.Message_FIND_NODE:
					rep.Delay = time.Millisecond
					if d := time.Until(aim); d > rep.Delay {
						rep.Delay = d
					}
				case pb.Message_ADD_PROVIDER:
					if rep.Err == nil && !rep.Silent && rep.Delay < time.Second {
						rep.Delay = putLat
					}
				}
				return rep
			}
		}
		var dcancel context.CancelFunc
		pctx, dcancel = context.WithDeadline(pctx, start.Add(sc.Deadline))
		defer dcancel()
		c.Set("deadline", sc.Deadline.String())
		c.Set("lookup_aimed_before_inner_deadline_by", sc.AimDelta.String())
	}
	perr := n.D.Provide(pctx, cidKey, sc.Broadcast)
	end := time.Now()
	cancelled := ctx.Err() != nil
	walkAway := sc.Optim && c.Idx%2 == 0
	if walkAway {
		pcancel()
	}
	c.Set("caller_cancels_after_return", walkAway)
	if sc.Optim && !cancelled {
		time.Sleep(90 * time.Second) // the remaining ADD_PROVIDERs run in the background for up to a minute
	}
	localProvs, _ := n.D.providerStore.GetProviders(context.Background(), keyMH)
	cancel()
	wait()
	synctest.Wait()
	log := n.S.Log()
	if sc.AddrsChange && changed {
		// the lookup sent a FIND_NODE: every ADD_PROVIDER is sent after the change
		var na []ma.Multiaddr
		for _, s := range sc.NewAddrs {
			na = append(na, ma.StringCast(s))
		}
		want = na
		if f := vC06Filter(sc.Filter); f != nil {
			want = f(na)
		}
		wantSet = vC06AddrSet(want)
		c.Set("host_addrs_changed_during_lookup_to", sc.NewAddrs)
		c.Obs("address_changes_during_lookup", 1)
	}
	d := vC06Derive(n, events(), key, sc.Cfg.K)
	sends, tot := vC06Sends(log, pb.Message_ADD_PROVIDER, key)
	c.Obs("rpcs", len(log)/2)
	c.Obs("add_provider_rpcs", tot)
	c.Obs("lookup_events", len(events()))
	vC06DescribeNet(c, sc.vC06Sc, d, n)
	c.Set("host_addrs", sc.Addrs)
	c.Set("filter", sc.Filter)
	c.Set("expected_addrs", wantSet)
	c.Set("broadcast", sc.Broadcast)
	c.Set("optimistic", sc.Optim)
	c.Set("table_size", tableSize)
	c.Set("err", fmt.Sprint(perr))
	c.Set("virtual_duration_ms", end.Sub(start).Milliseconds())
	// local provider record
	selfLocal := false
	for _, p := range localProvs {
		if p.ID == n.Self {
			selfLocal = true
		}
	}
	c.Check(selfLocal && journaled(), "local-provider-recorded", "after Provide the local provider store does not list the local node for the key (providers %d, journaled %v)", len(localProvs), journaled())
	hookMu.Lock()
	fa := firstAdd
	hookMu.Unlock()
	if fa != 0 {
		c.Check(fa == 1, "local-provider-before-first-send", "the first ADD_PROVIDER was handed to the sender before the local provider record had been written")
	}
	// payload of everything that was sent
	for p, ss := range sends {
		for _, e := range ss {
			pps := e.Msg.GetProviderPeers()
			okSelf := len(pps) == 1 && peer.ID(pps[0].GetId()) == n.Self && string(e.Msg.GetKey()) == key
			c.Check(okSelf, "add-provider-names-exactly-self", "ADD_PROVIDER to %s names %d providers (first %s), expected exactly the local node", n.Name(p), len(pps), func() string {
				if len(pps) > 0 {
					return n.Name(peer.ID(pps[0].GetId()))
				}
				return "-"
			}())
			if len(pps) == 1 {
				got := vC06AddrSet(pps[0].Addresses())
				c.Check(len(got) > 0 && len(got) == len(pps[0].GetAddrs()) && strings.Join(got, " ") == strings.Join(wantSet, " "), "add-provider-addresses-filtered", "ADD_PROVIDER to %s advertises %v, expected the non-empty filter(host.Addrs()) = %v (host addresses %v, filter %s)", n.Name(p), got, wantSet, sc.Addrs, sc.Filter)
			}
		}
	}
	if !sc.Broadcast {
		c.Check(len(log) == 0, "no-announce-no-rpc", "Provide(announce=false) made %d RPC log entries", len(log))
		return
	}
	if len(wantSet) == 0 {
		c.Check(tot == 0, "nothing-sent-without-addresses", "%d ADD_PROVIDER sent although no address passes the filter (host addresses %v, filter %s)", tot, sc.Addrs, sc.Filter)
		return
	}
	if cancelled || d.Lookups == 0 {
		c.Obs("lookup_failed_or_cancelled", 1)
		return
	}
	if d.Lookups != 1 || !d.Terminated {
		c.Fail("harness-lookup-events", "expected the events of exactly one terminated lookup, got %d lookups terminated=%v", d.Lookups, d.Terminated)
		return
	}
	failing := 0
	for _, p := range d.R {
		if beh[p] != "ok/ok" {
			failing++
		}
	}
	c.Obs("recipients", len(d.R))
	c.Obs("failing_recipients", failing)
	if sc.Deadline > 0 {
		c.Obs("deadline_cases_lookup_succeeded_inside_inner_deadline", 1)
		c.ObsMax("deadline_lookup_end_before_inner_deadline_ms_max", int((sc.Deadline - vC06Reserve(sc.Deadline) - d.TermVT.Sub(start)).Milliseconds()))
	}
	if !sc.Optim {
		if sc.Deadline > 0 && errors.Is(perr, context.DeadlineExceeded) && end.Sub(start) >= sc.Deadline {
			// the caller's own deadline passed while a hanging recipient was waited for: the error is the caller's
			// deadline; the healthy recipients were served before it and are judged below
			c.Obs("deadline_reached_waiting_for_a_hanging_recipient", 1)
		} else if perr != nil {
			// an error although the lookup terminated un-cancelled: only when it returned nobody
			c.Obs("provide_error", 1)
			if !c.Check(len(d.R) == 0, "provide-error-only-without-recipients", "Provide returned %v although its closest-peers lookup succeeded and returned %v", perr, n.Names(d.R)) {
				c.Logf("judging the recipients all the same")
			} else {
				return
			}
		}
		vC06CheckRecipients(c, n, sends, d.R, "ADD_PROVIDER", "add-provider-one-per-closest", "add-provider-only-to-closest", beh)
		for _, p := range d.R {
			if beh[p] == "ok/ok" {
				sp := n.S.Peer(p)
				c.Check(len(sp.GotProvs) == 1, "healthy-recipient-got-record", "healthy returned peer %s received %d ADD_PROVIDER", n.Name(p), len(sp.GotProvs))
			}
		}
		if failing > 0 && len(d.R) > failing {
			c.Clause("provide-despite-failures")
		}
	} else {
		if errors.Is(perr, context.Canceled) {
			return
		}
		// optimistic: R ⊆ recipients ⊆ learned peers, nobody twice
		var missing, strangers, twice []string
		for _, p := range d.R {
			if len(sends[p]) == 0 {
				missing = append(missing, n.Name(p))
			}
		}
		for p, ss := range sends {
			if !d.L[p] {
				strangers = append(strangers, n.Name(p))
			}
			if len(ss) > 1 {
				twice = append(twice, fmt.Sprintf("%s×%d", n.Name(p), len(ss)))
			}
		}
		sort.Strings(strangers)
		sort.Strings(twice)
		// delivery, not only hand-over to the sender: the ADD_PROVIDERs still in flight when Provide
		// returns early (after 75 % of them concluded) run on the node's own context, for up to one
		// minute counted from the start of the call, whatever the caller does with its context
		// afterwards. Judged only when the lookup left them at least 10 s of that minute.
		if d.TermVT.Sub(start) < 50*time.Second {
			for _, p := range d.R {
				if beh[p] == "ok/ok" && len(sends[p]) == 1 {
					sp := n.S.Peer(p)
					c.Check(len(sp.GotProvs) == 1, "healthy-recipient-got-record", "healthy peer %s, returned by the lookup, was handed one ADD_PROVIDER at +%v but received %d (Provide returned at +%v, caller cancelled its context afterwards: %v)", n.Name(p), sends[p][0].VT.Sub(start), len(sp.GotProvs), end.Sub(start), walkAway)
				}
			}
		} else {
			c.Obs("lookup_longer_than_50s", 1)
			if sc.SilentNearest > 0 && perr == nil && !cancelled {
				// unit optslow: Provide returned success after a lookup of more than a minute; the property's delivery
				// obligation does not depend on how long the lookup took
				got, healthy := 0, 0
				for _, p := range d.R {
					if beh[p] == "ok/ok" {
						healthy++
						if len(n.S.Peer(p).GotProvs) >= 1 {
							got++
						}
					}
				}
				if healthy > 0 {
					c.Clause("delivery-after-long-lookup")
					if got == 0 {
						c.FailSig("delivery-after-long-lookup", "optimistic-put-context-expired-by-long-lookup", "optimistic Provide returned nil after a lookup of %v, but none of the %d healthy peers returned by the lookup received an ADD_PROVIDER (%d handed to the sender; first outcome: %s)", d.TermVT.Sub(start), healthy, tot, vC06FirstErr(log, key))
					}
				}
			}
		}
		c.Check(len(missing) == 0, "optimistic-covers-closest", "peers returned by the lookup that were never sent ADD_PROVIDER: %v (R=%v, recipients %v, reason %s)", missing, n.Names(d.R), vC06Names(n, sends), d.Reason)
		c.Check(len(strangers) == 0, "optimistic-only-learned", "ADD_PROVIDER sent to peers the lookup never learned: %v", strangers)
		c.Check(len(twice) == 0, "optimistic-nobody-twice", "ADD_PROVIDER sent more than once: %v", twice)
		c.Obs("optimistic_extra_recipients", len(sends)-len(d.R)+len(missing))
		early := 0
		for _, ss := range sends {
			if ss[0].VT.Before(d.TermVT) {
				early++
			}
		}
		c.Obs("optimistic_early_stores", early)
		c.Obs("lookup_reason_"+d.Reason, 1)
		if early > 0 {
			c.Clause("optimistic-early-store-seen")
		}
	}
	if len(d.R) >= 2 && (failing > 0 || len(d.L) > sc.Cfg.K) {
		h := sha256.Sum256([]byte(fmt.Sprintf("%v/%d/%d/%d/%d/%s/%v/%v/%v/%s/%s", sc.Optim, sc.Cfg.N, sc.Cfg.K, sc.Cfg.A, sc.Cfg.B, sc.Cfg.Knowledge, sc.FailFrac, sc.StoreFail, sc.Addrs, sc.Filter, strings.Join(d.Order, ","))))
		c.Nontrivial(fmt.Sprintf("%x", h[:8]))
	}
}

func TestVerif_C06_provide(t *testing.T) {
	vh.Run(t, vh.Spec{Prop: "C06", Unit: "provide", Quick: 700, Thorough: 25000, CostMs: 6,
		Rule:    "classic Provide on PRNG networks as putvalue; host addresses = 0-5 of a pool of public/private/loopback/dns addresses, AddressFilter in {none, public-only, tcp-only, first-only, reject-all}; 0-70% of the peers fail ADD_PROVIDER; 1/12 with announce=false; oracle: local provider journal entry present when the first ADD_PROVIDER is handed to the sender, one ADD_PROVIDER per member of R (recomputed from lookup events) and none elsewhere, payload = key, exactly the local ID, addresses = non-empty filter(host.Addrs()), nothing sent when that is empty; non-trivial = >= 2 recipients and (a failing recipient or more than K learned); distinct by (shape, behaviour, addresses, filter, arrival order)",
		Clauses: []string{"local-provider-recorded", "local-provider-before-first-send", "add-provider-names-exactly-self", "add-provider-addresses-filtered", "add-provider-one-per-closest", "add-provider-only-to-closest", "nothing-sent-without-addresses", "no-announce-no-rpc", "healthy-recipient-got-record", "provide-despite-failures"}},
		func(c *vh.Case) {
			sc := vC06GenProv(c, false)
			c.Bubble(t, 30*time.Minute, "provide-hang", func(t *testing.T) { vC06RunProvide(t, c, sc) })
		})
}

// vC06FirstErr returns the error of the first ADD_PROVIDER for key that failed ("" if none).
func vC06FirstErr(log []vsim.Event, key string) string {
	for _, e := range log {
		if e.Kind == vsim.EvReply && e.Type == pb.Message_ADD_PROVIDER && string(e.Key) == key && e.Err != "" {
			return e.Err
		}
	}
	return ""
}

// C06/optslow: optimistic provide after a lookup that lasts longer than a minute (the nearest peers are silent, alpha 1).
func TestVerif_C06_optslow(t *testing.T) {
	vh.Run(t, vh.Spec{Prop: "C06", Unit: "optslow", Quick: 40, Thorough: 1000, CostMs: 15,
		Rule:    "optimistic Provide on full-knowledge networks of 30-80 peers, K in {3,5}, alpha 1, whose 8-11 peers nearest to the key never answer FIND_NODE (10 s read timeout each): the lookup lasts longer than a minute and returns healthy peers farther out; no store failures; oracle: if Provide returns nil, at least the healthy members of the returned set must RECEIVE the ADD_PROVIDER (not merely be handed to the sender); non-trivial = the lookup lasted > 60 s and returned >= 1 healthy peer; distinct by shape",
		Clauses: []string{"delivery-after-long-lookup"}},
		func(c *vh.Case) {
			sc := vC06GenProv(c, true)
			sc.Cfg.K = []int{3, 5}[c.R.Intn(2)]
			sc.Cfg.A, sc.Cfg.B = 1, []int{1, 3}[c.R.Intn(2)]
			sc.Cfg.N = 30 + c.R.Intn(50)
			sc.Cfg.Knowledge = "full"
			sc.Cfg.Seeds = sc.Cfg.K + 3
			sc.FailFrac, sc.StoreFail, sc.CancelAt = 0, 0, 0
			sc.MaxDelay = 50
			sc.SilentNearest = 8 + c.R.Intn(4)
			sc.EstFactor = 4 // thresholds never fire early: the lookup runs to its end
			if len(sc.Addrs) == 0 {
				sc.Addrs = []string{vC06AddrPool[0]}
			}
			sc.Filter = "nil"
			c.Bubble(t, 30*time.Minute, "provide-hang", func(t *testing.T) { vC06RunProvide(t, c, sc) })
		})
}

func TestVerif_C06_optprovide(t *testing.T) {
	vh.Run(t, vh.Spec{Prop: "C06", Unit: "optprovide", Quick: 500, Thorough: 15000, CostMs: 7,
		Rule:    "Provide with EnableOptimisticProvide and a network-size estimator warmed up over a phantom population of 0.25x/1x/4x N (so that the individual / set thresholds fire early, normally, or never); at least one routing-table peer healthy (finding #1 is C03's); same address/filter/failure mixes as provide; the background ADD_PROVIDERs are given 90 s of virtual time; oracle: R (from lookup events) ⊆ recipients ⊆ learned peers, nobody sent twice, payload and local record as provide; non-trivial as provide",
		Clauses: []string{"local-provider-recorded", "local-provider-before-first-send", "add-provider-names-exactly-self", "add-provider-addresses-filtered", "optimistic-covers-closest", "optimistic-only-learned", "optimistic-nobody-twice", "optimistic-early-store-seen", "healthy-recipient-got-record"}},
		func(c *vh.Case) {
			sc := vC06GenProv(c, true)
			c.Bubble(t, 30*time.Minute, "provide-hang", func(t *testing.T) { vC06RunProvide(t, c, sc) })
		})
}

// ---- corrective puts after a completed value search -------------------------------------------------------------

func TestVerif_C06_corrective(t *testing.T) {
	vh.Run(t, vh.Spec{Prop: "C06", Unit: "corrective", Quick: 700, Thorough: 25000, CostMs: 8,
		Rule:    "value searches of C04 (SearchValue / GetValue, records of all kinds over responders and local store, quorum in {unset,0,1,2,K}), uncancelled, 0-50% of the peers failing PUT_VALUE, 2 virtual minutes for the corrective puts; a search is complete iff it was not ended by its quorum (decided from the number of valid supplies on the wire); oracle for complete searches with a value: exactly one PUT_VALUE {key, best value} to each member of R (top K not-unreachable peers of the embedded lookup, recomputed from its events) that did not answer with the best value's bytes, none to those that did, none elsewhere; for searches ended by quorum: no PUT_VALUE to a holder of the final value; non-trivial = complete search, >= 1 holder of the best value in R and >= 1 corrective put; distinct by (shape, quorum, supplies arrival order)",
		Clauses: []string{"corrective-to-non-holders", "corrective-not-to-holders", "corrective-only-closest", "corrective-carries-best", "holder-in-closest-seen", "corrective-delivered"}},
		func(c *vh.Case) {
			r := c.R
			sc := vC04GenSc(c, []string{"search", "get"}[r.Intn(2)])
			sc.CancelAt = 0
			sc.Events = true
			sc.Settle = 2 * time.Minute
			sc.StoreFail = []float64{0, 0.2, 0.5}[r.Intn(3)]
			sc.WalkAway = c.Idx%2 == 0 // the caller cancels its context as soon as the search has returned
			if sc.HolderFrac == 0 {
				sc.HolderFrac = 0.4
			}
			c.Bubble(t, 30*time.Minute, "value-search-hang", func(t *testing.T) {
				res := vC04Run(t, c, sc)
				n := res.n
				sig := vC04Describe(c, res)
				d := vC06Derive(n, res.Events, sc.Key, sc.Cfg.K)
				sends, tot := vC06Sends(res.Log, pb.Message_PUT_VALUE, sc.Key)
				c.Obs("rpcs", len(res.Log)/2)
				c.Obs("corrective_put_rpcs", tot)
				c.Obs("lookup_events", len(res.Events))
				c.Set("store_fail_frac", sc.StoreFail)
				c.Set("R", n.Names(d.R))
				c.Set("lookup_reason", d.Reason)
				var best []byte
				if len(res.Emis) > 0 {
					best = res.Emis[len(res.Emis)-1].Val
				}
				holders := map[peer.ID]bool{}
				for _, s := range res.Supplies {
					if !s.Local && s.Valid && best != nil && string(s.Val) == string(best) {
						holders[s.Peer] = true
					}
				}
				c.Set("holders_of_best", vSortedNames(n, holders))
				c.Set("corrective_recipients", vC06Names(n, sends))
				// payload of every corrective put
				for p, ss := range sends {
					for _, e := range ss {
						rec := e.Msg.GetRecord()
						c.Check(best != nil && rec != nil && string(rec.GetKey()) == sc.Key && string(rec.GetValue()) == string(best), "corrective-carries-best", "PUT_VALUE to %s carries %s under key %q, the search's best value is %s", n.Name(p), vC04Short(rec.GetValue()), rec.GetKey(), vC04Short(best))
					}
				}
				// holders never get it, complete search or not
				var toHolders []string
				for p := range sends {
					if holders[p] {
						toHolders = append(toHolders, n.Name(p))
					}
				}
				sort.Strings(toHolders)
				inR := 0
				for _, p := range d.R {
					if holders[p] {
						inR++
					}
				}
				if inR > 0 {
					c.Clause("holder-in-closest-seen")
				}
				if len(holders) > 0 {
					c.Check(len(toHolders) == 0, "corrective-not-to-holders", "PUT_VALUE sent to peers that had answered with the best value: %v (holders %v)", toHolders, vSortedNames(n, holders))
				}
				if vC04Aborted(res) {
					c.Obs("searches_ended_by_quorum", 1)
					return
				}
				if best == nil || res.tableSize == 0 {
					c.Check(tot == 0, "corrective-only-closest", "%d PUT_VALUE sent although the search found no value / had no lookup", tot)
					return
				}
				if d.Lookups != 1 || !d.Terminated {
					c.Fail("harness-lookup-events", "expected the events of exactly one terminated lookup, got %d lookups terminated=%v", d.Lookups, d.Terminated)
					return
				}
				c.Obs("complete_searches", 1)
				var want []peer.ID
				for _, p := range d.R {
					if !holders[p] {
						want = append(want, p)
					}
				}
				beh := map[peer.ID]string{}
				for p, k := range res.kinds {
					beh[p] = k
				}
				vC06CheckRecipients(c, n, sends, want, "corrective PUT_VALUE", "corrective-to-non-holders", "corrective-only-closest", beh)
				// delivery, not only hand-over to the sender: the corrective puts run on the node's own
				// context (30 s per peer; the node stays up for 2 more minutes), whatever the caller does
				// with the context of its finished search
				for _, p := range want {
					if k := strings.Split(res.kinds[p], "/"); len(k) == 3 && k[0] == "ok" && k[2] == "ok" && len(sends[p]) == 1 {
						got := false
						for _, rec := range n.S.Peer(p).GotPuts {
							if string(rec.GetKey()) == sc.Key && string(rec.GetValue()) == string(best) {
								got = true
							}
						}
						c.Check(got, "corrective-delivered", "healthy peer %s was handed the corrective PUT_VALUE but never received it (caller cancelled its context after the search returned: %v)", n.Name(p), sc.WalkAway)
					}
				}
				c.Set("caller_cancels_after_return", sc.WalkAway)
				if inR > 0 && len(want) > 0 {
					c.Nontrivial(sig)
				}
			})
		})
}
