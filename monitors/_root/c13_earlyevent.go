//go:build verif

package dht

// C13/earlyevent — "the mode after any sequence of reachability events is determined by the last event":
// also when the first event is handled while the constructor is still running (a host that already knows its
// reachability emits it as soon as somebody subscribes). The event is placed deterministically: a peer is
// connected before New(), New() walks the connected peers after it has started its event subscriber, and the
// routing-table filter callback of that walk emits the event and waits until it has been processed.

import (
	"fmt"
	"testing"
	"testing/synctest"
	"time"

	"github.com/libp2p/go-libp2p/core/event"
	"github.com/libp2p/go-libp2p/core/network"
	"github.com/libp2p/go-libp2p/core/peer"
	"github.com/libp2p/go-libp2p/core/protocol"

	"github.com/libp2p/go-libp2p-kad-dht/internal/verif/vh"
)

func TestVerif_C13_earlyevent(t *testing.T) {
	vh.Run(t, vh.Spec{Prop: "C13", Unit: "earlyevent", Quick: 200, Thorough: 4000, CostMs: 8,
		Rule: "four Mode options x a reachability event (public / private / unknown) emitted and fully processed WHILE New() is still running (from the routing-table filter callback of the constructor's walk over already-connected peers, which runs after the event subscriber was started), followed by 0-3 further events after New() returned; oracle at rest: handlers registered iff mode(last event, option) = server; fixed modes never change; non-trivial = the event during construction alone decides the final mode of an automatic option; distinct by (option, event sequence)",
		Clauses: []string{"handlers-iff-mode-of-last-event", "event-processed-during-construction"}},
		func(c *vh.Case) {
			modes := []ModeOpt{ModeAuto, ModeAutoServer, ModeClient, ModeServer}
			mode := modes[c.Idx%4]
			reach := []network.Reachability{network.ReachabilityPublic, network.ReachabilityPrivate, network.ReachabilityUnknown}
			first := reach[(c.Idx/4)%3]
			nLater := c.R.Intn(4)
			var later []network.Reachability
			for i := 0; i < nLater; i++ {
				later = append(later, reach[c.R.Intn(3)])
			}
			c.Set("mode_option", int(mode))
			c.Set("event_during_new", first.String())
			c.Set("events_after_new", fmt.Sprint(later))
			c.Bubble(t, time.Hour, "c13-hang", func(t *testing.T) {
				emitted := false
				var early peer.ID
				cfg := vNetCfg{N: 6, K: 4, A: 2, B: 2, Knowledge: "full", Seeds: 0, Opts: []Option{Mode(mode)}} // ModeAuto is the zero value: pass it as an option
				cfg.OptsFn = func(n *vNet) []Option {
					early = n.IDs[0]
					n.H.Net.AddConn(early, network.DirOutbound, nil, false)
					n.H.Peerstore().AddProtocols(early, protocol.ID("/verif/kad/1.0.0"))
					return []Option{RoutingTableFilter(func(_ any, p peer.ID) bool {
						if !emitted {
							emitted = true
							n.H.Emit(event.EvtLocalReachabilityChanged{Reachability: first})
							time.Sleep(time.Millisecond) // the subscriber goroutine handles the event
							synctest.Wait()
						}
						return true
					})}
				}
				n := vNewNet(t, c, cfg)
				defer n.Close()
				synctest.Wait()
				c.Check(emitted, "event-processed-during-construction", "the constructor did not consult the routing-table filter for the already connected peer: the event could not be placed")
				last := first
				for _, r := range later {
					n.H.Emit(event.EvtLocalReachabilityChanged{Reachability: r})
					time.Sleep(time.Millisecond)
					synctest.Wait()
					last = r
				}
				want := false
				switch mode {
				case ModeServer:
					want = true
				case ModeClient:
					want = false
				case ModeAuto:
					want = last == network.ReachabilityPublic
				case ModeAutoServer:
					want = last != network.ReachabilityPrivate
				}
				got := n.H.Handler(protocol.ID("/verif/kad/1.0.0")) != nil
				c.Check(got == want, "handlers-iff-mode-of-last-event", "mode option %d, event %v handled during New(), later events %v: stream handlers registered = %v, expected %v (mode of the last event)", mode, first, later, got, want)
				c.Obs("reachability_events", 1+len(later))
				if len(later) == 0 && (mode == ModeAuto || mode == ModeAutoServer) {
					c.Nontrivial(fmt.Sprintf("%d/%v", mode, first))
				} else if mode == ModeAuto || mode == ModeAutoServer {
					c.Nontrivial(fmt.Sprintf("%d/%v/%v", mode, first, later))
				}
			})
		})
}
