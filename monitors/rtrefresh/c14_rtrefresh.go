//go:build verif

package rtrefresh

// C14 — RtRefreshManager.Close: "Close blocks until all refresh operations have stopped", may
// be repeated, and is safe while Refresh / RefreshNoWait callers, the refresh loop, its
// liveness pings and its queries are in flight.
//
// Unit rtrefresh (bubble): PRNG manager (auto-refresh on/off, 0-12 table peers whose last
// outbound query is older than the grace period so that they are pinged, query / ping / dial
// latencies, a few milliseconds to abort after cancellation, refresh-done channel consumed or
// not), k Refresh(force) / RefreshNoWait callers; reference run counts the boundary events
// (query, ping, dial starts and ends, refresh-done receives), re-runs Close at event #i.
//
// Unit rtrefresh_par (real time, no bubble): Refresh() callers spinning while Close runs — the
// interleaving "refcount.Go while refcount.Wait is returning" cannot be driven from virtual
// time. Verdict = panic observed / census, never wall-clock.

import (
	"context"
	"errors"
	"fmt"
	"math/rand"
	"runtime"
	"runtime/debug"
	"sort"
	"strings"
	"sync"
	"sync/atomic"
	"testing"
	"testing/synctest"
	"time"

	kbucket "github.com/libp2p/go-libp2p-kbucket"
	"github.com/libp2p/go-libp2p/core/peer"
	ma "github.com/multiformats/go-multiaddr"

	"github.com/libp2p/go-libp2p-kad-dht/internal/verif/vc14"
	"github.com/libp2p/go-libp2p-kad-dht/internal/verif/vh"
	"github.com/libp2p/go-libp2p-kad-dht/internal/verif/vsim"
)

const (
	vC14RrCloseBound = 2 * time.Second
	vC14RrCloseHang  = 5 * time.Minute
	vC14RrSlack      = time.Second
)

type vC14RrScn struct {
	Seed     int64
	Auto     bool
	Peers    int
	Callers  int
	Consume  bool // somebody receives from refreshDoneCh (the DHT's rtPeerLoop) — or nobody (it has exited)
	Interval time.Duration
}

func (s vC14RrScn) String() string {
	return fmt.Sprintf("auto=%v peers=%d callers=%d consume=%v interval=%v", s.Auto, s.Peers, s.Callers, s.Consume, s.Interval)
}

type vC14RrCall struct {
	Kind     string // refresh | force | nowait
	Offset   time.Duration
	Start    time.Duration
	Ret      time.Duration
	Answered bool // a value was received (or the channel was closed)
	Closed   bool
	Late     bool
	Err      string
}

type vC14RrRes struct {
	Events     []vc14.Ev
	CloseIdx   int
	CloseLabel string
	CloseTook  time.Duration
	Pending    int
	Busy       string
}

func vC14RrSleep(ctx context.Context, d, grace time.Duration) error {
	tm := time.NewTimer(d)
	defer tm.Stop()
	select {
	case <-tm.C:
		return nil
	case <-ctx.Done():
		time.Sleep(grace)
		return ctx.Err()
	}
}

func vC14RrRun(t *testing.T, c *vh.Case, sc vC14RrScn, target int) *vC14RrRes {
	var res *vC14RrRes
	c.Bubble(t, 30*time.Minute, "close-hang", func(t *testing.T) {
		res = vC14RrRunInBubble(t, c, sc, target)
	})
	return res
}

func vC14RrRunInBubble(t *testing.T, c *vh.Case, sc vC14RrScn, target int) *vC14RrRes {
	r := rand.New(rand.NewSource(sc.Seed))
	res := &vC14RrRes{}
	tag := fmt.Sprintf("[close@%d] ", target)
	base := vc14.Owned()
	c.Check(len(base) == 0, "baseline-clean", "%sinstance-owned goroutines before construction: %v", tag, vc14.Summary(base))
	cnt := max(target, 0)
	bd := vc14.NewBoundary(cnt, "(*RtRefreshManager).loop")

	self := vsim.PeerID("c14rr-self", int(sc.Seed%1000003))
	h := vsim.NewHost(self, ma.StringCast("/ip4/9.9.9.9/tcp/4001"))
	grace := time.Duration(1+r.Intn(25)) * time.Millisecond
	lat := map[peer.ID]time.Duration{}
	fail := map[peer.ID]bool{}
	name := map[peer.ID]string{}
	h.DialFn = func(ctx context.Context, p peer.ID) error {
		bd.Tick("dial", name[p])
		err := vC14RrSleep(ctx, lat[p], grace)
		if err == nil && fail[p] {
			err = errors.New("vC14: dial failed")
		}
		bd.Tick("dialend", name[p])
		return err
	}
	rt, err := kbucket.NewRoutingTable(4, kbucket.ConvertPeerID(self), time.Minute, h.Peerstore(), time.Hour, nil)
	if err != nil {
		panic(err)
	}
	for i := 0; i < sc.Peers; i++ {
		p := vsim.PeerID(fmt.Sprintf("c14rr-%d", sc.Seed%1000003), i)
		name[p] = fmt.Sprintf("p%d", i)
		lat[p] = time.Duration(1+r.Intn(400)) * time.Millisecond
		fail[p] = r.Intn(4) == 0
		rt.TryAddPeer(p, true, false)
	}
	qlat := time.Duration(5+r.Intn(3000)) * time.Millisecond
	qfail := r.Intn(4) == 0
	query := func(ctx context.Context, key string) error {
		bd.Tick("query", "")
		err := vC14RrSleep(ctx, qlat, grace)
		if err == nil && qfail {
			err = errors.New("vC14: query failed")
		}
		bd.Tick("queryend", "")
		return err
	}
	ping := func(ctx context.Context, p peer.ID) error {
		bd.Tick("ping", name[p])
		err := vC14RrSleep(ctx, lat[p]/2+time.Millisecond, grace)
		bd.Tick("pingend", name[p])
		return err
	}
	keygen := func(cpl uint) (string, error) {
		p, err := rt.GenRandPeerID(cpl)
		return string(p), err
	}
	doneCh := make(chan struct{})
	hctx, hcancel := context.WithCancel(context.Background())
	var hwg sync.WaitGroup
	if sc.Consume {
		hwg.Add(1)
		go func() {
			defer hwg.Done()
			for {
				select {
				case <-doneCh:
					bd.Tick("refresh-done", "")
				case <-hctx.Done():
					return
				}
			}
		}()
	}
	// grace period of 1 ms: after the first virtual millisecond every table peer is due for a liveness ping
	m, err := NewRtRefreshManager(h, rt, sc.Auto, keygen, query, ping, 10*time.Second, sc.Interval, time.Millisecond, doneCh)
	if err != nil {
		panic(err)
	}
	time.Sleep(2 * time.Millisecond)
	m.Start()

	var closing atomic.Bool
	var mu sync.Mutex
	var calls []*vC14RrCall
	var cwg sync.WaitGroup
	for i := 0; i < sc.Callers; i++ {
		cl := &vC14RrCall{Kind: []string{"refresh", "force", "force", "nowait"}[r.Intn(4)], Offset: time.Duration(r.Intn(6000)) * time.Millisecond}
		if i == 0 {
			cl.Offset = 0
		}
		calls = append(calls, cl)
		cwg.Add(1)
		go func() {
			defer cwg.Done()
			time.Sleep(cl.Offset)
			mu.Lock()
			cl.Start, cl.Late = bd.Since(), closing.Load()
			mu.Unlock()
			bd.Tick("call", cl.Kind)
			if cl.Kind == "nowait" {
				m.RefreshNoWait()
				mu.Lock()
				cl.Ret, cl.Answered, cl.Closed = bd.Since(), true, true
				mu.Unlock()
				return
			}
			ch := m.Refresh(cl.Kind == "force")
			e, ok := <-ch // the documented contract: yields the error, then closes (or closes)
			mu.Lock()
			cl.Ret, cl.Answered = bd.Since(), true
			if ok && e != nil {
				cl.Err = e.Error()
			}
			mu.Unlock()
			closed := !ok
			if ok {
				tm := time.NewTimer(vC14RrSlack)
				select {
				case _, ok2 := <-ch:
					closed = !ok2
				case <-tm.C:
				}
				tm.Stop()
			}
			mu.Lock()
			cl.Closed = closed
			mu.Unlock()
		}()
	}
	callsDone := make(chan struct{})
	go func() { cwg.Wait(); close(callsDone) }()
	settled := make(chan struct{})
	go func() {
		select {
		case <-callsDone:
			time.Sleep(sc.Interval + 15*time.Second) // one more periodic refresh
		case <-time.After(3 * time.Minute): // a caller that is never answered must not keep the reference run open
		}
		close(settled)
	}()
	if target < 0 {
		bd.FireNow()
	}
	select {
	case <-bd.Fire:
	case <-settled:
		bd.FireNow()
	}
	closing.Store(true)
	evs := bd.Events()
	res.CloseIdx = len(evs)
	if n := len(evs); n > 0 {
		res.CloseLabel, res.Busy = evs[n-1].Kind+" "+evs[n-1].Label, evs[n-1].Owner
	}
	mu.Lock()
	for _, cl := range calls {
		if cl.Start > 0 && !cl.Answered {
			res.Pending++
		}
	}
	mu.Unlock()

	doClose := func(what string) (took time.Duration, err error, panicked bool) {
		t0 := bd.Since()
		type out struct {
			err error
			pv  any
			st  []byte
		}
		ret := make(chan out, 1)
		go func() {
			var o out
			defer func() {
				if pv := recover(); pv != nil {
					o.pv, o.st = pv, debug.Stack()
				}
				ret <- o
			}()
			o.err = m.Close()
		}()
		tm := time.NewTimer(vC14RrCloseHang)
		defer tm.Stop()
		select {
		case o := <-ret:
			if o.pv != nil {
				c.FailSig("close-panic", vC14RrPanicSig(fmt.Sprint(o.pv)), "%s%s panicked: %v (%s; closed at event #%d %q, %d Refresh callers pending)\n%s", tag, what, o.pv, sc, res.CloseIdx, res.CloseLabel, res.Pending, o.st)
				return bd.Since() - t0, nil, true
			}
			return bd.Since() - t0, o.err, false
		case <-tm.C:
			buf := make([]byte, 1<<22)
			buf = buf[:runtime.Stack(buf, true)]
			c.FailSig("close-hang", "close-hang@"+vh.BlockedRepoFrame(buf), "%s%s did not return within %v (%s; closed at event #%d %q); goroutines:\n%s", tag, what, vC14RrCloseHang, sc, res.CloseIdx, res.CloseLabel, vh.FilterBubble(buf))
			c.ExitNow()
			return 0, nil, false
		}
	}
	took, cerr, _ := doClose("Close")
	closeRet := bd.Since()
	res.CloseTook = took
	c.Check(took <= vC14RrCloseBound && cerr == nil, "close-returns-in-bound", "%sClose took %v (bound %v), returned %v (%s; closed at event #%d %q)", tag, took, vC14RrCloseBound, cerr, sc, res.CloseIdx, res.CloseLabel)
	// "Close blocks until all refresh operations have stopped": nothing the manager started may be left,
	// except request goroutines of Refresh calls made after Close returned (they end at once)
	synctest.Wait()
	cA := vc14.Owned()
	c.Check(len(cA) == 0, "no-goroutine-after-close", "%sgoroutines of the manager alive after Close returned (%s; closed at event #%d %q, busy %q): %v\n%s", tag, sc, res.CloseIdx, res.CloseLabel, res.Busy, vc14.Summary(cA), vc14.Dump(cA, 4))
	for k := 2; k <= 3; k++ {
		tk, e, _ := doClose(fmt.Sprintf("Close #%d", k))
		c.Check(tk <= vC14RrCloseBound && e == nil, "close-again-returns", "%sClose #%d took %v, returned %v", tag, k, tk, e)
	}
	// callers are answered
	tm := time.NewTimer(2 * time.Minute)
	select {
	case <-callsDone:
	case <-tm.C:
		mu.Lock()
		var stuck []string
		for _, cl := range calls {
			if !cl.Answered {
				stuck = append(stuck, fmt.Sprintf("%s(start +%v late=%v)", cl.Kind, cl.Start, cl.Late))
			}
		}
		mu.Unlock()
		buf := make([]byte, 1<<22)
		buf = buf[:runtime.Stack(buf, true)]
		c.FailSig("refresh-answered", "refresh-answered/stuck", "%sRefresh callers not answered 2 virtual minutes after Close returned (%s; closed at event #%d %q): %v\n%s", tag, sc, res.CloseIdx, res.CloseLabel, stuck, vh.FilterBubble(buf))
		c.ExitNow() // the receive cannot be unwound
	}
	tm.Stop()
	evs = bd.Events()
	lastBefore := func(t time.Duration) time.Duration {
		i := sort.Search(len(evs), func(i int) bool { return evs[i].VT > t })
		if i == 0 {
			return 0
		}
		return evs[i-1].VT
	}
	for _, cl := range calls {
		ref := max(lastBefore(cl.Ret), cl.Start)
		if closeRet <= cl.Ret {
			ref = max(ref, closeRet)
		}
		clause := "refresh-answered"
		if cl.Late {
			clause = "late-refresh-answered"
		}
		c.Check(cl.Ret-ref <= vC14RrSlack+grace, clause, "%s%s called +%v answered +%v: %v after the last boundary event / Close return (+%v) (%s)", tag, cl.Kind, cl.Start, cl.Ret, cl.Ret-ref, closeRet, sc)
		c.Check(cl.Closed, "refresh-channel-closed", "%s%s called +%v: channel answered but not closed within %v", tag, cl.Kind, cl.Start, vC14RrSlack)
	}
	hcancel()
	hwg.Wait()
	time.Sleep(2 * time.Minute)
	synctest.Wait()
	cB := vc14.Owned()
	if !c.Check(len(cB) == 0, "no-goroutine-after-2min", "%sgoroutines of the manager 2 virtual minutes after Close: %v\n%s", tag, vc14.Summary(cB), vc14.Dump(cB, 4)) {
		c.ExitNow() // cannot be unwound
	}
	rt.Close()
	h.Close()
	res.Events = evs
	c.Obs("runs", 1)
	c.Obs("boundary_events", len(evs))
	c.Obs("callers", len(calls))
	c.Obs("callers_pending_at_close", res.Pending)
	if res.Busy != "" {
		c.Obs("closes_on_busy_loop", 1)
	}
	return res
}

func TestVerif_C14_rtrefresh(t *testing.T) {
	vh.Run(t, vh.Spec{Prop: "C14", Unit: "rtrefresh", Quick: 120, Thorough: 4000, CostMs: 45,
		Rule:    "PRNG RtRefreshManager (auto-refresh on/off, 0-12 table peers all due for a liveness ping, 25% failing dials/queries, latencies 1 ms - 3 s, 1-25 ms to abort after cancellation, refresh-done channel consumed or not, interval 5-60 s) with 1-5 Refresh / Refresh(force) / RefreshNoWait callers at PRNG instants; reference run counts boundary events (caller, query, ping, dial starts/ends, refresh-done), re-runs Close immediately after Start, at 2 events on the loop's stack and 2 PRNG indices (thorough: all, <= 64); non-trivial = Close while a caller was pending or the loop was busy; distinct by (config, event kind at Close)",
		Clauses: []string{"baseline-clean", "close-returns-in-bound", "no-goroutine-after-close", "close-again-returns", "refresh-answered", "late-refresh-answered", "refresh-channel-closed", "no-goroutine-after-2min"}},
		func(c *vh.Case) {
			r := c.R
			sc := vC14RrScn{Seed: r.Int63(), Auto: r.Intn(2) == 0, Peers: r.Intn(13), Callers: 1 + r.Intn(5), Consume: r.Intn(3) > 0,
				Interval: time.Duration(5+r.Intn(56)) * time.Second}
			c.Set("scenario", sc.String())
			c.Set("seed", sc.Seed)
			ref := vC14RrRun(t, c, sc, 0)
			idxs := vc14.PickIndices(r, ref.Events, 2, 2, c.Tier == "thorough", 64)
			c.Set("close_indices", idxs)
			c.Logf("reference run: %d boundary events, Close after everything took %v", len(ref.Events), ref.CloseTook)
			var sigs []string
			for _, i := range idxs {
				if i > len(ref.Events) {
					continue
				}
				tg := i
				if i == 0 {
					tg = -1
				}
				res := vC14RrRun(t, c, sc, tg)
				c.Logf("close@%d: event #%d %q busy=%q pending=%d took %v", tg, res.CloseIdx, res.CloseLabel, res.Busy, res.Pending, res.CloseTook)
				if res.Pending > 0 || res.Busy != "" {
					k, _, _ := strings.Cut(res.CloseLabel, " ")
					sigs = append(sigs, fmt.Sprintf("%s/%v/%d", k, res.Busy != "", min(res.Pending, 2)))
				}
			}
			if len(sigs) > 0 {
				sort.Strings(sigs)
				c.Nontrivial(fmt.Sprintf("%v/%v/%d/%s", sc.Auto, sc.Consume, min(sc.Peers, 3), strings.Join(sigs, ",")))
			}
		})
}

// ---- real-parallel twin: Refresh() racing with Close ------------------------------------------------

func TestVerif_C14_rtrefresh_par(t *testing.T) {
	vh.Run(t, vh.Spec{Prop: "C14", Unit: "rtrefresh_par", Quick: 10, Thorough: 300, CostMs: 1000, WallS: 300,
		Rule:    "real time, no bubble: per case 40 managers (instant query / ping functions, empty or 3-peer table), 2-6 goroutines calling Refresh(force) in a tight loop (yielding) while Close runs at a PRNG spin count; verdict = panic recovered from Close / Refresh, unanswered channel (logical: the receive is attempted after Close returned and everything the manager started has exited), census after Close; wall clock only bounds the harness (watchdog = inconclusive); non-trivial = >= 1 Refresh call overlapped Close; distinct by (spinners, peers)",
		Clauses: []string{"close-panic", "no-goroutine-after-close", "refresh-answered"}},
		func(c *vh.Case) {
			r := c.R
			spinners := 2 + r.Intn(5)
			npeers := []int{0, 3}[r.Intn(2)]
			c.Set("spinners", spinners)
			c.Set("peers", npeers)
			self := vsim.PeerID("c14rrp-self", c.Idx)
			h := vsim.NewHost(self, ma.StringCast("/ip4/9.9.9.9/tcp/4001"))
			defer h.Close()
			overlapped := 0
			for round := 0; round < 40 && !c.Failed(); round++ {
				rt, err := kbucket.NewRoutingTable(4, kbucket.ConvertPeerID(self), time.Minute, h.Peerstore(), time.Hour, nil)
				if err != nil {
					panic(err)
				}
				for i := 0; i < npeers; i++ {
					rt.TryAddPeer(vsim.PeerID("c14rrp", i), true, false)
				}
				doneCh := make(chan struct{}, 1024)
				m, _ := NewRtRefreshManager(h, rt, false,
					func(cpl uint) (string, error) { p, err := rt.GenRandPeerID(cpl); return string(p), err },
					func(ctx context.Context, key string) error { return ctx.Err() },
					func(ctx context.Context, p peer.ID) error { return ctx.Err() },
					time.Second, time.Hour, time.Hour, doneCh)
				m.Start()
				var stop, closed atomic.Bool
				var calls, during atomic.Int64
				var wg sync.WaitGroup
				var pmu sync.Mutex
				var panics []string
				var chans []<-chan error
				for s := 0; s < spinners; s++ {
					wg.Add(1)
					go func() {
						defer wg.Done()
						defer func() {
							if pv := recover(); pv != nil {
								pmu.Lock()
								panics = append(panics, fmt.Sprintf("Refresh panicked: %v\n%s", pv, debug.Stack()))
								pmu.Unlock()
							}
						}()
						for !stop.Load() {
							wasClosing := closed.Load()
							ch := m.Refresh(true)
							calls.Add(1)
							if wasClosing {
								during.Add(1)
							}
							pmu.Lock()
							if len(chans) < 4096 {
								chans = append(chans, ch)
							}
							pmu.Unlock()
							runtime.Gosched()
						}
					}()
				}
				spin := r.Intn(2000)
				for i := 0; i < spin; i++ {
					runtime.Gosched()
				}
				closed.Store(true)
				func() {
					defer func() {
						if pv := recover(); pv != nil {
							pmu.Lock()
							panics = append(panics, fmt.Sprintf("Close panicked: %v\n%s", pv, debug.Stack()))
							pmu.Unlock()
						}
					}()
					m.Close()
				}()
				for i := 0; i < 50; i++ {
					runtime.Gosched()
				}
				stop.Store(true)
				wg.Wait()
				func() { // a later Close must still be possible
					defer func() {
						if pv := recover(); pv != nil {
							pmu.Lock()
							panics = append(panics, fmt.Sprintf("second Close panicked: %v\n%s", pv, debug.Stack()))
							pmu.Unlock()
						}
					}()
					m.Close()
				}()
				if during.Load() > 0 {
					overlapped++
				}
				c.Obs("refresh_calls", int(calls.Load()))
				c.Obs("refresh_calls_after_close_began", int(during.Load()))
				c.Obs("managers", 1)
				c.Clause("close-panic")
				if len(panics) > 0 {
					c.FailSig("close-panic", vC14RrPanicSig(strings.Join(panics, " ")), "round %d (%d spinners, %d table peers, %d Refresh calls, %d after Close began): Refresh concurrent with Close: %s", round, spinners, npeers, calls.Load(), during.Load(), trimTo(strings.Join(panics, "\n"), 4000))
				}
				// everything the manager started has exited (request goroutines end once the context is cancelled)
				var left []vh.Goro
				for i := 0; i < 2000; i++ {
					if left = vc14.Owned(); len(left) == 0 {
						break
					}
					runtime.Gosched()
					if i > 200 {
						time.Sleep(time.Millisecond)
					}
				}
				c.Check(len(left) == 0, "no-goroutine-after-close", "round %d: goroutines of the manager left after Close returned and all callers stopped: %v\n%s", round, vc14.Summary(left), vc14.Dump(left, 3))
				// with nothing of the manager running any more, every channel must already hold its answer or be closed
				unanswered := 0
				if len(left) == 0 {
					for _, ch := range chans {
						select {
						case <-ch:
						default:
							unanswered++
						}
					}
				}
				c.Check(unanswered == 0, "refresh-answered", "round %d: %d of %d Refresh channels neither answered nor closed although the manager is closed and all its goroutines have exited", round, unanswered, len(chans))
				rt.Close()
			}
			if overlapped > 0 {
				c.Nontrivial(fmt.Sprintf("%d/%d", spinners, npeers))
			}
		})
}

// vC14RrPanicSig gives the WaitGroup-misuse panics of Refresh racing with Close (finding #17) one
// stable signature, distinguishable from any other panic.
func vC14RrPanicSig(msg string) string {
	if strings.Contains(msg, "WaitGroup") {
		return "rtrefresh-refresh-races-close"
	}
	return "panic@rtrefresh.(*RtRefreshManager).Close"
}

func trimTo(s string, n int) string {
	if len(s) > n {
		return s[:n] + "…"
	}
	return s
}
