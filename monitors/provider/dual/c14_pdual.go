//go:build verif

package dual

// C14 — provider/dual.SweepingProvider.Close: "stops both DHT providers and releases associated
// resources" (the keystore and datastore it created itself; an external keystore and the dual
// DHT stay with their owners).
//
// A dual.DHT over one fake host and a simulated network (public peers with a connection for the
// WAN table, private ones for the LAN table; the simulated sender and dials honour contexts at
// once — the providers' connectivity probes hold a mutex that Close waits on, DESIGN C14 FA)
// is the router of both providers. Close instants are enumerated over the boundary events (wire
// log, dials, API calls) of a reference run, starting after both providers have finished their
// initial probe / measurement.

import (
	"context"
	"errors"
	"fmt"
	"math/rand"
	"runtime"
	"runtime/debug"
	"sort"
	"strings"
	"sync"
	"sync/atomic"
	"testing"
	"testing/synctest"
	"time"

	"github.com/libp2p/go-libp2p/core/network"
	"github.com/libp2p/go-libp2p/core/peer"
	ma "github.com/multiformats/go-multiaddr"
	mh "github.com/multiformats/go-multihash"

	dht "github.com/libp2p/go-libp2p-kad-dht"
	ddht "github.com/libp2p/go-libp2p-kad-dht/dual"
	"github.com/libp2p/go-libp2p-kad-dht/internal/verif/vc14"
	"github.com/libp2p/go-libp2p-kad-dht/internal/verif/vh"
	"github.com/libp2p/go-libp2p-kad-dht/internal/verif/vjds"
	"github.com/libp2p/go-libp2p-kad-dht/internal/verif/vsim"
	pb "github.com/libp2p/go-libp2p-kad-dht/pb"
	"github.com/libp2p/go-libp2p-kad-dht/provider/keystore"
)

const (
	vC14PdCloseBound = 2 * time.Second
	vC14PdCloseHang  = 5 * time.Minute
)

type vC14PdScn struct {
	Seed     int64
	N        int
	ExtKs    bool
	Actions  int
	Interval time.Duration
	FailDS   bool // the providers' datastore refuses every write from the moment Close is called
	// WanOnly (with FailDS): the two providers have separate datastores and only the WAN provider's refuses writes, so
	// its Close fails at once while the LAN provider's Close does its work; Close of the wrapper returns after BOTH.
	WanOnly bool
}

func (s vC14PdScn) String() string {
	return fmt.Sprintf("N=%d external-keystore=%v actions=%d interval=%v failing-datastore-at-close=%v wan-only=%v", s.N, s.ExtKs, s.Actions, s.Interval, s.FailDS, s.WanOnly)
}

type vC14PdRes struct {
	Events     []vc14.Ev
	CloseIdx   int
	CloseLabel string
	CloseTook  time.Duration
	InFlight   int
}

// goroutines started by the provider packages (the dual DHT's own stay until it is closed)
func vC14PdOwned() []vh.Goro {
	var out []vh.Goro
	for _, g := range vc14.Owned() {
		if strings.HasPrefix(g.CreatedBy, "provider") || strings.HasPrefix(g.CreatedBy, "WaitGroup.Go:provider") {
			out = append(out, g)
		}
	}
	return out
}

func vC14PdNotKeystore(gs []vh.Goro) []vh.Goro {
	var out []vh.Goro
	for _, g := range gs {
		if !strings.Contains(g.CreatedBy, "provider/keystore.") {
			out = append(out, g)
		}
	}
	return out
}

func vC14PdRun(t *testing.T, c *vh.Case, sc vC14PdScn, target int) *vC14PdRes {
	var res *vC14PdRes
	c.Bubble(t, 3*time.Hour, "close-hang", func(t *testing.T) {
		res = vC14PdRunInBubble(t, c, sc, target)
	})
	return res
}

func vC14PdRunInBubble(t *testing.T, c *vh.Case, sc vC14PdScn, target int) *vC14PdRes {
	r := rand.New(rand.NewSource(sc.Seed))
	res := &vC14PdRes{}
	tag := fmt.Sprintf("[close@%d] ", target)
	base := vc14.Owned()
	c.Check(len(base) == 0, "baseline-clean", "%sinstance-owned goroutines before construction: %v", tag, vc14.Summary(base))
	var bd *vc14.Boundary
	var armed atomic.Bool
	var inflight atomic.Int64
	tick := func(kind, label string) {
		if armed.Load() {
			bd.Tick(kind, label)
		}
	}
	self := vsim.PeerID("c14pd-self", int(sc.Seed%1000003))
	h := vsim.NewHost(self, ma.StringCast("/ip4/9.9.9.9/tcp/4001"), ma.StringCast("/ip4/10.9.9.9/tcp/4001"))
	sim := vsim.NewSim(h, 20)
	var ids []peer.ID
	addr := map[peer.ID]ma.Multiaddr{}
	for i := 0; i < sc.N; i++ {
		id := vsim.PeerID(fmt.Sprintf("c14pd%d", sc.Seed%1000003), i)
		a := ma.StringCast(fmt.Sprintf("/ip4/10.%d.%d.1/tcp/4001", (i/250)%250, i%250))
		if i%2 == 0 {
			a = ma.StringCast(fmt.Sprintf("/ip4/%d.%d.0.1/tcp/4001", 11+(i/250)%200, i%250))
		}
		ids = append(ids, id)
		addr[id] = a
		sp := sim.Add(&vsim.SimPeer{ID: id, Addrs: []ma.Multiaddr{a}})
		lat := time.Duration(3+r.Intn(200)) * time.Millisecond
		fail := r.Intn(6) == 0
		sp.Script = func(n int, req *pb.Message) vsim.Reply {
			if req == nil {
				return vsim.Reply{}
			}
			rep := vsim.Reply{Delay: lat}
			if fail {
				rep.Err = errors.New("vsim: stream reset by peer")
			}
			return rep
		}
	}
	sim.KnowFull()
	h.RemoteAddrFn = func(p peer.ID) ma.Multiaddr { return addr[p] }
	sim.OnEvent = func(ev vsim.Event) {
		switch ev.Kind {
		case vsim.EvRequest, vsim.EvMessage:
			inflight.Add(1)
		case vsim.EvReply:
			inflight.Add(-1)
		}
		tick(ev.Kind, ev.Type.String())
	}
	d, err := ddht.New(h, ddht.DHTOption(dht.ProtocolPrefix("/verif"), dht.WithCustomMessageSender(sim.Builder()), dht.DisableAutoRefresh(),
		dht.Datastore(vjds.New())), ddht.WanDHTOption(dht.Mode(dht.ModeClient)))
	if err != nil {
		panic(fmt.Sprintf("vC14: dual.New failed: %v", err))
	}
	for i, id := range ids {
		if i%2 == 0 {
			h.Net.AddConn(id, network.DirOutbound, nil, false)
			d.WAN.RoutingTable().TryAddPeer(id, true, false)
		} else {
			d.LAN.RoutingTable().TryAddPeer(id, true, false)
		}
	}
	dhtOwned := len(vc14.Owned())
	opts := []Option{WithReprovideInterval(sc.Interval), WithMaxReprovideDelay(sc.Interval / 10)}
	var extKs keystore.Keystore
	if sc.ExtKs {
		extKs, _ = keystore.NewKeystore(vjds.New())
		opts = append(opts, WithKeystore(extKs))
	}
	// Fault class: both providers persist their state (provide queue, prefix length) on Close; with a datastore
	// that refuses writes their Close returns an error. Whatever the inner Close calls return, the wrapper must
	// still release what it created itself (the internal keystore's worker).
	var dsFailing atomic.Bool
	var lanStore *vjds.Store
	var lanLenAtReturn atomic.Int64
	lanLenAtReturn.Store(-1)
	if sc.FailDS {
		store := vjds.New()
		store.J.Hook = func(e *vjds.Entry) error {
			switch e.Op {
			case vjds.OpPut, vjds.OpDelete, vjds.OpBatch, vjds.OpCommit, vjds.OpSync:
				if dsFailing.Load() {
					return errors.New("vC14: injected datastore write failure")
				}
			}
			runtime.Gosched() // the providers call their store under their own locks: never a virtual wait here
			return nil
		}
		if sc.WanOnly {
			lanStore = vjds.New()
			lanStore.J.Hook = func(e *vjds.Entry) error { runtime.Gosched(); return nil }
			opts = append(opts, WithDatastoreWAN(store), WithDatastoreLAN(lanStore))
		} else {
			opts = append(opts, WithDatastore(store))
		}
	}
	p, err := New(d, opts...)
	if err != nil {
		panic(fmt.Sprintf("vC14: provider/dual.New failed: %v", err))
	}
	online := false
	for i := 0; i < 120; i++ { // FA guard: Close only after both probes / measurements
		time.Sleep(500 * time.Millisecond)
		synctest.Wait()
		if inflight.Load() == 0 && i > 4 {
			online = true
			break
		}
	}
	if !online {
		c.Fail("harness-provider-quiet", "%sthe providers' initial probes did not finish within 60 virtual seconds (%s)", tag, sc)
	}
	bd = vc14.NewBoundary(max(target, 0), "provider.(*SweepingProvider)")
	armed.Store(true)

	var awg sync.WaitGroup
	var amu sync.Mutex
	var panics []string
	for i := 0; i < sc.Actions; i++ {
		off := time.Duration(r.Intn(3000)) * time.Millisecond
		if i == 0 {
			off = 0
		}
		kind := []string{"start", "start", "start-force", "once", "stop", "clear", "refresh"}[r.Intn(7)]
		if i == 0 {
			kind = "start"
		}
		var keys []mh.Multihash
		for k := 0; k < 1+r.Intn(6); k++ {
			hh, _ := mh.Sum([]byte(fmt.Sprintf("c14pd-key-%d-%d", sc.Seed%997, r.Intn(20))), mh.SHA2_256, -1)
			keys = append(keys, hh)
		}
		awg.Add(1)
		go func() {
			defer awg.Done()
			time.Sleep(off)
			tick("api", kind)
			defer func() {
				if pv := recover(); pv != nil {
					amu.Lock()
					panics = append(panics, fmt.Sprintf("%s: %v\n%s", kind, pv, debug.Stack()))
					amu.Unlock()
				}
			}()
			switch kind {
			case "start":
				p.StartProviding(false, keys...)
			case "start-force":
				p.StartProviding(true, keys...)
			case "once":
				p.ProvideOnce(keys...)
			case "stop":
				p.StopProviding(keys...)
			case "clear":
				p.Clear()
			case "refresh":
				p.RefreshSchedule()
			}
			tick("apiret", kind)
		}()
	}
	apiDone := make(chan struct{})
	go func() { awg.Wait(); close(apiDone) }()
	settled := make(chan struct{})
	runOver := make(chan struct{})
	defer close(runOver)
	go func() {
		<-apiDone
		tm := time.NewTimer(3 * time.Minute)
		defer tm.Stop()
		select {
		case <-tm.C:
			close(settled)
		case <-runOver:
		}
	}()
	select {
	case <-bd.Fire:
	case <-settled:
		bd.FireNow()
	}
	evs := bd.Events()
	res.CloseIdx = len(evs)
	if n := len(evs); n > 0 {
		res.CloseLabel = evs[n-1].Kind + " " + evs[n-1].Label
	}
	res.InFlight = int(inflight.Load())
	doClose := func(what string) time.Duration {
		t0 := bd.Since()
		ret := make(chan string, 1)
		go func() {
			pvs := ""
			defer func() {
				if pv := recover(); pv != nil {
					pvs = fmt.Sprintf("%v\n%s", pv, debug.Stack())
				}
				ret <- pvs
			}()
			p.Close()
			if lanStore != nil && lanLenAtReturn.Load() < 0 {
				lanLenAtReturn.Store(int64(lanStore.J.Len())) // sampled on Close's own goroutine, the instant it returns
			}
		}()
		tm := time.NewTimer(vC14PdCloseHang)
		defer tm.Stop()
		select {
		case pv := <-ret:
			if pv != "" {
				c.FailSig("close-panic", "panic@"+vh.TopRepoFrame([]byte(pv)), "%s%s panicked (%s; closed at event #%d %q): %s", tag, what, sc, res.CloseIdx, res.CloseLabel, pv)
			}
			return bd.Since() - t0
		case <-tm.C:
			buf := make([]byte, 1<<22)
			buf = buf[:runtime.Stack(buf, true)]
			c.FailSig("close-hang", "close-hang@"+vh.BlockedRepoFrame(buf), "%s%s did not return within %v (%s; closed at event #%d %q); goroutines:\n%s", tag, what, vC14PdCloseHang, sc, res.CloseIdx, res.CloseLabel, vh.FilterBubble(buf))
			c.ExitNow()
			return 0
		}
	}
	dsFailing.Store(true)
	took := doClose("Close")
	res.CloseTook = took
	c.Check(took <= vC14PdCloseBound, "close-returns-in-bound", "%sClose took %v (bound %v) (%s; closed at event #%d %q, %d RPCs in flight)", tag, took, vC14PdCloseBound, sc, res.CloseIdx, res.CloseLabel, res.InFlight)
	synctest.Wait()
	if lanStore != nil {
		grown := int64(lanStore.J.Len()) - lanLenAtReturn.Load()
		c.Check(grown == 0, "no-datastore-access-after-close", "%sthe LAN provider accessed its datastore %d times after Close of the wrapper had returned (the WAN provider's Close had failed: its datastore refuses writes) (%s; closed at event #%d %q)", tag, grown, sc, res.CloseIdx, res.CloseLabel)
		c.Obs("closes_with_only_the_wan_datastore_failing", 1)
	}
	cA := vC14PdOwned()
	if sc.ExtKs {
		cA = vC14PdNotKeystore(cA)
	}
	c.Check(len(cA) == 0, "no-goroutine-after-close", "%sgoroutines of the LAN/WAN providers alive after Close returned (%s; closed at event #%d %q, %d RPCs in flight): %v\n%s", tag, sc, res.CloseIdx, res.CloseLabel, res.InFlight, vc14.Summary(cA), vc14.Dump(cA, 4))
	for k := 2; k <= 3; k++ {
		tk := doClose(fmt.Sprintf("Close #%d", k))
		c.Check(tk <= vC14PdCloseBound, "close-again-returns", "%sClose #%d took %v", tag, k, tk)
	}
	tm := time.NewTimer(5 * time.Minute)
	select {
	case <-apiDone:
	case <-tm.C:
		buf := make([]byte, 1<<22)
		buf = buf[:runtime.Stack(buf, true)]
		c.FailSig("api-returns", "api-returns/stuck@"+vh.BlockedRepoFrame(buf), "%sAPI calls still running 5 virtual minutes after Close (%s; closed at event #%d %q)\n%s", tag, sc, res.CloseIdx, res.CloseLabel, vh.FilterBubble(buf))
		c.ExitNow()
	}
	tm.Stop()
	amu.Lock()
	c.Check(len(panics) == 0, "api-no-panic", "%sAPI calls panicked: %v", tag, panics)
	amu.Unlock()
	// the dual DHT belongs to the caller: still running, closed now
	c.Check(len(vc14.Owned())-len(vC14PdOwned()) >= dhtOwned-2, "dht-left-running", "%sthe dual DHT's own goroutines went from %d to %d after the provider's Close", tag, dhtOwned, len(vc14.Owned()))
	if extKs != nil {
		_, kerr := extKs.Size(context.Background())
		c.Check(kerr == nil, "external-keystore-left-open", "%sthe external keystore is unusable after the provider's Close: %v", tag, kerr)
		extKs.Close()
	}
	d.Close()
	time.Sleep(2 * time.Minute)
	synctest.Wait()
	cB := vc14.Owned()
	if !c.Check(len(cB) == 0, "no-goroutine-after-2min", "%sgoroutines 2 virtual minutes after closing provider and DHT (%s): %v\n%s", tag, sc, vc14.Summary(cB), vc14.Dump(cB, 4)) {
		c.ExitNow()
	}
	h.Close()
	res.Events = evs
	c.Obs("runs", 1)
	c.Obs("boundary_events", len(evs))
	c.Obs("rpcs_in_flight_at_close", res.InFlight)
	return res
}

func TestVerif_C14_provider_dual(t *testing.T) {
	vh.Run(t, vh.Spec{Prop: "C14", Unit: "provider_dual", Quick: 16, Thorough: 500, CostMs: 350,
		Rule:    "PRNG provider/dual.SweepingProvider over a dual.DHT on one fake host (10-40 simulated peers half public / half private, 16% failing, RPC latency 3-200 ms; internal or external keystore; reprovide interval 2 min or 1 h; with an internal keystore every other case gives the providers a datastore that refuses all writes once Close is called, so that their Close returns an error) with 2-6 StartProviding/ProvideOnce/StopProviding/Clear/RefreshSchedule calls; boundary events (wire log, API calls) counted after the providers' initial probes; reference run closes after everything, re-runs Close at 2 events on a provider goroutine's stack and 2 PRNG indices (thorough: up to 48); non-trivial = Close with RPCs in flight",
		Clauses: []string{"baseline-clean", "close-returns-in-bound", "no-goroutine-after-close", "close-again-returns", "api-no-panic", "dht-left-running", "no-goroutine-after-2min", "no-datastore-access-after-close"}},
		func(c *vh.Case) {
			r := c.R
			sc := vC14PdScn{Seed: r.Int63(), N: 10 + r.Intn(31), ExtKs: r.Intn(2) == 0, Actions: 2 + r.Intn(5), Interval: []time.Duration{2 * time.Minute, time.Hour}[r.Intn(2)]}
			sc.FailDS = !sc.ExtKs && c.Idx%2 == 1 // no PRNG draw: the other cases stay as they were
			if c.Idx%4 == 3 {
				sc.ExtKs, sc.FailDS, sc.WanOnly = false, true, true
			}
			c.Set("scenario", sc.String())
			c.Set("seed", sc.Seed)
			ref := vC14PdRun(t, c, sc, 0)
			idxs := vc14.PickIndices(r, ref.Events, 2, 2, c.Tier == "thorough", 48)
			c.Set("close_indices", idxs)
			c.Logf("reference run: %d boundary events, Close after everything took %v", len(ref.Events), ref.CloseTook)
			var sigs []string
			for _, i := range idxs {
				if i == 0 || i > len(ref.Events) {
					continue
				}
				res := vC14PdRun(t, c, sc, i)
				c.Logf("close@%d: event #%d %q in-flight=%d took %v", i, res.CloseIdx, res.CloseLabel, res.InFlight, res.CloseTook)
				if res.InFlight > 0 {
					k, _, _ := strings.Cut(res.CloseLabel, " ")
					sigs = append(sigs, fmt.Sprintf("%s/%d", k, min(res.InFlight, 3)))
				}
			}
			if len(sigs) > 0 {
				sort.Strings(sigs)
				c.Nontrivial(fmt.Sprintf("%v/%s", sc.ExtKs, strings.Join(sigs, ",")))
			}
		})
}
